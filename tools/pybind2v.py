#!/usr/bin/env python3
"""pybind2v.py - the pyo3 binding layer of /repo as a finite Gallina table (property C18).

    python3 tools/pybind2v.py --repo /repo --out /verif/coq/gen

Reads, on every run, every Rust file reachable from src/lib.rs through `mod` declarations (with the `python`
feature on, `cfg(test)` off), finds every #[pyclass], #[pymethods] impl, #[pyfunction], #[pymodule] and emits
`Bindings.v`: one record per exposed item (python class / name, kind, parameters with their `signature`
defaults, wrapper preconditions, and the body CLASSIFIED as FieldRead / FieldWrite / Delegate / Construct /
Format / ConstVal / Other(hash)), the registration lists of the #[pymodule], and the Rust-side defaults
(`impl Default`, selected constants, `#[default]` enum variants).

The parser is a tokenizer + a small recursive-descent parser for the Rust fragment this binding layer uses.
It fails loudly (exit 2 + message) on binding-level constructs it does not understand (unknown pyo3 attribute,
unknown signature syntax, an item inside #[pymethods] that is neither fn nor const, an unregistered name in the
#[pymodule] ...).  A *body* it cannot classify is not an error: it becomes `Other "<sha256 of the token text>"`
and the theorem `bindings_no_unreviewed_body` only accepts it if (class, method, hash) is on the reviewed list.
"""
import argparse
import hashlib
import json
import os
import re
import sys
from fractions import Fraction


class Fail(Exception):
    pass


class Unsupported(Exception):
    """A body-level construct outside the classified fragment (=> Other)."""


# ------------------------------------------------------------------------------------------------
# lexer

PUNCT3 = ["..=", "<<=", ">>=", "..."]
PUNCT2 = ["::", "->", "=>", "..", "&&", "||", "==", "!=", "<=", ">=", "+=", "-=", "*=", "/=", "<<", ">>", "|=", "&=", "^=", "%="]


class Tok:
    __slots__ = ("k", "t", "pos", "line")

    def __init__(self, k, t, pos, line):
        self.k, self.t, self.pos, self.line = k, t, pos, line

    def __repr__(self):
        return "%s:%r@%d" % (self.k, self.t, self.line)


def lex(src, fname="?"):
    toks = []
    i, n, line = 0, len(src), 1
    while i < n:
        c = src[i]
        if c == "\n":
            line += 1
            i += 1
            continue
        if c.isspace():
            i += 1
            continue
        if src.startswith("//", i):
            j = src.find("\n", i)
            i = n if j < 0 else j
            continue
        if src.startswith("/*", i):
            depth, j = 1, i + 2
            while j < n and depth:
                if src.startswith("/*", j):
                    depth += 1
                    j += 2
                elif src.startswith("*/", j):
                    depth -= 1
                    j += 2
                else:
                    if src[j] == "\n":
                        line += 1
                    j += 1
            i = j
            continue
        if c == '"' or (c == "b" and src.startswith('b"', i)):
            j = i + (2 if c == "b" else 1)
            while j < n and src[j] != '"':
                if src[j] == "\\":
                    j += 1
                if src[j] == "\n":
                    line += 1
                j += 1
            toks.append(Tok("str", src[i:j + 1], i, line))
            i = j + 1
            continue
        if c == "r" and re.match(r'r#*"', src[i:i + 8]):
            m = re.match(r'r(#*)"', src[i:])
            close = '"' + m.group(1)
            j = src.find(close, i + len(m.group(0)))
            if j < 0:
                raise Fail("%s:%d: unterminated raw string" % (fname, line))
            line += src.count("\n", i, j)
            toks.append(Tok("str", src[i:j + len(close)], i, line))
            i = j + len(close)
            continue
        if c == "'":
            m = re.match(r"'(\\.[^']*|[^'\\])'", src[i:])
            if m:
                toks.append(Tok("char", m.group(0), i, line))
                i += len(m.group(0))
                continue
            m = re.match(r"'[A-Za-z_]\w*", src[i:])
            if m:
                toks.append(Tok("life", m.group(0), i, line))
                i += len(m.group(0))
                continue
            raise Fail("%s:%d: stray quote" % (fname, line))
        if c.isdigit():
            m = re.match(r"0x[0-9a-fA-F_]+\w*|\d[\d_]*(\.\d[\d_]*)?([eE][+-]?\d+)?(_?[fiu](8|16|32|64|128|size))?", src[i:])
            t = m.group(0)
            # `1..2` and `x.0.1`: do not swallow a range / method dot
            if "." in t and src.startswith("..", i + t.index(".")):
                t = t[:t.index(".")]
            toks.append(Tok("num", t, i, line))
            i += len(t)
            continue
        if c.isalpha() or c == "_":
            m = re.match(r"[A-Za-z_]\w*", src[i:])
            toks.append(Tok("id", m.group(0), i, line))
            i += len(m.group(0))
            continue
        for p in PUNCT3:
            if src.startswith(p, i):
                toks.append(Tok("p", p, i, line))
                i += 3
                break
        else:
            for p in PUNCT2:
                if src.startswith(p, i):
                    toks.append(Tok("p", p, i, line))
                    i += 2
                    break
            else:
                toks.append(Tok("p", c, i, line))
                i += 1
    return toks


OPEN = {"(": ")", "[": "]", "{": "}"}
CLOSE = {")", "]", "}"}


def match_close(toks, i):
    """toks[i] is an opening bracket; returns index of its closing bracket."""
    assert toks[i].t in OPEN, toks[i]
    depth = 0
    j = i
    while j < len(toks):
        t = toks[j].t
        if toks[j].k == "p":
            if t in OPEN:
                depth += 1
            elif t in CLOSE:
                depth -= 1
                if depth == 0:
                    return j
        j += 1
    raise Fail("unbalanced bracket at line %d" % toks[i].line)


def text(toks):
    """Canonical text of a token list (single spaces only where two word-like tokens meet)."""
    out = []
    prev = None
    for t in toks:
        if prev is not None and (prev.k in ("id", "num", "life") and t.k in ("id", "num", "life", "str", "char")):
            out.append(" ")
        out.append(t.t)
        prev = t
    return "".join(out)


def split_top(toks, sep=","):
    """Split a token list on `sep` at bracket depth 0 (angle brackets of generics are tracked heuristically)."""
    parts, cur, depth, adepth = [], [], 0, 0
    for idx, t in enumerate(toks):
        if t.k == "p":
            if t.t in OPEN:
                depth += 1
            elif t.t in CLOSE:
                depth -= 1
            elif t.t == "<" and depth == 0 and idx > 0 and (toks[idx - 1].k == "id" or toks[idx - 1].t == "::"):
                adepth += 1
            elif t.t == ">" and adepth > 0 and depth == 0:
                adepth -= 1
            elif t.t == ">>" and adepth > 1 and depth == 0:
                adepth -= 2
            elif t.t == sep and depth == 0 and adepth == 0:
                parts.append(cur)
                cur = []
                continue
        cur.append(t)
    if cur:
        parts.append(cur)
    return parts


# ------------------------------------------------------------------------------------------------
# expression parser (fragment used by wrapper bodies and signature defaults)

BINOPS = [("||",), ("&&",), ("==", "!=", "<", ">", "<=", ">="), ("+", "-"), ("*", "/", "%")]


class P:
    def __init__(self, toks):
        self.toks = toks
        self.i = 0

    def peek(self, k=0):
        return self.toks[self.i + k] if self.i + k < len(self.toks) else None

    def at(self, t, k=0):
        x = self.peek(k)
        return x is not None and x.t == t and x.k in ("p", "id")

    def eat(self, t):
        if not self.at(t):
            raise Unsupported("expected %r at %r" % (t, self.peek()))
        self.i += 1

    def done(self):
        return self.i >= len(self.toks)

    # -- blocks ---------------------------------------------------------------------------------
    def block_body(self):
        """statements until the end of the token list: returns ('block', stmts, final_or_None)"""
        stmts = []
        final = None
        while not self.done():
            if self.at(";"):
                self.i += 1
                continue
            if self.at("let"):
                self.i += 1
                mut = False
                if self.at("mut"):
                    self.i += 1
                    mut = True
                if self.at("("):
                    j = match_close(self.toks, self.i)
                    pat = ("tuplepat", text(self.toks[self.i:j + 1]))
                    self.i = j + 1
                else:
                    t = self.peek()
                    if t.k != "id":
                        raise Unsupported("let pattern")
                    pat = ("id", t.t, mut)
                    self.i += 1
                if self.at(":"):
                    self.i += 1
                    self.skip_type(stop={"="})
                self.eat("=")
                e = self.expr()
                self.eat(";")
                stmts.append(("let", pat, e))
                continue
            if self.at("for") or self.at("while") or self.at("loop") or self.at("match") or self.at("return"):
                raise Unsupported("control flow: %s" % self.peek().t)
            if self.at("if"):
                raise Unsupported("if")
            e = self.expr()
            if self.at("=") :
                self.i += 1
                r = self.expr()
                e = ("assign", e, r)
            if self.at(";"):
                self.i += 1
                stmts.append(("expr", e))
            elif self.done():
                final = e
            else:
                raise Unsupported("statement tail at %r" % self.peek())
        return ("block", stmts, final)

    def skip_type(self, stop):
        depth = 0
        while not self.done():
            t = self.peek()
            if t.k == "p":
                if depth == 0 and t.t in stop:
                    return
                if t.t in ("<", "(", "[", "{"):
                    depth += 1
                elif t.t in (">", ")", "]", "}"):
                    depth -= 1
                elif t.t == ">>":
                    depth -= 2
            self.i += 1

    # -- expressions ----------------------------------------------------------------------------
    def expr(self, level=0):
        if level == len(BINOPS):
            return self.unary()
        l = self.expr(level + 1)
        while self.peek() is not None and self.peek().k == "p" and self.peek().t in BINOPS[level]:
            # `<` after an expression is a comparison here (generics only follow `::` in expression position)
            op = self.peek().t
            self.i += 1
            r = self.expr(level + 1)
            l = ("binop", op, l, r)
        return l

    def unary(self):
        if self.at("&"):
            self.i += 1
            mut = False
            if self.at("mut"):
                self.i += 1
                mut = True
            return ("ref", self.unary(), mut)
        if self.at("&&"):
            self.i += 1
            return ("ref", ("ref", self.unary(), False), False)
        if self.at("*"):
            self.i += 1
            return ("deref", self.unary())
        if self.at("-"):
            self.i += 1
            return ("neg", self.unary())
        if self.at("!"):
            self.i += 1
            return ("not", self.unary())
        e = self.postfix(self.primary())
        while self.at("as"):
            self.i += 1
            s = self.i
            self.skip_cast_type()
            e = ("cast", e, text(self.toks[s:self.i]))
        return e

    def skip_cast_type(self):
        t = self.peek()
        if t is None:
            raise Unsupported("cast")
        if t.t == "_" or t.k == "id":
            self.i += 1
            while self.at("::"):
                self.i += 2
        else:
            raise Unsupported("cast type")

    def args(self):
        """self.peek() is '(' : parse comma separated expressions"""
        j = match_close(self.toks, self.i)
        inner = self.toks[self.i + 1:j]
        self.i = j + 1
        res = []
        for part in split_top(inner):
            p = P(part)
            res.append(p.expr())
            if not p.done():
                raise Unsupported("argument tail %r" % p.peek())
        return res

    def turbofish(self):
        # at '::' '<' ... '>' : skip
        self.eat("::")
        assert self.at("<")
        depth = 0
        while True:
            t = self.peek()
            if t is None:
                raise Unsupported("turbofish")
            if t.t == "<":
                depth += 1
            elif t.t == ">":
                depth -= 1
            elif t.t == ">>":
                depth -= 2
            self.i += 1
            if depth <= 0:
                return

    def primary(self):
        t = self.peek()
        if t is None:
            raise Unsupported("empty expression")
        if t.k in ("num", "str", "char"):
            self.i += 1
            return ("lit", t.t)
        if t.k == "p" and t.t == "(":
            j = match_close(self.toks, self.i)
            parts = split_top(self.toks[self.i + 1:j])
            self.i = j + 1
            es = []
            for part in parts:
                p = P(part)
                es.append(p.expr())
                if not p.done():
                    raise Unsupported("paren tail")
            if len(es) == 1 and not (self.toks[j - 1].t == ","):
                return es[0]
            return ("tuple", es)
        if t.k == "p" and t.t == "[":
            j = match_close(self.toks, self.i)
            parts = split_top(self.toks[self.i + 1:j])
            self.i = j + 1
            es = []
            for part in parts:
                p = P(part)
                es.append(p.expr())
                if not p.done():
                    raise Unsupported("array tail")
            return ("array", es)
        if t.k == "p" and t.t in ("|", "||"):
            if t.t == "||":
                self.i += 1
                params = []
            else:
                self.i += 1
                s = self.i
                depth = 0
                while not (self.at("|") and depth == 0):
                    if self.peek() is None:
                        raise Unsupported("closure params")
                    if self.peek().t in OPEN:
                        depth += 1
                    elif self.peek().t in CLOSE:
                        depth -= 1
                    self.i += 1
                params = [text(p_) for p_ in split_top(self.toks[s:self.i])]
                self.i += 1
            body = self.expr()
            return ("closure", params, body)
        if t.k == "p" and t.t == "{":
            j = match_close(self.toks, self.i)
            inner = self.toks[self.i + 1:j]
            self.i = j + 1
            return P(inner).block_body()
        if t.k == "id":
            if t.t == "unsafe":
                self.i += 1
                if not self.at("{"):
                    raise Unsupported("unsafe")
                j = match_close(self.toks, self.i)
                inner = self.toks[self.i + 1:j]
                self.i = j + 1
                return ("unsafe", P(inner).block_body())
            if t.t in ("if", "match", "for", "while", "loop", "return", "move"):
                raise Unsupported("keyword %s" % t.t)
            if t.t == "self":
                self.i += 1
                return ("self",)
            # path
            segs = [t.t]
            self.i += 1
            while self.at("::"):
                if self.at("<", 1):
                    self.turbofish()
                    continue
                nx = self.peek(1)
                if nx is None or nx.k != "id":
                    raise Unsupported("path")
                segs.append(nx.t)
                self.i += 2
            if self.at("!"):
                # macro invocation
                self.i += 1
                if self.peek() is None or self.peek().t not in OPEN:
                    raise Unsupported("macro")
                j = match_close(self.toks, self.i)
                inner = self.toks[self.i + 1:j]
                self.i = j + 1
                return ("macro", "::".join(segs), text(inner))
            if self.at("{") and segs[-1][:1].isupper() and self._looks_like_struct_lit():
                j = match_close(self.toks, self.i)
                inner = self.toks[self.i + 1:j]
                self.i = j + 1
                fields = []
                for part in split_top(inner):
                    if not part:
                        continue
                    if part[0].t == "..":
                        raise Unsupported("struct update syntax")
                    if part[0].k not in ("id", "num"):
                        raise Unsupported("struct field")
                    if len(part) == 1:
                        fields.append((part[0].t, ("path", [part[0].t])))
                    else:
                        if part[1].t != ":":
                            raise Unsupported("struct field")
                        p = P(part[2:])
                        fields.append((part[0].t, p.expr()))
                        if not p.done():
                            raise Unsupported("struct field tail")
                return ("struct", segs, fields)
            return ("path", segs)
        raise Unsupported("token %r" % t)

    def _looks_like_struct_lit(self):
        j = match_close(self.toks, self.i)
        inner = self.toks[self.i + 1:j]
        if not inner:
            return True
        return inner[0].k == "id" and (len(inner) == 1 or inner[1].t in (":", ","))

    def postfix(self, e):
        while True:
            if self.at("."):
                nx = self.peek(1)
                if nx is None:
                    raise Unsupported("dot")
                if nx.k == "num":
                    self.i += 2
                    for part in nx.t.split("."):
                        e = ("field", e, part)
                    continue
                if nx.k != "id":
                    raise Unsupported("dot")
                if nx.t == "await":
                    raise Unsupported("await")
                self.i += 2
                if self.at("::") and self.at("<", 1):
                    self.turbofish()
                if self.at("("):
                    e = ("mcall", e, nx.t, self.args())
                else:
                    e = ("field", e, nx.t)
                continue
            if self.at("("):
                e = ("call", e, self.args())
                continue
            if self.at("["):
                j = match_close(self.toks, self.i)
                p = P(self.toks[self.i + 1:j])
                idx = p.expr()
                self.i = j + 1
                e = ("index", e, idx)
                continue
            if self.at("?"):
                self.i += 1
                e = ("try", e)
                continue
            return e


def show(e):
    """Canonical compact text of an expression AST (used for conversion names / reviewed texts)."""
    k = e[0]
    if k == "self":
        return "self"
    if k == "path":
        return "::".join(e[1])
    if k == "lit":
        return e[1]
    if k == "field":
        return "%s.%s" % (show(e[1]), e[2])
    if k == "mcall":
        return "%s.%s(%s)" % (show(e[1]), e[2], ",".join(show(a) for a in e[3]))
    if k == "call":
        return "%s(%s)" % (show(e[1]), ",".join(show(a) for a in e[2]))
    if k == "ref":
        return "&%s%s" % ("mut " if e[2] else "", show(e[1]))
    if k == "deref":
        return "*" + show(e[1])
    if k == "neg":
        return "-" + show(e[1])
    if k == "not":
        return "!" + show(e[1])
    if k == "cast":
        return "%s as %s" % (show(e[1]), e[2])
    if k == "closure":
        return "|%s|%s" % (",".join(e[1]), show(e[2]))
    if k == "tuple":
        return "(%s)" % ",".join(show(a) for a in e[1])
    if k == "array":
        return "[%s]" % ",".join(show(a) for a in e[1])
    if k == "index":
        return "%s[%s]" % (show(e[1]), show(e[2]))
    if k == "try":
        return show(e[1]) + "?"
    if k == "binop":
        return "(%s%s%s)" % (show(e[2]), e[1], show(e[3]))
    if k == "macro":
        return "%s!(%s)" % (e[1], e[2])
    if k == "struct":
        return "%s{%s}" % ("::".join(e[1]), ",".join("%s:%s" % (f, show(v)) for f, v in e[2]))
    if k == "unsafe":
        return "unsafe" + show(e[1])
    if k == "block":
        parts = []
        for s in e[1]:
            if s[0] == "let":
                parts.append("let %s=%s;" % (s[1][1], show(s[2])))
            else:
                parts.append(show(s[1]) + ";")
        if e[2] is not None:
            parts.append(show(e[2]))
        return "{%s}" % "".join(parts)
    if k == "assign":
        return "%s=%s" % (show(e[1]), show(e[2]))
    raise Fail("show: %r" % (e,))


def eval_num(e, consts=None):
    """Exact value of a numeric expression (literals, + - * /, named constants) or None."""
    k = e[0]
    if k == "lit":
        t = e[1].replace("_", "")
        m = re.match(r"^(\d+(?:\.\d*)?(?:[eE][+-]?\d+)?)(?:[fiu](?:8|16|32|64|128|size))?$", t)
        if not m:
            return None
        return Fraction(m.group(1))
    if k == "neg":
        v = eval_num(e[1], consts)
        return None if v is None else -v
    if k == "binop" and e[1] in "+-*/":
        a, b = eval_num(e[2], consts), eval_num(e[3], consts)
        if a is None or b is None:
            return None
        if e[1] == "+":
            return a + b
        if e[1] == "-":
            return a - b
        if e[1] == "*":
            return a * b
        return a / b if b != 0 else None
    if k == "path" and consts is not None and e[1][-1] in consts:
        return consts[e[1][-1]]
    if k == "cast":
        return eval_num(e[1], consts)
    return None


# ------------------------------------------------------------------------------------------------
# module tree and item extraction

KNOWN_METHOD_ATTRS = {"new", "getter", "setter", "staticmethod", "classattr", "pyo3", "allow", "doc", "inline", "must_use"}
KNOWN_STRUCT_ATTRS = {"pyclass", "pyo3", "derive", "repr", "allow", "doc"}
PYO3_KEYS = {"name", "signature", "text_signature"}


def parse_attr(toks, i):
    """toks[i] is '#', toks[i+1] is '[': returns (name, inner_tokens, next_index)"""
    assert toks[i].t == "#" and toks[i + 1].t == "["
    j = match_close(toks, i + 1)
    inner = toks[i + 2:j]
    name = inner[0].t if inner else ""
    return name, inner, j + 1


def attr_args(inner):
    """tokens of `name(args...)` -> tokens between the parentheses ([] if none)"""
    if len(inner) >= 2 and inner[1].t == "(":
        j = match_close(inner, 1)
        return inner[2:j]
    return []


def is_cfg_test(name, inner):
    return name == "cfg" and text(attr_args(inner)) == "test"


class Source:
    def __init__(self, repo):
        self.repo = repo
        self.files = {}        # relpath -> tokens
        self.unreachable_py = []
        self.classes = {}      # rust name -> dict
        self.items = []
        self.reg_classes = []
        self.reg_functions = []
        self.pymodule_name = None
        self.functions = {}    # rust fn name -> item
        self.attr_seen = 0
        self.attr_used = 0
        self.spans = []

    def load(self, rel):
        p = os.path.join(self.repo, rel)
        src = open(p).read()
        self.files[rel] = lex(src, rel)
        return self.files[rel]

    def walk_modules(self):
        todo = [("src/lib.rs", "src")]
        seen = set()
        while todo:
            rel, moddir = todo.pop()
            if rel in seen:
                continue
            seen.add(rel)
            toks = self.load(rel)
            self._scan_mods(toks, 0, len(toks), rel, moddir, todo)
        return seen

    def _scan_mods(self, toks, a, b, rel, moddir, todo):
        i = a
        attrs = []
        while i < b:
            t = toks[i]
            if t.t == "#" and i + 1 < b and toks[i + 1].t == "[":
                name, inner, i = parse_attr(toks, i)
                attrs.append((name, inner))
                continue
            if t.k == "id" and t.t == "mod" and i + 1 < b and toks[i + 1].k == "id":
                name = toks[i + 1].t
                test = any(is_cfg_test(n, inn) for n, inn in attrs)
                if toks[i + 2].t == ";":
                    if not test:
                        c1 = os.path.join(moddir, name + ".rs")
                        c2 = os.path.join(moddir, name, "mod.rs")
                        if os.path.exists(os.path.join(self.repo, c1)):
                            todo.append((c1, os.path.join(moddir, name)))
                        elif os.path.exists(os.path.join(self.repo, c2)):
                            todo.append((c2, os.path.join(moddir, name)))
                        else:
                            raise Fail("%s:%d: module file for `mod %s;` not found" % (rel, t.line, name))
                    i += 3
                    attrs = []
                    continue
                if toks[i + 2].t == "{":
                    j = match_close(toks, i + 2)
                    if test:
                        # blank the test module so that item extraction never sees it
                        for k in range(i + 3, j):
                            toks[k] = Tok("p", ";", toks[k].pos, toks[k].line)
                    else:
                        self._scan_mods(toks, i + 3, j, rel, os.path.join(moddir, name), todo)
                    i = j + 1
                    attrs = []
                    continue
            if t.t == "{" and t.k == "p":
                # other braces (fn bodies, impls): no module declarations inside that matter
                i = match_close(toks, i) + 1
                attrs = []
                continue
            if t.t == ";" or t.k == "id":
                if t.t == ";":
                    attrs = []
            i += 1

    # -- items ------------------------------------------------------------------------------------
    def extract(self, rel):
        toks = self.files[rel]
        i = 0
        n = len(toks)
        while i < n:
            t = toks[i]
            if t.t == "#" and i + 1 < n and toks[i + 1].t == "[":
                start = i
                attrs = []
                while i < n and toks[i].t == "#" and toks[i + 1].t == "[":
                    name, inner, i = parse_attr(toks, i)
                    attrs.append((name, inner, toks[start].line))
                names = [a[0] for a in attrs]
                for nm in names:
                    if nm in ("pyclass", "pymethods", "pyfunction", "pymodule", "pyo3", "new", "getter", "setter", "staticmethod", "classattr", "classmethod"):
                        self.attr_seen += 1
                if "pyclass" in names:
                    i = self.parse_pyclass(rel, toks, i, attrs)
                elif "pymethods" in names:
                    i = self.parse_pymethods(rel, toks, i, attrs)
                elif "pyfunction" in names:
                    i = self.parse_pyfunction(rel, toks, i, attrs)
                elif "pymodule" in names:
                    i = self.parse_pymodule(rel, toks, i, attrs)
                continue
            i += 1

    def parse_pyclass(self, rel, toks, i, attrs):
        pyname = None
        transparent = False
        for name, inner, line in attrs:
            if name == "repr" and text(attr_args(inner)) == "transparent":
                transparent = True
            if name not in KNOWN_STRUCT_ATTRS:
                raise Fail("%s:%d: attribute #[%s] on a #[pyclass] is not understood" % (rel, line, name))
            if name in ("pyclass", "pyo3"):
                self.attr_used += 1
                for part in split_top(attr_args(inner)):
                    key = part[0].t
                    if key == "name":
                        pyname = part[2].t.strip('"')
                    elif key == "text_signature":
                        pass
                    else:
                        raise Fail("%s:%d: #[%s(%s ...)] is not understood" % (rel, line, name, key))
        # [pub|pub(crate)] struct Name ( ... ) ; | { ... }
        while toks[i].t in ("pub",) or (toks[i].t == "(" and toks[i - 1].t == "pub"):
            if toks[i].t == "(":
                i = match_close(toks, i) + 1
            else:
                i += 1
        if toks[i].t != "struct":
            raise Fail("%s:%d: #[pyclass] on something that is not a struct (%s)" % (rel, toks[i].line, toks[i].t))
        rname = toks[i + 1].t
        i += 2
        if toks[i].t == "<":
            raise Fail("%s:%d: generic #[pyclass]" % (rel, toks[i].line))
        fields = []
        if toks[i].t == "(":
            j = match_close(toks, i)
            parts = split_top(toks[i + 1:j])
            for k, part in enumerate(parts):
                part = strip_vis(part)
                fields.append((str(k), text(part)))
            i = j + 1
            shape = "tuple"
        elif toks[i].t == "{":
            j = match_close(toks, i)
            for part in split_top(toks[i + 1:j]):
                if any(t.k == "id" and t.t == "pyo3" for t in part[:len(part) - len(strip_attrs(part))]):
                    raise Fail("%s:%d: #[pyo3(...)] on a field of #[pyclass] %s is not understood" % (rel, part[0].line, rname))
                part = strip_vis(strip_attrs(part))
                if not part:
                    continue
                fields.append((part[0].t, text(part[2:])))
            i = j + 1
            shape = "record"
        else:
            raise Fail("%s:%d: unit #[pyclass] struct" % (rel, toks[i].line))
        if rname in self.classes:
            raise Fail("%s: duplicate #[pyclass] %s" % (rel, rname))
        self.classes[rname] = {"rust": rname, "py": pyname or rname, "fields": fields, "shape": shape, "file": rel,
                               "line": attrs[0][2], "transparent": transparent}
        return i

    def parse_sig(self, rel, line, sigtoks, params):
        """#[pyo3(signature = (a, b = 1, c = None))] -> list of (name, default_tokens or None)"""
        res = []
        for part in split_top(sigtoks):
            if not part:
                continue
            if part[0].k != "id":
                raise Fail("%s:%d: signature element `%s` is not understood" % (rel, line, text(part)))
            if len(part) == 1:
                res.append((part[0].t, None))
            elif part[1].t == "=":
                res.append((part[0].t, part[2:]))
            else:
                raise Fail("%s:%d: signature element `%s` is not understood" % (rel, line, text(part)))
        names = [p["name"] for p in params]
        if [r[0] for r in res] != names:
            raise Fail("%s:%d: signature names %s differ from the parameters %s" % (rel, line, [r[0] for r in res], names))
        return res

    def parse_fn(self, rel, toks, i, attrs, cls):
        """toks[i] at [pub ...] fn ; returns (item, next)"""
        kind = "method" if cls else "function"
        pyname = None
        sig = None
        getter_name = None
        line0 = attrs[0][2] if attrs else toks[i].line
        for name, inner, line in attrs:
            if name == "pyfunction":
                self.attr_used += 1
                if attr_args(inner):
                    raise Fail("%s:%d: #[pyfunction(...)] arguments are not understood" % (rel, line))
                continue
            if name not in KNOWN_METHOD_ATTRS:
                raise Fail("%s:%d: attribute #[%s] in a pyo3 item is not understood" % (rel, line, name))
            if name in ("new", "getter", "setter", "staticmethod", "classattr"):
                self.attr_used += 1
                if kind not in ("method",):
                    raise Fail("%s:%d: conflicting kind attributes (#[%s] after %s)" % (rel, line, name, kind))
                kind = {"staticmethod": "static"}.get(name, name)
                a = attr_args(inner)
                if a:
                    if name in ("getter", "setter") and len(a) == 1:
                        getter_name = a[0].t
                    else:
                        raise Fail("%s:%d: #[%s(...)] arguments are not understood" % (rel, line, name))
            if name == "pyo3":
                self.attr_used += 1
                for part in split_top(attr_args(inner)):
                    key = part[0].t
                    if key not in PYO3_KEYS or len(part) < 3 or part[1].t != "=":
                        raise Fail("%s:%d: #[pyo3(%s)] is not understood" % (rel, line, text(part)))
                    if key == "name":
                        pyname = part[2].t.strip('"')
                    elif key == "signature":
                        if part[2].t != "(":
                            raise Fail("%s:%d: signature is not a parenthesised list" % (rel, line))
                        sig = (line, part[3:match_close(part, 2)])
        # visibility
        while toks[i].t == "pub" or (toks[i].t == "(" and toks[i - 1].t == "pub"):
            i = match_close(toks, i) + 1 if toks[i].t == "(" else i + 1
        if toks[i].t == "const" and kind == "classattr":
            # const NAME: T = value;
            name = toks[i + 1].t
            j = i
            while toks[j].t != "=":
                j += 1
            k = j
            while toks[k].t != ";":
                k += 1
            item = {"class": cls, "rust_name": name, "py_name": pyname or name, "kind": "classattr", "params": [],
                    "self": None, "ret": text(toks[i + 3:j]), "body_toks": toks[j + 1:k], "file": rel, "line": line0,
                    "const": True}
            return item, k + 1
        if toks[i].t != "fn":
            raise Fail("%s:%d: expected `fn` in a pyo3 item, found `%s`" % (rel, toks[i].line, toks[i].t))
        name = toks[i + 1].t
        i += 2
        if toks[i].t == "<":
            raise Fail("%s:%d: generic pyo3 function %s" % (rel, toks[i].line, name))
        j = match_close(toks, i)
        params = []
        selfkind = None
        for part in split_top(toks[i + 1:j]):
            part = strip_attrs(part)
            if not part:
                continue
            ptxt = text(part)
            if ptxt in ("&self", "&mut self", "self", "mut self"):
                selfkind = ptxt
                continue
            if part[0].t == "mut":
                part = part[1:]
            if part[0].k != "id" or part[1].t != ":":
                raise Fail("%s:%d: parameter `%s` of %s is not understood" % (rel, part[0].line, ptxt, name))
            params.append({"name": part[0].t, "type": text(part[2:]), "default": None})
        i = j + 1
        ret = ""
        if toks[i].t == "->":
            s = i + 1
            while toks[i].t != "{":
                i += 1
            ret = text(toks[s:i])
        if toks[i].t != "{":
            raise Fail("%s:%d: body of %s not found" % (rel, toks[i].line, name))
        j = match_close(toks, i)
        body = toks[i + 1:j]
        if sig is not None:
            for (pn, dflt), p in zip(self.parse_sig(rel, sig[0], sig[1], params), params):
                p["default"] = dflt
        item = {"class": cls, "rust_name": name, "py_name": pyname or name, "kind": kind, "params": params,
                "self": selfkind, "ret": ret, "body_toks": body, "file": rel, "line": line0, "const": False,
                "attr_name": getter_name}
        return item, j + 1

    def parse_pymethods(self, rel, toks, i, attrs):
        for name, inner, line in attrs:
            if name == "pymethods":
                self.attr_used += 1
                if attr_args(inner):
                    raise Fail("%s:%d: #[pymethods(...)] arguments are not understood" % (rel, line))
            elif name not in ("allow", "doc", "cfg"):
                raise Fail("%s:%d: attribute #[%s] on #[pymethods] is not understood" % (rel, line, name))
        if toks[i].t != "impl" or toks[i + 1].k != "id" or toks[i + 2].t != "{":
            raise Fail("%s:%d: #[pymethods] must be followed by `impl Name {`" % (rel, toks[i].line))
        cls = toks[i + 1].t
        end = match_close(toks, i + 2)
        i += 3
        while i < end:
            iattrs = []
            line = toks[i].line
            while toks[i].t == "#" and toks[i + 1].t == "[":
                name, inner, i = parse_attr(toks, i)
                iattrs.append((name, inner, line))
                if name in ("pyo3", "new", "getter", "setter", "staticmethod", "classattr", "classmethod"):
                    self.attr_seen += 1
            item, i = self.parse_fn(rel, toks, i, iattrs, cls)
            self.items.append(item)
        return end + 1

    def parse_pyfunction(self, rel, toks, i, attrs):
        item, i = self.parse_fn(rel, toks, i, attrs, None)
        self.items.append(item)
        self.functions[item["rust_name"]] = item
        return i

    def parse_pymodule(self, rel, toks, i, attrs):
        for name, inner, line in attrs:
            if name == "pymodule":
                self.attr_used += 1
            elif name == "pyo3":
                self.attr_used += 1
                a = split_top(attr_args(inner))
                if len(a) != 1 or a[0][0].t != "name":
                    raise Fail("%s:%d: #[pyo3(...)] on #[pymodule] is not understood" % (rel, line))
                self.pymodule_name = a[0][2].t.strip('"')
            else:
                raise Fail("%s:%d: attribute #[%s] on #[pymodule] is not understood" % (rel, line, name))
        while toks[i].t != "fn":
            i += 1
        fname = toks[i + 1].t
        j = match_close(toks, i + 2)
        mvar = toks[i + 3].t
        while toks[j].t != "{":
            j += 1
        end = match_close(toks, j)
        if self.pymodule_name is None:
            self.pymodule_name = fname
        for st in split_top(toks[j + 1:end], ";"):
            s = text(st)
            if not s:
                continue
            m = re.match(r"^%s\.add_class::<(\w+)>\(\)\?$" % mvar, s)
            if m:
                self.reg_classes.append(m.group(1))
                continue
            m = re.match(r"^%s\.add_function\(wrap_pyfunction!\((\w+),%s\)\?\)\?$" % (mvar, mvar), s)
            if m:
                self.reg_functions.append(m.group(1))
                continue
            if s in ("pyo3_log::init()", "Ok(())"):
                continue
            raise Fail("%s:%d: statement `%s` in the #[pymodule] is not understood" % (rel, st[0].line, s))
        return end + 1


def strip_vis(part):
    if part and part[0].t == "pub":
        part = part[1:]
        if part and part[0].t == "(":
            part = part[match_close(part, 0) + 1:]
    return part


def strip_attrs(part):
    while len(part) >= 2 and part[0].t == "#" and part[1].t == "[":
        part = part[match_close(part, 1) + 1:]
    return part


# ------------------------------------------------------------------------------------------------
# body classification

RESULT_ADAPTERS = {"clone", "unwrap", "expect", "try_into", "collect", "into_iter", "map", "cloned"}


def subst(e, env):
    if not env:
        return e
    k = e[0]
    if k == "path":
        if len(e[1]) == 1 and e[1][0] in env:
            return env[e[1][0]]
        return e
    if k in ("self", "lit", "macro"):
        return e
    if k == "field":
        return ("field", subst(e[1], env), e[2])
    if k == "mcall":
        return ("mcall", subst(e[1], env), e[2], [subst(a, env) for a in e[3]])
    if k == "call":
        return ("call", subst(e[1], env), [subst(a, env) for a in e[2]])
    if k == "ref":
        return ("ref", subst(e[1], env), e[2])
    if k in ("deref", "neg", "not", "try"):
        return (k, subst(e[1], env))
    if k == "cast":
        return ("cast", subst(e[1], env), e[2])
    if k == "closure":
        inner = {n: v for n, v in env.items() if not any(re.search(r"\b%s\b" % re.escape(n), p) for p in e[1])}
        return ("closure", e[1], subst(e[2], inner))
    if k in ("tuple", "array"):
        return (k, [subst(a, env) for a in e[1]])
    if k == "index":
        return ("index", subst(e[1], env), subst(e[2], env))
    if k == "binop":
        return ("binop", e[1], subst(e[2], env), subst(e[3], env))
    if k == "struct":
        return ("struct", e[1], [(f, subst(v, env)) for f, v in e[2]])
    if k == "unsafe":
        return ("unsafe", subst(e[1], env))
    if k == "assign":
        return ("assign", subst(e[1], env), subst(e[2], env))
    if k == "block":
        env2 = dict(env)
        stmts = []
        for s in e[1]:
            if s[0] == "let":
                v = subst(s[2], env2)
                if s[1][0] == "id":
                    env2.pop(s[1][1], None)
                stmts.append(("let", s[1], v))
            else:
                stmts.append(("expr", subst(s[1], env2)))
        return ("block", stmts, None if e[2] is None else subst(e[2], env2))
    raise Fail("subst: %r" % (e,))


def mentions(e, names):
    s = show(e)
    return [n for n in names if re.search(r"(?<![\w.])%s\b" % re.escape(n), s)]


class Classifier:
    def __init__(self, src, item):
        self.src = src
        self.item = item
        self.cls = src.classes.get(item["class"]) if item["class"] else None
        self.params = [p["name"] for p in item["params"]]
        self.pre = []

    # -- statements -> single effect ------------------------------------------------------------
    def flatten(self, block, env):
        assert block[0] == "block"
        effects = []
        env = dict(env)
        for s in block[1]:
            if s[0] == "let":
                if s[1][0] != "id":
                    raise Unsupported("tuple pattern let")
                env[s[1][1]] = subst(s[2], env)
            else:
                e = s[1]
                if e[0] == "macro" and e[1] in ("assert", "assert_eq", "assert_ne", "debug_assert"):
                    self.pre.append("%s!(%s)" % (e[1], e[2]))
                else:
                    effects.append(subst(e, env))
        if block[2] is not None:
            effects.append(subst(block[2], env))
        if len(effects) != 1:
            raise Unsupported("%d effects" % len(effects))
        return effects[0]

    def is_inner(self, e):
        """self.0 / self.<the only field of the pyclass struct>"""
        if e[0] == "field" and e[1] == ("self",) and self.cls is not None:
            fs = self.cls["fields"]
            return len(fs) == 1 and fs[0][0] == e[2]
        return False

    def wrapper_name(self, segs):
        if len(segs) != 1:
            return None
        n = segs[0]
        if n == "Self" and self.cls is not None:
            return self.cls["rust"]
        return n if n in self.src.classes else None

    def peel(self, e, rconvs):
        while True:
            k = e[0]
            if k == "block":
                e = self.flatten(e, {})
                continue
            if k == "unsafe":
                e = e[1]
                continue
            if k == "call" and e[1][0] == "path":
                segs = e[1][1]
                if segs == ["Python", "with_gil"] and len(e[2]) == 1 and e[2][0][0] == "closure" and len(e[2][0][1]) == 1:
                    py = e[2][0][1][0]
                    x = e[2][0][2]
                    while x[0] == "block":
                        x = self.flatten(x, {})
                    if x[0] == "mcall" and x[1] == ("path", [py]) and x[2] == "allow_threads" and len(x[3]) == 1 \
                            and x[3][0][0] == "closure" and x[3][0][1] == []:
                        rconvs.append("gil_released")
                        e = x[3][0][2]
                        continue
                    raise Unsupported("with_gil shape")
                if segs[-1] == "transmute" and segs[:-1] in ([], ["mem"], ["std", "mem"]) and len(e[2]) == 1:
                    rconvs.append("transmute")
                    e = e[2][0]
                    continue
                if segs == ["Ok"] and len(e[2]) == 1:
                    rconvs.append("ok")
                    e = e[2][0]
                    continue
                w = self.wrapper_name(segs)
                if w is not None and len(e[2]) == 1:
                    rconvs.append("wrap:" + w)
                    e = e[2][0]
                    continue
                return e
            if k == "struct":
                w = self.wrapper_name(e[1])
                if w is not None and len(e[2]) == 1 and len(self.src.classes[w]["fields"]) == 1 \
                        and self.src.classes[w]["fields"][0][0] == e[2][0][0] and self.src.classes[w]["shape"] == "record" \
                        and e[2][0][1][0] != "path":
                    rconvs.append("wrap:" + w)
                    e = e[2][0][1]
                    continue
                return e
            if k == "mcall" and e[2] in RESULT_ADAPTERS and self.has_core_below(e[1]):
                if e[2] in ("unwrap", "expect") and e[1][0] == "mcall" and e[1][2] == "try_into":
                    rconvs.append("try_into")
                    e = e[1][1]
                    continue
                if e[2] == "expect":
                    rconvs.append("expect")
                elif e[2] == "map":
                    rconvs.append("map(%s)" % ",".join(show(a) for a in e[3]))
                else:
                    if e[3]:
                        raise Unsupported("adapter args")
                    rconvs.append(e[2])
                e = e[1]
                continue
            return e

    def has_core_below(self, e):
        """True when below e (following receivers) there still is a call or a self field read"""
        while True:
            if e[0] in ("mcall",):
                return True
            if e[0] == "call":
                return True
            if e[0] == "field":
                # self.0.f.clone(): the field read is the core
                return self.root_is_self(e)
            return False

    def root_is_self(self, e):
        while e[0] in ("field", "mcall"):
            e = e[1]
        return e == ("self",)

    # -- arguments ----------------------------------------------------------------------------------
    def arg(self, e, label=""):
        convs = []
        srcs = []
        cur = e
        while True:
            k = cur[0]
            if k == "path" and len(cur[1]) == 1 and cur[1][0] in self.params:
                srcs = [cur[1][0]]
                break
            if k == "lit":
                convs.append("const:" + cur[1])
                break
            if k == "neg" and cur[1][0] == "lit":
                convs.append("const:-" + cur[1][1])
                break
            if k == "ref":
                convs.append("ref")
                cur = cur[1]
                continue
            if k == "deref":
                convs.append("deref")
                cur = cur[1]
                continue
            if k == "field":
                if cur[1] == ("self",) or self.root_is_self(cur):
                    convs.append("self:" + show(cur))
                    break
                convs.append("dot0" if cur[2] == "0" else "dot:" + cur[2])
                cur = cur[1]
                continue
            if k == "cast":
                convs.append("as " + cur[2])
                cur = cur[1]
                continue
            if k == "mcall":
                if mentions(("tuple", cur[3]), self.params) and cur[2] != "map":
                    raise Unsupported("adapter argument mentions a parameter")
                if cur[2] in ("unwrap", "expect") and cur[1][0] == "mcall" and cur[1][2] == "try_into" and not cur[1][3]:
                    convs.append("try_into")
                    cur = cur[1][1]
                    continue
                if cur[2] == "expect":
                    convs.append("expect")
                else:
                    convs.append("%s(%s)" % (cur[2], ",".join(show(a) for a in cur[3])))
                cur = cur[1]
                continue
            if k == "call" and cur[1][0] == "path" and len(cur[2]) == 1:
                segs = cur[1][1]
                if segs[-1] == "transmute":
                    convs.append("transmute")
                else:
                    convs.append("::".join(segs) + "(_)")
                cur = cur[2][0]
                continue
            if k == "unsafe" and cur[1][0] == "block" and not cur[1][1] and cur[1][2] is not None:
                cur = cur[1][2]
                continue
            if k == "array" and all(a[0] == "path" and len(a[1]) == 1 and a[1][0] in self.params for a in cur[1]):
                convs.append("array")
                srcs = [a[1][0] for a in cur[1]]
                break
            raise Unsupported("argument %s" % show(cur))
        convs.reverse()
        return {"label": label, "srcs": srcs, "convs": convs}

    # -- the body -----------------------------------------------------------------------------------
    def classify(self):
        it = self.item
        if it["const"]:
            return ("ConstVal", text(it["body_toks"]))
        try:
            block = P(it["body_toks"]).block_body()
            e = self.flatten(block, {})
            if e[0] == "assign":
                return self.field_write(e)
            rconvs = []
            core = self.peel(e, rconvs)
            return self.core(core, rconvs)
        except Unsupported as ex:
            it["why_other"] = str(ex)
            self.pre = [p for p in self.pre]
            return ("Other", hashlib.sha256(text(it["body_toks"]).encode()).hexdigest()[:16])

    def field_write(self, e):
        lhs, rhs = e[1], e[2]
        if self.is_inner(lhs) and rhs[0] == "mcall" and rhs[1][0] == "mcall" and rhs[1][2] == "clone" and not rhs[1][3] \
                and self.is_inner(rhs[1][1]):
            # self.0 = self.0.clone().method(args): a consuming builder method of the wrapped value, result stored back
            return ("Delegate", ("RInner",), rhs[2], [self.arg(a) for a in rhs[3]], ["assign_inner", "on_clone"])
        if lhs[0] != "field":
            raise Unsupported("assignment target")
        if self.is_inner(lhs[1]):
            path = ""
        elif lhs[1][0] == "field" and self.is_inner(lhs[1][1]):
            path = lhs[1][2]
        else:
            raise Unsupported("assignment target")
        return ("FieldWrite", path, lhs[2], self.arg(rhs))

    def core(self, e, rconvs):
        k = e[0]
        if k == "field":
            if self.is_inner(e[1]):
                return ("FieldRead", e[2], rconvs)
            raise Unsupported("field read %s" % show(e))
        if k == "macro":
            if e[1] == "format":
                m = re.match(r'^"\{(self)?:(#?\?)\}"(?:,(self\.0|self))?$', e[2])
                if m and not rconvs:
                    if m.group(1) and not m.group(3):
                        return ("Format", m.group(2), "self")
                    if not m.group(1) and m.group(3):
                        return ("Format", m.group(2), "inner" if m.group(3) == "self.0" else "self")
            raise Unsupported("macro %s" % e[1])
        if k == "mcall":
            recv = e[1]
            args = [self.arg(a) for a in e[3]]
            if recv == ("self",):
                r = ("RSelf",)
            elif self.is_inner(recv):
                r = ("RInner",)
            elif recv[0] == "field" and self.is_inner(recv[1]):
                r = ("RInnerPath", recv[2])
            elif self.root_is_self(recv):
                r = ("RInnerPath", show(recv))
            else:
                a0 = self.arg(recv)
                if not a0["srcs"]:
                    raise Unsupported("receiver %s" % show(recv))
                r = ("RParam",)
                args = [a0] + args
            return ("Delegate", r, e[2], args, rconvs)
        if k == "call" and e[1][0] == "path":
            segs = e[1][1]
            args = [self.arg(a) for a in e[2]]
            if len(segs) == 1:
                return ("Delegate", ("RFree",), segs[0], args, rconvs)
            return ("Delegate", ("RStatic", "::".join(segs[:-1])), segs[-1], args, rconvs)
        if k == "path" and len(e[1]) >= 2:
            return ("Construct", "::".join(e[1]), [], rconvs)
        if k == "struct":
            return ("Construct", "::".join(e[1]), [self.arg(v, f) for f, v in e[2]], rconvs)
        raise Unsupported("core %s" % show(e))


# ------------------------------------------------------------------------------------------------
# Rust-side defaults: `impl Default for T`, `fn new` parameter names, selected constants, #[default] variants

class RustDefaults:
    def __init__(self, src):
        self.src = src
        self.impl_fns = {}       # (Type, fn) -> [param names]
        self.default_expr = {}   # Type -> expr AST of `fn default` result
        self.consts = {}         # NAME -> Fraction
        self.enum_defaults = {}  # Enum -> Variant
        self.num = {}            # key -> Fraction
        self.txt = {}            # key -> text
        for rel, toks in sorted(src.files.items()):
            self.scan(rel, toks)
        for ty in sorted(self.default_expr):
            self.flat(ty + "::default", self.default_expr[ty], ty, 0)

    def scan(self, rel, toks):
        n = len(toks)
        i = 0
        while i < n:
            t = toks[i]
            if t.k == "id" and t.t == "impl":
                # impl [<..>] Default for T [<..>] {   |   impl T {
                j = i + 1
                while j < n and toks[j].t != "{" and toks[j].t != ";":
                    j += 1
                if j >= n or toks[j].t != "{":
                    i += 1
                    continue
                head = toks[i + 1:j]
                end = match_close(toks, j)
                htxt = text(head)
                m = re.match(r"^Default for (\w+)", htxt)
                if m:
                    self.scan_impl(toks, j + 1, end, m.group(1), True)
                elif re.match(r"^\w+$", htxt):
                    self.scan_impl(toks, j + 1, end, htxt, False)
                i = j + 1
                continue
            if t.k == "id" and t.t == "const" and i + 2 < n and toks[i + 1].k == "id" and toks[i + 2].t == ":":
                j = i
                while toks[j].t not in ("=", ";"):
                    j += 1
                if toks[j].t == "=":
                    k = j
                    while toks[k].t != ";":
                        k += 1
                    try:
                        p = P(toks[j + 1:k])
                        v = eval_num(p.expr(), self.consts)
                        if v is not None and p.done():
                            self.consts[toks[i + 1].t] = v
                    except Unsupported:
                        pass
                    i = k
                    continue
            if t.k == "id" and t.t == "enum" and i + 2 < n and toks[i + 2].t == "{":
                end = match_close(toks, i + 2)
                k = i + 3
                while k < end:
                    if toks[k].t == "#" and toks[k + 1].t == "[" and toks[k + 2].t == "default":
                        self.enum_defaults[toks[i + 1].t] = toks[k + 4].t
                    k += 1
                i = end
                continue
            i += 1

    def scan_impl(self, toks, a, b, ty, is_default):
        i = a
        while i < b:
            if toks[i].k == "id" and toks[i].t == "fn" and toks[i + 1].k == "id" and toks[i + 2].t == "(":
                name = toks[i + 1].t
                j = match_close(toks, i + 2)
                params = []
                for part in split_top(toks[i + 3:j]):
                    part = strip_attrs(part)
                    if part and part[0].t == "mut":
                        part = part[1:]
                    if len(part) >= 2 and part[0].k == "id" and part[1].t == ":":
                        params.append(part[0].t)
                k = j
                while toks[k].t not in ("{", ";"):
                    k += 1
                if toks[k].t == "{":
                    end = match_close(toks, k)
                    if not is_default:
                        self.impl_fns.setdefault((ty, name), params)
                    elif name == "default":
                        try:
                            blk = P(toks[k + 1:end]).block_body()
                            if not blk[1] and blk[2] is not None:
                                self.default_expr[ty] = blk[2]
                        except Unsupported:
                            pass
                    i = end + 1
                    continue
            if toks[i].t == "{":
                i = match_close(toks, i) + 1
                continue
            i += 1

    def flat(self, key, e, selfty, depth):
        if depth > 6:
            return
        v = eval_num(e, self.consts)
        if v is not None:
            self.num[key] = v
            return
        k = e[0]
        if k == "struct":
            for f, val in e[2]:
                self.flat(key + "." + f, val, selfty, depth + 1)
            return
        if k == "call" and e[1][0] == "path":
            segs = ["%s" % (selfty if s == "Self" else s) for s in e[1][1]]
            if len(segs) >= 2 and (segs[-2], segs[-1]) in self.impl_fns and len(self.impl_fns[(segs[-2], segs[-1])]) == len(e[2]):
                for pn, a in zip(self.impl_fns[(segs[-2], segs[-1])], e[2]):
                    self.flat(key + "." + pn, a, selfty, depth + 1)
                return
            if len(segs) >= 2 and segs[-1] == "default" and not e[2] and segs[-2] in self.default_expr:
                self.flat(key, self.default_expr[segs[-2]], segs[-2], depth + 1)
                return
            if len(segs) >= 2 and segs[-1][:1].isupper():
                self.txt[key] = segs[-1]
                for n_, a in enumerate(e[2]):
                    self.flat("%s.%d" % (key, n_), a, selfty, depth + 1)
                return
        if k == "path":
            self.txt[key] = e[1][-1] if e[1][-1][:1].isupper() or e[1][-1] == "None" else "::".join(e[1])
            return
        self.txt[key] = show(e)


# ------------------------------------------------------------------------------------------------
# Gallina emission

HEADER = r'''(* GENERATED by tools/pybind2v.py from the pyo3 layer of the repository - DO NOT EDIT.
   Regenerated on every run of ./check C18; the theorems of Props/C18.v are re-checked against this table. *)
From Coq Require Import String List QArith.
Import ListNotations.
Open Scope string_scope.

Inductive kind := KNew | KGetter | KSetter | KStatic | KMethod | KClassAttr | KFunction.

(* a `signature = (...)` default: none (required argument), a number, Python None, or other text *)
Inductive dflt := DReq | DNum (q : Q) | DNone | DText (s : string).

Record param := { p_name : string; p_type : string; p_default : dflt }.

(* receiver of a delegated call *)
Inductive recv :=
| RInner                      (* self.0 / self.<the only field of the wrapper struct> *)
| RInnerPath (p : string)     (* a sub-object of the wrapped value, e.g. "metric_builder", or the receiver text *)
| RSelf                       (* another wrapper method of the same #[pymethods] block *)
| RStatic (ty : string)       (* Type::function(...) *)
| RParam                      (* the first parameter is the receiver *)
| RFree.                      (* free function *)

(* one forwarded argument: the parameters it is built from (in order), the conversions applied (in application
   order) and, for struct literals, the field it initialises *)
Record arg := { a_label : string; a_srcs : list string; a_convs : list string }.

Inductive body :=
| FieldRead (f : string) (rconvs : list string)
| FieldWrite (path : string) (f : string) (a : arg)
| Delegate (r : recv) (target : string) (args : list arg) (rconvs : list string)
| Construct (ty : string) (args : list arg) (rconvs : list string)
| Format (spec : string) (target : string)
| ConstVal (v : string)
| Other (hash : string).

Record item := {
  i_class : string;        (* python class name; "" for module-level functions *)
  i_rust_class : string;   (* wrapper struct *)
  i_wrapped : string;      (* type of the wrapped Rust value *)
  i_name : string;         (* python-visible name (attribute name for getters / setters) *)
  i_rust_name : string;    (* name of the Rust fn *)
  i_kind : kind;
  i_params : list param;
  i_ret : string;          (* declared return type (token text) *)
  i_pre : list string;     (* assert!s executed by the wrapper before delegating *)
  i_body : body;
  i_where : string
}.

(* #[pyclass]: wrapper struct, python name, wrapped type *)
Record pyclass := { c_rust : string; c_py : string; c_wrapped : string; c_transparent : bool; c_where : string }.
'''


def cs(s):
    return '"' + s.replace('"', '""') + '"'


def clist(xs):
    return "[" + "; ".join(xs) + "]"


def cq(fr):
    fr = Fraction(fr)
    return "(%s # %d)" % (("(%d)" % fr.numerator) if fr.numerator < 0 else str(fr.numerator), fr.denominator)


def carg(a):
    return "{| a_label := %s; a_srcs := %s; a_convs := %s |}" % (cs(a["label"]), clist(cs(x) for x in a["srcs"]), clist(cs(x) for x in a["convs"]))


def crecv(r):
    if r[0] in ("RInnerPath", "RStatic"):
        return "(%s %s)" % (r[0], cs(r[1]))
    return r[0]


def cbody(b):
    k = b[0]
    if k == "FieldRead":
        return "FieldRead %s %s" % (cs(b[1]), clist(cs(x) for x in b[2]))
    if k == "FieldWrite":
        return "FieldWrite %s %s %s" % (cs(b[1]), cs(b[2]), carg(b[3]))
    if k == "Delegate":
        return "Delegate %s %s %s %s" % (crecv(b[1]), cs(b[2]), clist(carg(a) for a in b[3]), clist(cs(x) for x in b[4]))
    if k == "Construct":
        return "Construct %s %s %s" % (cs(b[1]), clist(carg(a) for a in b[2]), clist(cs(x) for x in b[3]))
    if k == "Format":
        return "Format %s %s" % (cs(b[1]), cs(b[2]))
    if k == "ConstVal":
        return "ConstVal %s" % cs(b[1])
    return "Other %s" % cs(b[1])


KIND = {"new": "KNew", "getter": "KGetter", "setter": "KSetter", "static": "KStatic", "method": "KMethod",
        "classattr": "KClassAttr", "function": "KFunction"}


def cdefault(dtoks, consts):
    if dtoks is None:
        return "DReq"
    t = text(dtoks)
    if t == "None":
        return "DNone"
    try:
        p = P(dtoks)
        e = p.expr()
        if p.done():
            v = eval_num(e, consts)
            if v is not None:
                return "DNum %s" % cq(v)
    except Unsupported:
        pass
    return "DText %s" % cs(t)


def py_attr_name(it):
    """pyo3 naming: #[getter] fn get_x / fn x -> attribute x ; #[setter] fn set_x -> x ; #[new] -> __new__"""
    if it["kind"] == "getter":
        if it.get("attr_name"):
            return it["attr_name"]
        n = it["py_name"]
        return n[4:] if n.startswith("get_") else n
    if it["kind"] == "setter":
        if it.get("attr_name"):
            return it["attr_name"]
        n = it["py_name"]
        if not n.startswith("set_"):
            raise Fail("%s:%d: #[setter] %s does not start with set_" % (it["file"], it["line"], n))
        return n[4:]
    if it["kind"] == "new":
        return "__new__"
    return it["py_name"]


def generate(repo):
    src = Source(repo)
    seen = src.walk_modules()
    for rel in sorted(seen):
        src.extract(rel)
    if src.attr_seen != src.attr_used:
        raise Fail("%d pyo3 attributes seen but only %d understood (an attribute sits on an item the parser skipped)"
                   % (src.attr_seen, src.attr_used))
    # files with pyo3 items that no `mod` declaration reaches (dead code: not part of the extension module)
    for d, _, fs in os.walk(os.path.join(repo, "src")):
        for f in fs:
            rel = os.path.relpath(os.path.join(d, f), repo)
            if f.endswith(".rs") and rel not in seen:
                if re.search(r"#\[py(class|methods|function|module)", open(os.path.join(repo, rel)).read()):
                    src.unreachable_py.append(rel)
    if src.pymodule_name is None:
        raise Fail("no #[pymodule] found")
    for c in src.reg_classes:
        if c not in src.classes:
            raise Fail("#[pymodule] registers %s which is not a #[pyclass] the parser saw" % c)
    for f in src.reg_functions:
        if f not in src.functions:
            raise Fail("#[pymodule] registers %s which is not a #[pyfunction] the parser saw" % f)
    rd = RustDefaults(src)
    out = [HEADER]
    # classes
    rows = []
    for c in sorted(src.classes.values(), key=lambda c: (c["file"], c["line"])):
        wrapped = c["fields"][0][1] if len(c["fields"]) == 1 else "{" + ",".join("%s:%s" % f for f in c["fields"]) + "}"
        c["wrapped"] = wrapped
        rows.append("  {| c_rust := %s; c_py := %s; c_wrapped := %s; c_transparent := %s; c_where := %s |}"
                    % (cs(c["rust"]), cs(c["py"]), cs(wrapped), "true" if c["transparent"] else "false", cs("%s:%d" % (c["file"], c["line"]))))
    out.append("Definition classes : list pyclass := [\n%s\n]." % ";\n".join(rows))
    out.append("Definition module_name : string := %s." % cs(src.pymodule_name))
    out.append("Definition registered_classes : list string := %s." % clist(cs(x) for x in src.reg_classes))
    out.append("Definition registered_functions : list string := %s." % clist(cs(x) for x in src.reg_functions))
    out.append("Definition unreachable_binding_files : list string := %s." % clist(cs(x) for x in sorted(src.unreachable_py)))
    # items
    rows = []
    summary = []
    for it in sorted(src.items, key=lambda it: (it["file"], it["line"], it["rust_name"])):
        if it["class"] and it["class"] not in src.classes:
            raise Fail("%s:%d: #[pymethods] impl %s has no #[pyclass] struct" % (it["file"], it["line"], it["class"]))
        cl = Classifier(src, it)
        b = cl.classify()
        c = src.classes.get(it["class"]) if it["class"] else None
        params = clist("{| p_name := %s; p_type := %s; p_default := %s |}" % (cs(p["name"]), cs(p["type"]), cdefault(p["default"], rd.consts)) for p in it["params"])
        rows.append("  {| i_class := %s; i_rust_class := %s; i_wrapped := %s; i_name := %s; i_rust_name := %s; i_kind := %s;\n"
                    "     i_params := %s;\n     i_ret := %s;\n     i_pre := %s;\n     i_body := %s;\n     i_where := %s |}"
                    % (cs(c["py"] if c else ""), cs(c["rust"] if c else ""), cs(c["wrapped"] if c else ""), cs(py_attr_name(it)),
                       cs(it["rust_name"]), KIND[it["kind"]], params, cs(it["ret"]), clist(cs(x) for x in cl.pre), cbody(b),
                       cs("%s:%d" % (it["file"], it["line"]))))
        summary.append({"class": c["py"] if c else "", "name": py_attr_name(it), "kind": it["kind"], "body": b[0],
                        "hash": b[1] if b[0] == "Other" else None, "why_other": it.get("why_other"),
                        "where": "%s:%d" % (it["file"], it["line"])})
    out.append("Definition bindings : list item := [\n%s\n]." % ";\n".join(rows))
    out.append("Definition rust_defaults : list (string * Q) := [\n%s\n]." % ";\n".join("  (%s, %s)" % (cs(k), cq(v)) for k, v in sorted(rd.num.items())))
    out.append("Definition rust_defaults_text : list (string * string) := [\n%s\n]." % ";\n".join("  (%s, %s)" % (cs(k), cs(v)) for k, v in sorted(rd.txt.items())))
    out.append("Definition rust_consts : list (string * Q) := [\n%s\n]." % ";\n".join("  (%s, %s)" % (cs(k), cq(v)) for k, v in sorted(rd.consts.items())))
    out.append("Definition rust_enum_defaults : list (string * string) := %s." % clist("(%s, %s)" % (cs(k), cs(v)) for k, v in sorted(rd.enum_defaults.items())))
    manifest = {"files": sorted(seen), "unreachable_binding_files": sorted(src.unreachable_py), "items": summary,
                "classes": len(src.classes), "registered_classes": src.reg_classes, "registered_functions": src.reg_functions}
    return "\n\n".join(out) + "\n", manifest


def write_if_changed(path, content):
    try:
        if open(path).read() == content:
            return False
    except OSError:
        pass
    tmp = path + ".tmp%d" % os.getpid()
    with open(tmp, "w") as fh:
        fh.write(content)
    os.replace(tmp, path)
    return True


def main():
    ap = argparse.ArgumentParser()
    ap.add_argument("--repo", default="/repo")
    ap.add_argument("--out", default=os.path.join(os.path.dirname(os.path.dirname(os.path.abspath(__file__))), "coq", "gen"))
    a = ap.parse_args()
    try:
        content, manifest = generate(a.repo)
    except Fail as e:
        print("pybind2v: FAILED: %s" % e, file=sys.stderr)
        sys.exit(2)
    os.makedirs(a.out, exist_ok=True)
    ch = write_if_changed(os.path.join(a.out, "Bindings.v"), content)
    write_if_changed(os.path.join(a.out, "bindings_manifest.json"), json.dumps(manifest, indent=1))
    others = [i for i in manifest["items"] if i["body"] == "Other"]
    print("pybind2v: %d classes, %d items (%d Other), %d files; Bindings.v %s"
          % (manifest["classes"], len(manifest["items"]), len(others), len(manifest["files"]), "rewritten" if ch else "unchanged"))
    if manifest["unreachable_binding_files"]:
        print("pybind2v: note: pyo3 items in files no `mod` reaches (not part of the module): %s" % manifest["unreachable_binding_files"])


if __name__ == "__main__":
    main()
