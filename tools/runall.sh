#!/bin/sh
# runs every claimed check (quick by default) and prints one line per property
cd "$(dirname "$0")/.."
tier=${1:-quick}
for i in 01 02 03 04 05 06 07 08 09 10 11 12 13 14 15 16 17 18 19 20; do
  p=C$i
  s=$(date +%s)
  ./check $p --tier $tier > .cache/runall_$p.log 2>&1
  rc=$?
  e=$(date +%s)
  echo "$p rc=$rc $((e-s))s $(grep -cE '^VIOLATION' .cache/runall_$p.log) violations $(grep -cE '^KNOWN-FINDING' .cache/runall_$p.log) known"
done
