#!/usr/bin/env python3
"""Regenerates MANIFEST.json from tools/props/meta/<ID>.json (one file per claimed property)."""
import glob
import json
import os
import subprocess

ROOT = os.path.dirname(os.path.dirname(os.path.abspath(__file__)))
ALL = ["C%02d" % i for i in range(1, 21)]
NA_DEFAULT = "not yet built in this round (work in progress; DESIGN.md section 7 describes the planned theorems and correspondence)"


def main():
    metas = {}
    for p in sorted(glob.glob(os.path.join(ROOT, "tools", "props", "meta", "C*.json"))):
        metas[os.path.basename(p)[:-5]] = json.load(open(p))
    checks = []
    for pid in ALL:
        if pid not in metas or metas[pid].get("not_applicable"):
            continue
        m = metas[pid]
        c = {"property_id": pid, "quick_cmd": "./check %s --tier quick" % pid,
             "evidence_file": "/verif/evidence/%s.json" % pid,
             "replay_cmd_template": "./check %s --replay {path}" % pid,
             "engine": "coq-proof+correspondence",
             "level_claimed": {"category": m.get("category", "proof"), "text": m["text"], "design_ref": m.get("ref", "DESIGN.md section 7 " + pid)},
             "level_note": m["note"], "technique": m["technique"]}
        if m.get("thorough", True):
            c["thorough_cmd"] = "./check %s --tier thorough" % pid
        checks.append(c)
    hs = subprocess.run("git -C /repo log --reverse --format=%h --grep 'verif hooks'", shell=True, capture_output=True, text=True).stdout.split()
    na = []
    for pid in ALL:
        if pid in metas and not metas[pid].get("not_applicable"):
            continue
        na.append({"property_id": pid, "reason": (metas.get(pid) or {}).get("not_applicable", NA_DEFAULT)})
    man = {
        "version": 1,
        "setup_cmd": "sh tools/setup.sh",
        "hooks": {"guard": "similari_verif",
                  "enable": "RUSTFLAGS='--cfg similari_verif' (set in /verif/harness/.cargo/config.toml; the harness crate has a path dependency on /repo)",
                  "baseline_off_cmd": "cd /repo && cargo test --workspace --no-fail-fast --offline",
                  "source_commits": hs, "add_only": True},
        "engines": [{"name": "coq-proof+correspondence", "path": "/verif/check", "serves_properties": [c["property_id"] for c in checks],
                     "kind_free_text": "Coq 8.16 theorems over Gallina models (coq/theories; Props/<ID>.v hold the property theorems), translators tools/rs2v.py and tools/pybind2v.py regenerating coq/gen from /repo on every run, Rust harness crate (harness/, path dependency on /repo, hooks on) and Python drivers (tools/props/<id>.py) for the model-vs-implementation correspondence, property oracles and failing-input search"}],
        "checks": checks,
        "not_applicable": na,
        "notes": "All checks: ./check <ID> --tier quick|thorough [--replay file]. Evidence: evidence/<ID>.json. Known findings and fixed defects: known_findings.json. Seeded changes used to validate the checks: seeded/. Design: DESIGN.md.",
    }
    if not na:
        del man["not_applicable"]
    json.dump(man, open(os.path.join(ROOT, "MANIFEST.json"), "w"), indent=1)
    print("claimed:", [c["property_id"] for c in checks])


if __name__ == "__main__":
    main()
