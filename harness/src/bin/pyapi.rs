//! C18: executes API scripts directly against the Rust API that the pyo3 layer wraps (the wrappers themselves
//! are not even compiled here: the harness depends on similari with default-features off).
//!
//!   pyapi run --file scripts.json      scripts.json = [[instr, ...], ...]
//!
//! prints one line per script: {"i":k,"res":[r0,r1,...]} (one result per instruction).  The same scripts are
//! executed through the Python module by tools/props/c18_pydriver.py; tools/props/c18.py compares the two.
//! Omitted optional arguments get the DOCUMENTED defaults below (mirrored by `documented_defaults` in
//! coq/theories/Model/Bindings.v).
//! Floats travel as bit patterns: ["f",u32] / ["d",u64]; a panic / Err is "err"; an instruction whose receiver
//! is unusable (never created, or poisoned by an earlier failure) is "skip".
use geo::{Area, CoordsIter, Polygon};
use nalgebra::Point2;
use similari::trackers::batch::PredictionBatchResult;
use similari::trackers::sort::batch_api::{BatchSort, SortPredictionBatchRequest};
use similari::trackers::sort::metric::DEFAULT_MINIMAL_SORT_CONFIDENCE;
use similari::trackers::sort::simple_api::Sort;
use similari::trackers::sort::{PositionalMetricType, SortTrack, WastedSortTrack};
use similari::trackers::spatio_temporal_constraints::SpatioTemporalConstraints;
use similari::trackers::tracker_api::TrackerAPI;
use similari::trackers::visual_sort::batch_api::{BatchVisualSort, VisualSortPredictionBatchRequest};
use similari::trackers::visual_sort::metric::VisualSortMetricType;
use similari::trackers::visual_sort::options::VisualSortOptions;
use similari::trackers::visual_sort::simple_api::VisualSort;
use similari::trackers::visual_sort::{VisualSortObservation, VisualSortObservationSet, WastedVisualSortTrack};
use similari::utils::bbox::{BoundingBox, Universal2DBox};
use similari::utils::kalman::kalman_2d_box::{Universal2DBoxKalmanFilter, DIM_2D_BOX_X2};
use similari::utils::kalman::kalman_2d_point::{Point2DKalmanFilter, DIM_2D_POINT_X2};
use similari::utils::kalman::kalman_2d_point_vec::Vec2DKalmanFilter;
use similari::utils::kalman::KalmanState;
use similari::utils::nms::nms;
use similari_verif_harness::*;
use std::collections::HashMap;
use std::io::Write;

// ---- documented defaults of the python API ------------------------------------------------------------
const DOC_SHARDS: usize = 4;
const DOC_BBOX_HISTORY: usize = 1;
const DOC_MAX_IDLE_EPOCHS: usize = 5;
const DOC_METHOD: PositionalMetricType = PositionalMetricType::Mahalanobis;
const DOC_MIN_CONFIDENCE: f32 = DEFAULT_MINIMAL_SORT_CONFIDENCE;
const DOC_KALMAN_POSITION_WEIGHT: f32 = 1.0 / 20.0;
const DOC_KALMAN_VELOCITY_WEIGHT: f32 = 1.0 / 160.0;

const DOC_EXPORTS: [&str; 28] = [
    "BatchSort", "BatchVisualSort", "BoundingBox", "Point2DKalmanFilter", "Point2DKalmanFilterState", "Polygon",
    "PositionalMetricType", "PredictionBatchResult", "Sort", "SortPredictionBatchRequest", "SortTrack",
    "SpatioTemporalConstraints", "Universal2DBox", "Universal2DBoxKalmanFilter", "Universal2DBoxKalmanFilterState",
    "Vec2DKalmanFilter", "VisualSort", "VisualSortMetricType", "VisualSortObservation", "VisualSortObservationSet",
    "VisualSortOptions", "VisualSortPredictionBatchRequest", "WastedSortTrack", "WastedVisualSortTrack",
    "intersection_area", "nms", "sutherland_hodgman_clip", "version",
];

// Debug output of the python wrappers that print themselves (`format!("{self:?}")`): tuple structs of the same name
// around the wrapped value print exactly what #[derive(Debug)] on the wrapper prints.
#[derive(Debug)]
#[allow(dead_code)]
struct PySortTrack<'a>(&'a SortTrack);
#[derive(Debug)]
#[allow(dead_code)]
struct PyPolygon<'a>(&'a Polygon<f64>);
#[derive(Debug)]
#[allow(dead_code)]
struct PyPositionalMetricType(PositionalMetricType);
#[derive(Debug)]
#[allow(dead_code)]
struct PyVisualSortMetricType(VisualSortMetricType);
#[derive(Debug)]
#[allow(dead_code)]
struct PyVisualSortObservation<'a>(&'a VisualSortObservation<'static>);
#[derive(Debug)]
#[allow(dead_code)]
struct PyVisualSortObservationSet<'a>(&'a VisualSortObservationSet<'static>);
#[derive(Debug)]
#[allow(dead_code)]
struct PyVotingType(similari::trackers::sort::VotingType);

fn both<T: std::fmt::Debug>(x: T) -> J {
    J::Arr(vec![J::Str(format!("{:?}", x)), J::Str(format!("{:#?}", x))])
}

// ---- minimal JSON ------------------------------------------------------------------------------------------
#[derive(Clone, Debug)]
enum J {
    Null,
    Bool(bool),
    Num(i128),
    Str(String),
    Arr(Vec<J>),
    Obj(Vec<(String, J)>),
}

struct Parser<'a> {
    s: &'a [u8],
    i: usize,
}

impl<'a> Parser<'a> {
    fn ws(&mut self) {
        while self.i < self.s.len() && (self.s[self.i] as char).is_whitespace() {
            self.i += 1;
        }
    }
    fn val(&mut self) -> J {
        self.ws();
        match self.s[self.i] {
            b'n' => {
                self.i += 4;
                J::Null
            }
            b't' => {
                self.i += 4;
                J::Bool(true)
            }
            b'f' => {
                self.i += 5;
                J::Bool(false)
            }
            b'"' => J::Str(self.string()),
            b'[' => {
                self.i += 1;
                let mut v = vec![];
                loop {
                    self.ws();
                    if self.s[self.i] == b']' {
                        self.i += 1;
                        break;
                    }
                    if self.s[self.i] == b',' {
                        self.i += 1;
                        continue;
                    }
                    v.push(self.val());
                }
                J::Arr(v)
            }
            b'{' => {
                self.i += 1;
                let mut v = vec![];
                loop {
                    self.ws();
                    if self.s[self.i] == b'}' {
                        self.i += 1;
                        break;
                    }
                    if self.s[self.i] == b',' {
                        self.i += 1;
                        continue;
                    }
                    let k = self.string();
                    self.ws();
                    assert_eq!(self.s[self.i], b':');
                    self.i += 1;
                    let x = self.val();
                    v.push((k, x));
                }
                J::Obj(v)
            }
            _ => {
                let st = self.i;
                while self.i < self.s.len() && (self.s[self.i] == b'-' || self.s[self.i].is_ascii_digit()) {
                    self.i += 1;
                }
                J::Num(std::str::from_utf8(&self.s[st..self.i]).unwrap().parse().expect("integer expected"))
            }
        }
    }
    fn string(&mut self) -> String {
        assert_eq!(self.s[self.i], b'"');
        self.i += 1;
        let mut out = String::new();
        while self.s[self.i] != b'"' {
            if self.s[self.i] == b'\\' {
                self.i += 1;
            }
            out.push(self.s[self.i] as char);
            self.i += 1;
        }
        self.i += 1;
        out
    }
}

fn esc(s: &str, out: &mut String) {
    out.push('"');
    for c in s.chars() {
        match c {
            '"' => out.push_str("\\\""),
            '\\' => out.push_str("\\\\"),
            '\n' => out.push_str("\\n"),
            '\t' => out.push_str("\\t"),
            c if (c as u32) < 0x20 => out.push_str(&format!("\\u{:04x}", c as u32)),
            c => out.push(c),
        }
    }
    out.push('"');
}

impl J {
    fn write(&self, out: &mut String) {
        match self {
            J::Null => out.push_str("null"),
            J::Bool(b) => out.push_str(if *b { "true" } else { "false" }),
            J::Num(n) => out.push_str(&n.to_string()),
            J::Str(s) => esc(s, out),
            J::Arr(v) => {
                out.push('[');
                for (k, x) in v.iter().enumerate() {
                    if k > 0 {
                        out.push(',');
                    }
                    x.write(out);
                }
                out.push(']');
            }
            J::Obj(v) => {
                out.push('{');
                for (k, (n, x)) in v.iter().enumerate() {
                    if k > 0 {
                        out.push(',');
                    }
                    esc(n, out);
                    out.push(':');
                    x.write(out);
                }
                out.push('}');
            }
        }
    }
    fn get(&self, k: &str) -> Option<&J> {
        if let J::Obj(v) = self {
            v.iter().find(|(n, _)| n == k).map(|(_, x)| x)
        } else {
            None
        }
    }
    fn has(&self, k: &str) -> bool {
        self.get(k).is_some()
    }
    fn int(&self, k: &str) -> i128 {
        match self.get(k) {
            Some(J::Num(n)) => *n,
            x => panic!("driver: integer field {} expected, got {:?}", k, x),
        }
    }
    fn f(&self, k: &str) -> f32 {
        f32::from_bits(self.int(k) as u32)
    }
    fn of(&self, k: &str) -> Option<f32> {
        match self.get(k) {
            Some(J::Num(n)) => Some(f32::from_bits(*n as u32)),
            _ => None,
        }
    }
    fn oi(&self, k: &str) -> Option<i64> {
        match self.get(k) {
            Some(J::Num(n)) => Some(*n as i64),
            _ => None,
        }
    }
    fn arr(&self, k: &str) -> &Vec<J> {
        match self.get(k) {
            Some(J::Arr(v)) => v,
            x => panic!("driver: array field {} expected, got {:?}", k, x),
        }
    }
    fn s(&self, k: &str) -> &str {
        match self.get(k) {
            Some(J::Str(s)) => s,
            x => panic!("driver: string field {} expected, got {:?}", k, x),
        }
    }
    fn b(&self, k: &str) -> bool {
        matches!(self.get(k), Some(J::Bool(true)))
    }
}

fn jf(x: f32) -> J {
    if x.is_nan() {
        J::Arr(vec![J::Str("f".into()), J::Str("nan".into())])
    } else {
        J::Arr(vec![J::Str("f".into()), J::Num(x.to_bits() as i128)])
    }
}
fn jd(x: f64) -> J {
    if x.is_nan() {
        J::Arr(vec![J::Str("d".into()), J::Str("nan".into())])
    } else {
        J::Arr(vec![J::Str("d".into()), J::Num(x.to_bits() as i128)])
    }
}
fn jof(x: Option<f32>) -> J {
    x.map(jf).unwrap_or(J::Null)
}
fn jn<T: Into<i128>>(x: T) -> J {
    J::Num(x.into())
}
fn js(s: &str) -> J {
    J::Str(s.to_string())
}
fn err() -> J {
    js("err")
}
fn skip() -> J {
    js("skip")
}
fn obj(v: Vec<(&str, J)>) -> J {
    J::Obj(v.into_iter().map(|(k, x)| (k.to_string(), x)).collect())
}

fn bb_obs(b: &BoundingBox) -> J {
    obj(vec![
        ("left", jf(b.left)),
        ("top", jf(b.top)),
        ("width", jf(b.width)),
        ("height", jf(b.height)),
        ("confidence", jf(b.confidence)),
    ])
}
fn u_obs(b: &Universal2DBox) -> J {
    obj(vec![
        ("xc", jf(b.xc)),
        ("yc", jf(b.yc)),
        ("angle", jof(b.angle)),
        ("aspect", jf(b.aspect)),
        ("height", jf(b.height)),
        ("confidence", jf(b.confidence)),
    ])
}
fn poly_obs(p: &Polygon<f64>) -> J {
    J::Arr(p.coords_iter().map(|c| J::Arr(vec![jd(c.x), jd(c.y)])).collect())
}
fn track_obs(t: &SortTrack) -> J {
    obj(vec![
        ("id", jn(t.id)),
        ("epoch", jn(t.epoch as u64)),
        ("predicted_bbox", u_obs(&t.predicted_bbox)),
        ("observed_bbox", u_obs(&t.observed_bbox)),
        ("scene_id", jn(t.scene_id)),
        ("length", jn(t.length as u64)),
        ("voting_type", both(PyVotingType(t.voting_type))),
        ("custom_object_id", t.custom_object_id.map(jn).unwrap_or(J::Null)),
        ("repr", both(PySortTrack(t))),
    ])
}
fn wasted_obs(t: &WastedSortTrack) -> J {
    obj(vec![
        ("id", jn(t.id)),
        ("epoch", jn(t.epoch as u64)),
        ("predicted_bbox", u_obs(&t.predicted_bbox)),
        ("observed_bbox", u_obs(&t.observed_bbox)),
        ("scene_id", jn(t.scene_id)),
        ("length", jn(t.length as u64)),
        ("predicted_boxes", J::Arr(t.predicted_boxes.iter().map(u_obs).collect())),
        ("observed_boxes", J::Arr(t.observed_boxes.iter().map(u_obs).collect())),
        ("repr", J::Str(format!("{:?}", t))),
        ("str", J::Str(format!("{:#?}", t))),
    ])
}
fn vwasted_obs(t: &WastedVisualSortTrack) -> J {
    obj(vec![
        ("id", jn(t.id)),
        ("epoch", jn(t.epoch as u64)),
        ("predicted_bbox", u_obs(&t.predicted_bbox)),
        ("observed_bbox", u_obs(&t.observed_bbox)),
        ("scene_id", jn(t.scene_id)),
        ("length", jn(t.length as u64)),
        ("predicted_boxes", J::Arr(t.predicted_boxes.iter().map(u_obs).collect())),
        ("observed_boxes", J::Arr(t.observed_boxes.iter().map(u_obs).collect())),
        (
            "observed_features",
            J::Arr(
                t.observed_features
                    .iter()
                    .map(|f| f.as_ref().map(|v| J::Arr(v.iter().map(|x| jf(*x)).collect())).unwrap_or(J::Null))
                    .collect(),
            ),
        ),
        ("repr", J::Str(format!("{:?}", t))),
        ("str", J::Str(format!("{:#?}", t))),
    ])
}
fn kfs_obs(s: &KalmanState<DIM_2D_BOX_X2>) -> J {
    let u = Universal2DBox::try_from(*s);
    match u {
        Ok(u) => {
            let bb = BoundingBox::try_from(&u);
            obj(vec![("ubox", u_obs(&u)), ("bbox", bb.map(|b| bb_obs(&b)).unwrap_or_else(|_| err()))])
        }
        Err(_) => err(),
    }
}
fn pkfs_obs(s: &KalmanState<DIM_2D_POINT_X2>) -> J {
    let p = Point2::from(*s);
    J::Arr(vec![jf(p.x), jf(p.y)])
}
fn stats(v: Vec<usize>) -> J {
    J::Arr(v.into_iter().map(|x| jn(x as u64)).collect())
}

// ---- objects ---------------------------------------------------------------------------------------------------
enum O {
    BB(BoundingBox),
    U(Universal2DBox),
    Poly(Polygon<f64>),
    KF(Universal2DBoxKalmanFilter),
    KFS(KalmanState<DIM_2D_BOX_X2>),
    PKF(Point2DKalmanFilter),
    PKFS(KalmanState<DIM_2D_POINT_X2>),
    VKF(Vec2DKalmanFilter),
    VKFS(Vec<KalmanState<DIM_2D_POINT_X2>>),
    PMT(PositionalMetricType),
    VMT(VisualSortMetricType),
    STC(SpatioTemporalConstraints),
    VSO(VisualSortOptions),
    Sort(Sort),
    VS(VisualSort),
    BS(BatchSort),
    BVS(BatchVisualSort),
    SReq(SortPredictionBatchRequest),
    VReq(VisualSortPredictionBatchRequest<'static>, PredictionBatchResult),
    VObs(VisualSortObservation<'static>),
    VSet(Vec<VisualSortObservation<'static>>),
    Res(PredictionBatchResult),
}

struct Vm {
    vars: HashMap<i128, O>,
}

macro_rules! getv {
    ($vm:expr, $ins:expr, $key:expr, $pat:path) => {
        match $vm.vars.get(&$ins.int($key)) {
            Some($pat(x)) => x,
            _ => return skip(),
        }
    };
}
macro_rules! getm {
    ($vm:expr, $ins:expr, $key:expr, $pat:path) => {
        match $vm.vars.get_mut(&$ins.int($key)) {
            Some($pat(x)) => x,
            _ => return skip(),
        }
    };
}

fn points(ins: &J, k: &str) -> Vec<Point2<f32>> {
    ins.arr(k)
        .iter()
        .map(|p| match p {
            J::Arr(v) => match (&v[0], &v[1]) {
                (J::Num(a), J::Num(b)) => Point2::from([f32::from_bits(*a as u32), f32::from_bits(*b as u32)]),
                _ => panic!("driver: point"),
            },
            _ => panic!("driver: point"),
        })
        .collect()
}

fn drain(res: &PredictionBatchResult) -> J {
    let n = res.batch_size();
    let mut scenes = vec![];
    for _ in 0..n {
        let (scene, tracks) = res.get();
        scenes.push(J::Arr(vec![jn(scene), J::Arr(tracks.iter().map(track_obs).collect())]));
    }
    obj(vec![("batch_size", jn(n as u64)), ("scenes", J::Arr(scenes)), ("ready_after", J::Bool(res.ready()))])
}

impl Vm {
    fn put(&mut self, ins: &J, o: O) {
        if let Some(J::Num(n)) = ins.get("out") {
            self.vars.insert(*n, o);
        }
    }
    fn kill(&mut self, ins: &J, key: &str) {
        if let Some(J::Num(n)) = ins.get(key) {
            self.vars.remove(n);
        }
    }

    /// boxes argument of predict: [[boxvar, custom_id|null], ...]
    fn box_list(&self, ins: &J, k: &str) -> Option<Vec<(Universal2DBox, Option<i64>)>> {
        let mut v = vec![];
        for e in ins.arr(k) {
            if let J::Arr(p) = e {
                let id = match &p[0] {
                    J::Num(n) => *n,
                    _ => panic!("driver: box ref"),
                };
                let b = match self.vars.get(&id) {
                    Some(O::U(b)) => b.clone(),
                    _ => return None,
                };
                let c = match &p[1] {
                    J::Num(n) => Some(*n as i64),
                    _ => None,
                };
                v.push((b, c));
            }
        }
        Some(v)
    }

    fn exec(&mut self, ins: &J) -> J {
        let op = ins.s("op").to_string();
        let r = self.exec1(&op, ins);
        if let J::Str(s) = &r {
            if s == "err" && ins.has("v") && ins.b("poison") {
                // a failed call on a stateful object: the object is not used any more
                self.kill(ins, "v");
            }
        }
        r
    }

    fn exec1(&mut self, op: &str, ins: &J) -> J {
        match op {
            // the documented surface of the python module (sorted)
            "module_exports" => J::Arr(DOC_EXPORTS.iter().map(|s| js(s)).collect()),
            // ---------------- BoundingBox ----------------
            "bb_new" => {
                let b = BoundingBox::new(ins.f("l"), ins.f("t"), ins.f("w"), ins.f("h"));
                let r = bb_obs(&b);
                self.put(ins, O::BB(b));
                r
            }
            "bb_new_conf" => match guarded(|| BoundingBox::new_with_confidence(ins.f("l"), ins.f("t"), ins.f("w"), ins.f("h"), ins.f("c"))) {
                Some(b) => {
                    let r = bb_obs(&b);
                    self.put(ins, O::BB(b));
                    r
                }
                None => err(),
            },
            "bb_get" => {
                let b = getv!(self, ins, "v", O::BB);
                jf(match ins.s("field") {
                    "left" => b.left,
                    "top" => b.top,
                    "width" => b.width,
                    "height" => b.height,
                    "confidence" => b.confidence,
                    f => panic!("driver: field {}", f),
                })
            }
            "bb_set" => {
                let x = ins.f("x");
                let b = getm!(self, ins, "v", O::BB);
                match ins.s("field") {
                    "left" => b.left = x,
                    "top" => b.top = x,
                    "width" => b.width = x,
                    "height" => b.height = x,
                    "confidence" => b.confidence = x,
                    f => panic!("driver: field {}", f),
                }
                bb_obs(b)
            }
            "bb_as_xyaah" => {
                let u = getv!(self, ins, "v", O::BB).as_xyaah();
                let r = u_obs(&u);
                self.put(ins, O::U(u));
                r
            }
            "bb_str" => {
                let b = getv!(self, ins, "v", O::BB);
                J::Arr(vec![J::Str(format!("{:?}", b)), J::Str(format!("{:?}", b))])
            }
            // ---------------- Universal2DBox ----------------
            "u_new" => {
                let u = Universal2DBox::new(ins.f("xc"), ins.f("yc"), ins.of("angle"), ins.f("aspect"), ins.f("height"));
                let r = u_obs(&u);
                self.put(ins, O::U(u));
                r
            }
            "u_new_conf" => match guarded(|| Universal2DBox::new_with_confidence(ins.f("xc"), ins.f("yc"), ins.of("angle"), ins.f("aspect"), ins.f("height"), ins.f("c"))) {
                Some(u) => {
                    let r = u_obs(&u);
                    self.put(ins, O::U(u));
                    r
                }
                None => err(),
            },
            "u_ltwh" => match guarded(|| Universal2DBox::ltwh(ins.f("l"), ins.f("t"), ins.f("w"), ins.f("h"))) {
                Some(u) => {
                    let r = u_obs(&u);
                    self.put(ins, O::U(u));
                    r
                }
                None => err(),
            },
            "u_ltwh_conf" => match guarded(|| Universal2DBox::ltwh_with_confidence(ins.f("l"), ins.f("t"), ins.f("w"), ins.f("h"), ins.f("c"))) {
                Some(u) => {
                    let r = u_obs(&u);
                    self.put(ins, O::U(u));
                    r
                }
                None => err(),
            },
            "u_get" => {
                let b = getv!(self, ins, "v", O::U);
                match ins.s("field") {
                    "xc" => jf(b.xc),
                    "yc" => jf(b.yc),
                    "angle" => jof(b.angle),
                    "aspect" => jf(b.aspect),
                    "height" => jf(b.height),
                    "confidence" => jf(b.confidence),
                    f => panic!("driver: field {}", f),
                }
            }
            "u_set" => {
                let x = ins.of("x");
                let field = ins.s("field").to_string();
                let b = getm!(self, ins, "v", O::U);
                match field.as_str() {
                    "xc" => b.xc = x.unwrap(),
                    "yc" => b.yc = x.unwrap(),
                    "angle" => b.angle = x,
                    "aspect" => b.aspect = x.unwrap(),
                    "height" => b.height = x.unwrap(),
                    "confidence" => {
                        if guarded(|| b.set_confidence(x.unwrap())).is_none() {
                            return err();
                        }
                    }
                    f => panic!("driver: field {}", f),
                }
                u_obs(b)
            }
            "u_rotate" => {
                let a = ins.f("angle");
                let b = getm!(self, ins, "v", O::U);
                b.rotate_mut(a);
                u_obs(b)
            }
            "u_gen_vertices" => {
                let b = getm!(self, ins, "v", O::U);
                b.gen_vertices();
                J::Str(format!("{:?}", b))
            }
            "u_get_vertices" => {
                let p = getv!(self, ins, "v", O::U).get_vertices();
                let r = poly_obs(&p);
                self.put(ins, O::Poly(p));
                r
            }
            "u_get_radius" => jf(getv!(self, ins, "v", O::U).get_radius()),
            "u_area" => jf(getv!(self, ins, "v", O::U).area()),
            "u_as_ltwh" => match BoundingBox::try_from(getv!(self, ins, "v", O::U)) {
                Ok(b) => {
                    let r = bb_obs(&b);
                    self.put(ins, O::BB(b));
                    r
                }
                Err(_) => err(),
            },
            "u_str" => {
                let b = getv!(self, ins, "v", O::U);
                J::Arr(vec![J::Str(format!("{:?}", b)), J::Str(format!("{:?}", b))])
            }
            "poly_points" => poly_obs(getv!(self, ins, "v", O::Poly)),
            "poly_repr" => both(PyPolygon(getv!(self, ins, "v", O::Poly))),
            // ---------------- functions ----------------
            "nms" => {
                let dets: Vec<(Universal2DBox, Option<f32>)> = match self.box_list_f(ins, "dets") {
                    Some(d) => d,
                    None => return skip(),
                };
                match guarded(|| nms(&dets, ins.f("nms_threshold"), ins.of("score_threshold")).into_iter().cloned().collect::<Vec<_>>()) {
                    Some(v) => J::Arr(v.iter().map(u_obs).collect()),
                    None => err(),
                }
            }
            "clip" => {
                let a = getv!(self, ins, "a", O::U).clone();
                let b = getv!(self, ins, "b", O::U).clone();
                match guarded(|| a.sutherland_hodgman_clip(b)) {
                    Some(p) => {
                        let r = poly_obs(&p);
                        self.put(ins, O::Poly(p));
                        r
                    }
                    None => err(),
                }
            }
            "intersection_area" => {
                let a = getv!(self, ins, "a", O::U).clone();
                let b = getv!(self, ins, "b", O::U).clone();
                match guarded(|| a.sutherland_hodgman_clip(b).unsigned_area()) {
                    Some(x) => jd(x),
                    None => err(),
                }
            }
            // ---------------- Kalman filters ----------------
            "kf_new" => {
                let f = Universal2DBoxKalmanFilter::new(
                    ins.of("position_weight").unwrap_or(DOC_KALMAN_POSITION_WEIGHT),
                    ins.of("velocity_weight").unwrap_or(DOC_KALMAN_VELOCITY_WEIGHT),
                );
                self.put(ins, O::KF(f));
                J::Null
            }
            "kf_initiate" => {
                let f = getv!(self, ins, "kf", O::KF);
                let b = getv!(self, ins, "box", O::U);
                match guarded(|| f.initiate(b)) {
                    Some(s) => {
                        let r = kfs_obs(&s);
                        self.put(ins, O::KFS(s));
                        r
                    }
                    None => err(),
                }
            }
            "kf_predict" => {
                let f = getv!(self, ins, "kf", O::KF);
                let s = getv!(self, ins, "st", O::KFS);
                match guarded(|| f.predict(s)) {
                    Some(s) => {
                        let r = kfs_obs(&s);
                        self.put(ins, O::KFS(s));
                        r
                    }
                    None => err(),
                }
            }
            "kf_update" => {
                let f = getv!(self, ins, "kf", O::KF);
                let s = getv!(self, ins, "st", O::KFS);
                let b = getv!(self, ins, "box", O::U);
                match guarded(|| f.update(s, b)) {
                    Some(s) => {
                        let r = kfs_obs(&s);
                        self.put(ins, O::KFS(s));
                        r
                    }
                    None => err(),
                }
            }
            "kf_distance" => {
                let f = getv!(self, ins, "kf", O::KF);
                let s = getv!(self, ins, "st", O::KFS);
                let b = getv!(self, ins, "box", O::U);
                match guarded(|| f.distance(*s, b)) {
                    Some(d) => jf(d),
                    None => err(),
                }
            }
            "kf_cost" => match guarded(|| Universal2DBoxKalmanFilter::calculate_cost(ins.f("distance"), ins.b("inverted"))) {
                Some(d) => jf(d),
                None => err(),
            },
            "pkf_new" => {
                let f = Point2DKalmanFilter::new(
                    ins.of("position_weight").unwrap_or(DOC_KALMAN_POSITION_WEIGHT),
                    ins.of("velocity_weight").unwrap_or(DOC_KALMAN_VELOCITY_WEIGHT),
                );
                self.put(ins, O::PKF(f));
                J::Null
            }
            "pkf_initiate" => {
                let f = getv!(self, ins, "kf", O::PKF);
                match guarded(|| f.initiate(&Point2::from([ins.f("x"), ins.f("y")]))) {
                    Some(s) => {
                        let r = pkfs_obs(&s);
                        self.put(ins, O::PKFS(s));
                        r
                    }
                    None => err(),
                }
            }
            "pkf_predict" => {
                let f = getv!(self, ins, "kf", O::PKF);
                let s = getv!(self, ins, "st", O::PKFS);
                match guarded(|| f.predict(s)) {
                    Some(s) => {
                        let r = pkfs_obs(&s);
                        self.put(ins, O::PKFS(s));
                        r
                    }
                    None => err(),
                }
            }
            "pkf_update" => {
                let f = getv!(self, ins, "kf", O::PKF);
                let s = getv!(self, ins, "st", O::PKFS);
                match guarded(|| f.update(s, &Point2::from([ins.f("x"), ins.f("y")]))) {
                    Some(s) => {
                        let r = pkfs_obs(&s);
                        self.put(ins, O::PKFS(s));
                        r
                    }
                    None => err(),
                }
            }
            "pkf_distance" => {
                let f = getv!(self, ins, "kf", O::PKF);
                let s = getv!(self, ins, "st", O::PKFS);
                match guarded(|| f.distance(s, &Point2::from([ins.f("x"), ins.f("y")]))) {
                    Some(d) => jf(d),
                    None => err(),
                }
            }
            "pkf_cost" => match guarded(|| Point2DKalmanFilter::calculate_cost(ins.f("distance"), ins.b("inverted"))) {
                Some(d) => jf(d),
                None => err(),
            },
            "vkf_new" => {
                let f = Vec2DKalmanFilter::new(
                    ins.of("position_weight").unwrap_or(DOC_KALMAN_POSITION_WEIGHT),
                    ins.of("velocity_weight").unwrap_or(DOC_KALMAN_VELOCITY_WEIGHT),
                );
                self.put(ins, O::VKF(f));
                J::Null
            }
            "vkf_initiate" => {
                let f = getv!(self, ins, "kf", O::VKF);
                let pts = points(ins, "points");
                match guarded(|| f.initiate(&pts)) {
                    Some(s) => {
                        let r = J::Arr(s.iter().map(pkfs_obs).collect());
                        self.put(ins, O::VKFS(s));
                        r
                    }
                    None => err(),
                }
            }
            "vkf_predict" => {
                let f = getv!(self, ins, "kf", O::VKF);
                let s = getv!(self, ins, "st", O::VKFS);
                match guarded(|| f.predict(s)) {
                    Some(s) => {
                        let r = J::Arr(s.iter().map(pkfs_obs).collect());
                        self.put(ins, O::VKFS(s));
                        r
                    }
                    None => err(),
                }
            }
            "vkf_update" => {
                let f = getv!(self, ins, "kf", O::VKF);
                let s = getv!(self, ins, "st", O::VKFS);
                let pts = points(ins, "points");
                match guarded(|| f.update(s, &pts)) {
                    Some(s) => {
                        let r = J::Arr(s.iter().map(pkfs_obs).collect());
                        self.put(ins, O::VKFS(s));
                        r
                    }
                    None => err(),
                }
            }
            "vkf_distance" => {
                let f = getv!(self, ins, "kf", O::VKF);
                let s = getv!(self, ins, "st", O::VKFS);
                let pts = points(ins, "points");
                match guarded(|| f.distance(s, &pts)) {
                    Some(d) => J::Arr(d.into_iter().map(jf).collect()),
                    None => err(),
                }
            }
            "vkf_cost" => {
                let ds: Vec<f32> = ins.arr("distances").iter().map(|x| if let J::Num(n) = x { f32::from_bits(*n as u32) } else { panic!("driver") }).collect();
                match guarded(|| Vec2DKalmanFilter::calculate_cost(&ds, ins.b("inverted"))) {
                    Some(d) => J::Arr(d.into_iter().map(jf).collect()),
                    None => err(),
                }
            }
            // ---------------- metric types, constraints, options ----------------
            "pmt_maha" => {
                let m = PositionalMetricType::Mahalanobis;
                self.put(ins, O::PMT(m));
                both(PyPositionalMetricType(m))
            }
            "pmt_iou" => {
                let m = PositionalMetricType::IoU(ins.f("threshold"));
                self.put(ins, O::PMT(m));
                both(PyPositionalMetricType(m))
            }
            "vmt_euclidean" => match guarded(|| VisualSortMetricType::euclidean(ins.f("threshold"))) {
                Some(m) => {
                    self.put(ins, O::VMT(m));
                    both(PyVisualSortMetricType(m))
                }
                None => err(),
            },
            "vmt_cosine" => match guarded(|| VisualSortMetricType::cosine(ins.f("threshold"))) {
                Some(m) => {
                    self.put(ins, O::VMT(m));
                    both(PyVisualSortMetricType(m))
                }
                None => err(),
            },
            "stc_new" => {
                self.put(ins, O::STC(SpatioTemporalConstraints::default()));
                J::Null
            }
            "stc_add" => {
                let cs: Vec<(usize, f32)> = ins
                    .arr("constraints")
                    .iter()
                    .map(|p| match p {
                        J::Arr(v) => match (&v[0], &v[1]) {
                            (J::Num(a), J::Num(b)) => (*a as usize, f32::from_bits(*b as u32)),
                            _ => panic!("driver"),
                        },
                        _ => panic!("driver"),
                    })
                    .collect();
                let c = getm!(self, ins, "v", O::STC);
                match guarded(|| c.add_constraints(cs)) {
                    Some(_) => J::Null,
                    None => err(),
                }
            }
            "stc_validate" => {
                let c = getv!(self, ins, "v", O::STC);
                match guarded(|| c.validate(ins.int("epoch_delta") as usize, ins.f("dist"))) {
                    Some(b) => J::Bool(b),
                    None => err(),
                }
            }
            "vso_new" => {
                let o = VisualSortOptions::default();
                let r = J::Arr(vec![J::Str(format!("{:?}", o)), J::Str(format!("{:#?}", o))]);
                self.put(ins, O::VSO(o));
                r
            }
            "vso_set" => {
                let id = ins.int("v");
                let method = ins.s("method").to_string();
                let cur = match self.vars.get(&id) {
                    Some(O::VSO(o)) => o.clone(),
                    _ => return skip(),
                };
                let arg_obj = ins.oi("arg").map(|a| a as i128);
                let new = match method.as_str() {
                    "max_idle_epochs" => guarded(|| cur.max_idle_epochs(ins.int("n") as usize)),
                    "kept_history_length" => guarded(|| cur.kept_history_length(ins.int("n") as usize)),
                    "visual_min_votes" => guarded(|| cur.visual_min_votes(ins.int("n") as usize)),
                    "visual_max_observations" => guarded(|| cur.visual_max_observations(ins.int("n") as usize)),
                    "visual_minimal_track_length" => guarded(|| cur.visual_minimal_track_length(ins.int("n") as usize)),
                    "visual_minimal_area" => guarded(|| cur.visual_minimal_area(ins.f("x"))),
                    "visual_minimal_quality_use" => guarded(|| cur.visual_minimal_quality_use(ins.f("x"))),
                    "visual_minimal_quality_collect" => guarded(|| cur.visual_minimal_quality_collect(ins.f("x"))),
                    "positional_min_confidence" => guarded(|| cur.positional_min_confidence(ins.f("x"))),
                    "visual_minimal_own_area_percentage_use" => guarded(|| cur.visual_minimal_own_area_percentage_use(ins.f("x"))),
                    "visual_minimal_own_area_percentage_collect" => guarded(|| cur.visual_minimal_own_area_percentage_collect(ins.f("x"))),
                    "kalman_position_weight" => guarded(|| cur.kalman_position_weight(ins.f("x"))),
                    "kalman_velocity_weight" => guarded(|| cur.kalman_velocity_weight(ins.f("x"))),
                    "visual_metric" => match self.vars.get(&arg_obj.unwrap()) {
                        Some(O::VMT(m)) => {
                            let m = *m;
                            guarded(|| cur.visual_metric(m))
                        }
                        _ => return skip(),
                    },
                    "positional_metric" => match self.vars.get(&arg_obj.unwrap()) {
                        Some(O::PMT(m)) => {
                            let m = *m;
                            guarded(|| cur.positional_metric(m))
                        }
                        _ => return skip(),
                    },
                    "spatio_temporal_constraints" => match self.vars.get(&arg_obj.unwrap()) {
                        Some(O::STC(c)) => {
                            let c = c.clone();
                            guarded(|| cur.spatio_temporal_constraints(c))
                        }
                        _ => return skip(),
                    },
                    m => panic!("driver: options method {}", m),
                };
                match new {
                    Some(o) => {
                        let r = J::Arr(vec![J::Str(format!("{:?}", o)), J::Str(format!("{:#?}", o))]);
                        self.vars.insert(id, O::VSO(o));
                        r
                    }
                    None => err(),
                }
            }
            // ---------------- Sort ----------------
            "sort_new" => {
                let method = match ins.oi("method") {
                    Some(id) => match self.vars.get(&(id as i128)) {
                        Some(O::PMT(m)) => *m,
                        _ => return skip(),
                    },
                    None => DOC_METHOD,
                };
                let stc = match ins.oi("spatio_temporal_constraints") {
                    Some(id) => match self.vars.get(&(id as i128)) {
                        Some(O::STC(c)) => Some(c.clone()),
                        _ => return skip(),
                    },
                    None => None,
                };
                match guarded(|| {
                    Sort::new(
                        ins.oi("shards").map(|x| x as usize).unwrap_or(DOC_SHARDS),
                        ins.oi("bbox_history").map(|x| x as usize).unwrap_or(DOC_BBOX_HISTORY),
                        ins.oi("max_idle_epochs").map(|x| x as usize).unwrap_or(DOC_MAX_IDLE_EPOCHS),
                        method,
                        ins.of("min_confidence").unwrap_or(DOC_MIN_CONFIDENCE),
                        stc,
                        ins.of("kalman_position_weight").unwrap_or(DOC_KALMAN_POSITION_WEIGHT),
                        ins.of("kalman_velocity_weight").unwrap_or(DOC_KALMAN_VELOCITY_WEIGHT),
                    )
                }) {
                    Some(t) => {
                        self.put(ins, O::Sort(t));
                        J::Null
                    }
                    None => err(),
                }
            }
            "bs_new" => {
                let method = match ins.oi("method") {
                    Some(id) => match self.vars.get(&(id as i128)) {
                        Some(O::PMT(m)) => *m,
                        _ => return skip(),
                    },
                    None => DOC_METHOD,
                };
                let stc = match ins.oi("spatio_temporal_constraints") {
                    Some(id) => match self.vars.get(&(id as i128)) {
                        Some(O::STC(c)) => Some(c.clone()),
                        _ => return skip(),
                    },
                    None => None,
                };
                match guarded(|| {
                    BatchSort::new(
                        ins.oi("distance_shards").map(|x| x as usize).unwrap_or(DOC_SHARDS),
                        ins.oi("voting_shards").map(|x| x as usize).unwrap_or(DOC_SHARDS),
                        ins.oi("bbox_history").map(|x| x as usize).unwrap_or(DOC_BBOX_HISTORY),
                        ins.oi("max_idle_epochs").map(|x| x as usize).unwrap_or(DOC_MAX_IDLE_EPOCHS),
                        method,
                        ins.of("min_confidence").unwrap_or(DOC_MIN_CONFIDENCE),
                        stc,
                        ins.of("kalman_position_weight").unwrap_or(DOC_KALMAN_POSITION_WEIGHT),
                        ins.of("kalman_velocity_weight").unwrap_or(DOC_KALMAN_VELOCITY_WEIGHT),
                    )
                }) {
                    Some(t) => {
                        self.put(ins, O::BS(t));
                        J::Null
                    }
                    None => err(),
                }
            }
            "vs_new" => {
                let o = getv!(self, ins, "opts", O::VSO);
                match guarded(|| VisualSort::new(ins.int("shards") as usize, o)) {
                    Some(t) => {
                        self.put(ins, O::VS(t));
                        J::Null
                    }
                    None => err(),
                }
            }
            "bvs_new" => {
                let o = getv!(self, ins, "opts", O::VSO);
                match guarded(|| BatchVisualSort::new(ins.int("distance_shards") as usize, ins.int("voting_shards") as usize, o)) {
                    Some(t) => {
                        self.put(ins, O::BVS(t));
                        J::Null
                    }
                    None => err(),
                }
            }
            "t_predict" | "t_predict_scene" => {
                let scene = ins.oi("scene").map(|s| s as u64);
                match self.vars.get(&ins.int("v")) {
                    Some(O::Sort(_)) => {
                        let boxes = match self.box_list(ins, "boxes") {
                            Some(b) => b,
                            None => return skip(),
                        };
                        let t = getm!(self, ins, "v", O::Sort);
                        let r = guarded(|| match scene {
                            Some(s) => t.predict_with_scene(s, &boxes),
                            None => t.predict(&boxes),
                        });
                        match r {
                            Some(v) => J::Arr(v.iter().map(track_obs).collect()),
                            None => err(),
                        }
                    }
                    Some(O::VS(_)) => {
                        let set = match self.vars.get(&ins.int("set")) {
                            Some(O::VSet(s)) => s.clone(),
                            _ => return skip(),
                        };
                        let t = getm!(self, ins, "v", O::VS);
                        let r = guarded(|| match scene {
                            Some(s) => t.predict_with_scene(s, &set),
                            None => t.predict(&set),
                        });
                        match r {
                            Some(v) => J::Arr(v.iter().map(track_obs).collect()),
                            None => err(),
                        }
                    }
                    _ => skip(),
                }
            }
            "t_batch_predict" => match self.vars.get(&ins.int("v")) {
                Some(O::BS(_)) => {
                    let (batch, res) = match self.vars.get(&ins.int("req")) {
                        Some(O::SReq(r)) => (r.batch.clone(), r.result.clone()),
                        _ => return skip(),
                    };
                    let res = match res {
                        Some(r) => r,
                        None => return err(),
                    };
                    let t = getm!(self, ins, "v", O::BS);
                    match guarded(|| {
                        t.predict(batch);
                        drain(&res)
                    }) {
                        Some(r) => r,
                        None => err(),
                    }
                }
                Some(O::BVS(_)) => {
                    let (batch, res) = match self.vars.get(&ins.int("req")) {
                        Some(O::VReq(r, res)) => (r.batch.clone(), res.clone()),
                        _ => return skip(),
                    };
                    let t = getm!(self, ins, "v", O::BVS);
                    match guarded(|| {
                        t.predict(batch);
                        drain(&res)
                    }) {
                        Some(r) => r,
                        None => err(),
                    }
                }
                _ => skip(),
            },
            "t_batch_predict_nodrain" => match self.vars.get(&ins.int("v")) {
                // predict without reading the results (single-scene requests only: the result channel holds one)
                Some(O::BVS(_)) => {
                    let (batch, res) = match self.vars.get(&ins.int("req")) {
                        Some(O::VReq(r, res)) => (r.batch.clone(), res.clone()),
                        _ => return skip(),
                    };
                    let t = getm!(self, ins, "v", O::BVS);
                    match guarded(|| t.predict(batch)) {
                        Some(_) => {
                            let r = obj(vec![("batch_size", jn(res.batch_size() as u64))]);
                            self.put(ins, O::Res(res));
                            r
                        }
                        None => err(),
                    }
                }
                _ => skip(),
            },
            "t_skip_epochs" | "t_skip_epochs_for_scene" => {
                let n = ins.int("n") as usize;
                let scene = ins.oi("scene").map(|s| s as u64);
                macro_rules! go {
                    ($t:expr) => {
                        guarded(|| match scene {
                            Some(s) => $t.skip_epochs_for_scene(s, n),
                            None => $t.skip_epochs(n),
                        })
                    };
                }
                let r = match self.vars.get_mut(&ins.int("v")) {
                    Some(O::Sort(t)) => go!(t),
                    Some(O::VS(t)) => go!(t),
                    Some(O::BS(t)) => go!(t),
                    Some(O::BVS(t)) => go!(t),
                    _ => return skip(),
                };
                r.map(|_| J::Null).unwrap_or_else(err)
            }
            "t_current_epoch" | "t_current_epoch_with_scene" => {
                let scene = ins.oi("scene").map(|s| s as u64);
                macro_rules! go {
                    ($t:expr) => {
                        guarded(|| match scene {
                            Some(s) => $t.current_epoch_with_scene(s),
                            None => $t.current_epoch(),
                        })
                    };
                }
                let r = match self.vars.get(&ins.int("v")) {
                    Some(O::Sort(t)) => go!(t),
                    Some(O::VS(t)) => go!(t),
                    Some(O::BS(t)) => go!(t),
                    Some(O::BVS(t)) => go!(t),
                    _ => return skip(),
                };
                r.map(|e| jn(e as u64)).unwrap_or_else(err)
            }
            "t_idle_tracks" | "t_idle_tracks_with_scene" => {
                let scene = ins.oi("scene").map(|s| s as u64);
                macro_rules! go {
                    ($t:expr) => {
                        guarded(|| match scene {
                            Some(s) => $t.idle_tracks_with_scene(s),
                            None => $t.idle_tracks(),
                        })
                    };
                }
                let r = match self.vars.get_mut(&ins.int("v")) {
                    Some(O::Sort(t)) => go!(t),
                    Some(O::VS(t)) => go!(t),
                    Some(O::BS(t)) => go!(t),
                    Some(O::BVS(t)) => go!(t),
                    _ => return skip(),
                };
                r.map(|v| J::Arr(v.iter().map(track_obs).collect())).unwrap_or_else(err)
            }
            "t_wasted" => match self.vars.get_mut(&ins.int("v")) {
                Some(O::Sort(t)) => guarded(|| t.wasted().into_iter().map(WastedSortTrack::from).collect::<Vec<_>>())
                    .map(|v| J::Arr(v.iter().map(wasted_obs).collect()))
                    .unwrap_or_else(err),
                Some(O::BS(t)) => guarded(|| t.wasted().into_iter().map(WastedSortTrack::from).collect::<Vec<_>>())
                    .map(|v| J::Arr(v.iter().map(wasted_obs).collect()))
                    .unwrap_or_else(err),
                Some(O::VS(t)) => guarded(|| t.wasted().into_iter().map(WastedVisualSortTrack::from).collect::<Vec<_>>())
                    .map(|v| J::Arr(v.iter().map(vwasted_obs).collect()))
                    .unwrap_or_else(err),
                Some(O::BVS(t)) => guarded(|| t.wasted().into_iter().map(WastedVisualSortTrack::from).collect::<Vec<_>>())
                    .map(|v| J::Arr(v.iter().map(vwasted_obs).collect()))
                    .unwrap_or_else(err),
                _ => skip(),
            },
            "t_clear_wasted" => {
                let r = match self.vars.get(&ins.int("v")) {
                    Some(O::Sort(t)) => guarded(|| t.clear_wasted()),
                    Some(O::VS(t)) => guarded(|| t.clear_wasted()),
                    Some(O::BS(t)) => guarded(|| t.clear_wasted()),
                    Some(O::BVS(t)) => guarded(|| t.clear_wasted()),
                    _ => return skip(),
                };
                r.map(|_| J::Null).unwrap_or_else(err)
            }
            "t_shard_stats" => {
                let r = match self.vars.get(&ins.int("v")) {
                    Some(O::Sort(t)) => guarded(|| t.active_shard_stats()),
                    Some(O::VS(t)) => guarded(|| t.active_shard_stats()),
                    Some(O::BS(t)) => guarded(|| t.active_shard_stats()),
                    Some(O::BVS(t)) => guarded(|| t.active_shard_stats()),
                    _ => return skip(),
                };
                r.map(stats).unwrap_or_else(err)
            }
            // ---------------- requests, observations ----------------
            "sreq_new" => {
                self.put(ins, O::SReq(SortPredictionBatchRequest::new()));
                J::Null
            }
            "sreq_add" => {
                let b = getv!(self, ins, "box", O::U).clone();
                let c = ins.oi("custom_object_id");
                let scene = ins.int("scene") as u64;
                let r = getm!(self, ins, "v", O::SReq);
                r.add(scene, b, c);
                J::Null
            }
            "obs_new" => {
                let b = getv!(self, ins, "box", O::U).clone();
                let feature: Option<&'static [f32]> = match ins.get("feature") {
                    Some(J::Arr(v)) => {
                        let f: Vec<f32> = v.iter().map(|x| if let J::Num(n) = x { f32::from_bits(*n as u32) } else { panic!("driver") }).collect();
                        Some(Box::leak(f.into_boxed_slice()))
                    }
                    _ => None,
                };
                let o = VisualSortObservation::new(feature, ins.of("feature_quality"), b, ins.oi("custom_object_id"));
                let r = both(PyVisualSortObservation(&o));
                self.put(ins, O::VObs(o));
                r
            }
            "set_new" => {
                self.put(ins, O::VSet(vec![]));
                J::Null
            }
            "set_add" => {
                let o = getv!(self, ins, "obs", O::VObs).clone();
                let s = getm!(self, ins, "v", O::VSet);
                s.push(o);
                J::Null
            }
            "set_str" => {
                let s = getv!(self, ins, "v", O::VSet);
                both(PyVisualSortObservationSet(&VisualSortObservationSet { inner: s.clone() }))
            }
            "vreq_new" => {
                let r = VisualSortPredictionBatchRequest::new();
                let res = r.result.clone().expect("fresh request has a result");
                self.put(ins, O::VReq(r, res));
                J::Null
            }
            "vreq_add" => {
                let o = getv!(self, ins, "obs", O::VObs).clone();
                let scene = ins.int("scene") as u64;
                match self.vars.get_mut(&ins.int("v")) {
                    Some(O::VReq(r, _)) => {
                        r.add(scene, o);
                        J::Null
                    }
                    _ => skip(),
                }
            }
            "vreq_prediction" => match self.vars.get_mut(&ins.int("v")) {
                Some(O::VReq(r, _)) => match r.prediction() {
                    Some(p) => {
                        let o = obj(vec![("batch_size", jn(p.batch_size() as u64)), ("ready", J::Bool(p.ready()))]);
                        self.put(ins, O::Res(p));
                        o
                    }
                    None => J::Null,
                },
                _ => skip(),
            },
            "res_state" => {
                let p = getv!(self, ins, "v", O::Res);
                // wait (bounded) for a result to show up: a handle that is connected to the request becomes ready
                let mut ready = p.ready();
                let mut k = 0;
                while !ready && k < ins.int("wait_ms") {
                    std::thread::sleep(std::time::Duration::from_millis(1));
                    ready = p.ready();
                    k += 1;
                }
                obj(vec![("batch_size", jn(p.batch_size() as u64)), ("ready", J::Bool(ready))])
            }
            _ => panic!("driver: unknown op {}", op),
        }
    }

    /// [[boxvar, f32bits|null], ...]
    fn box_list_f(&self, ins: &J, k: &str) -> Option<Vec<(Universal2DBox, Option<f32>)>> {
        let mut v = vec![];
        for e in ins.arr(k) {
            if let J::Arr(p) = e {
                let id = match &p[0] {
                    J::Num(n) => *n,
                    _ => panic!("driver: box ref"),
                };
                let b = match self.vars.get(&id) {
                    Some(O::U(b)) => b.clone(),
                    _ => return None,
                };
                let c = match &p[1] {
                    J::Num(n) => Some(f32::from_bits(*n as u32)),
                    _ => None,
                };
                v.push((b, c));
            }
        }
        Some(v)
    }
}

fn main() {
    let a = parse_args();
    quiet_panics();
    if a.cmd != "run" {
        eprintln!("usage: pyapi run --file scripts.json");
        std::process::exit(2);
    }
    let txt = std::fs::read_to_string(a.file.expect("--file")).expect("read scripts");
    let scripts = Parser { s: txt.as_bytes(), i: 0 }.val();
    let scripts = match scripts {
        J::Arr(v) => v,
        _ => panic!("scripts must be a list"),
    };
    let out = std::io::stdout();
    for (k, sc) in scripts.iter().enumerate() {
        let mut vm = Vm { vars: HashMap::new() };
        let mut res = vec![];
        if let J::Arr(ins) = sc {
            for i in ins {
                res.push(vm.exec(i));
            }
        }
        drop(vm); // trackers join their threads here
        let mut s = String::new();
        obj(vec![("i", jn(k as u64)), ("res", J::Arr(res))]).write(&mut s);
        let mut o = out.lock();
        writeln!(o, "{}", s).unwrap();
        o.flush().unwrap();
    }
}
