//! C14: non-maximum suppression correspondence.  One case per line:
//!   case <k> kind=<name> thr=<f32bits> st=<N|f32bits> boxes=<xc,yc,angle|N,aspect,height,score|N;...> pre=<-|xc,yc,angle,aspect,height,how;...>
//!        kept=<i,i,...|P> again=<i,i,...|P|-> M=<i:j:f32bits,...>
//! * boxes: every field as f32 bit pattern (`N` = None for the optional angle / score);
//! * pre:   (empty when no box has one) per box `-` or the EARLIER state in which `gen_vertices()` was called before the box
//!          was rotated / moved / resized to the fields given in `boxes` (see `Pre`); nms must work from the current fields;
//! * kept:  positions (in the caller's slice) of the boxes returned by the REAL `nms`, in output order, found by
//!          pointer identity; `P` = the call panicked;
//! * again: the REAL `nms` applied to its own output (clones of the kept boxes, each with its own score), as
//!          positions in that second list (`-` when the first call panicked);
//! * M:     coverage ratios `Universal2DBox::intersection(b_i, b_j) as f32 / b_j.area()` for every ordered pair of
//!          distinct boxes of positive size, computed here with the crate's own functions; only entries whose bit
//!          pattern is not +0.0 are printed (`i:j:P` if the computation panicked): the implementation's own coverage
//!          ratio, used by the property oracles;
//! * I:     `Universal2DBox::intersection(b_i, b_j) as f32` for the same pairs (non-zero ones): the only oracle of the
//!          Coq model, which divides by the area and compares with the threshold by the TRANSLATED nms.rs expressions.
use similari::utils::bbox::Universal2DBox;
use similari::utils::nms::nms;
use similari_verif_harness::*;

#[derive(Clone, Copy, Debug)]
struct RawBox {
    xc: f32,
    yc: f32,
    angle: Option<f32>,
    aspect: f32,
    height: f32,
    score: Option<f32>,
}

/// An earlier state of a box: it was created with these fields (angle given), `gen_vertices()` was called, and only then
/// it was brought to its final fields - by `rotate_mut` + writes to the public fields (how = 0; the cached polygon is
/// never invalidated by these) or through the consuming `rotate(a)` + field writes (how = 1).  nms must see the CURRENT fields.
#[derive(Clone, Copy, Debug)]
struct Pre {
    xc: f32,
    yc: f32,
    angle: f32,
    aspect: f32,
    height: f32,
    how: u32,
}

fn mk(b: &RawBox) -> Universal2DBox {
    Universal2DBox::new(b.xc, b.yc, b.angle, b.aspect, b.height)
}

fn mk_pre(b: &RawBox, pre: &Option<Pre>) -> Universal2DBox {
    match pre {
        None => mk(b),
        Some(p) => {
            let mut x = Universal2DBox::new(p.xc, p.yc, Some(p.angle), p.aspect, p.height);
            x.gen_vertices();
            if p.how == 1 {
                x = x.rotate(b.angle.unwrap_or(0.0));
            } else if let Some(a) = b.angle {
                x.rotate_mut(a);
            }
            x.angle = b.angle;
            x.xc = b.xc;
            x.yc = b.yc;
            x.aspect = b.aspect;
            x.height = b.height;
            x
        }
    }
}

fn opt_bits(x: Option<f32>) -> String {
    match x {
        None => "N".to_string(),
        Some(v) => f32b(v),
    }
}

fn run_case(k: usize, kind: &str, thr: f32, st: Option<f32>, boxes: &[RawBox]) {
    run_case_pre(k, kind, thr, st, boxes, &vec![None; boxes.len()]);
}

fn run_case_pre(k: usize, kind: &str, thr: f32, st: Option<f32>, boxes: &[RawBox], pres: &[Option<Pre>]) {
    let dets: Vec<(Universal2DBox, Option<f32>)> = boxes.iter().zip(pres).map(|(b, p)| (mk_pre(b, p), b.score)).collect();
    // the real function
    let kept: Option<Vec<usize>> = guarded(|| {
        let res = nms(&dets, thr, st);
        res.iter()
            .map(|r| dets.iter().position(|(b, _)| std::ptr::eq(b, *r)).expect("returned reference is not an input box"))
            .collect()
    });
    let again: Option<Option<Vec<usize>>> = kept.as_ref().map(|kept| {
        // the caller keeps what nms returned: clones of the returned boxes, each with its score
        let second: Vec<(Universal2DBox, Option<f32>)> = kept.iter().map(|i| (dets[*i].0.clone(), boxes[*i].score)).collect();
        guarded(|| {
            let res = nms(&second, thr, st);
            res.iter().map(|r| second.iter().position(|(b, _)| std::ptr::eq(b, *r)).unwrap()).collect()
        })
    });
    // the oracle table
    let mut m = Vec::new();
    let mut inter = Vec::new();
    for (i, bi) in boxes.iter().enumerate() {
        if !(bi.height > 0.0 && bi.aspect > 0.0) {
            continue;
        }
        for (j, bj) in boxes.iter().enumerate() {
            if i == j || !(bj.height > 0.0 && bj.aspect > 0.0) {
                continue;
            }
            // the oracle value of the model: the intersection area exactly as nms.rs casts it
            if let Some(v) = guarded(|| Universal2DBox::intersection(&dets[i].0, &dets[j].0) as f32) {
                if v.to_bits() != 0 {
                    inter.push(format!("{}:{}:{}", i, j, f32b(v)));
                }
            }
            let r = guarded(|| Universal2DBox::intersection(&dets[i].0, &dets[j].0) as f32 / dets[j].0.area());
            match r {
                None => m.push(format!("{}:{}:P", i, j)),
                Some(v) => {
                    if v.to_bits() != 0 {
                        m.push(format!("{}:{}:{}", i, j, f32b(v)));
                    }
                }
            }
        }
    }
    let bs: Vec<String> = boxes
        .iter()
        .map(|b| format!("{},{},{},{},{},{}", f32b(b.xc), f32b(b.yc), opt_bits(b.angle), f32b(b.aspect), f32b(b.height), opt_bits(b.score)))
        .collect();
    let idx = |v: &Vec<usize>| v.iter().map(|i| i.to_string()).collect::<Vec<_>>().join(",");
    let kept_s = match &kept {
        None => "P".to_string(),
        Some(v) => idx(v),
    };
    let again_s = match &again {
        None => "-".to_string(),
        Some(None) => "P".to_string(),
        Some(Some(v)) => idx(v),
    };
    let pre_s: Vec<String> = pres
        .iter()
        .map(|p| match p {
            None => "-".to_string(),
            Some(p) => format!("{},{},{},{},{},{}", f32b(p.xc), f32b(p.yc), f32b(p.angle), f32b(p.aspect), f32b(p.height), p.how),
        })
        .collect();
    let pre_f = if pres.iter().any(|p| p.is_some()) { pre_s.join(";") } else { "".to_string() };
    println!("case {} kind={} thr={} st={} boxes={} pre={} kept={} again={} M={} I={}", k, kind, f32b(thr), opt_bits(st), bs.join(";"), pre_f, kept_s, again_s, m.join(","), inter.join(","));
}

// ---------------------------------------------------------------------------------------------------------
// generators

const ASPECTS: [f32; 8] = [0.25, 0.5, 0.75, 1.0, 1.0, 1.5, 2.0, 3.0];

fn angle(rng: &mut Rng) -> f32 {
    if rng.chance(1, 2) {
        // multiples of pi/32, incl. right angles
        (rng.range(-32, 64) as f32) * std::f32::consts::PI / 32.0
    } else {
        (rng.unit_f64() * 6.4 - 0.1) as f32
    }
}

fn size(rng: &mut Rng, lo: i64, hi: i64) -> (f32, f32) {
    // (aspect, height) on dyadic grids
    (*rng.pick(&ASPECTS), rng.dyadic(lo * 4, hi * 4, 2))
}

fn box_at(rng: &mut Rng, cx: f32, cy: f32, spread: i64, rotated: u64, smin: i64, smax: i64) -> RawBox {
    let (aspect, height) = size(rng, smin, smax);
    let angle = if rng.below(100) < rotated { Some(angle(rng)) } else { None };
    RawBox { xc: cx + rng.dyadic(-spread * 4, spread * 4, 2), yc: cy + rng.dyadic(-spread * 4, spread * 4, 2), angle, aspect, height, score: None }
}

fn invalid_box(rng: &mut Rng) -> RawBox {
    let mut b = box_at(rng, 10.0, 10.0, 10, 30, 2, 10);
    match rng.below(5) {
        0 => b.height = 0.0,
        1 => b.height = -b.height,
        2 => b.aspect = 0.0,
        3 => b.aspect = -b.aspect,
        _ => {
            b.height = -0.0;
            b.aspect = -1.0
        }
    }
    b
}

/// returns (kind, boxes without scores, suggested threshold for the boundary stream)
fn scene(rng: &mut Rng, n: usize) -> (&'static str, Vec<RawBox>, Option<f32>) {
    let mut v = Vec::new();
    let kind = rng.below(14);
    match kind {
        0 => {
            for _ in 0..n {
                v.push(box_at(rng, 100.0, 100.0, 100, 0, 2, 20));
            }
            ("sparse-aa", v, None)
        }
        1 => {
            for _ in 0..n {
                v.push(box_at(rng, 20.0, 20.0, 5, 0, 4, 12));
            }
            ("clustered-aa", v, None)
        }
        2 => {
            for _ in 0..n {
                v.push(box_at(rng, 20.0, 20.0, 5, 100, 4, 12));
            }
            ("clustered-rot", v, None)
        }
        3 => {
            for _ in 0..n {
                v.push(box_at(rng, 60.0, 60.0, 40, 100, 2, 20));
            }
            ("sparse-rot", v, None)
        }
        4 => {
            for _ in 0..n {
                v.push(box_at(rng, 20.0, 20.0, 6, 50, 4, 12));
            }
            ("clustered-mixed", v, None)
        }
        5 => {
            // duplicates: a few base boxes, each repeated
            let rot = *rng.pick(&[0u64, 0, 50, 100]);
            let nb = 1 + rng.below(6) as usize;
            let base: Vec<RawBox> = (0..nb).map(|_| box_at(rng, 20.0, 20.0, 8, rot, 4, 12)).collect();
            for _ in 0..n {
                v.push(*rng.pick(&base));
            }
            ("duplicates", v, None)
        }
        6 => {
            // nested: concentric families (same centre, same angle or none), sizes scaled
            let rot = *rng.pick(&[0u64, 0, 0, 100]);
            let nf = 1 + rng.below(3) as usize;
            let fam: Vec<RawBox> = (0..nf).map(|_| box_at(rng, 20.0, 20.0, 10, rot, 8, 16)).collect();
            for _ in 0..n {
                let mut b = *rng.pick(&fam);
                let s = *rng.pick(&[0.25f32, 0.5, 0.75, 1.0, 1.25, 1.5]);
                b.height *= s;
                if rng.chance(1, 3) {
                    b.aspect = *rng.pick(&ASPECTS);
                }
                v.push(b);
            }
            (if rot == 0 { "nested-aa" } else { "nested-rot" }, v, None)
        }
        7 => {
            // boundary: equal axis-aligned boxes shifted so that the covered fraction is exactly k/8 (f32/f64 exact)
            let h = *rng.pick(&[4.0f32, 8.0, 16.0]);
            let a = *rng.pick(&[0.5f32, 1.0, 2.0]);
            let w = h * a;
            let t = *rng.pick(&[0.25f32, 0.5, 0.75, 0.125, 0.875]);
            let mut x = 10.0f32;
            let mut y = 10.0f32;
            for _ in 0..n {
                v.push(RawBox { xc: x, yc: y, angle: None, aspect: a, height: h, score: None });
                match rng.below(5) {
                    0 => x += w * (1.0 - t),                                      // covered fraction exactly t
                    1 => y += h * (1.0 - t),
                    2 => x += w * (1.0 - t) + 0.25,                               // just below
                    3 => x += w * (1.0 - t) - 0.25,                               // just above
                    _ => {
                        x = 10.0 + rng.dyadic(0, 8, 2) * w;
                        y += h * *rng.pick(&[0.0f32, 0.25, 0.5])
                    }
                }
            }
            rng.shuffle(&mut v);
            ("boundary", v, Some(t))
        }
        8 => {
            // several objects far apart, each detected a few times with jitter (the typical detector output)
            let rot = *rng.pick(&[0u64, 0, 100, 30]);
            let mut left = n;
            let mut obj = 0;
            while left > 0 {
                let c = 1 + (rng.below(6) as usize).min(left - 1);
                let cx = 30.0 * obj as f32;
                let proto = box_at(rng, cx, 50.0, 2, rot, 6, 14);
                for _ in 0..c {
                    let mut b = proto;
                    b.xc += rng.dyadic(-8, 8, 3);
                    b.yc += rng.dyadic(-8, 8, 3);
                    b.height += rng.dyadic(-4, 4, 2);
                    if let Some(a) = b.angle {
                        b.angle = Some(a + rng.dyadic(-4, 4, 5));
                    }
                    v.push(b);
                }
                left -= c;
                obj += 1;
            }
            rng.shuffle(&mut v);
            ("objects", v, None)
        }
        10 | 11 => {
            // same-angle cluster: oblong boxes sharing ONE non-zero angle (bit-equal), centres offset along and across
            // the common long axis - the geometry in which a frame mix-up of the overlap computation shows
            let a = match rng.below(4) {
                0 => std::f32::consts::FRAC_PI_4,
                1 => std::f32::consts::FRAC_PI_6,
                2 => (rng.range(1, 31) as f32) * std::f32::consts::PI / 32.0,
                _ => (0.2 + rng.unit_f64() * 2.8) as f32,
            };
            let (c, sn) = ((a as f64).cos() as f32, (a as f64).sin() as f32);
            let thick = *rng.pick(&[2.0f32, 2.0, 3.0, 4.0]);
            let aspect = *rng.pick(&[2.0f32, 3.0, 5.0, 5.0, 8.0]);
            let len = thick * aspect;
            let groups = 1 + rng.below(3) as usize;
            for i in 0..n {
                let g = (i % groups) as f32;
                // offset along the long axis: fractions of the length; across: fractions of the thickness
                let along = len * *rng.pick(&[0.0f32, 0.1, 0.25, 0.3, 0.5, 0.7, 0.9, 1.1, -0.3, -0.6]);
                let across = thick * *rng.pick(&[0.0f32, 0.0, 0.2, 0.5, 0.8, 1.1, 1.5, -0.4, -1.1]);
                let (gx, gy) = (20.0 + 4.0 * len * g, 20.0);
                v.push(RawBox {
                    xc: gx + along * c - across * sn,
                    yc: gy + along * sn + across * c,
                    angle: Some(a),
                    aspect: if rng.chance(1, 5) { *rng.pick(&[2.0f32, 3.0, 5.0]) } else { aspect },
                    height: if rng.chance(1, 5) { thick + rng.dyadic(-2, 4, 2) } else { thick },
                    score: None,
                });
            }
            ("same-angle", v, None)
        }
        12 | 13 => {
            // cross-oriented: a HIGH-score flat wide box (aspect 3..8, small height h) rotated by about pi/2 lies along an
            // upright tall LOWER-score box (height >= 1.2 h / thr, aspect < 1) and covers 60-100% of it, although its own
            // `height` (the extent along its OWN y axis) is far below thr x the other's height; and the mirrored variant
            // (a tall narrow box rotated onto a flat upright one).  Scores are explicit: without them rank = height.
            let thr = *rng.pick(&[0.2f32, 0.25, 0.3, 0.375, 0.4, 0.5, 0.6]);
            let groups = (n / 2).max(1);
            for g in 0..groups {
                if v.len() + 2 > n.max(2) {
                    break;
                }
                let (gx, gy) = (100.0 * g as f32, 50.0f32);
                let h = *rng.pick(&[1.0f32, 2.0, 3.0]);
                let tall_h = h / thr * *rng.pick(&[1.2f32, 1.5, 2.0]);
                let tall_w = h * *rng.pick(&[0.7f32, 1.0, 1.25, 1.5]);
                let flat_aspect = (tall_h / h * *rng.pick(&[0.8f32, 1.0, 1.2])).clamp(3.0, 12.0);
                let ang = match rng.below(5) {
                    0 => std::f32::consts::FRAC_PI_2,
                    1 => std::f32::consts::FRAC_PI_2 + 0.05,
                    2 => std::f32::consts::FRAC_PI_2 - 0.08,
                    3 => 1.2,
                    _ => -std::f32::consts::FRAC_PI_2,
                };
                let (dx, dy) = (rng.dyadic(-2, 2, 3) * h, rng.dyadic(-4, 4, 2));
                let s_hi = 0.7 + rng.dyadic(0, 15, 6);
                let s_lo = 0.2 + rng.dyadic(0, 15, 6);
                let mirrored = rng.chance(1, 4);
                let (hi, lo) = if !mirrored {
                    (
                        RawBox { xc: gx + dx, yc: gy + dy, angle: Some(ang), aspect: flat_aspect, height: h, score: Some(s_hi) },
                        RawBox { xc: gx, yc: gy, angle: if rng.chance(1, 2) { None } else { Some(0.0) }, aspect: tall_w / tall_h, height: tall_h, score: Some(s_lo) },
                    )
                } else {
                    // a tall narrow high-score box rotated onto a flat upright low-score box
                    (
                        RawBox { xc: gx + dx, yc: gy, angle: Some(ang), aspect: tall_w / tall_h, height: tall_h, score: Some(s_hi) },
                        RawBox { xc: gx, yc: gy, angle: None, aspect: flat_aspect, height: h, score: Some(s_lo) },
                    )
                };
                if rng.chance(1, 2) {
                    v.push(hi);
                    v.push(lo);
                } else {
                    v.push(lo);
                    v.push(hi);
                }
                if rng.chance(1, 3) && v.len() < n {
                    // a third, lowest box next to the pair
                    v.push(RawBox { xc: gx + h, yc: gy + 1.0, angle: Some(0.3), aspect: 1.0, height: 2.0 * h, score: Some(0.1) });
                }
            }
            ("cross-oriented", v, Some(thr))
        }
        _ => {
            // chain: each box overlaps the next one strongly (suppression by an excluded box must NOT happen)
            let h = *rng.pick(&[8.0f32, 12.0]);
            let step = *rng.pick(&[1.0f32, 2.0, 3.0]);
            let rot = rng.chance(1, 3);
            for i in 0..n {
                v.push(RawBox {
                    xc: 10.0 + step * i as f32,
                    yc: 10.0,
                    angle: if rot { Some(0.5) } else { None },
                    aspect: 1.0,
                    height: h - if rng.chance(1, 2) { 0.0 } else { rng.dyadic(0, 8, 2) },
                    score: None,
                });
            }
            if rng.chance(1, 2) {
                rng.shuffle(&mut v);
            }
            ("chain", v, None)
        }
    }
}

fn gen_case(rng: &mut Rng, k: usize) {
    let n = match rng.below(12) {
        0 => rng.below(3) as usize,      // 0, 1, 2
        1 => 40,
        2 => rng.range(3, 8) as usize,
        _ => rng.range(0, 40) as usize,
    };
    let (kind, mut boxes, tsug) = scene(rng, n);
    // invalid (non-positive size) boxes mixed in
    if rng.chance(1, 3) && !boxes.is_empty() {
        let ni = 1 + rng.below(4) as usize;
        for _ in 0..ni {
            let pos = rng.below(boxes.len() as u64 + 1) as usize;
            if boxes.len() < 40 {
                boxes.insert(pos, invalid_box(rng));
            } else {
                let p = pos.min(39);
                boxes[p] = invalid_box(rng);
            }
        }
    }
    // scores
    let mode = rng.below(8);
    let levels: Vec<f32> = match rng.below(3) {
        0 => vec![0.25, 0.5, 0.75],                                   // many ties
        1 => (1..=16).map(|i| i as f32 / 16.0).collect(),
        _ => vec![],
    };
    let preset = kind == "cross-oriented";
    for b in boxes.iter_mut() {
        let s = if levels.is_empty() { rng.dyadic(1, 1023, 10) } else { *rng.pick(&levels) };
        if preset {
            // the scene set explicit scores; boxes inserted afterwards get one too
            if b.score.is_none() {
                b.score = Some(s);
            }
            continue;
        }
        b.score = match mode {
            0..=2 => None,                                            // no scores: rank = height
            3..=6 => Some(s),
            _ => {
                if rng.chance(1, 3) {
                    None
                } else {
                    Some(if rng.chance(1, 2) { s } else { s * 16.0 })  // mixed: scores on the scale of heights too
                }
            }
        };
    }
    // nms threshold in (0,1)
    let thr = match (tsug, rng.below(3)) {
        (Some(t), _) if preset => t,
        (Some(t), 0) | (Some(t), 1) => t,
        (_, 0) => *rng.pick(&[0.25f32, 0.5, 0.75]),
        (_, 1) => rng.dyadic(1, 63, 6),
        _ => {
            let t = rng.unit_f64() as f32;
            if t > 0.0 && t < 1.0 {
                t
            } else {
                0.5
            }
        }
    };
    // score threshold: None / below / inside / exactly a score / above the score range
    let scores: Vec<f32> = boxes.iter().filter_map(|b| b.score).collect();
    let st = match rng.below(6) {
        0 | 1 => None,
        2 => Some(scores.iter().cloned().fold(0.0f32, f32::min) - 1.0),
        3 => {
            if scores.is_empty() {
                Some(0.5)
            } else {
                Some(*rng.pick(&scores))                               // boundary of the strict comparison
            }
        }
        4 => {
            if scores.is_empty() {
                Some(0.0)
            } else {
                let a = *rng.pick(&scores);
                let b = *rng.pick(&scores);
                Some((a + b) / 2.0 + if rng.chance(1, 2) { 1.0 / 2048.0 } else { 0.0 })
            }
        }
        _ => Some(scores.iter().cloned().fold(1.0f32, f32::max) + 1.0),
    };
    // 1/4 of the cases: some boxes have a HISTORY - vertices generated in an earlier state, then rotated / moved / resized
    let mut pres: Vec<Option<Pre>> = vec![None; boxes.len()];
    let mut kind_s = kind.to_string();
    if rng.chance(1, 4) && !boxes.is_empty() {
        kind_s = format!("{}+history", kind);
        for (i, b) in boxes.iter().enumerate() {
            if !rng.chance(1, 2) || !(b.height > 0.0 && b.aspect > 0.0) {
                continue;
            }
            let mut p = Pre { xc: b.xc, yc: b.yc, angle: b.angle.unwrap_or(0.0), aspect: b.aspect, height: b.height, how: if rng.chance(1, 5) { 1 } else { 0 } };
            match rng.below(5) {
                0 => p.angle += *rng.pick(&[0.3f32, 0.7853982, 1.5707964, -0.5, 1.0]),
                1 => {
                    p.xc += b.height * *rng.pick(&[0.5f32, 1.0, -0.75, 2.0]);
                    p.yc += b.height * *rng.pick(&[0.0f32, 0.5, -1.0])
                }
                2 => p.aspect *= *rng.pick(&[0.25f32, 0.5, 2.0, 3.0]),
                3 => p.height *= *rng.pick(&[0.5f32, 2.0, 0.25]),
                _ => {
                    p.angle += 0.6;
                    p.xc -= b.height;
                    p.height *= 0.5
                }
            }
            pres[i] = Some(p);
        }
    }
    run_case_pre(k, &kind_s, thr, st, &boxes, &pres);
}

fn parse_opt(s: &str) -> Option<f32> {
    if s == "N" {
        None
    } else {
        Some(f32::from_bits(s.parse::<u32>().unwrap()))
    }
}

fn parse_case(line: &str) -> Option<(f32, Option<f32>, Vec<RawBox>, Vec<Option<Pre>>)> {
    let mut thr = None;
    let mut st = None;
    let mut boxes = vec![];
    let mut pres: Vec<Option<Pre>> = vec![];
    for tok in line.split_whitespace() {
        if let Some(v) = tok.strip_prefix("thr=") {
            thr = Some(f32::from_bits(v.parse::<u32>().ok()?));
        } else if let Some(v) = tok.strip_prefix("st=") {
            st = parse_opt(v);
        } else if let Some(v) = tok.strip_prefix("pre=") {
            for e in v.split(';').filter(|x| !x.is_empty()) {
                if e == "-" {
                    pres.push(None);
                } else {
                    let f: Vec<&str> = e.split(',').collect();
                    if f.len() != 6 {
                        return None;
                    }
                    let g = |s: &str| f32::from_bits(s.parse::<u32>().unwrap());
                    pres.push(Some(Pre { xc: g(f[0]), yc: g(f[1]), angle: g(f[2]), aspect: g(f[3]), height: g(f[4]), how: f[5].parse().ok()? }));
                }
            }
        } else if let Some(v) = tok.strip_prefix("boxes=") {
            for b in v.split(';').filter(|x| !x.is_empty()) {
                let f: Vec<&str> = b.split(',').collect();
                if f.len() != 6 {
                    return None;
                }
                let g = |s: &str| f32::from_bits(s.parse::<u32>().unwrap());
                boxes.push(RawBox { xc: g(f[0]), yc: g(f[1]), angle: parse_opt(f[2]), aspect: g(f[3]), height: g(f[4]), score: parse_opt(f[5]) });
            }
        }
    }
    pres.resize(boxes.len(), None);
    Some((thr?, st, boxes, pres))
}

fn main() {
    quiet_panics();
    let a = parse_args();
    let mut rng = Rng::new(a.seed);
    match a.cmd.as_str() {
        "gen" => {
            let mut k = 0usize;
            // corpus: the example of the Python binding's documentation, and the commented-out unit test of nms.rs
            let doc = |l: f32, t: f32, w: f32, h: f32, s: Option<f32>| {
                let b = Universal2DBox::ltwh(l, t, w, h);
                RawBox { xc: b.xc, yc: b.yc, angle: b.angle, aspect: b.aspect, height: b.height, score: s }
            };
            run_case(k, "corpus-doc-scores", 0.7, Some(0.0), &[doc(10.3, 11.1, 2.9, 3.9, Some(0.9)), doc(10.0, 11.0, 3.0, 3.8, Some(1.0))]);
            k += 1;
            run_case(k, "corpus-doc-noscores", 0.7, Some(0.0), &[doc(10.3, 11.1, 2.9, 3.9, None), doc(10.0, 11.0, 3.0, 4.0, None)]);
            k += 1;
            let ut = |x: f32, y: f32, a: f32, h: f32| RawBox { xc: x, yc: y, angle: None, aspect: a, height: h, score: None };
            run_case(k, "corpus-unit-test", 0.8, None, &[ut(0.0, 0.0, 1.0, 5.0), ut(0.0, 0.0, 1.05, 5.1), ut(0.0, 0.0, 1.0, 4.9), ut(3.0, 4.0, 1.0, 4.5)]);
            k += 1;
            // two oblong boxes (10 x 2) sharing the angle pi/4: shifted by 3 along the long axis (70% covered), and by 2.2 across it (disjoint)
            {
                let q = std::f32::consts::FRAC_PI_4;
                let r = std::f32::consts::FRAC_1_SQRT_2;
                let ob = |x: f32, y: f32, s: f32| RawBox { xc: x, yc: y, angle: Some(q), aspect: 5.0, height: 2.0, score: Some(s) };
                run_case(k, "corpus-same-angle-along", 0.5, None, &[ob(0.0, 0.0, 0.9), ob(3.0 * r, 3.0 * r, 0.8)]);
                k += 1;
                run_case(k, "corpus-same-angle-across", 0.1, None, &[ob(0.0, 0.0, 0.9), ob(-2.2 * r, 2.2 * r, 0.8)]);
                k += 1;
            }
            // an upright pole (1 x 4) completely covered by a higher-scored long flat box (4.8 x 1.2) turned by 90 degrees
            run_case(
                k,
                "corpus-cross-oriented",
                0.5,
                None,
                &[
                    RawBox { xc: 10.0, yc: 10.0, angle: None, aspect: 0.25, height: 4.0, score: Some(0.6) },
                    RawBox { xc: 100.0, yc: 100.0, angle: None, aspect: 0.5, height: 3.0, score: Some(0.5) },
                    RawBox { xc: 10.0, yc: 10.0, angle: Some(std::f32::consts::FRAC_PI_2), aspect: 4.0, height: 1.2, score: Some(0.9) },
                ],
            );
            k += 1;
            run_case(k, "corpus-empty", 0.5, None, &[]);
            k += 1;
            while k < a.n {
                gen_case(&mut rng, k);
                k += 1;
            }
        }
        "exhaustive" => {
            // every ordered list of length <= 3 over a pool of seven boxes (exact dyadic geometry: a duplicate pair, a
            // nested pair, a pair overlapping by exactly one half, a far box, a rotated box, an invalid box)
            // x nms threshold {1/4, 1/2} x score mode {none, descending, ascending by position} x score threshold {None, 0.45}
            let pool = [
                RawBox { xc: 10.0, yc: 10.0, angle: None, aspect: 1.0, height: 4.0, score: None },
                RawBox { xc: 12.0, yc: 10.0, angle: None, aspect: 1.0, height: 4.0, score: None },
                RawBox { xc: 10.0, yc: 10.0, angle: None, aspect: 1.0, height: 4.0, score: None },
                RawBox { xc: 10.0, yc: 10.0, angle: None, aspect: 1.0, height: 2.0, score: None },
                RawBox { xc: 30.0, yc: 30.0, angle: None, aspect: 1.0, height: 4.0, score: None },
                RawBox { xc: 11.0, yc: 10.0, angle: Some(0.5), aspect: 1.0, height: 4.0, score: None },
                RawBox { xc: 10.0, yc: 10.0, angle: None, aspect: 1.0, height: 0.0, score: None },
            ];
            let mut lists: Vec<Vec<usize>> = vec![vec![]];
            let mut frontier: Vec<Vec<usize>> = vec![vec![]];
            for _ in 0..3 {
                let mut next = vec![];
                for l in &frontier {
                    for i in 0..pool.len() {
                        let mut m = l.clone();
                        m.push(i);
                        next.push(m);
                    }
                }
                lists.extend(next.iter().cloned());
                frontier = next;
            }
            let mut k = 0usize;
            for l in &lists {
                for thr in [0.25f32, 0.5] {
                    for mode in 0..3 {
                        for st in [None, Some(0.45f32)] {
                            let boxes: Vec<RawBox> = l
                                .iter()
                                .enumerate()
                                .map(|(pos, i)| {
                                    let mut b = pool[*i];
                                    b.score = match mode {
                                        0 => None,
                                        1 => Some(0.875 - 0.125 * pos as f32),
                                        _ => Some(0.375 + 0.125 * pos as f32),
                                    };
                                    b
                                })
                                .collect();
                            run_case(k, "exhaustive", thr, st, &boxes);
                            k += 1;
                        }
                    }
                }
            }
        }
        "replay" => {
            let txt = std::fs::read_to_string(a.file.expect("--file")).unwrap();
            for (k, line) in txt.lines().enumerate() {
                if let Some((thr, st, boxes, pres)) = parse_case(line) {
                    run_case_pre(k, "replay", thr, st, &boxes, &pres);
                }
            }
        }
        _ => {
            eprintln!("usage: nms gen --seed S --n N | nms exhaustive | nms replay --file F");
            std::process::exit(2);
        }
    }
}
