//! C09 / C11: the REAL generic `Track<TA, M, OA, N>` and `TrackStore<TA, M, OA, N>` driven by scripts, with a
//! scripted callback algebra (the same algebra is `Module Alg` of coq/theories/Model/Store.v).
//!
//!   trackstore run --file <scripts>      one script per line (format below), prints one JSON line per run
//!
//! Script line:
//!   S <case> shards=<n> plan=<fa>/<fm>/<fo> enum=<0|1> :: op ; op ; ...      store script
//!   T <case> plan=<fa>/<fm>/<fo> enum=<0|1> :: op ; op ; ...                 track-API script
//! lists are comma separated, `-` is the empty list; plans are lists of 0-based global invocation indices of
//! apply / TrackAttributes::merge / optimize at which the callback fails (after mutating all it can reach).
//! `enum=1`: after the base run, the script is re-run once for EVERY invocation index of every callback kind
//! that the LAST operation performs in the base run, with that single invocation failing (fault enumeration).
//!
//! store ops:  BA id spec*            new_track(id).observation(spec)*.build()? ; add_track
//!             AD id spec             add(id, ..)
//!             FE ids                 fetch_tracks
//!             MO dst src cls rm mh   merge_owned          (cls: N = None, - = Some([]), list)
//!             ME dst id cls mh spec* merge_external(dst, &built(id, spec*), ..)
//!             MN dst id cls mh spec* merge_external_noblock(..) ; get()
//!             LK min_u cls hh        lookup  (cls, hh: n or number)
//!             FU | CL | ST | NT id   find_usable | clear | shard_stats | new_track(id).build()
//! track ops:  TN r id | TA r spec | TM rd rs cls mh
//! spec = cls:oa:f:upd   oa, f: n or number;  upd: n or <add>+ (ok) or <add>! (fails after mutating)
use anyhow::Result;
use similari::prelude::TrackBuilder;
use similari::store::TrackStore;
use similari::track::notify::ChangeNotifier;
use similari::track::utils::FromVec;
use similari::track::{
    Feature, LookupRequest, MetricOutput, MetricQuery, Observation, ObservationAttributes,
    ObservationMetric, ObservationsDb, Track, TrackAttributes, TrackAttributesUpdate, TrackStatus,
};
use similari::Errors;
use similari_verif_harness::*;
use std::collections::BTreeMap;
use std::fmt;
use std::sync::atomic::{AtomicBool, AtomicUsize, Ordering};
use std::sync::{Arc, Mutex};

// ------------------------------------------------------------------------------------------------
// the world shared by all callbacks (never rolled back by the track)

#[derive(Clone, Default, Debug)]
struct World {
    na: u64,
    nm: u64,
    no: u64,
    fa: Vec<u64>,
    fm: Vec<u64>,
    fo: Vec<u64>,
    log: Vec<u64>, // classes of the optimize invocations, in order
}

static WORLD: Mutex<World> = Mutex::new(World { na: 0, nm: 0, no: 0, fa: vec![], fm: vec![], fo: vec![], log: vec![] });
static PROBE: AtomicBool = AtomicBool::new(false);

fn world() -> std::sync::MutexGuard<'static, World> {
    WORLD.lock().unwrap_or_else(|e| e.into_inner())
}

#[derive(Debug)]
enum ScriptErr {
    Apply,
    Merge,
    Optimize,
    Baked,
}
impl fmt::Display for ScriptErr {
    fn fmt(&self, f: &mut fmt::Formatter<'_>) -> fmt::Result {
        write!(f, "{:?}", self)
    }
}
impl std::error::Error for ScriptErr {}

// ------------------------------------------------------------------------------------------------
// the scripted algebra

#[derive(Clone, Debug, Default, PartialEq, Eq)]
struct Attrs {
    u: u64,
    m: u64,
    o: u64,
}

#[derive(Clone, Debug)]
struct Upd {
    add: u64,
    fail: bool,
}

#[derive(Clone, Debug, PartialEq)]
struct Oa(u64);

impl ObservationAttributes for Oa {
    type MetricObject = u64;
    fn calculate_metric_object(l: &Option<&Self>, r: &Option<&Self>) -> Option<u64> {
        match (l, r) {
            (Some(a), Some(b)) => Some(a.0 + b.0),
            _ => None,
        }
    }
}

#[derive(Clone, Debug, Default)]
struct Lq {
    min_u: u64,
    cls: Option<u64>,
    hh: Option<u64>,
}

impl LookupRequest<Attrs, Oa> for Lq {
    fn lookup(&self, a: &Attrs, o: &ObservationsDb<Oa>, h: &[u64]) -> bool {
        self.min_u <= a.u
            && self.cls.map(|c| o.contains_key(&c)).unwrap_or(true)
            && self.hh.map(|x| h.contains(&x)).unwrap_or(true)
    }
}

impl TrackAttributesUpdate<Attrs> for Upd {
    fn apply(&self, a: &mut Attrs) -> Result<()> {
        let mut w = world();
        let idx = w.na;
        w.na += 1;
        a.u += self.add;
        a.m += 1;
        if self.fail || w.fa.contains(&idx) {
            Err(ScriptErr::Apply.into())
        } else {
            Ok(())
        }
    }
}

impl TrackAttributes<Attrs, Oa> for Attrs {
    type Update = Upd;
    type Lookup = Lq;

    fn compatible(&self, other: &Attrs) -> bool {
        (self.u + other.u) % 2 == 0
    }

    fn merge(&mut self, other: &Attrs) -> Result<()> {
        let mut w = world();
        let idx = w.nm;
        w.nm += 1;
        self.u += other.u;
        self.m += other.m + 1;
        self.o += other.o;
        if w.fm.contains(&idx) || self.u % 5 == 4 {
            Err(ScriptErr::Merge.into())
        } else {
            Ok(())
        }
    }

    fn baked(&self, o: &ObservationsDb<Oa>) -> Result<TrackStatus> {
        let total: usize = o.values().map(|v| v.len()).sum();
        if self.u % 5 == 3 {
            Err(ScriptErr::Baked.into())
        } else if total == 0 {
            Ok(TrackStatus::Pending)
        } else if self.m % 3 == 2 {
            Ok(TrackStatus::Wasted)
        } else if total >= 2 {
            Ok(TrackStatus::Ready)
        } else {
            Ok(TrackStatus::Pending)
        }
    }
}

#[derive(Clone, Debug, Default)]
struct Metric {
    calls: u64,
    acc: u64,
}

const CAP: usize = 3;
const POISON: u64 = 7;
const DRAIN: u64 = 9;

fn okey(o: &Observation<Oa>) -> u64 {
    match o.attr() {
        Some(x) => x.0 + 1,
        None => 0,
    }
}

impl ObservationMetric<Attrs, Oa> for Metric {
    fn metric(&self, mq: &MetricQuery<'_, Attrs, Oa>) -> MetricOutput<u64> {
        Some((
            Oa::calculate_metric_object(&mq.candidate_observation.attr().as_ref(), &mq.track_observation.attr().as_ref()),
            None,
        ))
    }

    fn optimize(
        &mut self,
        cls: u64,
        h: &[u64],
        a: &mut Attrs,
        v: &mut Vec<Observation<Oa>>,
        prev: usize,
        is_merge: bool,
    ) -> Result<()> {
        if PROBE.load(Ordering::SeqCst) {
            // getter for the (private) metric state: leaves the world alone
            a.u = self.calls;
            a.m = self.acc;
            return Ok(());
        }
        let mut w = world();
        let idx = w.no;
        w.no += 1;
        w.log.push(cls);
        self.calls += 1;
        self.acc += cls + prev as u64 + (if is_merge { 1 } else { 0 }) + 3 * h.len() as u64 + h.last().copied().unwrap_or(0) % 97;
        a.m += h.len() as u64;
        a.o += v.len() as u64;
        v.sort_by(|x, y| okey(y).cmp(&okey(x)));
        v.truncate(CAP);
        if v.iter().any(|o| matches!(o.attr(), Some(x) if x.0 == DRAIN)) {
            // "drain": the class keeps its key but loses every observation
            v.clear();
        }
        let poisoned = v.iter().any(|o| matches!(o.attr(), Some(x) if x.0 == POISON));
        if w.fo.contains(&idx) || poisoned {
            Err(ScriptErr::Optimize.into())
        } else {
            Ok(())
        }
    }
}

#[derive(Clone)]
struct Counting(Arc<AtomicUsize>);
impl ChangeNotifier for Counting {
    fn send(&mut self, _id: u64) {
        self.0.fetch_add(1, Ordering::SeqCst);
    }
}

type T = Track<Attrs, Metric, Oa, Counting>;
type Store = TrackStore<Attrs, Metric, Oa, Counting>;

// ------------------------------------------------------------------------------------------------
// scripts

#[derive(Clone, Debug)]
struct Spec {
    cls: u64,
    oa: Option<u64>,
    f: Option<u64>,
    upd: Option<(u64, bool)>,
}

#[derive(Clone, Debug)]
enum Op {
    BA(u64, Vec<Spec>),
    AD(u64, Spec),
    FE(Vec<u64>),
    MO(u64, u64, Option<Vec<u64>>, bool, bool),
    ME(bool, u64, u64, Option<Vec<u64>>, bool, Vec<Spec>),
    LK(u64, Option<u64>, Option<u64>),
    FU,
    CL,
    ST,
    NT(u64),
    TN(u64, u64),
    TA(u64, Spec),
    TM(u64, u64, Vec<u64>, bool),
}

fn plist(s: &str) -> Vec<u64> {
    if s == "-" || s.is_empty() {
        vec![]
    } else {
        s.split(',').map(|x| x.parse().unwrap()).collect()
    }
}

fn popt(s: &str) -> Option<u64> {
    if s == "n" {
        None
    } else {
        Some(s.parse().unwrap())
    }
}

fn pcls(s: &str) -> Option<Vec<u64>> {
    if s == "N" {
        None
    } else {
        Some(plist(s))
    }
}

fn pspec(s: &str) -> Spec {
    let p: Vec<&str> = s.split(':').collect();
    let upd = if p[3] == "n" {
        None
    } else {
        let fail = p[3].ends_with('!');
        Some((p[3][..p[3].len() - 1].parse().unwrap(), fail))
    };
    Spec { cls: p[0].parse().unwrap(), oa: popt(p[1]), f: popt(p[2]), upd }
}

fn pbool(s: &str) -> bool {
    s == "1"
}

fn pop(s: &str) -> Op {
    let t: Vec<&str> = s.split_whitespace().collect();
    let n = |i: usize| -> u64 { t[i].parse().unwrap() };
    match t[0] {
        "BA" => Op::BA(n(1), t[2..].iter().map(|x| pspec(x)).collect()),
        "AD" => Op::AD(n(1), pspec(t[2])),
        "FE" => Op::FE(plist(t[1])),
        "MO" => Op::MO(n(1), n(2), pcls(t[3]), pbool(t[4]), pbool(t[5])),
        "ME" | "MN" => Op::ME(t[0] == "MN", n(1), n(2), pcls(t[3]), pbool(t[4]), t[5..].iter().map(|x| pspec(x)).collect()),
        "LK" => Op::LK(n(1), popt(t[2]), popt(t[3])),
        "FU" => Op::FU,
        "CL" => Op::CL,
        "ST" => Op::ST,
        "NT" => Op::NT(n(1)),
        "TN" => Op::TN(n(1), n(2)),
        "TA" => Op::TA(n(1), pspec(t[2])),
        "TM" => Op::TM(n(1), n(2), plist(t[3]), pbool(t[4])),
        other => panic!("unknown op {}", other),
    }
}

struct Script {
    kind: char,
    case: String,
    shards: usize,
    plan: (Vec<u64>, Vec<u64>, Vec<u64>),
    enumerate: bool,
    ops: Vec<Op>,
}

fn pscript(line: &str) -> Script {
    let (head, body) = line.split_once("::").unwrap();
    let h: Vec<&str> = head.split_whitespace().collect();
    let mut s = Script { kind: h[0].chars().next().unwrap(), case: h[1].to_string(), shards: 1, plan: (vec![], vec![], vec![]), enumerate: false, ops: vec![] };
    for kv in &h[2..] {
        let (k, v) = kv.split_once('=').unwrap();
        match k {
            "shards" => s.shards = v.parse().unwrap(),
            "enum" => s.enumerate = v == "1",
            "plan" => {
                let p: Vec<&str> = v.split('/').collect();
                s.plan = (plist(p[0]), plist(p[1]), plist(p[2]));
            }
            _ => panic!("unknown key {}", k),
        }
    }
    s.ops = body.split(';').map(|x| x.trim()).filter(|x| !x.is_empty()).map(pop).collect();
    s
}

// ------------------------------------------------------------------------------------------------
// dumps (JSON by hand)

fn jlist(items: &[String]) -> String {
    format!("[{}]", items.join(","))
}

fn jnums(xs: &[u64]) -> String {
    jlist(&xs.iter().map(|x| x.to_string()).collect::<Vec<_>>())
}

fn jopt(x: Option<u64>) -> String {
    match x {
        Some(v) => v.to_string(),
        None => "null".into(),
    }
}

fn feat(k: u64) -> Feature {
    Feature::from_vec(vec![k as f32])
}

fn unfeat(f: &Feature) -> u64 {
    Vec::<f32>::from_vec(f)[0] as u64
}

/// the private metric state, read through a probe `add_observation` on a clone
fn metric_state(t: &T, notes: &Arc<AtomicUsize>) -> (u64, u64) {
    let saved = notes.load(Ordering::SeqCst);
    let mut c = t.clone();
    PROBE.store(true, Ordering::SeqCst);
    let _ = c.add_observation(u64::MAX, Some(Oa(0)), None, None);
    PROBE.store(false, Ordering::SeqCst);
    notes.store(saved, Ordering::SeqCst);
    (c.get_attributes().u, c.get_attributes().m)
}

/// every class the track has a vector for, found through `get_observations` (independent of
/// `get_feature_classes`, which is dumped as a getter of its own): the scripts use classes 0..=16
fn all_classes(t: &T) -> Vec<u64> {
    let mut cs: Vec<u64> = (0..=16u64).filter(|c| t.get_observations(*c).is_some()).collect();
    for c in t.get_feature_classes() {
        if !cs.contains(&c) {
            cs.push(c);
        }
    }
    cs.sort();
    cs
}

fn dump_track(t: &T, notes: &Arc<AtomicUsize>) -> String {
    let a = t.get_attributes();
    let mut fc = t.get_feature_classes();
    fc.sort();
    let classes = all_classes(t);
    let mut obs = vec![];
    for c in &classes {
        let v = t.get_observations(*c).unwrap();
        let items: Vec<String> = v
            .iter()
            .map(|o| format!("[{},{}]", jopt(o.attr().as_ref().map(|x| x.0)), jopt(o.feature().as_ref().map(unfeat))))
            .collect();
        obs.push(format!("[{},{}]", c, jlist(&items)));
    }
    let (calls, acc) = metric_state(t, notes);
    format!(
        "{{\"id\":{},\"a\":[{},{},{}],\"obs\":{},\"ms\":[{},{}],\"h\":{},\"fc\":{}}}",
        t.get_track_id(),
        a.u,
        a.m,
        a.o,
        jlist(&obs),
        calls,
        acc,
        jnums(t.get_merge_history()),
        jnums(&fc)
    )
}

fn ecode(e: &anyhow::Error) -> (u64, u64) {
    if let Some(x) = e.downcast_ref::<Errors>() {
        return match x {
            Errors::DuplicateTrackId(id) => (4, *id),
            Errors::TrackNotFound(id) => (5, *id),
            Errors::SameTrackCalculation(id) => (6, *id),
            _ => (90, 0),
        };
    }
    if let Some(x) = e.downcast_ref::<ScriptErr>() {
        return match x {
            ScriptErr::Apply => (1, 0),
            ScriptErr::Merge => (2, 0),
            ScriptErr::Optimize => (3, 0),
            ScriptErr::Baked => (7, 0),
        };
    }
    (99, 0)
}

fn scode(s: &Result<TrackStatus>) -> u64 {
    match s {
        Ok(TrackStatus::Ready) => 0,
        Ok(TrackStatus::Pending) => 1,
        Ok(TrackStatus::Wasted) => 2,
        Err(_) => 3,
    }
}

fn dump_shards(store: &Store, n: usize, notes: &Arc<AtomicUsize>) -> String {
    let mut shards = vec![];
    for k in 0..n {
        let g = store.get_store(k);
        let mut items: BTreeMap<u64, String> = BTreeMap::new();
        for (key, t) in g.iter() {
            // the key under which the track is stored is part of the dump
            items.insert(*key, format!("[{},{}]", key, dump_track(t, notes)));
        }
        shards.push(jlist(&items.into_values().collect::<Vec<_>>()));
    }
    jlist(&shards)
}

// ------------------------------------------------------------------------------------------------
// running

fn build_track(b: TrackBuilder<Attrs, Metric, Oa, Counting>, specs: &[Spec]) -> Result<T> {
    let mut b = b;
    for s in specs {
        b = b.observation((s.cls, s.oa.map(Oa), s.f.map(feat), s.upd.map(|(add, fail)| Upd { add, fail })));
    }
    b.build()
}

struct StepOut {
    tag: u64,
    code: (u64, u64),
    ids: Vec<u64>,
    status: Vec<(u64, u64)>,
    tracks: Vec<String>,
    notes: usize,
    order: Vec<u64>,
    w0: (u64, u64, u64), // invocation counters when the operation proper starts (after the build phase of ME / MN)
    extra: String, // ,"ext":{..} / ,"direct":{..}
}

impl StepOut {
    fn new(tag: u64) -> Self {
        StepOut { tag, code: (0, 0), ids: vec![], status: vec![], tracks: vec![], notes: 0, order: vec![], w0: (0, 0, 0), extra: String::new() }
    }
    fn json(&self, after: &str) -> String {
        let st: Vec<String> = self.status.iter().map(|(i, s)| format!("[{},{}]", i, s)).collect();
        format!(
            "{{\"r\":[{},{},{}],\"ids\":{},\"status\":{},\"tracks\":{},\"n\":{},\"order\":{},\"w0\":[{},{},{}]{}{}}}",
            self.tag,
            self.code.0,
            self.code.1,
            jnums(&self.ids),
            jlist(&st),
            jlist(&self.tracks),
            self.notes,
            jnums(&self.order),
            self.w0.0,
            self.w0.1,
            self.w0.2,
            self.extra,
            after
        )
    }
}

fn code_of<X>(r: &Result<X>) -> (u64, u64) {
    match r {
        Ok(_) => (0, 0),
        Err(e) => ecode(e),
    }
}

/// Independent reading for the merge oracle: Track::merge called directly on a clone of the destination.
fn direct_merge(dest: &T, src: &T, cls: &Option<Vec<u64>>, mh: bool, notes: &Arc<AtomicUsize>) -> String {
    let saved_w = world().clone();
    let saved_n = notes.load(Ordering::SeqCst);
    let mut d = dest.clone();
    let classes = match cls {
        Some(c) if !c.is_empty() => c.clone(),
        _ => all_classes(src), // "all classes defined in src"
    };
    let r = d.merge(src, &classes, mh);
    let n = notes.load(Ordering::SeqCst) - saved_n;
    *world() = saved_w;
    notes.store(saved_n, Ordering::SeqCst);
    let c = code_of(&r);
    format!(",\"direct\":{{\"r\":[{},{}],\"n\":{},\"track\":{},\"src\":{}}}", c.0, c.1, n, dump_track(&d, notes), dump_track(src, notes))
}

fn run_store(s: &Script, plan: &(Vec<u64>, Vec<u64>, Vec<u64>)) -> (String, Vec<(u64, u64, u64)>) {
    *world() = World { fa: plan.0.clone(), fm: plan.1.clone(), fo: plan.2.clone(), ..Default::default() };
    let notes = Arc::new(AtomicUsize::new(0));
    let mut store: Store = TrackStore::new(Metric::default(), Attrs::default(), Counting(notes.clone()), s.shards);
    let mut steps = vec![];
    let mut counters = vec![];
    for op in &s.ops {
        {
            let w = world();
            counters.push((w.na, w.nm, w.no));
        }
        world().log.clear();
        let n0 = notes.load(Ordering::SeqCst);
        let mut out;
        match op {
            Op::BA(id, specs) => {
                let r = build_track(store.new_track(*id), specs);
                match r {
                    Err(e) => {
                        out = StepOut::new(8);
                        out.code = ecode(&e);
                    }
                    Ok(t) => {
                        out = StepOut::new(1);
                        let r = store.add_track(t);
                        out.code = code_of(&r);
                        if let Ok(id) = r {
                            out.ids.push(id);
                        }
                    }
                }
            }
            Op::AD(id, sp) => {
                out = StepOut::new(2);
                let missing = !store.get_store(*id as usize).contains_key(id);
                if missing {
                    // oracle: what building externally would give (world and notification count restored)
                    let saved_w = world().clone();
                    let r = build_track(store.new_track(*id), std::slice::from_ref(sp));
                    let n = notes.load(Ordering::SeqCst) - n0;
                    let c = code_of(&r);
                    out.extra = format!(
                        ",\"ext\":{{\"r\":[{},{}],\"n\":{},\"track\":{}}}",
                        c.0,
                        c.1,
                        n,
                        match &r {
                            Ok(t) => dump_track(t, &notes),
                            Err(_) => "null".into(),
                        }
                    );
                    *world() = saved_w;
                    world().log.clear();
                    notes.store(n0, Ordering::SeqCst);
                }
                let r = store.add(*id, sp.cls, sp.oa.map(Oa), sp.f.map(feat), sp.upd.map(|(add, fail)| Upd { add, fail }));
                out.code = code_of(&r);
            }
            Op::FE(ids) => {
                out = StepOut::new(3);
                let ts = store.fetch_tracks(ids);
                out.tracks = ts.iter().map(|t| dump_track(t, &notes)).collect();
            }
            Op::MO(dst, src, cls, rm, mh) => {
                out = StepOut::new(4);
                let d = store.get_store(*dst as usize).get(dst).cloned();
                let sr = store.get_store(*src as usize).get(src).cloned();
                if let (Some(d), Some(sr)) = (&d, &sr) {
                    if dst != src {
                        out.extra = direct_merge(d, sr, cls, *mh, &notes);
                    }
                }
                let r = store.merge_owned(*dst, *src, cls.as_deref(), *rm, *mh);
                out.code = code_of(&r);
                if let Ok(Some(t)) = &r {
                    out.tracks.push(dump_track(t, &notes));
                }
            }
            Op::ME(noblock, dst, id, cls, mh, specs) => {
                let r = build_track(store.new_track(*id), specs);
                match r {
                    Err(e) => {
                        out = StepOut::new(8);
                        out.code = ecode(&e);
                    }
                    Ok(t) => {
                        out = StepOut::new(2);
                        world().log.clear();
                        {
                            let w = world();
                            out.w0 = (w.na, w.nm, w.no);
                        }
                        out.extra = format!(",\"nb\":{}", notes.load(Ordering::SeqCst) - n0);
                        let d = store.get_store(*dst as usize).get(dst).cloned();
                        if let Some(d) = &d {
                            if *dst != t.get_track_id() {
                                out.extra += &direct_merge(d, &t, cls, *mh, &notes);
                            }
                        }
                        let r = if *noblock {
                            match store.merge_external_noblock(*dst, t, cls.as_deref(), *mh) {
                                Ok(fut) => fut.get(),
                                Err(e) => Err(e),
                            }
                        } else {
                            store.merge_external(*dst, &t, cls.as_deref(), *mh)
                        };
                        out.code = code_of(&r);
                    }
                }
            }
            Op::LK(min_u, cls, hh) => {
                out = StepOut::new(5);
                let mut r: Vec<(u64, u64)> = store.lookup(Lq { min_u: *min_u, cls: *cls, hh: *hh }).iter().map(|(i, s)| (*i, scode(s))).collect();
                r.sort();
                out.status = r;
            }
            Op::FU => {
                out = StepOut::new(5);
                let mut r: Vec<(u64, u64)> = store.find_usable().iter().map(|(i, s)| (*i, scode(s))).collect();
                r.sort();
                out.status = r;
            }
            Op::CL => {
                out = StepOut::new(2);
                store.clear();
            }
            Op::ST => {
                out = StepOut::new(6);
                out.ids = store.shard_stats().iter().map(|x| *x as u64).collect();
            }
            Op::NT(id) => {
                out = StepOut::new(7);
                let r = store.new_track(*id).build();
                out.code = code_of(&r);
                if let Ok(t) = &r {
                    out.tracks.push(dump_track(t, &notes));
                }
            }
            _ => panic!("track op in a store script"),
        }
        out.notes = notes.load(Ordering::SeqCst) - n0;
        out.order = world().log.clone();
        if out.w0 == (0, 0, 0) {
            out.w0 = *counters.last().unwrap();
        }
        let shards = dump_shards(&store, s.shards, &notes);
        steps.push(out.json(&format!(",\"shards\":{}", shards)));
    }
    {
        let w = world();
        counters.push((w.na, w.nm, w.no));
    }
    (jlist(&steps), counters)
}

fn run_track(s: &Script, plan: &(Vec<u64>, Vec<u64>, Vec<u64>)) -> (String, Vec<(u64, u64, u64)>) {
    *world() = World { fa: plan.0.clone(), fm: plan.1.clone(), fo: plan.2.clone(), ..Default::default() };
    let notes = Arc::new(AtomicUsize::new(0));
    let mut regs: BTreeMap<u64, T> = BTreeMap::new();
    let mut steps = vec![];
    let mut counters = vec![];
    for op in &s.ops {
        {
            let w = world();
            counters.push((w.na, w.nm, w.no));
        }
        world().log.clear();
        let n0 = notes.load(Ordering::SeqCst);
        let mut out = StepOut::new(0);
        let mut written: Option<u64> = None;
        match op {
            Op::TN(r, id) => {
                let t: T = TrackBuilder::new(*id).metric(Metric::default()).attributes(Attrs::default()).notifier(Counting(notes.clone())).build().unwrap();
                regs.insert(*r, t);
                written = Some(*r);
            }
            Op::TA(r, sp) => {
                if let Some(t) = regs.get_mut(r) {
                    let res = t.add_observation(sp.cls, sp.oa.map(Oa), sp.f.map(feat), sp.upd.map(|(add, fail)| Upd { add, fail }));
                    out.code = code_of(&res);
                    written = Some(*r);
                } else {
                    out.code = (99, 0);
                }
            }
            Op::TM(rd, rs, cls, mh) => {
                let src = regs.get(rs).cloned();
                match (regs.get_mut(rd), src) {
                    (Some(d), Some(sr)) => {
                        let res = d.merge(&sr, cls, *mh);
                        out.code = code_of(&res);
                        written = Some(*rd);
                    }
                    _ => out.code = (99, 0),
                }
            }
            _ => panic!("store op in a track script"),
        }
        out.notes = notes.load(Ordering::SeqCst) - n0;
        out.order = world().log.clone();
        out.w0 = *counters.last().unwrap();
        if let Some(r) = written {
            out.tracks.push(dump_track(&regs[&r], &notes));
        }
        steps.push(out.json(""));
    }
    {
        let w = world();
        counters.push((w.na, w.nm, w.no));
    }
    (jlist(&steps), counters)
}

fn run_script(s: &Script, plan: &(Vec<u64>, Vec<u64>, Vec<u64>)) -> (String, Vec<(u64, u64, u64)>) {
    if s.kind == 'S' {
        run_store(s, plan)
    } else {
        run_track(s, plan)
    }
}

fn emit(s: &Script, sub: &str, plan: &(Vec<u64>, Vec<u64>, Vec<u64>), fault: &str) -> Vec<(u64, u64, u64)> {
    let r = guarded(|| run_script(s, plan));
    match r {
        Some((steps, counters)) => {
            println!(
                "{{\"case\":\"{}{}\",\"plan\":[{},{},{}],\"fault\":\"{}\",\"steps\":{}}}",
                s.case,
                sub,
                jnums(&plan.0),
                jnums(&plan.1),
                jnums(&plan.2),
                fault,
                steps
            );
            counters
        }
        None => {
            println!("{{\"case\":\"{}{}\",\"plan\":[{},{},{}],\"fault\":\"{}\",\"panic\":true}}", s.case, sub, jnums(&plan.0), jnums(&plan.1), jnums(&plan.2), fault);
            vec![]
        }
    }
}

fn main() {
    quiet_panics();
    let a = parse_args();
    match a.cmd.as_str() {
        "run" => {
            let text = std::fs::read_to_string(a.file.expect("--file")).unwrap();
            for line in text.lines() {
                let line = line.trim();
                if line.is_empty() || line.starts_with('#') {
                    continue;
                }
                let s = pscript(line);
                let counters = emit(&s, "", &s.plan, "");
                if s.enumerate && counters.len() >= 2 {
                    let before = counters[counters.len() - 2];
                    let after = counters[counters.len() - 1];
                    for k in before.0..after.0 {
                        let mut p = s.plan.clone();
                        p.0.push(k);
                        emit(&s, &format!("/a{}", k - before.0), &p, &format!("apply#{}", k - before.0));
                    }
                    for k in before.1..after.1 {
                        let mut p = s.plan.clone();
                        p.1.push(k);
                        emit(&s, &format!("/m{}", k - before.1), &p, &format!("merge#{}", k - before.1));
                    }
                    for k in before.2..after.2 {
                        let mut p = s.plan.clone();
                        p.2.push(k);
                        emit(&s, &format!("/o{}", k - before.2), &p, &format!("optimize#{}", k - before.2));
                    }
                }
            }
        }
        other => {
            eprintln!("unknown command {}", other);
            std::process::exit(2);
        }
    }
}
