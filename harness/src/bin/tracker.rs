//! SORT tracker correspondence harness (Sort, BatchSort, VisualSort and BatchVisualSort of the real crate).
//!
//!   tracker gen --seed S --n N [--tier quick|thorough] [--kinds sort|visual]   prints N history specs
//!   tracker run --file F                                                        executes the specs of F on the real code
//!
//! Spec format (one item per line):
//!   hist k=<k> tracker=<sort|batch|visual|batchvisual> shards=.. vshards=.. history=.. max_idle=..
//!        metric=<iou:BITS|maha> minconf=<BITS> constraints=<-|gap:BITS,..|gap:BITS,..>
//!        and, only for tracker=visual|batchvisual, appended in this order:
//!        vis=<euc|cos>:<BITS> votes=<n> minlen=<n> maxobs=<n> quse=<BITS> qcol=<BITS>
//!   op predict scene=<s> dets=<DET>;<DET>...
//!   op batch scenes=<s>@<DET>;<DET>|<s>@...
//!   op skip scene=<s> n=<n> | op wasted | op idle scene=<s> | op clear | op setaw p=<p>
//!   op astats | op wstats | op epoch scene=<s>
//!   end
//!   DET := uid:xc:yc:angle:aspect:height:conf:custom   (f32 as decimal bit patterns; angle/custom may be `n`)
//!   DET (visual kinds) := uid:xc:yc:angle:aspect:height:conf:custom:q:feat   (q = BITS or `n`; feat = `n` or
//!        the feature vector as `/`-separated BITS)
//!
//! Result format: the hist line, then per op `op <i> <text>`, for predict/batch the oracle table
//! (`tab <uid> <tid>,<W>,<D2RBITS> ...`, computed before the call from the stored tracks with the
//! implementation's own metric; for the visual kinds W is the positional weight of the first observation of the
//! stored track that yields one, else `v` if some observation yields a feature distance, else `n`), one `res ...`
//! line, then `main ...` / `wst ...` (physical stores).
use std::collections::{HashMap, HashSet, VecDeque};
use std::io::Write;
use std::sync::atomic::{AtomicU64, Ordering};
use std::sync::Arc;

use similari::prelude::{
    BatchSort, NoopNotifier, ObservationBuilder, PositionalMetricType, Sort, SortTrack,
    SpatioTemporalConstraints, Universal2DBox, VisualSort, VisualSortMetricType, VisualSortObservation,
    VisualSortOptions,
};
use similari::track::utils::FromVec;
use similari::track::{
    Feature, MetricQuery, ObservationAttributes, ObservationMetric, Track, TrackAttributes,
};
use similari::trackers::batch::PredictionBatchRequest;
use similari::trackers::sort::metric::SortMetric;
use similari::trackers::sort::{SortAttributes, SortAttributesOptions, SortAttributesUpdate};
use similari::trackers::tracker_api::TrackerAPI;
use similari::trackers::visual_sort::batch_api::BatchVisualSort;
use similari::trackers::visual_sort::metric::{VisualMetric, VisualMetricOptions};
use similari::trackers::visual_sort::observation_attributes::VisualObservationAttributes;
use similari::trackers::visual_sort::track_attributes::{VisualAttributes, VisualAttributesUpdate};
use similari_verif_harness::*;

type STrack = Track<SortAttributes, SortMetric, Universal2DBox, NoopNotifier>;
type VTrack = Track<VisualAttributes, VisualMetric, VisualObservationAttributes, NoopNotifier>;
type DynApi<TA, M, OA> = dyn TrackerAPI<TA, M, OA, SortAttributesOptions, NoopNotifier>;
type Api = DynApi<SortAttributes, SortMetric, Universal2DBox>;
type VApi = DynApi<VisualAttributes, VisualMetric, VisualObservationAttributes>;
type Key = (u32, u32, u32, u32, u32, u32);

// ---------------------------------------------------------------------------------------------
// common data
// ---------------------------------------------------------------------------------------------

#[derive(Clone, Copy, Debug)]
struct BoxSpec {
    xc: f32,
    yc: f32,
    angle: Option<f32>,
    aspect: f32,
    height: f32,
    conf: f32,
}

fn angle_key(a: Option<f32>) -> u32 {
    match a {
        None => 0,
        Some(a) if a == 0.0 => 0,
        Some(a) => a.to_bits(),
    }
}

impl BoxSpec {
    fn key(&self) -> Key {
        (
            self.xc.to_bits(),
            self.yc.to_bits(),
            angle_key(self.angle),
            self.aspect.to_bits(),
            self.height.to_bits(),
            self.conf.to_bits(),
        )
    }
    fn to_box(self) -> Universal2DBox {
        Universal2DBox::new_with_confidence(self.xc, self.yc, self.angle, self.aspect, self.height, self.conf)
    }
}

fn key_of(b: &Universal2DBox) -> Key {
    (
        b.xc.to_bits(),
        b.yc.to_bits(),
        angle_key(b.angle),
        b.aspect.to_bits(),
        b.height.to_bits(),
        b.confidence.to_bits(),
    )
}

/// appearance part of a detection of the visual kinds: (feature quality, feature vector)
type VisPart = (Option<f32>, Option<Vec<f32>>);

#[derive(Clone, Debug)]
struct Det {
    uid: u64,
    b: BoxSpec,
    custom: Option<i64>,
    /// Some only in the 10-field form of the visual kinds
    vis: Option<VisPart>,
}

fn fmt_custom(c: Option<i64>) -> String {
    match c {
        None => "n".to_string(),
        Some(x) => x.to_string(),
    }
}

fn fmt_det(d: &Det) -> String {
    let base = format!(
        "{}:{}:{}:{}:{}:{}:{}:{}",
        d.uid,
        f32b(d.b.xc),
        f32b(d.b.yc),
        match d.b.angle {
            None => "n".to_string(),
            Some(a) => f32b(a),
        },
        f32b(d.b.aspect),
        f32b(d.b.height),
        f32b(d.b.conf),
        fmt_custom(d.custom)
    );
    match &d.vis {
        None => base,
        Some((q, feat)) => format!(
            "{}:{}:{}",
            base,
            match q {
                None => "n".to_string(),
                Some(q) => f32b(*q),
            },
            match feat {
                None => "n".to_string(),
                Some(v) => v.iter().map(|x| f32b(*x)).collect::<Vec<_>>().join("/"),
            }
        ),
    }
}

fn fmt_dets(ds: &[Det]) -> String {
    ds.iter().map(fmt_det).collect::<Vec<_>>().join(";")
}

// ---------------------------------------------------------------------------------------------
// generator
// ---------------------------------------------------------------------------------------------

const SCENE_IDS: [u64; 5] = [0, 1, 2, 3, 7];
const LIMITS: [f32; 5] = [0.25, 0.5, 1.0, 2.0, 4.0];
const IOU_THRESHOLDS: [f32; 3] = [0.3, 0.1, 0.5];
const ASPECTS: [f32; 3] = [0.5, 1.0, 2.0];
const HEIGHTS: [f32; 4] = [20.0, 40.0, 60.0, 80.0];
const ANGLES: [f32; 9] = [0.25, 0.25, 0.5, 0.5, 1.0, 1.0, -0.5, -0.5, 0.0];
const LOW_CONF: [f32; 3] = [0.9, 0.5, 0.25];
const HEIGHT_JITTER: [f32; 5] = [-0.5, 0.0, 0.0, 0.0, 0.5];
const AUTO_WASTE: [usize; 4] = [0, 1, 2, 100];
const MAX_DETS: usize = 8;
const WORLD: f32 = 400.0;

const FAM_GENERAL: u64 = 0;
const FAM_CROWDED: u64 = 1;
const FAM_LIFECYCLE: u64 = 2;
const FAM_DUPLICATES: u64 = 3;
const FAM_CONSTRAINTS: u64 = 4;

// weights: predict, skip, wasted, idle, clear, setaw, astats, wstats, epoch
const W_GENERAL: [u64; 9] = [61, 6, 7, 7, 3, 4, 4, 4, 4];
const W_CROWDED: [u64; 9] = [88, 2, 2, 2, 1, 1, 1, 2, 1];
const W_LIFECYCLE: [u64; 9] = [38, 12, 11, 11, 6, 6, 5, 6, 5];
const W_CONSTRAINTS: [u64; 9] = [66, 8, 5, 6, 2, 3, 3, 3, 4];

#[derive(Clone)]
struct Obj {
    x: f32,
    y: f32,
    vx: f32,
    vy: f32,
    aspect: f32,
    height: f32,
    angle: Option<f32>,
    conf: f32,
    hidden: u32,
    last: Option<BoxSpec>,
}

struct PreDet {
    b: BoxSpec,
    force_some: bool,
}

struct World {
    scene: u64,
    objs: Vec<Obj>,
}

struct Gen {
    rng: Rng,
    family: u64,
    rotated: bool,
    anchors: Vec<(f32, f32)>,
    next_uid: u64,
    none_keys: HashSet<Key>,
}

fn clamp_world(v: f32) -> f32 {
    if v < 0.0 {
        0.0
    } else if v > WORLD {
        WORLD
    } else {
        v
    }
}

fn bounce(p: &mut f32, v: &mut f32) {
    *p += *v;
    if *p < 0.0 {
        *p = 0.0 - *p;
        *v = 0.0 - *v;
    }
    if *p > WORLD {
        *p = 2.0 * WORLD - *p;
        *v = 0.0 - *v;
    }
    *p = clamp_world(*p);
    // never produce -0.0
    if *p == 0.0 {
        *p = 0.0;
    }
    if *v == 0.0 {
        *v = 0.0;
    }
}

impl Gen {
    fn spawn(&mut self, near: (f32, f32)) -> Obj {
        let height = *self.rng.pick(&HEIGHTS);
        let aspect = *self.rng.pick(&ASPECTS);
        let (ox, oy) = if self.family == FAM_CROWDED {
            // centres within a quarter of the height: mutually overlapping
            let h = height as i64;
            (self.rng.dyadic(-h, h, 2), self.rng.dyadic(-h, h, 2))
        } else {
            (self.rng.dyadic(-160, 160, 2), self.rng.dyadic(-160, 160, 2))
        };
        let (mut vx, mut vy) = match self.family {
            FAM_CROWDED => (self.rng.dyadic(-16, 16, 2), self.rng.dyadic(-16, 16, 2)),
            FAM_CONSTRAINTS if self.rng.chance(1, 2) => {
                let sx = if self.rng.chance(1, 2) { 1.0 } else { -1.0 };
                let sy = if self.rng.chance(1, 2) { 1.0 } else { -1.0 };
                (sx * self.rng.dyadic(40, 160, 2), sy * self.rng.dyadic(0, 120, 2))
            }
            _ => (self.rng.dyadic(-8, 8, 2), self.rng.dyadic(-8, 8, 2)),
        };
        if vx == 0.0 {
            vx = 0.0;
        }
        if vy == 0.0 {
            vy = 0.0;
        }
        let angle = if self.rotated && self.rng.chance(7, 10) { Some(*self.rng.pick(&ANGLES)) } else { None };
        let conf = if self.rng.chance(8, 10) { 1.0 } else { *self.rng.pick(&LOW_CONF) };
        Obj {
            x: clamp_world(near.0 + ox),
            y: clamp_world(near.1 + oy),
            vx,
            vy,
            aspect,
            height,
            angle,
            conf,
            hidden: 0,
            last: None,
        }
    }

    /// advances the world of one scene by one call and returns the (shuffled, capped) detections
    fn emit(&mut self, w: &mut World) -> Vec<PreDet> {
        let lifecycle = self.family == FAM_LIFECYCLE || self.family == FAM_CONSTRAINTS;
        let mut out: Vec<PreDet> = vec![];
        let mut keep: Vec<Obj> = vec![];
        let objs = std::mem::take(&mut w.objs);
        for mut o in objs {
            if o.hidden > 0 {
                o.hidden -= 1;
                bounce(&mut o.x, &mut o.vx);
                bounce(&mut o.y, &mut o.vy);
                keep.push(o);
                continue;
            }
            if self.rng.chance(if lifecycle { 20 } else { 10 }, 100) {
                o.hidden = self.rng.range(1, 4) as u32;
                bounce(&mut o.x, &mut o.vx);
                bounce(&mut o.y, &mut o.vy);
                keep.push(o);
                continue;
            }
            if self.rng.chance(3, 100) {
                continue; // vanishes for good
            }
            if let Some(lb) = o.last {
                if self.rng.chance(15, 100) {
                    out.push(PreDet { b: lb, force_some: false });
                    keep.push(o);
                    continue;
                }
            }
            bounce(&mut o.x, &mut o.vx);
            bounce(&mut o.y, &mut o.vy);
            let (jx, jy, jh) = if self.rng.chance(3, 10) {
                (0.0, 0.0, 0.0)
            } else {
                (self.rng.dyadic(-4, 4, 2), self.rng.dyadic(-4, 4, 2), *self.rng.pick(&HEIGHT_JITTER))
            };
            let conf = if self.rng.chance(1, 10) {
                if self.rng.chance(1, 2) {
                    1.0
                } else {
                    *self.rng.pick(&LOW_CONF)
                }
            } else {
                o.conf
            };
            let mut xc = clamp_world(o.x + jx);
            let mut yc = clamp_world(o.y + jy);
            if xc == 0.0 {
                xc = 0.0;
            }
            if yc == 0.0 {
                yc = 0.0;
            }
            let b = BoxSpec { xc, yc, angle: o.angle, aspect: o.aspect, height: o.height + jh, conf };
            o.last = Some(b);
            out.push(PreDet { b, force_some: false });
            keep.push(o);
        }
        // arrivals (visible from the next call of this scene on)
        let p_new = if keep.is_empty() {
            60
        } else if self.family == FAM_CROWDED {
            15
        } else {
            10
        };
        if keep.len() < MAX_DETS && self.rng.chance(p_new, 100) {
            let near = if self.family == FAM_CROWDED && !keep.is_empty() {
                let o = &keep[self.rng.below(keep.len() as u64) as usize];
                (o.x, o.y)
            } else {
                *self.rng.pick(&self.anchors.clone())
            };
            let o = self.spawn(near);
            keep.push(o);
        }
        w.objs = keep;
        if self.rng.chance(5, 100) {
            out.clear(); // forced empty predict (on top of the calls where nothing is visible)
        }
        if self.family == FAM_DUPLICATES && !out.is_empty() && self.rng.chance(35, 100) {
            let i = self.rng.below(out.len() as u64) as usize;
            out[i].force_some = true;
            let b = out[i].b;
            out.push(PreDet { b, force_some: true });
        }
        self.rng.shuffle(&mut out);
        out.truncate(MAX_DETS);
        out
    }

    fn assign(&mut self, pre: Vec<PreDet>) -> Vec<Det> {
        let mut res = vec![];
        for p in pre {
            let uid = self.next_uid;
            self.next_uid += 1;
            let signed = if self.rng.chance(1, 2) { uid as i64 } else { -(uid as i64) };
            let want_none = !p.force_some && !self.rng.chance(8, 10);
            let custom = if want_none && self.none_keys.insert(p.b.key()) { None } else { Some(signed) };
            res.push(Det { uid, b: p.b, custom, vis: None });
        }
        res
    }
}

fn pick_weighted(rng: &mut Rng, w: &[u64; 9]) -> usize {
    let total: u64 = w.iter().sum();
    let mut x = rng.below(total);
    for (i, v) in w.iter().enumerate() {
        if x < *v {
            return i;
        }
        x -= *v;
    }
    0
}

fn gen_history(seed: u64, k: usize, thorough: bool) -> String {
    let base = Rng::new(seed).next();
    let mut rng = Rng::new(base ^ (k as u64 + 1).wrapping_mul(0xA24BAED4963EE407));
    rng.next();
    let batch = k % 3 == 2;
    let family = (k as u64 / 3) % 5;

    let shards = rng.range(1, 4);
    let vshards = rng.range(1, 3);
    let history = rng.range(1, 5);
    let max_idle = if family == FAM_LIFECYCLE { rng.range(0, 1) } else { rng.range(0, 3) };
    let metric =
        if rng.chance(6, 10) { format!("iou:{}", f32b(*rng.pick(&IOU_THRESHOLDS))) } else { "maha".to_string() };
    let constraints = if family == FAM_CONSTRAINTS || rng.chance(1, 2) {
        let ncalls = rng.range(1, 2);
        let mut calls = vec![];
        for _ in 0..ncalls {
            let n = rng.range(1, 3);
            let mut es = vec![];
            for _ in 0..n {
                let gap = rng.range(0, 3);
                let lim = *rng.pick(&LIMITS);
                es.push(format!("{}:{}", gap, f32b(lim)));
            }
            calls.push(es.join(","));
        }
        calls.join("|")
    } else {
        "-".to_string()
    };
    let nscenes = if family == FAM_CROWDED { rng.range(1, 2) } else { rng.range(1, 4) } as usize;
    let mut ids = SCENE_IDS.to_vec();
    rng.shuffle(&mut ids);
    ids.truncate(nscenes);
    let rotated = rng.chance(3, 10);
    let nanchors = if family == FAM_CROWDED { rng.range(1, 2) } else { rng.range(2, 4) };
    let mut anchors = vec![];
    for _ in 0..nanchors {
        anchors.push((rng.dyadic(240, 1360, 2), rng.dyadic(240, 1360, 2)));
    }
    let nops = if thorough { rng.range(10, 40) } else { rng.range(5, 25) } as usize;

    let mut g = Gen { rng, family, rotated, anchors, next_uid: 1, none_keys: HashSet::new() };

    // initial population: all scenes are populated around the same anchors
    let mut worlds: Vec<World> = vec![];
    for s in &ids {
        let mut objs = vec![];
        if family == FAM_CROWDED {
            let n = g.rng.range(3, 6);
            let a0 = g.anchors[0];
            for _ in 0..n {
                let o = g.spawn(a0);
                objs.push(o);
            }
            if g.anchors.len() > 1 {
                let m = g.rng.range(0, 2);
                let a1 = g.anchors[1];
                for _ in 0..m {
                    let o = g.spawn(a1);
                    objs.push(o);
                }
            }
        } else {
            let n = g.rng.range(1, 5);
            for _ in 0..n {
                let a = *g.rng.pick(&g.anchors.clone());
                let o = g.spawn(a);
                objs.push(o);
            }
        }
        worlds.push(World { scene: *s, objs });
    }

    let weights = match family {
        FAM_CROWDED => W_CROWDED,
        FAM_LIFECYCLE => W_LIFECYCLE,
        FAM_CONSTRAINTS => W_CONSTRAINTS,
        FAM_GENERAL | FAM_DUPLICATES => W_GENERAL,
        _ => W_GENERAL,
    };

    let mut out = String::new();
    out.push_str(&format!(
        "hist k={} tracker={} shards={} vshards={} history={} max_idle={} metric={} minconf={} constraints={}\n",
        k,
        if batch { "batch" } else { "sort" },
        shards,
        vshards,
        history,
        max_idle,
        metric,
        f32b(0.05),
        constraints
    ));

    let mut emitted = 0usize;
    let mut first_predict_done = false;
    if g.rng.chance(7, 10) {
        out.push_str(&format!("op setaw p={}\n", g.rng.pick(&AUTO_WASTE)));
        emitted += 1;
    }
    while emitted < nops {
        let kind = if !first_predict_done { 0 } else { pick_weighted(&mut g.rng, &weights) };
        // scene for the scene-addressed non-predict ops: mostly a scene of the history
        let any_scene = if g.rng.chance(9, 10) {
            worlds[g.rng.below(worlds.len() as u64) as usize].scene
        } else {
            *g.rng.pick(&SCENE_IDS)
        };
        match kind {
            0 => {
                first_predict_done = true;
                if batch && worlds.len() >= 2 && g.rng.chance(3, 10) {
                    let m = g.rng.range(2, worlds.len() as i64) as usize;
                    let mut idx: Vec<usize> = (0..worlds.len()).collect();
                    g.rng.shuffle(&mut idx);
                    idx.truncate(m);
                    let mut parts = vec![];
                    for i in idx {
                        let pre = g.emit(&mut worlds[i]);
                        let dets = g.assign(pre);
                        parts.push(format!("{}@{}", worlds[i].scene, fmt_dets(&dets)));
                    }
                    out.push_str(&format!("op batch scenes={}\n", parts.join("|")));
                } else {
                    let i = g.rng.below(worlds.len() as u64) as usize;
                    let pre = g.emit(&mut worlds[i]);
                    let dets = g.assign(pre);
                    out.push_str(&format!("op predict scene={} dets={}\n", worlds[i].scene, fmt_dets(&dets)));
                }
            }
            1 => out.push_str(&format!("op skip scene={} n={}\n", any_scene, g.rng.range(0, 3))),
            2 => out.push_str("op wasted\n"),
            3 => out.push_str(&format!("op idle scene={}\n", any_scene)),
            4 => out.push_str("op clear\n"),
            5 => out.push_str(&format!("op setaw p={}\n", g.rng.pick(&AUTO_WASTE))),
            6 => out.push_str("op astats\n"),
            7 => out.push_str("op wstats\n"),
            _ => out.push_str(&format!("op epoch scene={}\n", any_scene)),
        }
        emitted += 1;
    }
    out.push_str("end\n");
    out
}

// ---------------------------------------------------------------------------------------------
// generator for the visual kinds (`gen --kinds visual`)
// ---------------------------------------------------------------------------------------------

const V_SCENE_IDS: [u64; 4] = [0, 1, 2, 7];
const VIS_EUC: [f32; 3] = [0.5, 1.0, 2.0];
const VIS_COS: [f32; 2] = [0.2, 0.5];
const QUSE: [f32; 2] = [0.0, 0.3];
const QCOL: [f32; 2] = [0.0, 0.5];
const QUALITIES: [f32; 4] = [0.2, 0.5, 0.9, 1.0];
const FEAT_DIM: usize = 4;
const GRID: f32 = 0.25;

const VFAM_GENERAL: u64 = 0;
const VFAM_LOOKALIKE: u64 = 1;
const VFAM_LIFECYCLE: u64 = 2;
const VFAM_CONSTRAINTS: u64 = 3;
const VFAM_LONG: u64 = 4;
const VFAM_MISSING: u64 = 5;

const W_LOOKALIKE: [u64; 9] = [80, 3, 3, 4, 2, 2, 2, 2, 2];
const W_LONG: [u64; 9] = [88, 0, 0, 6, 0, 0, 0, 0, 6];

#[derive(Clone)]
struct VObj {
    o: Obj,
    base: Vec<f32>,
}

struct VPreDet {
    b: BoxSpec,
    force_some: bool,
    q: Option<f32>,
    feat: Option<Vec<f32>>,
}

struct VWorld {
    scene: u64,
    objs: Vec<VObj>,
    /// family B: the appearance shared by the lookalikes of this scene
    shared: Vec<f32>,
}

struct VGen {
    rng: Rng,
    family: u64,
    rotated: bool,
    anchors: Vec<(f32, f32)>,
    next_uid: u64,
    none_keys: HashSet<Key>,
}

fn pz(x: f32) -> f32 {
    // never -0.0
    if x == 0.0 {
        0.0
    } else {
        x
    }
}

fn base_feature(rng: &mut Rng) -> Vec<f32> {
    let mut v = vec![];
    for _ in 0..FEAT_DIM {
        v.push(pz(rng.dyadic(-8, 8, 2)));
    }
    if v.iter().all(|x| *x == 0.0) {
        v[0] = 1.0;
    }
    v
}

impl VGen {
    fn feature(&mut self, base: &[f32], forced: bool) -> Option<Vec<f32>> {
        let p_none = if self.family == VFAM_MISSING { 60 } else { 15 };
        if !forced && self.rng.chance(p_none, 100) {
            return None;
        }
        if self.rng.chance(3, 10) {
            return Some(base.to_vec());
        }
        let mut v = base.to_vec();
        for x in v.iter_mut() {
            if self.rng.chance(1, 2) {
                *x = pz(*x + self.rng.dyadic(-2, 2, 3));
            }
        }
        Some(v)
    }

    fn quality(&mut self) -> Option<f32> {
        if self.rng.chance(15, 100) {
            None
        } else if self.family == VFAM_MISSING && self.rng.chance(6, 10) {
            Some(0.2)
        } else {
            Some(*self.rng.pick(&QUALITIES))
        }
    }

    fn spawn(&mut self, near: (f32, f32), shared: &[f32]) -> VObj {
        let height = *self.rng.pick(&HEIGHTS);
        let aspect = *self.rng.pick(&ASPECTS);
        let (ox, oy) = (self.rng.dyadic(-160, 160, 2), self.rng.dyadic(-160, 160, 2));
        let (vx, vy) = if self.family == VFAM_CONSTRAINTS && self.rng.chance(1, 2) {
            let sx = if self.rng.chance(1, 2) { 1.0 } else { -1.0 };
            let sy = if self.rng.chance(1, 2) { 1.0 } else { -1.0 };
            (sx * self.rng.dyadic(40, 160, 2), sy * self.rng.dyadic(0, 120, 2))
        } else {
            (self.rng.dyadic(-8, 8, 2), self.rng.dyadic(-8, 8, 2))
        };
        let angle = if self.rotated && self.rng.chance(7, 10) { Some(*self.rng.pick(&ANGLES)) } else { None };
        let conf = if self.rng.chance(8, 10) { 1.0 } else { *self.rng.pick(&LOW_CONF) };
        let base = if self.family == VFAM_LOOKALIKE && self.rng.chance(6, 10) {
            shared.to_vec()
        } else {
            base_feature(&mut self.rng)
        };
        VObj {
            o: Obj {
                x: clamp_world(near.0 + ox),
                y: clamp_world(near.1 + oy),
                vx: pz(vx),
                vy: pz(vy),
                aspect,
                height,
                angle,
                conf,
                hidden: 0,
                last: None,
            },
            base,
        }
    }

    /// advances the world of one scene by one call and returns the (shuffled, capped) detections;
    /// `ghosts` (family D): boxes lately reported in OTHER scenes, re-reported here bit-identically
    fn emit(&mut self, w: &mut VWorld, ghosts: &[(BoxSpec, Vec<f32>)]) -> Vec<VPreDet> {
        let long = self.family == VFAM_LONG;
        let p_hide = match self.family {
            VFAM_LIFECYCLE | VFAM_CONSTRAINTS => 20,
            VFAM_LONG => 2,
            _ => 10,
        };
        let mut out: Vec<VPreDet> = vec![];
        let mut keep: Vec<VObj> = vec![];
        let objs = std::mem::take(&mut w.objs);
        for mut vo in objs {
            if vo.o.hidden > 0 {
                vo.o.hidden -= 1;
                bounce(&mut vo.o.x, &mut vo.o.vx);
                bounce(&mut vo.o.y, &mut vo.o.vy);
                keep.push(vo);
                continue;
            }
            if self.rng.chance(p_hide, 100) {
                vo.o.hidden = self.rng.range(1, 4) as u32;
                bounce(&mut vo.o.x, &mut vo.o.vx);
                bounce(&mut vo.o.y, &mut vo.o.vy);
                keep.push(vo);
                continue;
            }
            if !long && self.rng.chance(3, 100) {
                continue; // vanishes for good
            }
            if let Some(lb) = vo.o.last {
                if self.rng.chance(15, 100) {
                    let feat = self.feature(&vo.base, false);
                    let q = self.quality();
                    out.push(VPreDet { b: lb, force_some: false, q, feat });
                    keep.push(vo);
                    continue;
                }
            }
            bounce(&mut vo.o.x, &mut vo.o.vx);
            bounce(&mut vo.o.y, &mut vo.o.vy);
            let (jx, jy, jh) = if self.rng.chance(3, 10) {
                (0.0, 0.0, 0.0)
            } else {
                (self.rng.dyadic(-4, 4, 2), self.rng.dyadic(-4, 4, 2), *self.rng.pick(&HEIGHT_JITTER))
            };
            let conf = if self.rng.chance(1, 10) {
                if self.rng.chance(1, 2) {
                    1.0
                } else {
                    *self.rng.pick(&LOW_CONF)
                }
            } else {
                vo.o.conf
            };
            let xc = pz(clamp_world(vo.o.x + jx));
            let yc = pz(clamp_world(vo.o.y + jy));
            let b = BoxSpec { xc, yc, angle: vo.o.angle, aspect: vo.o.aspect, height: vo.o.height + jh, conf };
            vo.o.last = Some(b);
            let feat = self.feature(&vo.base, false);
            let q = self.quality();
            out.push(VPreDet { b, force_some: false, q, feat });
            keep.push(vo);
        }
        // arrivals (visible from the next call of this scene on)
        let p_new = if keep.is_empty() {
            60
        } else if long {
            0
        } else {
            10
        };
        if keep.len() < MAX_DETS && self.rng.chance(p_new, 100) {
            let near = *self.rng.pick(&self.anchors.clone());
            let shared = w.shared.clone();
            let o = self.spawn(near, &shared);
            keep.push(o);
        }
        w.objs = keep;
        if !ghosts.is_empty() && self.rng.chance(35, 100) {
            let (b, base) = ghosts[self.rng.below(ghosts.len() as u64) as usize].clone();
            let feat = self.feature(&base, false);
            let q = self.quality();
            out.push(VPreDet { b, force_some: false, q, feat });
        }
        if self.rng.chance(if long { 2 } else { 5 }, 100) {
            out.clear(); // forced empty predict (on top of the calls where nothing is visible)
        }
        if self.family == VFAM_LOOKALIKE && !out.is_empty() && self.rng.chance(25, 100) {
            // exact duplicate: the bit-identical feature vector twice, same box or one grid step aside
            let i = self.rng.below(out.len() as u64) as usize;
            if out[i].feat.is_none() {
                out[i].feat = Some(w.shared.clone());
            }
            out[i].force_some = true;
            let mut b = out[i].b;
            if self.rng.chance(1, 2) {
                if self.rng.chance(1, 2) {
                    b.xc = if b.xc + GRID > WORLD { b.xc - GRID } else { b.xc + GRID };
                } else {
                    b.yc = if b.yc + GRID > WORLD { b.yc - GRID } else { b.yc + GRID };
                }
            }
            let q = out[i].q;
            let feat = out[i].feat.clone();
            out.push(VPreDet { b, force_some: true, q, feat });
        }
        self.rng.shuffle(&mut out);
        out.truncate(MAX_DETS);
        out
    }

    fn assign(&mut self, pre: Vec<VPreDet>) -> Vec<Det> {
        let mut res = vec![];
        for p in pre {
            let uid = self.next_uid;
            self.next_uid += 1;
            let signed = if self.rng.chance(1, 2) { uid as i64 } else { -(uid as i64) };
            let want_none = !p.force_some && !self.rng.chance(8, 10);
            let custom = if want_none && self.none_keys.insert(p.b.key()) { None } else { Some(signed) };
            res.push(Det { uid, b: p.b, custom, vis: Some((p.q, p.feat)) });
        }
        res
    }
}

fn gen_history_visual(seed: u64, k: usize, thorough: bool) -> String {
    let base = Rng::new(seed).next();
    let mut rng = Rng::new(base ^ (k as u64 + 1).wrapping_mul(0xA24BAED4963EE407) ^ 0x5649_5355_414C_5F31);
    rng.next();
    let batch = k % 3 == 2;
    let family = (k as u64 / 3) % 6;

    let shards = rng.range(1, 4);
    let vshards = rng.range(1, 3);
    let mut history = rng.range(1, 5);
    let mut max_idle = rng.range(0, 3);
    let metric =
        if rng.chance(6, 10) { format!("iou:{}", f32b(*rng.pick(&IOU_THRESHOLDS))) } else { "maha".to_string() };
    let vis = if rng.chance(7, 10) {
        format!("euc:{}", f32b(*rng.pick(&VIS_EUC)))
    } else {
        format!("cos:{}", f32b(*rng.pick(&VIS_COS)))
    };
    let mut votes = rng.range(1, 2);
    let mut minlen = rng.range(1, 3);
    let maxobs = rng.range(2, 5);
    let mut quse = *rng.pick(&QUSE);
    let qcol = *rng.pick(&QCOL);
    // the real metric builder insists on minlen <= maxobs
    if minlen > maxobs {
        minlen = maxobs;
    }
    match family {
        VFAM_LOOKALIKE => {
            // appearance voting is active from the second call on
            minlen = 1;
            votes = 1;
            quse = 0.0;
        }
        VFAM_LIFECYCLE => max_idle = rng.range(0, 1),
        VFAM_LONG => {
            history = rng.range(1, 2);
            max_idle = rng.range(1, 3); // with max_idle = 0 no track is ever continued
        }
        VFAM_MISSING => quse = 0.3,
        _ => {}
    }
    let constraints = if family == VFAM_CONSTRAINTS || rng.chance(1, 2) {
        let ncalls = rng.range(1, 2);
        let mut calls = vec![];
        for _ in 0..ncalls {
            let n = rng.range(1, 3);
            let mut es = vec![];
            for _ in 0..n {
                let gap = rng.range(0, 3);
                let lim = *rng.pick(&LIMITS);
                es.push(format!("{}:{}", gap, f32b(lim)));
            }
            calls.push(es.join(","));
        }
        calls.join("|")
    } else {
        "-".to_string()
    };
    let nscenes = match family {
        VFAM_CONSTRAINTS => rng.range(2, 3),
        VFAM_LONG => rng.range(1, 2),
        _ => rng.range(1, 3),
    } as usize;
    let mut ids = V_SCENE_IDS.to_vec();
    rng.shuffle(&mut ids);
    ids.truncate(nscenes);
    let rotated = rng.chance(3, 10);
    let nanchors = rng.range(2, 4);
    let mut anchors = vec![];
    for _ in 0..nanchors {
        anchors.push((rng.dyadic(240, 1360, 2), rng.dyadic(240, 1360, 2)));
    }
    let nops = if thorough { rng.range(10, 40) } else { rng.range(5, 25) } as usize;

    let mut g = VGen { rng, family, rotated, anchors, next_uid: 1, none_keys: HashSet::new() };

    // initial population: all scenes share the same image region (the same anchors); family D: the same objects
    // (identical positions, sizes and velocities) in every scene
    let mut worlds: Vec<VWorld> = vec![];
    for s in &ids {
        let shared = base_feature(&mut g.rng);
        let mut objs = vec![];
        if family == VFAM_CONSTRAINTS && !worlds.is_empty() {
            objs = worlds[0].objs.clone();
        } else {
            let n = match family {
                VFAM_LOOKALIKE => g.rng.range(3, 5),
                VFAM_LONG => g.rng.range(1, 3),
                _ => g.rng.range(1, 5),
            };
            for _ in 0..n {
                let a = *g.rng.pick(&g.anchors.clone());
                let o = g.spawn(a, &shared);
                objs.push(o);
            }
        }
        worlds.push(VWorld { scene: *s, objs, shared });
    }

    let weights = match family {
        VFAM_LOOKALIKE => W_LOOKALIKE,
        VFAM_LIFECYCLE => W_LIFECYCLE,
        VFAM_CONSTRAINTS => W_CONSTRAINTS,
        VFAM_LONG => W_LONG,
        VFAM_GENERAL | VFAM_MISSING => W_GENERAL,
        _ => W_GENERAL,
    };

    let mut out = String::new();
    out.push_str(&format!(
        "hist k={} tracker={} shards={} vshards={} history={} max_idle={} metric={} minconf={} constraints={} vis={} votes={} minlen={} maxobs={} quse={} qcol={}\n",
        k,
        if batch { "batchvisual" } else { "visual" },
        shards,
        vshards,
        history,
        max_idle,
        metric,
        f32b(0.05),
        constraints,
        vis,
        votes,
        minlen,
        maxobs,
        f32b(quse),
        f32b(qcol)
    ));

    let mut emitted = 0usize;
    let mut first_predict_done = false;
    if g.rng.chance(7, 10) {
        out.push_str(&format!("op setaw p={}\n", g.rng.pick(&AUTO_WASTE)));
        emitted += 1;
    }
    if family == VFAM_LIFECYCLE && !batch && g.rng.chance(1, 2) {
        // empty predicts while the store is still empty
        for _ in 0..g.rng.range(1, 2) {
            let s = worlds[g.rng.below(worlds.len() as u64) as usize].scene;
            out.push_str(&format!("op predict scene={} dets=\n", s));
            emitted += 1;
        }
    }
    while emitted < nops {
        let kind = if !first_predict_done { 0 } else { pick_weighted(&mut g.rng, &weights) };
        // scene for the scene-addressed non-predict ops: mostly a scene of the history
        let any_scene = if g.rng.chance(9, 10) {
            worlds[g.rng.below(worlds.len() as u64) as usize].scene
        } else {
            *g.rng.pick(&V_SCENE_IDS)
        };
        match kind {
            0 => {
                first_predict_done = true;
                let idx: Vec<usize> = if batch && worlds.len() >= 2 && g.rng.chance(3, 10) {
                    let m = g.rng.range(2, worlds.len() as i64) as usize;
                    let mut idx: Vec<usize> = (0..worlds.len()).collect();
                    g.rng.shuffle(&mut idx);
                    idx.truncate(m);
                    idx
                } else {
                    vec![]
                };
                let ghosts_for = |worlds: &Vec<VWorld>, i: usize| -> Vec<(BoxSpec, Vec<f32>)> {
                    if family != VFAM_CONSTRAINTS {
                        return vec![];
                    }
                    let mut gs = vec![];
                    for (j, w) in worlds.iter().enumerate() {
                        if j != i {
                            for o in &w.objs {
                                if let Some(b) = o.o.last {
                                    gs.push((b, o.base.clone()));
                                }
                            }
                        }
                    }
                    gs
                };
                if !idx.is_empty() {
                    let mut parts = vec![];
                    for i in idx {
                        let ghosts = ghosts_for(&worlds, i);
                        let pre = g.emit(&mut worlds[i], &ghosts);
                        let dets = g.assign(pre);
                        parts.push(format!("{}@{}", worlds[i].scene, fmt_dets(&dets)));
                    }
                    out.push_str(&format!("op batch scenes={}\n", parts.join("|")));
                } else {
                    let i = g.rng.below(worlds.len() as u64) as usize;
                    let ghosts = ghosts_for(&worlds, i);
                    let pre = g.emit(&mut worlds[i], &ghosts);
                    let dets = g.assign(pre);
                    out.push_str(&format!("op predict scene={} dets={}\n", worlds[i].scene, fmt_dets(&dets)));
                }
            }
            1 => out.push_str(&format!("op skip scene={} n={}\n", any_scene, g.rng.range(0, 3))),
            2 => out.push_str("op wasted\n"),
            3 => out.push_str(&format!("op idle scene={}\n", any_scene)),
            4 => out.push_str("op clear\n"),
            5 => out.push_str(&format!("op setaw p={}\n", g.rng.pick(&AUTO_WASTE))),
            6 => out.push_str("op astats\n"),
            7 => out.push_str("op wstats\n"),
            _ => out.push_str(&format!("op epoch scene={}\n", any_scene)),
        }
        emitted += 1;
    }
    out.push_str("end\n");
    out
}

// ---------------------------------------------------------------------------------------------
// runner
// ---------------------------------------------------------------------------------------------

enum Op {
    Predict(u64, Vec<Det>),
    Batch(Vec<(u64, Vec<Det>)>),
    Skip(u64, usize),
    /// the scene-less TrackerAPI::skip_epochs(n) (documented: scene 0)
    Skip0(usize),
    Wasted,
    Idle(u64),
    Clear,
    SetAw(usize),
    AStats,
    WStats,
    Epoch(u64),
}

/// appearance options of the visual kinds
struct VisCfg {
    kind: VisualSortMetricType,
    votes: usize,
    minlen: usize,
    maxobs: usize,
    quse: f32,
    qcol: f32,
}

struct Config {
    batch: bool,
    /// Some for tracker=visual|batchvisual
    vis: Option<VisCfg>,
    shards: usize,
    vshards: usize,
    history: usize,
    max_idle: usize,
    method: PositionalMetricType,
    minconf: f32,
    constraints: Option<Vec<Vec<(usize, f32)>>>,
}

fn bits(s: &str) -> f32 {
    f32::from_bits(s.parse::<u32>().unwrap_or_else(|_| panic!("bad f32 bits `{}`", s)))
}

fn parse_det(s: &str) -> Det {
    let f: Vec<&str> = s.split(':').collect();
    assert!(f.len() == 8 || f.len() == 10, "bad detection `{}`", s);
    let vis = if f.len() == 10 {
        Some((
            if f[8] == "n" { None } else { Some(bits(f[8])) },
            if f[9] == "n" { None } else { Some(f[9].split('/').filter(|x| !x.is_empty()).map(bits).collect()) },
        ))
    } else {
        None
    };
    Det {
        uid: f[0].parse().unwrap(),
        b: BoxSpec {
            xc: bits(f[1]),
            yc: bits(f[2]),
            angle: if f[3] == "n" { None } else { Some(bits(f[3])) },
            aspect: bits(f[4]),
            height: bits(f[5]),
            conf: bits(f[6]),
        },
        custom: if f[7] == "n" { None } else { Some(f[7].parse().unwrap()) },
        vis,
    }
}

fn parse_dets(s: &str) -> Vec<Det> {
    s.split(';').filter(|x| !x.is_empty()).map(parse_det).collect()
}

fn kv<'a>(toks: &[&'a str], key: &str) -> &'a str {
    for t in toks {
        if let Some((k, v)) = t.split_once('=') {
            if k == key {
                return v;
            }
        }
    }
    panic!("missing `{}=` in `{}`", key, toks.join(" "));
}

fn parse_config(line: &str) -> Config {
    let toks: Vec<&str> = line.split(' ').collect();
    let metric = kv(&toks, "metric");
    let method = if metric == "maha" {
        PositionalMetricType::Mahalanobis
    } else {
        PositionalMetricType::IoU(bits(metric.strip_prefix("iou:").expect("metric")))
    };
    let cs = kv(&toks, "constraints");
    let constraints = if cs == "-" {
        None
    } else {
        Some(
            cs.split('|')
                .map(|call| {
                    call.split(',')
                        .filter(|x| !x.is_empty())
                        .map(|e| {
                            let (g, l) = e.split_once(':').expect("constraint entry");
                            (g.parse::<usize>().unwrap(), bits(l))
                        })
                        .collect::<Vec<_>>()
                })
                .collect::<Vec<_>>(),
        )
    };
    let (batch, visual) = match kv(&toks, "tracker") {
        "sort" => (false, false),
        "batch" => (true, false),
        "visual" => (false, true),
        "batchvisual" => (true, true),
        x => panic!("unknown tracker `{}`", x),
    };
    let vis = if visual {
        let (vk, vt) = kv(&toks, "vis").split_once(':').expect("vis=<euc|cos>:<bits>");
        Some(VisCfg {
            kind: match vk {
                "euc" => VisualSortMetricType::Euclidean(bits(vt)),
                "cos" => VisualSortMetricType::Cosine(bits(vt)),
                x => panic!("unknown visual metric `{}`", x),
            },
            votes: kv(&toks, "votes").parse().unwrap(),
            minlen: kv(&toks, "minlen").parse().unwrap(),
            maxobs: kv(&toks, "maxobs").parse().unwrap(),
            quse: bits(kv(&toks, "quse")),
            qcol: bits(kv(&toks, "qcol")),
        })
    } else {
        None
    };
    Config {
        batch,
        vis,
        shards: kv(&toks, "shards").parse().unwrap(),
        vshards: kv(&toks, "vshards").parse().unwrap(),
        history: kv(&toks, "history").parse().unwrap(),
        max_idle: kv(&toks, "max_idle").parse().unwrap(),
        method,
        minconf: bits(kv(&toks, "minconf")),
        constraints,
    }
}

fn parse_op(text: &str) -> Op {
    let toks: Vec<&str> = text.split(' ').collect();
    match toks[0] {
        "predict" => Op::Predict(kv(&toks, "scene").parse().unwrap(), parse_dets(kv(&toks, "dets"))),
        "batch" => Op::Batch(
            kv(&toks, "scenes")
                .split('|')
                .filter(|x| !x.is_empty())
                .map(|p| {
                    let (s, d) = p.split_once('@').expect("scene@dets");
                    (s.parse::<u64>().unwrap(), parse_dets(d))
                })
                .collect(),
        ),
        "skip" => Op::Skip(kv(&toks, "scene").parse().unwrap(), kv(&toks, "n").parse().unwrap()),
        "skip0" => Op::Skip0(kv(&toks, "n").parse().unwrap()),
        "wasted" => Op::Wasted,
        "idle" => Op::Idle(kv(&toks, "scene").parse().unwrap()),
        "clear" => Op::Clear,
        "setaw" => Op::SetAw(kv(&toks, "p").parse().unwrap()),
        "astats" => Op::AStats,
        "wstats" => Op::WStats,
        "epoch" => Op::Epoch(kv(&toks, "scene").parse().unwrap()),
        x => panic!("unknown op `{}`", x),
    }
}

enum Trk {
    S(Sort),
    B(BatchSort),
}

enum VTrk {
    V(VisualSort),
    B(BatchVisualSort),
}

/// what the field accessors of the two attribute types have in common
trait AttrView {
    fn v_scene(&self) -> u64;
    fn v_epoch(&self) -> usize;
    fn v_len(&self) -> usize;
    fn v_custom(&self) -> Option<i64>;
    fn v_observed(&self) -> &VecDeque<Universal2DBox>;
    fn v_npred(&self) -> usize;
}

macro_rules! attr_view {
    ($t:ty) => {
        impl AttrView for $t {
            fn v_scene(&self) -> u64 {
                self.scene_id
            }
            fn v_epoch(&self) -> usize {
                self.last_updated_epoch
            }
            fn v_len(&self) -> usize {
                self.track_length
            }
            fn v_custom(&self) -> Option<i64> {
                self.custom_object_id
            }
            fn v_observed(&self) -> &VecDeque<Universal2DBox> {
                &self.observed_boxes
            }
            fn v_npred(&self) -> usize {
                self.predicted_boxes.len()
            }
        }
    };
}
attr_view!(SortAttributes);
attr_view!(VisualAttributes);

/// the four trackers behind one face: everything else goes through the crate's own TrackerAPI trait
trait Driver {
    type TA: TrackAttributes<Self::TA, Self::OA> + AttrView;
    type M: ObservationMetric<Self::TA, Self::OA>;
    type OA: ObservationAttributes;
    /// one detection in the form the tracker takes it
    type In;
    /// may panic (box construction): call it guarded
    fn make_in(d: &Det) -> Self::In;
    fn api(&self) -> &DynApi<Self::TA, Self::M, Self::OA>;
    fn api_mut(&mut self) -> &mut DynApi<Self::TA, Self::M, Self::OA>;
    fn is_batch(&self) -> bool;
    fn batch_name() -> &'static str;
    /// oracle table lines for the detections of one scene (read-only with respect to the tracker)
    fn table(&self, c: &Config, scene: u64, dets: &[Det], ins: &[Self::In]) -> Vec<String>;
    /// the call of the simple API itself (not guarded)
    fn predict_simple(&mut self, scene: u64, ins: &[Self::In]) -> Vec<SortTrack>;
    /// one request of the batch API, all results collected (guarded inside)
    fn predict_batch(&mut self, scenes: &[(u64, Vec<Self::In>)]) -> Option<HashMap<u64, Vec<SortTrack>>>;
    fn idle(&mut self, scene: u64) -> Vec<SortTrack>;
}

impl Driver for Trk {
    type TA = SortAttributes;
    type M = SortMetric;
    type OA = Universal2DBox;
    type In = (Universal2DBox, Option<i64>);
    fn make_in(d: &Det) -> Self::In {
        (d.b.to_box(), d.custom)
    }
    fn api(&self) -> &Api {
        match self {
            Trk::S(s) => s,
            Trk::B(b) => b,
        }
    }
    fn api_mut(&mut self) -> &mut Api {
        match self {
            Trk::S(s) => s,
            Trk::B(b) => b,
        }
    }
    fn is_batch(&self) -> bool {
        matches!(self, Trk::B(_))
    }
    fn batch_name() -> &'static str {
        "batch"
    }
    fn table(&self, c: &Config, scene: u64, dets: &[Det], ins: &[Self::In]) -> Vec<String> {
        table(self.api(), c, scene, dets, ins)
    }
    fn predict_simple(&mut self, scene: u64, ins: &[Self::In]) -> Vec<SortTrack> {
        match self {
            Trk::S(s) => s.predict_with_scene(scene, ins),
            Trk::B(_) => unreachable!(),
        }
    }
    fn predict_batch(&mut self, scenes: &[(u64, Vec<Self::In>)]) -> Option<HashMap<u64, Vec<SortTrack>>> {
        match self {
            Trk::B(b) => batch_predict(b, scenes),
            Trk::S(_) => unreachable!(),
        }
    }
    fn idle(&mut self, scene: u64) -> Vec<SortTrack> {
        match self {
            Trk::S(s) => s.idle_tracks_with_scene(scene),
            Trk::B(b) => b.idle_tracks_with_scene(scene),
        }
    }
}

/// one detection as the visual trackers take it
struct VisIn {
    bbox: Universal2DBox,
    custom: Option<i64>,
    q: Option<f32>,
    feat: Option<Vec<f32>>,
}

fn vis_obs(ins: &[VisIn]) -> Vec<VisualSortObservation<'_>> {
    ins.iter().map(|e| VisualSortObservation::new(e.feat.as_deref(), e.q, e.bbox.clone(), e.custom)).collect()
}

impl Driver for VTrk {
    type TA = VisualAttributes;
    type M = VisualMetric;
    type OA = VisualObservationAttributes;
    type In = VisIn;
    fn make_in(d: &Det) -> Self::In {
        let (q, feat) = d.vis.clone().unwrap_or((None, None));
        VisIn { bbox: d.b.to_box(), custom: d.custom, q, feat }
    }
    fn api(&self) -> &VApi {
        match self {
            VTrk::V(s) => s,
            VTrk::B(b) => b,
        }
    }
    fn api_mut(&mut self) -> &mut VApi {
        match self {
            VTrk::V(s) => s,
            VTrk::B(b) => b,
        }
    }
    fn is_batch(&self) -> bool {
        matches!(self, VTrk::B(_))
    }
    fn batch_name() -> &'static str {
        "batchvisual"
    }
    fn table(&self, c: &Config, scene: u64, dets: &[Det], ins: &[Self::In]) -> Vec<String> {
        vtable(self.api(), c, scene, dets, ins)
    }
    fn predict_simple(&mut self, scene: u64, ins: &[Self::In]) -> Vec<SortTrack> {
        match self {
            VTrk::V(s) => s.predict_with_scene(scene, &vis_obs(ins)),
            VTrk::B(_) => unreachable!(),
        }
    }
    fn predict_batch(&mut self, scenes: &[(u64, Vec<Self::In>)]) -> Option<HashMap<u64, Vec<SortTrack>>> {
        let b = match self {
            VTrk::B(b) => b,
            VTrk::V(_) => unreachable!(),
        };
        guarded(|| {
            let (mut req, res) = PredictionBatchRequest::<VisualSortObservation>::new();
            for (s, ins) in scenes {
                for o in vis_obs(ins) {
                    req.add(*s, o);
                }
            }
            let n = req.batch_size();
            b.predict(req);
            let mut m: HashMap<u64, Vec<SortTrack>> = HashMap::new();
            for _ in 0..n {
                let (s, ts) = res.get();
                m.entry(s).or_default().extend(ts);
            }
            m
        })
    }
    fn idle(&mut self, scene: u64) -> Vec<SortTrack> {
        match self {
            VTrk::V(s) => s.idle_tracks_with_scene(scene),
            VTrk::B(b) => b.idle_tracks_with_scene(scene),
        }
    }
}

fn build_constraints(c: &Config) -> Option<SpatioTemporalConstraints> {
    c.constraints.as_ref().map(|calls| {
        let mut stc = SpatioTemporalConstraints::default();
        for call in calls {
            stc.add_constraints(call.clone());
        }
        stc
    })
}

fn build_visual_tracker(c: &Config) -> VTrk {
    let v = c.vis.as_ref().expect("visual options");
    let base = match build_constraints(c) {
        Some(stc) => VisualSortOptions::default().spatio_temporal_constraints(stc),
        None => VisualSortOptions::default(),
    };
    // the own-area thresholds stay 0: the polygon clipping behind them panics on some boxes
    let opts = base
        .max_idle_epochs(c.max_idle)
        .kept_history_length(c.history)
        .visual_metric(v.kind)
        .positional_metric(c.method)
        .positional_min_confidence(c.minconf)
        .visual_max_observations(v.maxobs)
        .visual_minimal_track_length(v.minlen)
        .visual_min_votes(v.votes)
        .visual_minimal_area(0.0)
        .visual_minimal_quality_use(v.quse)
        .visual_minimal_quality_collect(v.qcol)
        .visual_minimal_own_area_percentage_use(0.0)
        .visual_minimal_own_area_percentage_collect(0.0);
    if c.batch {
        VTrk::B(BatchVisualSort::new(c.shards, c.vshards, &opts))
    } else {
        VTrk::V(VisualSort::new(c.shards, &opts))
    }
}

/// the tracker's own metric, rebuilt from the same options (`VisualSortOptions::build` is crate-private)
fn visual_metric(c: &Config) -> VisualMetric {
    let v = c.vis.as_ref().expect("visual options");
    VisualMetric {
        opts: Arc::new(VisualMetricOptions {
            visual_max_observations: v.maxobs,
            visual_min_votes: v.votes,
            visual_kind: v.kind,
            positional_kind: c.method,
            visual_minimal_track_length: v.minlen,
            visual_minimal_area: 0.0,
            visual_minimal_quality_use: v.quse,
            visual_minimal_quality_collect: v.qcol,
            visual_minimal_own_area_percentage_use: 0.0,
            visual_minimal_own_area_percentage_collect: 0.0,
            positional_min_confidence: c.minconf,
        }),
    }
}

fn build_tracker(c: &Config) -> Trk {
    let constraints = build_constraints(c);
    if c.batch {
        Trk::B(BatchSort::new(
            c.shards,
            c.vshards,
            c.history,
            c.max_idle,
            c.method,
            c.minconf,
            constraints,
            1.0 / 20.0,
            1.0 / 160.0,
        ))
    } else {
        Trk::S(Sort::new(c.shards, c.history, c.max_idle, c.method, c.minconf, constraints, 1.0 / 20.0, 1.0 / 160.0))
    }
}

struct Classes(HashMap<Key, u64>);

impl Classes {
    fn register(&mut self, dets: &[Det]) {
        for d in dets {
            let e = self.0.entry(d.b.key()).or_insert(d.uid);
            if d.uid < *e {
                *e = d.uid;
            }
        }
    }
    fn of(&self, b: &Universal2DBox) -> u64 {
        self.0.get(&key_of(b)).copied().unwrap_or(0)
    }
}

fn fmt_rec(t: &SortTrack, cls: &Classes) -> String {
    format!(
        "{},{},{},{},{},{}",
        t.id,
        t.epoch,
        t.scene_id,
        t.length,
        fmt_custom(t.custom_object_id),
        cls.of(&t.observed_bbox)
    )
}

fn fmt_recs(ts: &[SortTrack], cls: &Classes) -> String {
    ts.iter().map(|t| fmt_rec(t, cls)).collect::<Vec<_>>().join(";")
}

fn fmt_trk<TA, M, OA>(t: &Track<TA, M, OA, NoopNotifier>, cls: &Classes) -> String
where
    TA: TrackAttributes<TA, OA> + AttrView,
    M: ObservationMetric<TA, OA>,
    OA: ObservationAttributes,
{
    let a = t.get_attributes();
    let obs = a.v_observed().iter().map(|b| cls.of(b).to_string()).collect::<Vec<_>>().join("/");
    format!(
        "{},{},{},{},{},{},{}",
        t.get_track_id(),
        a.v_scene(),
        a.v_epoch(),
        a.v_len(),
        fmt_custom(a.v_custom()),
        obs,
        a.v_npred()
    )
}

fn line(prefix: &str, body: String) -> String {
    if body.is_empty() {
        prefix.to_string()
    } else {
        format!("{} {}", prefix, body)
    }
}

/// copies of all the tracks of the main store, sorted by id
fn main_tracks<TA, M, OA>(api: &DynApi<TA, M, OA>, shards: usize) -> Vec<Track<TA, M, OA, NoopNotifier>>
where
    TA: TrackAttributes<TA, OA>,
    M: ObservationMetric<TA, OA>,
    OA: ObservationAttributes,
{
    let store = api.get_main_store();
    let mut ts: Vec<Track<TA, M, OA, NoopNotifier>> = vec![];
    for k in 0..shards {
        let g = store.get_store(k);
        ts.extend(g.values().cloned());
    }
    drop(store);
    ts.sort_by_key(|t| t.get_track_id());
    ts
}

fn wasted_tracks<TA, M, OA>(api: &DynApi<TA, M, OA>, shards: usize) -> Vec<Track<TA, M, OA, NoopNotifier>>
where
    TA: TrackAttributes<TA, OA>,
    M: ObservationMetric<TA, OA>,
    OA: ObservationAttributes,
{
    let store = api.get_wasted_store();
    let mut ts: Vec<Track<TA, M, OA, NoopNotifier>> = vec![];
    for k in 0..shards {
        let g = store.get_store(k);
        ts.extend(g.values().cloned());
    }
    drop(store);
    ts.sort_by_key(|t| t.get_track_id());
    ts
}

/// oracle table lines for the detections of one scene (read-only with respect to the tracker)
fn table(api: &Api, c: &Config, scene: u64, dets: &[Det], boxes: &[(Universal2DBox, Option<i64>)]) -> Vec<String> {
    let epoch = api.current_epoch_with_scene(scene) + 1;
    let tracks = main_tracks(api, c.shards);
    let metric = SortMetric::new(c.method, c.minconf);
    let mut lines = vec![];
    for (i, (d, (bb, custom))) in dets.iter().zip(boxes.iter()).enumerate() {
        let cand = guarded(|| {
            let store = api.get_main_store();
            store
                .new_track(u64::MAX - i as u64)
                .observation(
                    ObservationBuilder::new(0)
                        .observation_attributes(bb.clone())
                        .track_attributes_update(SortAttributesUpdate::new_with_scene(epoch, scene, *custom))
                        .build(),
                )
                .build()
                .unwrap()
        });
        let cand: STrack = match cand {
            Some(c) => c,
            None => {
                lines.push(format!("tab {} p", d.uid));
                continue;
            }
        };
        let mut entries = vec![];
        for t in &tracks {
            let r = guarded(|| {
                let co = &cand.get_observations(0).unwrap()[0];
                let to = &t.get_observations(0).unwrap()[0];
                let mq = MetricQuery {
                    feature_class: 0,
                    candidate_attrs: cand.get_attributes(),
                    candidate_observation: co,
                    track_attrs: t.get_attributes(),
                    track_observation: to,
                };
                let w = match metric.metric(&mq) {
                    None => None,
                    Some((None, _)) => None,
                    Some((Some(w), _)) => Some((w * 1_000_000.0f32) as i64),
                };
                let d2r = Universal2DBox::dist_in_2r(
                    cand.get_attributes().predicted_boxes.back().unwrap(),
                    t.get_attributes().predicted_boxes.back().unwrap(),
                );
                (w, d2r)
            });
            entries.push(match r {
                None => format!("{},p,p", t.get_track_id()),
                Some((None, d2r)) => format!("{},n,{}", t.get_track_id(), f32b(d2r)),
                Some((Some(w), d2r)) => format!("{},{},{}", t.get_track_id(), w, f32b(d2r)),
            });
        }
        lines.push(line(&format!("tab {}", d.uid), entries.join(" ")));
    }
    lines
}

/// oracle table of the visual kinds: the candidate is built exactly as `predict_with_scene` builds it and the
/// tracker's own metric is asked about EVERY class-0 observation of every stored track
fn vtable(api: &VApi, c: &Config, scene: u64, dets: &[Det], ins: &[VisIn]) -> Vec<String> {
    let epoch = api.current_epoch_with_scene(scene) + 1;
    let tracks = main_tracks(api, c.shards);
    let metric = visual_metric(c);
    let mut lines = vec![];
    for (i, (d, e)) in dets.iter().zip(ins.iter()).enumerate() {
        let cand = guarded(|| {
            let store = api.get_main_store();
            let mut ob = ObservationBuilder::new(0)
                .observation_attributes(VisualObservationAttributes::new(e.q.unwrap_or(1.0), e.bbox.clone()));
            if let Some(f) = &e.feat {
                ob = ob.observation(Feature::from_vec(f.to_vec()));
            }
            store
                .new_track(u64::MAX - i as u64)
                .observation(
                    ob.track_attributes_update(VisualAttributesUpdate::new_init_with_scene(epoch, scene, e.custom))
                        .build(),
                )
                .build()
                .unwrap()
        });
        let cand: VTrack = match cand {
            Some(c) => c,
            None => {
                lines.push(format!("tab {} p", d.uid));
                continue;
            }
        };
        let mut entries = vec![];
        for t in &tracks {
            let r = guarded(|| {
                let co = &cand.get_observations(0).unwrap()[0];
                let none = vec![];
                let tos = t.get_observations(0).unwrap_or(&none);
                let mut w: Option<i64> = None;
                let mut visual = false;
                for to in tos.iter() {
                    let mq = MetricQuery {
                        feature_class: 0,
                        candidate_attrs: cand.get_attributes(),
                        candidate_observation: co,
                        track_attrs: t.get_attributes(),
                        track_observation: to,
                    };
                    if let Some((pos, vis)) = metric.metric(&mq) {
                        if w.is_none() {
                            if let Some(x) = pos {
                                w = Some((x * 1_000_000.0f32) as i64);
                            }
                        }
                        if vis.is_some() {
                            visual = true;
                        }
                    }
                }
                let d2r = Universal2DBox::dist_in_2r(
                    cand.get_attributes().predicted_boxes.back().unwrap(),
                    t.get_attributes().predicted_boxes.back().unwrap(),
                );
                (w, visual, d2r)
            });
            entries.push(match r {
                None => format!("{},p,p", t.get_track_id()),
                Some((Some(w), _, d2r)) => format!("{},{},{}", t.get_track_id(), w, f32b(d2r)),
                Some((None, true, d2r)) => format!("{},v,{}", t.get_track_id(), f32b(d2r)),
                Some((None, false, d2r)) => format!("{},n,{}", t.get_track_id(), f32b(d2r)),
            });
        }
        lines.push(line(&format!("tab {}", d.uid), entries.join(" ")));
    }
    lines
}

static TICK: AtomicU64 = AtomicU64::new(0);

fn tick() {
    TICK.fetch_add(1, Ordering::SeqCst);
}

/// a dead worker thread of the library can leave the caller blocked for ever: report instead of hanging
fn watchdog() {
    std::thread::spawn(|| {
        let mut last = TICK.load(Ordering::SeqCst);
        let mut idle = 0u32;
        loop {
            std::thread::sleep(std::time::Duration::from_millis(500));
            let now = TICK.load(Ordering::SeqCst);
            if now != last {
                last = now;
                idle = 0;
            } else {
                idle += 1;
                if idle >= 240 {
                    println!("res hang");
                    let _ = std::io::stdout().flush();
                    std::process::exit(3);
                }
            }
        }
    });
}

fn batch_predict(
    b: &mut BatchSort,
    scenes: &[(u64, Vec<(Universal2DBox, Option<i64>)>)],
) -> Option<HashMap<u64, Vec<SortTrack>>> {
    guarded(|| {
        let (mut req, res) = PredictionBatchRequest::new();
        for (s, boxes) in scenes {
            for e in boxes {
                req.add(*s, e.clone());
            }
        }
        let n = req.batch_size();
        b.predict(req);
        let mut m: HashMap<u64, Vec<SortTrack>> = HashMap::new();
        for _ in 0..n {
            let (s, ts) = res.get();
            m.entry(s).or_default().extend(ts);
        }
        m
    })
}

fn run_history(hist: &str, ops: &[String]) {
    println!("{}", hist);
    let c = parse_config(hist);
    let parsed: Vec<Op> = ops.iter().map(|t| parse_op(t)).collect();
    tick();
    if c.vis.is_some() {
        match guarded(|| build_visual_tracker(&c)) {
            Some(t) => run_ops(&c, ops, &parsed, t),
            None => {
                println!("res panic");
                println!("end");
            }
        }
    } else {
        match guarded(|| build_tracker(&c)) {
            Some(t) => run_ops(&c, ops, &parsed, t),
            None => {
                println!("res panic");
                println!("end");
            }
        }
    }
}

fn run_ops<D: Driver>(c: &Config, ops: &[String], parsed: &[Op], mut trk: D) {
    let mut cls = Classes(HashMap::new());
    let mut dead = false;
    for (i, (text, op)) in ops.iter().zip(parsed.iter()).enumerate() {
        tick();
        println!("op {} {}", i, text);
        // Some(line) = result line, None = the call panicked
        let res: Option<String> = match op {
            Op::Predict(scene, dets) => {
                cls.register(dets);
                match guarded(|| dets.iter().map(D::make_in).collect::<Vec<_>>()) {
                    None => None,
                    Some(ins) => {
                        for l in trk.table(c, *scene, dets, &ins) {
                            println!("{}", l);
                        }
                        tick();
                        if trk.is_batch() {
                            trk.predict_batch(&[(*scene, ins)]).map(|m| {
                                line("res records", m.get(scene).map(|r| fmt_recs(r, &cls)).unwrap_or_default())
                            })
                        } else {
                            guarded(|| trk.predict_simple(*scene, &ins))
                                .map(|r| line("res records", fmt_recs(&r, &cls)))
                        }
                    }
                }
            }
            Op::Batch(scenes) => {
                for (_, dets) in scenes {
                    cls.register(dets);
                }
                let built = guarded(|| {
                    scenes
                        .iter()
                        .map(|(s, dets)| (*s, dets.iter().map(D::make_in).collect::<Vec<_>>()))
                        .collect::<Vec<_>>()
                });
                match built {
                    Some(built) => {
                        if !trk.is_batch() {
                            eprintln!("`op batch` needs tracker={}", D::batch_name());
                            std::process::exit(2);
                        }
                        for ((s, dets), (_, ins)) in scenes.iter().zip(built.iter()) {
                            for l in trk.table(c, *s, dets, ins) {
                                println!("{}", l);
                            }
                        }
                        tick();
                        trk.predict_batch(&built).map(|m| {
                            let parts = scenes
                                .iter()
                                .map(|(s, _)| {
                                    format!("{}@{}", s, m.get(s).map(|r| fmt_recs(r, &cls)).unwrap_or_default())
                                })
                                .collect::<Vec<_>>();
                            line("res batch", parts.join("|"))
                        })
                    }
                    None => None,
                }
            }
            Op::Skip(scene, n) => guarded(|| trk.api_mut().skip_epochs_for_scene(*scene, *n)).map(|_| "res unit".into()),
            Op::Skip0(n) => guarded(|| trk.api_mut().skip_epochs(*n)).map(|_| "res unit".into()),
            Op::Wasted => guarded(|| trk.api_mut().wasted()).map(|mut ts| {
                ts.sort_by_key(|t| t.get_track_id());
                line("res wasted", ts.iter().map(|t| fmt_trk(t, &cls)).collect::<Vec<_>>().join(";"))
            }),
            Op::Idle(scene) => guarded(|| trk.idle(*scene)).map(|mut ts| {
                ts.sort_by_key(|t| t.id);
                line("res idle", fmt_recs(&ts, &cls))
            }),
            Op::Clear => guarded(|| trk.api().clear_wasted()).map(|_| "res unit".into()),
            Op::SetAw(p) => guarded(|| trk.api_mut().set_auto_waste(*p)).map(|_| "res unit".into()),
            Op::AStats => guarded(|| trk.api().active_shard_stats())
                .map(|v| line("res stats", v.iter().map(|x| x.to_string()).collect::<Vec<_>>().join(","))),
            Op::WStats => guarded(|| trk.api().wasted_shard_stats())
                .map(|v| line("res stats", v.iter().map(|x| x.to_string()).collect::<Vec<_>>().join(","))),
            Op::Epoch(scene) => {
                guarded(|| trk.api().current_epoch_with_scene(*scene)).map(|e| format!("res epoch {}", e))
            }
        };
        match res {
            Some(l) => println!("{}", l),
            None => {
                println!("res panic");
                dead = true;
                break;
            }
        }
        tick();
        let dump = guarded(|| {
            let m = main_tracks(trk.api(), c.shards);
            let w = wasted_tracks(trk.api(), c.shards);
            (
                m.iter().map(|t| fmt_trk(t, &cls)).collect::<Vec<_>>().join(";"),
                w.iter().map(|t| fmt_trk(t, &cls)).collect::<Vec<_>>().join(";"),
            )
        });
        match dump {
            Some((m, w)) => {
                println!("{}", line("main", m));
                println!("{}", line("wst", w));
            }
            None => {
                println!("res panic");
                dead = true;
                break;
            }
        }
    }
    println!("end");
    tick();
    if dead {
        // worker threads of a tracker that panicked may be gone: dropping it could block
        std::mem::forget(trk);
    } else {
        let _ = guarded(move || drop(trk));
    }
}

fn main() {
    quiet_panics();
    let a = parse_args();
    match a.cmd.as_str() {
        "gen" => {
            let thorough = a.tier == "thorough";
            let kinds = match a.rest.iter().position(|x| x == "--kinds") {
                None => "sort".to_string(),
                Some(i) => a.rest.get(i + 1).cloned().unwrap_or_default(),
            };
            let visual = match kinds.as_str() {
                "sort" => false,
                "visual" => true,
                x => {
                    eprintln!("unknown --kinds `{}` (sort|visual)", x);
                    std::process::exit(2);
                }
            };
            let mut out = String::new();
            for k in 0..a.n {
                if visual {
                    out.push_str(&gen_history_visual(a.seed, k, thorough));
                } else {
                    out.push_str(&gen_history(a.seed, k, thorough));
                }
            }
            print!("{}", out);
        }
        "run" => {
            let txt = std::fs::read_to_string(a.file.expect("--file")).expect("cannot read the history file");
            watchdog();
            let mut hist: Option<String> = None;
            let mut ops: Vec<String> = vec![];
            for raw in txt.lines() {
                let l = raw.trim_end_matches(['\r', '\n']);
                if l.starts_with("hist ") {
                    hist = Some(l.to_string());
                    ops.clear();
                } else if let Some(t) = l.strip_prefix("op ") {
                    ops.push(t.to_string());
                } else if l.trim() == "end" {
                    if let Some(h) = hist.take() {
                        run_history(&h, &ops);
                    }
                    ops.clear();
                }
            }
            if let Some(h) = hist.take() {
                run_history(&h, &ops);
            }
        }
        _ => {
            eprintln!(
                "usage: tracker gen --seed S --n N [--tier quick|thorough] [--kinds sort|visual] | tracker run --file F"
            );
            std::process::exit(2);
        }
    }
    let _ = std::io::stdout().flush();
}
