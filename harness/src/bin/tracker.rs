//! SORT tracker correspondence harness (Sort and BatchSort of the real crate).
//!
//!   tracker gen --seed S --n N [--tier quick|thorough]   prints N history specs
//!   tracker run --file F                                  executes the specs of F on the real code
//!
//! Spec format (one item per line):
//!   hist k=<k> tracker=<sort|batch> shards=.. vshards=.. history=.. max_idle=.. metric=<iou:BITS|maha>
//!        minconf=<BITS> constraints=<-|gap:BITS,..|gap:BITS,..>
//!   op predict scene=<s> dets=<DET>;<DET>...
//!   op batch scenes=<s>@<DET>;<DET>|<s>@...
//!   op skip scene=<s> n=<n> | op wasted | op idle scene=<s> | op clear | op setaw p=<p>
//!   op astats | op wstats | op epoch scene=<s>
//!   end
//!   DET := uid:xc:yc:angle:aspect:height:conf:custom   (f32 as decimal bit patterns; angle/custom may be `n`)
//!
//! Result format: the hist line, then per op `op <i> <text>`, for predict/batch the oracle table
//! (`tab <uid> <tid>,<W>,<D2RBITS> ...`, computed before the call from the stored tracks with the
//! implementation's own metric), one `res ...` line, then `main ...` / `wst ...` (physical stores).
use std::collections::{HashMap, HashSet};
use std::io::Write;
use std::sync::atomic::{AtomicU64, Ordering};

use similari::prelude::{
    BatchSort, NoopNotifier, ObservationBuilder, PositionalMetricType, Sort, SortTrack,
    SpatioTemporalConstraints, Universal2DBox,
};
use similari::track::{MetricQuery, ObservationMetric, Track};
use similari::trackers::batch::PredictionBatchRequest;
use similari::trackers::sort::metric::SortMetric;
use similari::trackers::sort::{SortAttributes, SortAttributesOptions, SortAttributesUpdate};
use similari::trackers::tracker_api::TrackerAPI;
use similari_verif_harness::*;

type STrack = Track<SortAttributes, SortMetric, Universal2DBox, NoopNotifier>;
type Api =
    dyn TrackerAPI<SortAttributes, SortMetric, Universal2DBox, SortAttributesOptions, NoopNotifier>;
type Key = (u32, u32, u32, u32, u32, u32);

// ---------------------------------------------------------------------------------------------
// common data
// ---------------------------------------------------------------------------------------------

#[derive(Clone, Copy, Debug)]
struct BoxSpec {
    xc: f32,
    yc: f32,
    angle: Option<f32>,
    aspect: f32,
    height: f32,
    conf: f32,
}

fn angle_key(a: Option<f32>) -> u32 {
    match a {
        None => 0,
        Some(a) if a == 0.0 => 0,
        Some(a) => a.to_bits(),
    }
}

impl BoxSpec {
    fn key(&self) -> Key {
        (
            self.xc.to_bits(),
            self.yc.to_bits(),
            angle_key(self.angle),
            self.aspect.to_bits(),
            self.height.to_bits(),
            self.conf.to_bits(),
        )
    }
    fn to_box(self) -> Universal2DBox {
        Universal2DBox::new_with_confidence(self.xc, self.yc, self.angle, self.aspect, self.height, self.conf)
    }
}

fn key_of(b: &Universal2DBox) -> Key {
    (
        b.xc.to_bits(),
        b.yc.to_bits(),
        angle_key(b.angle),
        b.aspect.to_bits(),
        b.height.to_bits(),
        b.confidence.to_bits(),
    )
}

#[derive(Clone, Debug)]
struct Det {
    uid: u64,
    b: BoxSpec,
    custom: Option<i64>,
}

fn fmt_custom(c: Option<i64>) -> String {
    match c {
        None => "n".to_string(),
        Some(x) => x.to_string(),
    }
}

fn fmt_det(d: &Det) -> String {
    format!(
        "{}:{}:{}:{}:{}:{}:{}:{}",
        d.uid,
        f32b(d.b.xc),
        f32b(d.b.yc),
        match d.b.angle {
            None => "n".to_string(),
            Some(a) => f32b(a),
        },
        f32b(d.b.aspect),
        f32b(d.b.height),
        f32b(d.b.conf),
        fmt_custom(d.custom)
    )
}

fn fmt_dets(ds: &[Det]) -> String {
    ds.iter().map(fmt_det).collect::<Vec<_>>().join(";")
}

// ---------------------------------------------------------------------------------------------
// generator
// ---------------------------------------------------------------------------------------------

const SCENE_IDS: [u64; 5] = [0, 1, 2, 3, 7];
const LIMITS: [f32; 5] = [0.25, 0.5, 1.0, 2.0, 4.0];
const IOU_THRESHOLDS: [f32; 3] = [0.3, 0.1, 0.5];
const ASPECTS: [f32; 3] = [0.5, 1.0, 2.0];
const HEIGHTS: [f32; 4] = [20.0, 40.0, 60.0, 80.0];
const ANGLES: [f32; 9] = [0.25, 0.25, 0.5, 0.5, 1.0, 1.0, -0.5, -0.5, 0.0];
const LOW_CONF: [f32; 3] = [0.9, 0.5, 0.25];
const HEIGHT_JITTER: [f32; 5] = [-0.5, 0.0, 0.0, 0.0, 0.5];
const AUTO_WASTE: [usize; 4] = [0, 1, 2, 100];
const MAX_DETS: usize = 8;
const WORLD: f32 = 400.0;

const FAM_GENERAL: u64 = 0;
const FAM_CROWDED: u64 = 1;
const FAM_LIFECYCLE: u64 = 2;
const FAM_DUPLICATES: u64 = 3;
const FAM_CONSTRAINTS: u64 = 4;

// weights: predict, skip, wasted, idle, clear, setaw, astats, wstats, epoch
const W_GENERAL: [u64; 9] = [61, 6, 7, 7, 3, 4, 4, 4, 4];
const W_CROWDED: [u64; 9] = [88, 2, 2, 2, 1, 1, 1, 2, 1];
const W_LIFECYCLE: [u64; 9] = [38, 12, 11, 11, 6, 6, 5, 6, 5];
const W_CONSTRAINTS: [u64; 9] = [66, 8, 5, 6, 2, 3, 3, 3, 4];

struct Obj {
    x: f32,
    y: f32,
    vx: f32,
    vy: f32,
    aspect: f32,
    height: f32,
    angle: Option<f32>,
    conf: f32,
    hidden: u32,
    last: Option<BoxSpec>,
}

struct PreDet {
    b: BoxSpec,
    force_some: bool,
}

struct World {
    scene: u64,
    objs: Vec<Obj>,
}

struct Gen {
    rng: Rng,
    family: u64,
    rotated: bool,
    anchors: Vec<(f32, f32)>,
    next_uid: u64,
    none_keys: HashSet<Key>,
}

fn clamp_world(v: f32) -> f32 {
    if v < 0.0 {
        0.0
    } else if v > WORLD {
        WORLD
    } else {
        v
    }
}

fn bounce(p: &mut f32, v: &mut f32) {
    *p += *v;
    if *p < 0.0 {
        *p = 0.0 - *p;
        *v = 0.0 - *v;
    }
    if *p > WORLD {
        *p = 2.0 * WORLD - *p;
        *v = 0.0 - *v;
    }
    *p = clamp_world(*p);
    // never produce -0.0
    if *p == 0.0 {
        *p = 0.0;
    }
    if *v == 0.0 {
        *v = 0.0;
    }
}

impl Gen {
    fn spawn(&mut self, near: (f32, f32)) -> Obj {
        let height = *self.rng.pick(&HEIGHTS);
        let aspect = *self.rng.pick(&ASPECTS);
        let (ox, oy) = if self.family == FAM_CROWDED {
            // centres within a quarter of the height: mutually overlapping
            let h = height as i64;
            (self.rng.dyadic(-h, h, 2), self.rng.dyadic(-h, h, 2))
        } else {
            (self.rng.dyadic(-160, 160, 2), self.rng.dyadic(-160, 160, 2))
        };
        let (mut vx, mut vy) = match self.family {
            FAM_CROWDED => (self.rng.dyadic(-16, 16, 2), self.rng.dyadic(-16, 16, 2)),
            FAM_CONSTRAINTS if self.rng.chance(1, 2) => {
                let sx = if self.rng.chance(1, 2) { 1.0 } else { -1.0 };
                let sy = if self.rng.chance(1, 2) { 1.0 } else { -1.0 };
                (sx * self.rng.dyadic(40, 160, 2), sy * self.rng.dyadic(0, 120, 2))
            }
            _ => (self.rng.dyadic(-8, 8, 2), self.rng.dyadic(-8, 8, 2)),
        };
        if vx == 0.0 {
            vx = 0.0;
        }
        if vy == 0.0 {
            vy = 0.0;
        }
        let angle = if self.rotated && self.rng.chance(7, 10) { Some(*self.rng.pick(&ANGLES)) } else { None };
        let conf = if self.rng.chance(8, 10) { 1.0 } else { *self.rng.pick(&LOW_CONF) };
        Obj {
            x: clamp_world(near.0 + ox),
            y: clamp_world(near.1 + oy),
            vx,
            vy,
            aspect,
            height,
            angle,
            conf,
            hidden: 0,
            last: None,
        }
    }

    /// advances the world of one scene by one call and returns the (shuffled, capped) detections
    fn emit(&mut self, w: &mut World) -> Vec<PreDet> {
        let lifecycle = self.family == FAM_LIFECYCLE || self.family == FAM_CONSTRAINTS;
        let mut out: Vec<PreDet> = vec![];
        let mut keep: Vec<Obj> = vec![];
        let objs = std::mem::take(&mut w.objs);
        for mut o in objs {
            if o.hidden > 0 {
                o.hidden -= 1;
                bounce(&mut o.x, &mut o.vx);
                bounce(&mut o.y, &mut o.vy);
                keep.push(o);
                continue;
            }
            if self.rng.chance(if lifecycle { 20 } else { 10 }, 100) {
                o.hidden = self.rng.range(1, 4) as u32;
                bounce(&mut o.x, &mut o.vx);
                bounce(&mut o.y, &mut o.vy);
                keep.push(o);
                continue;
            }
            if self.rng.chance(3, 100) {
                continue; // vanishes for good
            }
            if let Some(lb) = o.last {
                if self.rng.chance(15, 100) {
                    out.push(PreDet { b: lb, force_some: false });
                    keep.push(o);
                    continue;
                }
            }
            bounce(&mut o.x, &mut o.vx);
            bounce(&mut o.y, &mut o.vy);
            let (jx, jy, jh) = if self.rng.chance(3, 10) {
                (0.0, 0.0, 0.0)
            } else {
                (self.rng.dyadic(-4, 4, 2), self.rng.dyadic(-4, 4, 2), *self.rng.pick(&HEIGHT_JITTER))
            };
            let conf = if self.rng.chance(1, 10) {
                if self.rng.chance(1, 2) {
                    1.0
                } else {
                    *self.rng.pick(&LOW_CONF)
                }
            } else {
                o.conf
            };
            let mut xc = clamp_world(o.x + jx);
            let mut yc = clamp_world(o.y + jy);
            if xc == 0.0 {
                xc = 0.0;
            }
            if yc == 0.0 {
                yc = 0.0;
            }
            let b = BoxSpec { xc, yc, angle: o.angle, aspect: o.aspect, height: o.height + jh, conf };
            o.last = Some(b);
            out.push(PreDet { b, force_some: false });
            keep.push(o);
        }
        // arrivals (visible from the next call of this scene on)
        let p_new = if keep.is_empty() {
            60
        } else if self.family == FAM_CROWDED {
            15
        } else {
            10
        };
        if keep.len() < MAX_DETS && self.rng.chance(p_new, 100) {
            let near = if self.family == FAM_CROWDED && !keep.is_empty() {
                let o = &keep[self.rng.below(keep.len() as u64) as usize];
                (o.x, o.y)
            } else {
                *self.rng.pick(&self.anchors.clone())
            };
            let o = self.spawn(near);
            keep.push(o);
        }
        w.objs = keep;
        if self.rng.chance(5, 100) {
            out.clear(); // forced empty predict (on top of the calls where nothing is visible)
        }
        if self.family == FAM_DUPLICATES && !out.is_empty() && self.rng.chance(35, 100) {
            let i = self.rng.below(out.len() as u64) as usize;
            out[i].force_some = true;
            let b = out[i].b;
            out.push(PreDet { b, force_some: true });
        }
        self.rng.shuffle(&mut out);
        out.truncate(MAX_DETS);
        out
    }

    fn assign(&mut self, pre: Vec<PreDet>) -> Vec<Det> {
        let mut res = vec![];
        for p in pre {
            let uid = self.next_uid;
            self.next_uid += 1;
            let signed = if self.rng.chance(1, 2) { uid as i64 } else { -(uid as i64) };
            let want_none = !p.force_some && !self.rng.chance(8, 10);
            let custom = if want_none && self.none_keys.insert(p.b.key()) { None } else { Some(signed) };
            res.push(Det { uid, b: p.b, custom });
        }
        res
    }
}

fn pick_weighted(rng: &mut Rng, w: &[u64; 9]) -> usize {
    let total: u64 = w.iter().sum();
    let mut x = rng.below(total);
    for (i, v) in w.iter().enumerate() {
        if x < *v {
            return i;
        }
        x -= *v;
    }
    0
}

fn gen_history(seed: u64, k: usize, thorough: bool) -> String {
    let base = Rng::new(seed).next();
    let mut rng = Rng::new(base ^ (k as u64 + 1).wrapping_mul(0xA24BAED4963EE407));
    rng.next();
    let batch = k % 3 == 2;
    let family = (k as u64 / 3) % 5;

    let shards = rng.range(1, 4);
    let vshards = rng.range(1, 3);
    let history = rng.range(1, 5);
    let max_idle = if family == FAM_LIFECYCLE { rng.range(0, 1) } else { rng.range(0, 3) };
    let metric =
        if rng.chance(6, 10) { format!("iou:{}", f32b(*rng.pick(&IOU_THRESHOLDS))) } else { "maha".to_string() };
    let constraints = if family == FAM_CONSTRAINTS || rng.chance(1, 2) {
        let ncalls = rng.range(1, 2);
        let mut calls = vec![];
        for _ in 0..ncalls {
            let n = rng.range(1, 3);
            let mut es = vec![];
            for _ in 0..n {
                let gap = rng.range(0, 3);
                let lim = *rng.pick(&LIMITS);
                es.push(format!("{}:{}", gap, f32b(lim)));
            }
            calls.push(es.join(","));
        }
        calls.join("|")
    } else {
        "-".to_string()
    };
    let nscenes = if family == FAM_CROWDED { rng.range(1, 2) } else { rng.range(1, 4) } as usize;
    let mut ids = SCENE_IDS.to_vec();
    rng.shuffle(&mut ids);
    ids.truncate(nscenes);
    let rotated = rng.chance(3, 10);
    let nanchors = if family == FAM_CROWDED { rng.range(1, 2) } else { rng.range(2, 4) };
    let mut anchors = vec![];
    for _ in 0..nanchors {
        anchors.push((rng.dyadic(240, 1360, 2), rng.dyadic(240, 1360, 2)));
    }
    let nops = if thorough { rng.range(10, 40) } else { rng.range(5, 25) } as usize;

    let mut g = Gen { rng, family, rotated, anchors, next_uid: 1, none_keys: HashSet::new() };

    // initial population: all scenes are populated around the same anchors
    let mut worlds: Vec<World> = vec![];
    for s in &ids {
        let mut objs = vec![];
        if family == FAM_CROWDED {
            let n = g.rng.range(3, 6);
            let a0 = g.anchors[0];
            for _ in 0..n {
                let o = g.spawn(a0);
                objs.push(o);
            }
            if g.anchors.len() > 1 {
                let m = g.rng.range(0, 2);
                let a1 = g.anchors[1];
                for _ in 0..m {
                    let o = g.spawn(a1);
                    objs.push(o);
                }
            }
        } else {
            let n = g.rng.range(1, 5);
            for _ in 0..n {
                let a = *g.rng.pick(&g.anchors.clone());
                let o = g.spawn(a);
                objs.push(o);
            }
        }
        worlds.push(World { scene: *s, objs });
    }

    let weights = match family {
        FAM_CROWDED => W_CROWDED,
        FAM_LIFECYCLE => W_LIFECYCLE,
        FAM_CONSTRAINTS => W_CONSTRAINTS,
        FAM_GENERAL | FAM_DUPLICATES => W_GENERAL,
        _ => W_GENERAL,
    };

    let mut out = String::new();
    out.push_str(&format!(
        "hist k={} tracker={} shards={} vshards={} history={} max_idle={} metric={} minconf={} constraints={}\n",
        k,
        if batch { "batch" } else { "sort" },
        shards,
        vshards,
        history,
        max_idle,
        metric,
        f32b(0.05),
        constraints
    ));

    let mut emitted = 0usize;
    let mut first_predict_done = false;
    if g.rng.chance(7, 10) {
        out.push_str(&format!("op setaw p={}\n", g.rng.pick(&AUTO_WASTE)));
        emitted += 1;
    }
    while emitted < nops {
        let kind = if !first_predict_done { 0 } else { pick_weighted(&mut g.rng, &weights) };
        // scene for the scene-addressed non-predict ops: mostly a scene of the history
        let any_scene = if g.rng.chance(9, 10) {
            worlds[g.rng.below(worlds.len() as u64) as usize].scene
        } else {
            *g.rng.pick(&SCENE_IDS)
        };
        match kind {
            0 => {
                first_predict_done = true;
                if batch && worlds.len() >= 2 && g.rng.chance(3, 10) {
                    let m = g.rng.range(2, worlds.len() as i64) as usize;
                    let mut idx: Vec<usize> = (0..worlds.len()).collect();
                    g.rng.shuffle(&mut idx);
                    idx.truncate(m);
                    let mut parts = vec![];
                    for i in idx {
                        let pre = g.emit(&mut worlds[i]);
                        let dets = g.assign(pre);
                        parts.push(format!("{}@{}", worlds[i].scene, fmt_dets(&dets)));
                    }
                    out.push_str(&format!("op batch scenes={}\n", parts.join("|")));
                } else {
                    let i = g.rng.below(worlds.len() as u64) as usize;
                    let pre = g.emit(&mut worlds[i]);
                    let dets = g.assign(pre);
                    out.push_str(&format!("op predict scene={} dets={}\n", worlds[i].scene, fmt_dets(&dets)));
                }
            }
            1 => out.push_str(&format!("op skip scene={} n={}\n", any_scene, g.rng.range(0, 3))),
            2 => out.push_str("op wasted\n"),
            3 => out.push_str(&format!("op idle scene={}\n", any_scene)),
            4 => out.push_str("op clear\n"),
            5 => out.push_str(&format!("op setaw p={}\n", g.rng.pick(&AUTO_WASTE))),
            6 => out.push_str("op astats\n"),
            7 => out.push_str("op wstats\n"),
            _ => out.push_str(&format!("op epoch scene={}\n", any_scene)),
        }
        emitted += 1;
    }
    out.push_str("end\n");
    out
}

// ---------------------------------------------------------------------------------------------
// runner
// ---------------------------------------------------------------------------------------------

enum Op {
    Predict(u64, Vec<Det>),
    Batch(Vec<(u64, Vec<Det>)>),
    Skip(u64, usize),
    Wasted,
    Idle(u64),
    Clear,
    SetAw(usize),
    AStats,
    WStats,
    Epoch(u64),
}

struct Config {
    batch: bool,
    shards: usize,
    vshards: usize,
    history: usize,
    max_idle: usize,
    method: PositionalMetricType,
    minconf: f32,
    constraints: Option<Vec<Vec<(usize, f32)>>>,
}

fn bits(s: &str) -> f32 {
    f32::from_bits(s.parse::<u32>().unwrap_or_else(|_| panic!("bad f32 bits `{}`", s)))
}

fn parse_det(s: &str) -> Det {
    let f: Vec<&str> = s.split(':').collect();
    assert!(f.len() == 8, "bad detection `{}`", s);
    Det {
        uid: f[0].parse().unwrap(),
        b: BoxSpec {
            xc: bits(f[1]),
            yc: bits(f[2]),
            angle: if f[3] == "n" { None } else { Some(bits(f[3])) },
            aspect: bits(f[4]),
            height: bits(f[5]),
            conf: bits(f[6]),
        },
        custom: if f[7] == "n" { None } else { Some(f[7].parse().unwrap()) },
    }
}

fn parse_dets(s: &str) -> Vec<Det> {
    s.split(';').filter(|x| !x.is_empty()).map(parse_det).collect()
}

fn kv<'a>(toks: &[&'a str], key: &str) -> &'a str {
    for t in toks {
        if let Some((k, v)) = t.split_once('=') {
            if k == key {
                return v;
            }
        }
    }
    panic!("missing `{}=` in `{}`", key, toks.join(" "));
}

fn parse_config(line: &str) -> Config {
    let toks: Vec<&str> = line.split(' ').collect();
    let metric = kv(&toks, "metric");
    let method = if metric == "maha" {
        PositionalMetricType::Mahalanobis
    } else {
        PositionalMetricType::IoU(bits(metric.strip_prefix("iou:").expect("metric")))
    };
    let cs = kv(&toks, "constraints");
    let constraints = if cs == "-" {
        None
    } else {
        Some(
            cs.split('|')
                .map(|call| {
                    call.split(',')
                        .filter(|x| !x.is_empty())
                        .map(|e| {
                            let (g, l) = e.split_once(':').expect("constraint entry");
                            (g.parse::<usize>().unwrap(), bits(l))
                        })
                        .collect::<Vec<_>>()
                })
                .collect::<Vec<_>>(),
        )
    };
    Config {
        batch: match kv(&toks, "tracker") {
            "sort" => false,
            "batch" => true,
            x => panic!("unknown tracker `{}`", x),
        },
        shards: kv(&toks, "shards").parse().unwrap(),
        vshards: kv(&toks, "vshards").parse().unwrap(),
        history: kv(&toks, "history").parse().unwrap(),
        max_idle: kv(&toks, "max_idle").parse().unwrap(),
        method,
        minconf: bits(kv(&toks, "minconf")),
        constraints,
    }
}

fn parse_op(text: &str) -> Op {
    let toks: Vec<&str> = text.split(' ').collect();
    match toks[0] {
        "predict" => Op::Predict(kv(&toks, "scene").parse().unwrap(), parse_dets(kv(&toks, "dets"))),
        "batch" => Op::Batch(
            kv(&toks, "scenes")
                .split('|')
                .filter(|x| !x.is_empty())
                .map(|p| {
                    let (s, d) = p.split_once('@').expect("scene@dets");
                    (s.parse::<u64>().unwrap(), parse_dets(d))
                })
                .collect(),
        ),
        "skip" => Op::Skip(kv(&toks, "scene").parse().unwrap(), kv(&toks, "n").parse().unwrap()),
        "wasted" => Op::Wasted,
        "idle" => Op::Idle(kv(&toks, "scene").parse().unwrap()),
        "clear" => Op::Clear,
        "setaw" => Op::SetAw(kv(&toks, "p").parse().unwrap()),
        "astats" => Op::AStats,
        "wstats" => Op::WStats,
        "epoch" => Op::Epoch(kv(&toks, "scene").parse().unwrap()),
        x => panic!("unknown op `{}`", x),
    }
}

enum Trk {
    S(Sort),
    B(BatchSort),
}

impl Trk {
    fn api(&self) -> &Api {
        match self {
            Trk::S(s) => s,
            Trk::B(b) => b,
        }
    }
    fn api_mut(&mut self) -> &mut Api {
        match self {
            Trk::S(s) => s,
            Trk::B(b) => b,
        }
    }
}

fn build_tracker(c: &Config) -> Trk {
    let constraints = c.constraints.as_ref().map(|calls| {
        let mut stc = SpatioTemporalConstraints::default();
        for call in calls {
            stc.add_constraints(call.clone());
        }
        stc
    });
    if c.batch {
        Trk::B(BatchSort::new(
            c.shards,
            c.vshards,
            c.history,
            c.max_idle,
            c.method,
            c.minconf,
            constraints,
            1.0 / 20.0,
            1.0 / 160.0,
        ))
    } else {
        Trk::S(Sort::new(c.shards, c.history, c.max_idle, c.method, c.minconf, constraints, 1.0 / 20.0, 1.0 / 160.0))
    }
}

struct Classes(HashMap<Key, u64>);

impl Classes {
    fn register(&mut self, dets: &[Det]) {
        for d in dets {
            let e = self.0.entry(d.b.key()).or_insert(d.uid);
            if d.uid < *e {
                *e = d.uid;
            }
        }
    }
    fn of(&self, b: &Universal2DBox) -> u64 {
        self.0.get(&key_of(b)).copied().unwrap_or(0)
    }
}

fn fmt_rec(t: &SortTrack, cls: &Classes) -> String {
    format!(
        "{},{},{},{},{},{}",
        t.id,
        t.epoch,
        t.scene_id,
        t.length,
        fmt_custom(t.custom_object_id),
        cls.of(&t.observed_bbox)
    )
}

fn fmt_recs(ts: &[SortTrack], cls: &Classes) -> String {
    ts.iter().map(|t| fmt_rec(t, cls)).collect::<Vec<_>>().join(";")
}

fn fmt_trk(t: &STrack, cls: &Classes) -> String {
    let a = t.get_attributes();
    let obs = a.observed_boxes.iter().map(|b| cls.of(b).to_string()).collect::<Vec<_>>().join("/");
    format!(
        "{},{},{},{},{},{},{}",
        t.get_track_id(),
        a.scene_id,
        a.last_updated_epoch,
        a.track_length,
        fmt_custom(a.custom_object_id),
        obs,
        a.predicted_boxes.len()
    )
}

fn line(prefix: &str, body: String) -> String {
    if body.is_empty() {
        prefix.to_string()
    } else {
        format!("{} {}", prefix, body)
    }
}

/// copies of all the tracks of the main store, sorted by id
fn main_tracks(api: &Api, shards: usize) -> Vec<STrack> {
    let store = api.get_main_store();
    let mut ts: Vec<STrack> = vec![];
    for k in 0..shards {
        let g = store.get_store(k);
        ts.extend(g.values().cloned());
    }
    drop(store);
    ts.sort_by_key(|t| t.get_track_id());
    ts
}

fn wasted_tracks(api: &Api, shards: usize) -> Vec<STrack> {
    let store = api.get_wasted_store();
    let mut ts: Vec<STrack> = vec![];
    for k in 0..shards {
        let g = store.get_store(k);
        ts.extend(g.values().cloned());
    }
    drop(store);
    ts.sort_by_key(|t| t.get_track_id());
    ts
}

/// oracle table lines for the detections of one scene (read-only with respect to the tracker)
fn table(api: &Api, c: &Config, scene: u64, dets: &[Det], boxes: &[(Universal2DBox, Option<i64>)]) -> Vec<String> {
    let epoch = api.current_epoch_with_scene(scene) + 1;
    let tracks = main_tracks(api, c.shards);
    let metric = SortMetric::new(c.method, c.minconf);
    let mut lines = vec![];
    for (i, (d, (bb, custom))) in dets.iter().zip(boxes.iter()).enumerate() {
        let cand = guarded(|| {
            let store = api.get_main_store();
            store
                .new_track(u64::MAX - i as u64)
                .observation(
                    ObservationBuilder::new(0)
                        .observation_attributes(bb.clone())
                        .track_attributes_update(SortAttributesUpdate::new_with_scene(epoch, scene, *custom))
                        .build(),
                )
                .build()
                .unwrap()
        });
        let cand: STrack = match cand {
            Some(c) => c,
            None => {
                lines.push(format!("tab {} p", d.uid));
                continue;
            }
        };
        let mut entries = vec![];
        for t in &tracks {
            let r = guarded(|| {
                let co = &cand.get_observations(0).unwrap()[0];
                let to = &t.get_observations(0).unwrap()[0];
                let mq = MetricQuery {
                    feature_class: 0,
                    candidate_attrs: cand.get_attributes(),
                    candidate_observation: co,
                    track_attrs: t.get_attributes(),
                    track_observation: to,
                };
                let w = match metric.metric(&mq) {
                    None => None,
                    Some((None, _)) => None,
                    Some((Some(w), _)) => Some((w * 1_000_000.0f32) as i64),
                };
                let d2r = Universal2DBox::dist_in_2r(
                    cand.get_attributes().predicted_boxes.back().unwrap(),
                    t.get_attributes().predicted_boxes.back().unwrap(),
                );
                (w, d2r)
            });
            entries.push(match r {
                None => format!("{},p,p", t.get_track_id()),
                Some((None, d2r)) => format!("{},n,{}", t.get_track_id(), f32b(d2r)),
                Some((Some(w), d2r)) => format!("{},{},{}", t.get_track_id(), w, f32b(d2r)),
            });
        }
        lines.push(line(&format!("tab {}", d.uid), entries.join(" ")));
    }
    lines
}

static TICK: AtomicU64 = AtomicU64::new(0);

fn tick() {
    TICK.fetch_add(1, Ordering::SeqCst);
}

/// a dead worker thread of the library can leave the caller blocked for ever: report instead of hanging
fn watchdog() {
    std::thread::spawn(|| {
        let mut last = TICK.load(Ordering::SeqCst);
        let mut idle = 0u32;
        loop {
            std::thread::sleep(std::time::Duration::from_millis(500));
            let now = TICK.load(Ordering::SeqCst);
            if now != last {
                last = now;
                idle = 0;
            } else {
                idle += 1;
                if idle >= 240 {
                    println!("res hang");
                    let _ = std::io::stdout().flush();
                    std::process::exit(3);
                }
            }
        }
    });
}

fn batch_predict(
    b: &mut BatchSort,
    scenes: &[(u64, Vec<(Universal2DBox, Option<i64>)>)],
) -> Option<HashMap<u64, Vec<SortTrack>>> {
    guarded(|| {
        let (mut req, res) = PredictionBatchRequest::new();
        for (s, boxes) in scenes {
            for e in boxes {
                req.add(*s, e.clone());
            }
        }
        let n = req.batch_size();
        b.predict(req);
        let mut m: HashMap<u64, Vec<SortTrack>> = HashMap::new();
        for _ in 0..n {
            let (s, ts) = res.get();
            m.entry(s).or_default().extend(ts);
        }
        m
    })
}

fn run_history(hist: &str, ops: &[String]) {
    println!("{}", hist);
    let c = parse_config(hist);
    let parsed: Vec<Op> = ops.iter().map(|t| parse_op(t)).collect();
    tick();
    let mut trk = match guarded(|| build_tracker(&c)) {
        Some(t) => t,
        None => {
            println!("res panic");
            println!("end");
            return;
        }
    };
    let mut cls = Classes(HashMap::new());
    let mut dead = false;
    for (i, (text, op)) in ops.iter().zip(parsed.iter()).enumerate() {
        tick();
        println!("op {} {}", i, text);
        // Some(line) = result line, None = the call panicked
        let res: Option<String> = match op {
            Op::Predict(scene, dets) => {
                cls.register(dets);
                match guarded(|| dets.iter().map(|d| (d.b.to_box(), d.custom)).collect::<Vec<_>>()) {
                    None => None,
                    Some(boxes) => {
                        for l in table(trk.api(), &c, *scene, dets, &boxes) {
                            println!("{}", l);
                        }
                        tick();
                        match &mut trk {
                            Trk::S(s) => guarded(|| s.predict_with_scene(*scene, &boxes))
                                .map(|r| line("res records", fmt_recs(&r, &cls))),
                            Trk::B(b) => batch_predict(b, &[(*scene, boxes)]).map(|m| {
                                line("res records", m.get(scene).map(|r| fmt_recs(r, &cls)).unwrap_or_default())
                            }),
                        }
                    }
                }
            }
            Op::Batch(scenes) => {
                for (_, dets) in scenes {
                    cls.register(dets);
                }
                let built = guarded(|| {
                    scenes
                        .iter()
                        .map(|(s, dets)| (*s, dets.iter().map(|d| (d.b.to_box(), d.custom)).collect::<Vec<_>>()))
                        .collect::<Vec<_>>()
                });
                match (built, &mut trk) {
                    (Some(built), Trk::B(b)) => {
                        for ((s, dets), (_, boxes)) in scenes.iter().zip(built.iter()) {
                            let api: &Api = &*b;
                            for l in table(api, &c, *s, dets, boxes) {
                                println!("{}", l);
                            }
                        }
                        tick();
                        batch_predict(b, &built).map(|m| {
                            let parts = scenes
                                .iter()
                                .map(|(s, _)| {
                                    format!("{}@{}", s, m.get(s).map(|r| fmt_recs(r, &cls)).unwrap_or_default())
                                })
                                .collect::<Vec<_>>();
                            line("res batch", parts.join("|"))
                        })
                    }
                    (Some(_), Trk::S(_)) => {
                        eprintln!("`op batch` needs tracker=batch");
                        std::process::exit(2);
                    }
                    (None, _) => None,
                }
            }
            Op::Skip(scene, n) => guarded(|| trk.api_mut().skip_epochs_for_scene(*scene, *n)).map(|_| "res unit".into()),
            Op::Wasted => guarded(|| trk.api_mut().wasted()).map(|mut ts| {
                ts.sort_by_key(|t| t.get_track_id());
                line("res wasted", ts.iter().map(|t| fmt_trk(t, &cls)).collect::<Vec<_>>().join(";"))
            }),
            Op::Idle(scene) => guarded(|| match &mut trk {
                Trk::S(s) => s.idle_tracks_with_scene(*scene),
                Trk::B(b) => b.idle_tracks_with_scene(*scene),
            })
            .map(|mut ts| {
                ts.sort_by_key(|t| t.id);
                line("res idle", fmt_recs(&ts, &cls))
            }),
            Op::Clear => guarded(|| trk.api().clear_wasted()).map(|_| "res unit".into()),
            Op::SetAw(p) => guarded(|| trk.api_mut().set_auto_waste(*p)).map(|_| "res unit".into()),
            Op::AStats => guarded(|| trk.api().active_shard_stats())
                .map(|v| line("res stats", v.iter().map(|x| x.to_string()).collect::<Vec<_>>().join(","))),
            Op::WStats => guarded(|| trk.api().wasted_shard_stats())
                .map(|v| line("res stats", v.iter().map(|x| x.to_string()).collect::<Vec<_>>().join(","))),
            Op::Epoch(scene) => {
                guarded(|| trk.api().current_epoch_with_scene(*scene)).map(|e| format!("res epoch {}", e))
            }
        };
        match res {
            Some(l) => println!("{}", l),
            None => {
                println!("res panic");
                dead = true;
                break;
            }
        }
        tick();
        let dump = guarded(|| {
            let m = main_tracks(trk.api(), c.shards);
            let w = wasted_tracks(trk.api(), c.shards);
            (
                m.iter().map(|t| fmt_trk(t, &cls)).collect::<Vec<_>>().join(";"),
                w.iter().map(|t| fmt_trk(t, &cls)).collect::<Vec<_>>().join(";"),
            )
        });
        match dump {
            Some((m, w)) => {
                println!("{}", line("main", m));
                println!("{}", line("wst", w));
            }
            None => {
                println!("res panic");
                dead = true;
                break;
            }
        }
    }
    println!("end");
    tick();
    if dead {
        // worker threads of a tracker that panicked may be gone: dropping it could block
        std::mem::forget(trk);
    } else {
        let _ = guarded(move || drop(trk));
    }
}

fn main() {
    quiet_panics();
    let a = parse_args();
    match a.cmd.as_str() {
        "gen" => {
            let thorough = a.tier == "thorough";
            let mut out = String::new();
            for k in 0..a.n {
                out.push_str(&gen_history(a.seed, k, thorough));
            }
            print!("{}", out);
        }
        "run" => {
            let txt = std::fs::read_to_string(a.file.expect("--file")).expect("cannot read the history file");
            watchdog();
            let mut hist: Option<String> = None;
            let mut ops: Vec<String> = vec![];
            for raw in txt.lines() {
                let l = raw.trim_end_matches(['\r', '\n']);
                if l.starts_with("hist ") {
                    hist = Some(l.to_string());
                    ops.clear();
                } else if let Some(t) = l.strip_prefix("op ") {
                    ops.push(t.to_string());
                } else if l.trim() == "end" {
                    if let Some(h) = hist.take() {
                        run_history(&h, &ops);
                    }
                    ops.clear();
                }
            }
            if let Some(h) = hist.take() {
                run_history(&h, &ops);
            }
        }
        _ => {
            eprintln!("usage: tracker gen --seed S --n N [--tier quick|thorough] | tracker run --file F");
            std::process::exit(2);
        }
    }
    let _ = std::io::stdout().flush();
}
