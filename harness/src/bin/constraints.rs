//! C20: SpatioTemporalConstraints correspondence. Prints, one case per line:
//!   case <k> adds=<gap:f32bits,...|...> probes=<delta:f32bits;...> res=<string over T,F,P> addres=<string over O,P>
//! `addres` has one letter per add_constraints call actually made (P = panicked; the case stops there).
use similari::trackers::spatio_temporal_constraints::SpatioTemporalConstraints;
use similari_verif_harness::*;

const LIMITS: [f32; 8] = [0.25, 0.5, 0.75, 1.0, 1.5, 2.0, 4.0, 8.5];

fn run_case(k: usize, adds: &[Vec<(usize, f32)>], probes: &[(usize, f32)]) {
    let mut c = SpatioTemporalConstraints::default();
    let mut addres = String::new();
    let mut dead = false;
    for a in adds {
        let r = guarded(|| c.add_constraints(a.clone()));
        if r.is_none() {
            addres.push('P');
            dead = true;
            break;
        }
        addres.push('O');
    }
    let mut res = String::new();
    if !dead {
        for (d, x) in probes {
            match guarded(|| c.validate(*d, *x)) {
                None => res.push('P'),
                Some(true) => res.push('T'),
                Some(false) => res.push('F'),
            }
        }
    }
    // the by-value builder route: SpatioTemporalConstraints::default().constraints(&a).constraints(&b)...
    let mut resb = String::new();
    let built = guarded(|| {
        let mut b = SpatioTemporalConstraints::default();
        for a in adds {
            b = b.constraints(a);
        }
        b
    });
    match built {
        None => resb.push('X'),
        Some(b) => {
            for (d, x) in probes {
                match guarded(|| b.validate(*d, *x)) {
                    None => resb.push('P'),
                    Some(true) => resb.push('T'),
                    Some(false) => resb.push('F'),
                }
            }
        }
    }
    let adds_s: Vec<String> = adds
        .iter()
        .map(|a| a.iter().map(|(g, l)| format!("{}:{}", g, f32b(*l))).collect::<Vec<_>>().join(","))
        .collect();
    let probes_s: Vec<String> = probes.iter().map(|(d, x)| format!("{}:{}", d, f32b(*x))).collect();
    println!("case {} adds={} probes={} res={} addres={} resb={}", k, adds_s.join("|"), probes_s.join(";"), res, addres, resb);
}

fn probes_for(adds: &[Vec<(usize, f32)>], rng: &mut Rng, malformed: bool) -> Vec<(usize, f32)> {
    // every gap 0..=10 x {every configured limit, midpoints, a bit above, a bit below, 0}
    let mut ds: Vec<f32> = vec![0.0];
    for a in adds {
        for (_, l) in a {
            ds.push(*l);
            ds.push(*l - l.abs() / 4.0);
            ds.push(*l + l.abs() / 4.0);
            ds.push(f32::from_bits(l.to_bits().wrapping_add(1)));
            ds.push(f32::from_bits(l.to_bits().wrapping_sub(1)));
        }
    }
    ds.retain(|x| *x >= 0.0);
    ds.sort_by(|a, b| a.partial_cmp(b).unwrap());
    ds.dedup();
    let mut ps = vec![];
    for d in 0..=10usize {
        for x in &ds {
            ps.push((d, *x));
        }
    }
    if malformed {
        ps.push((rng.below(10) as usize, -0.5));
    }
    ps
}

fn main() {
    quiet_panics();
    let a = parse_args();
    let mut rng = Rng::new(a.seed);
    let mut k = 0usize;
    match a.cmd.as_str() {
        "gen" => {
            // corpus: the unit test's table
            let adds = vec![
                vec![(1, 0.5), (2, 1.0), (3, 2.0), (4, 4.0)],
                vec![(3, 2.5), (4, 4.5), (7, 8.5)],
            ];
            let p = probes_for(&adds, &mut rng, true);
            run_case(k, &adds, &p);
            k += 1;
            for _ in 0..a.n {
                let ncalls = 1 + rng.below(3) as usize;
                let malformed = rng.chance(1, 10);
                let mut adds = vec![];
                for _ in 0..ncalls {
                    let len = rng.below(6) as usize;
                    let mut v = vec![];
                    for _ in 0..len {
                        let g = rng.below(9) as usize;
                        let mut l = *rng.pick(&LIMITS);
                        if rng.chance(1, 4) {
                            l = rng.dyadic(1, 64, 3);
                        }
                        if malformed && rng.chance(1, 6) {
                            l = if rng.chance(1, 2) { 0.0 } else { -1.0 };
                        }
                        v.push((g, l));
                    }
                    adds.push(v);
                }
                let p = probes_for(&adds, &mut rng, malformed);
                run_case(k, &adds, &p);
                k += 1;
            }
        }
        "exhaustive" => {
            // all tables made of one or two calls, each of 0..=2 entries over gaps 0..=3 and limits {0.5, 1.0, 2.0}
            let lims = [0.5f32, 1.0, 2.0];
            let mut entries = vec![];
            for g in 0..=3usize {
                for l in lims {
                    entries.push((g, l));
                }
            }
            let mut calls: Vec<Vec<(usize, f32)>> = vec![vec![]];
            for e in &entries {
                calls.push(vec![*e]);
            }
            for e1 in &entries {
                for e2 in &entries {
                    calls.push(vec![*e1, *e2]);
                }
            }
            for c1 in &calls {
                for c2 in &calls {
                    if c1.is_empty() && !c2.is_empty() {
                        continue;
                    }
                    let adds = vec![c1.clone(), c2.clone()];
                    let mut ps = vec![];
                    for d in 0..=4usize {
                        for x in [0.0f32, 0.25, 0.5, 0.75, 1.0, 1.5, 2.0, 3.0] {
                            ps.push((d, x));
                        }
                    }
                    run_case(k, &adds, &ps);
                    k += 1;
                }
            }
        }
        "dist" => {
            // Universal2DBox::dist_in_2r on pairs of boxes of DIFFERENT sizes; prints both boxes and both orders
            use similari::utils::bbox::Universal2DBox;
            for _ in 0..a.n {
                let mk = |rng: &mut Rng| {
                    let xc = rng.dyadic(-4000, 4000, 2);
                    let yc = rng.dyadic(-4000, 4000, 2);
                    let aspect = rng.dyadic(1, 64, 4);
                    let h = rng.dyadic(1, 4000, 3);
                    let angle = if rng.chance(1, 2) { None } else { Some(rng.dyadic(-64, 64, 3)) };
                    Universal2DBox::new(xc, yc, angle, aspect, h)
                };
                let l = mk(&mut rng);
                let mut r = mk(&mut rng);
                if rng.chance(1, 2) {
                    // near: within a few radii
                    r.xc = l.xc + rng.dyadic(-64, 64, 3) * l.height / 8.0;
                    r.yc = l.yc + rng.dyadic(-64, 64, 3) * l.height / 8.0;
                }
                let d1 = guarded(|| Universal2DBox::dist_in_2r(&l, &r));
                let d2 = guarded(|| Universal2DBox::dist_in_2r(&r, &l));
                println!(
                    "dist {} l={},{},{},{} r={},{},{},{} lr={} rl={}",
                    k, f32b(l.xc), f32b(l.yc), f32b(l.aspect), f32b(l.height),
                    f32b(r.xc), f32b(r.yc), f32b(r.aspect), f32b(r.height),
                    d1.map(f32b).unwrap_or("P".into()), d2.map(f32b).unwrap_or("P".into())
                );
                k += 1;
            }
        }
        "replay" => {
            // --file with lines: adds=... probes=...
            let txt = std::fs::read_to_string(a.file.expect("--file")).unwrap();
            for line in txt.lines() {
                let mut adds = vec![];
                let mut probes = vec![];
                for tok in line.split_whitespace() {
                    if let Some(s) = tok.strip_prefix("adds=") {
                        for call in s.split('|') {
                            let mut v = vec![];
                            for e in call.split(',').filter(|x| !x.is_empty()) {
                                let (g, l) = e.split_once(':').unwrap();
                                v.push((g.parse().unwrap(), f32::from_bits(l.parse().unwrap())));
                            }
                            adds.push(v);
                        }
                    }
                    if let Some(s) = tok.strip_prefix("probes=") {
                        for e in s.split(';').filter(|x| !x.is_empty()) {
                            let (g, l) = e.split_once(':').unwrap();
                            probes.push((g.parse().unwrap(), f32::from_bits(l.parse().unwrap())));
                        }
                    }
                }
                if !adds.is_empty() || !probes.is_empty() {
                    run_case(k, &adds, &probes);
                    k += 1;
                }
            }
        }
        _ => {
            eprintln!("usage: constraints gen|exhaustive|replay [--seed S] [--n N] [--file F]");
            std::process::exit(2);
        }
    }
}
