//! C19 (+ the scalar pieces used by C02/C07/C08): runs the REAL box functions of similari on boundary-heavy inputs.
//!
//! One record per line: `<kind> <key>=<value> ...`; all numbers are bit patterns (f32 -> u32, f64 -> u64), lists are
//! comma separated, a missing angle is `N`. `gen --seed S --n N` generates inputs and evaluates them; `replay --file F`
//! re-evaluates the input part of stored records (outputs in the file are ignored and recomputed).
//!
//! kinds
//!   eqb   a=l,t,w,h,c b=l,t,w,h,c k=<field varied>            -> ab ba aa bb              (BoundingBox ==)
//!   equ   a=xc,yc,ang,asp,h,c b=... k=<field varied>          -> ab ba aa bb              (Universal2DBox ==)
//!   conv  a=l,t,w,h,c                                         -> u=xc,yc,ang,asp,h,c back=l,t,w,h,c|E
//!   convu a=xc,yc,ang,asp,h,c                                 -> b=l,t,w,h,c|E back=xc,yc,ang,asp,h,c|E
//!   poly  a=xc,yc,ang,asp,h,c                                 -> cs=cos,sin (f64) n=<ring length> v=x0,y0,..,x3,y3 (f64) area= radius=
//!   norm  a=<angle>                                           -> r=
//!   inter a=l,t,w,h,c b=l,t,w,h,c                             -> i=<f64>|P
//!   far   a=ubox b=ubox                                       -> far=0|1|P d2r=<f32>|P ra= rb=   (too_far, dist_in_2r, get_radius)
//!   cost  d=<f32>                                             -> bd bi pd pi   (box direct/inverted, point direct/inverted)
//!   gate  mode=iou|maha mc= thr= a=ubox(candidate) b=ubox(track) [hist=ubox;ubox..] -> far= iou=|N dist=|N res=X|S:N|S:<bits>
//!   baked lu= mi= ep=N|<usize>                                -> st=W|P|R|E
//!   kst   a=xc,yc,ang,asp,h,c                                 -> mean=m0..m9 u=ubox|E ua= au= bb=l,t,w,h,c|E   (initiate -> state -> Universal2DBox / BoundingBox; == both orders)
//!   seq   a=ubox ops=<op;op;..>                               -> cur=ubox n= gv=<8 f64> fv= pf= ff= gc=<8 f64>|N fc=..|N area= radius=
//!         ops: g gen_vertices | cl clone | rm:<f32> rotate_mut | r:<f32> rotate | x:/y:/s:/h:<f32> write xc/yc/aspect/height | an:<f32>|N write angle
//!              ix intersection/IoU with a neighbour (by reference) | cp sutherland_hodgman_clip on clones | tf BoundingBox::try_from(&b)   (queries)
//!         exp = the fields the box must have (initial fields + the mutators only); tb/tv BoundingBox::try_from(&b)/(b.clone()), tbf/tvf on the fresh box
//!         afterwards: gv get_vertices(), pf Polygon::from(&b), gc gen_vertices()+get_cached_vertices(); fv/ff/fc the same calls on a FRESH box
//!         built from the current field values
//!   vis   kind=E|C t=<f32> d=<f32>                            -> ok=0|1 w=<f32>   (VisualSortMetricType::is_ok / distance_to_weight)
use similari::track::{MetricQuery, Observation, ObservationAttributes, ObservationMetric, TrackStatus};
use similari::trackers::epoch_db::EpochDb;
use similari::trackers::kalman_prediction::TrackAttributesKalmanPrediction;
use similari::trackers::sort::metric::SortMetric;
use similari::trackers::sort::{PositionalMetricType, SortAttributes, SortAttributesOptions};
use similari::trackers::spatio_temporal_constraints::SpatioTemporalConstraints;
use similari::trackers::visual_sort::metric::VisualSortMetricType;
use similari::utils::bbox::{normalize_angle, BoundingBox, Universal2DBox};
use similari::utils::kalman::kalman_2d_box::Universal2DBoxKalmanFilter;
use similari::utils::kalman::kalman_2d_point::Point2DKalmanFilter;
use similari::utils::kalman::CHI2INV95;
use similari::EPS;
use similari_verif_harness::*;
use std::collections::HashMap;
use std::f32::consts::PI;
use std::sync::{Arc, RwLock};

fn b(x: f32) -> String {
    f32b(x)
}
fn ob(x: Option<f32>) -> String {
    match x {
        Some(v) => f32b(v),
        None => "N".into(),
    }
}
fn pf(s: &str) -> f32 {
    f32::from_bits(s.parse::<u32>().unwrap())
}
fn pof(s: &str) -> Option<f32> {
    if s == "N" {
        None
    } else {
        Some(pf(s))
    }
}

#[derive(Clone, Copy, Debug)]
struct BB {
    l: f32,
    t: f32,
    w: f32,
    h: f32,
    c: f32,
}
#[derive(Clone, Copy, Debug)]
struct UB {
    xc: f32,
    yc: f32,
    ang: Option<f32>,
    asp: f32,
    h: f32,
    c: f32,
}
impl BB {
    fn real(&self) -> BoundingBox {
        // struct literal: no assertion on the confidence range, exactly the stored fields
        BoundingBox { left: self.l, top: self.t, width: self.w, height: self.h, confidence: self.c }
    }
    fn of(x: &BoundingBox) -> BB {
        BB { l: x.left, t: x.top, w: x.width, h: x.height, c: x.confidence }
    }
    fn s(&self) -> String {
        format!("{},{},{},{},{}", b(self.l), b(self.t), b(self.w), b(self.h), b(self.c))
    }
    fn parse(s: &str) -> BB {
        let v: Vec<&str> = s.split(',').collect();
        BB { l: pf(v[0]), t: pf(v[1]), w: pf(v[2]), h: pf(v[3]), c: pf(v[4]) }
    }
    fn get(&self, k: usize) -> f32 {
        [self.l, self.t, self.w, self.h, self.c][k]
    }
    fn set(&mut self, k: usize, x: f32) {
        match k {
            0 => self.l = x,
            1 => self.t = x,
            2 => self.w = x,
            3 => self.h = x,
            _ => self.c = x,
        }
    }
}
impl UB {
    fn real(&self) -> Universal2DBox {
        let mut u = Universal2DBox::new(self.xc, self.yc, self.ang, self.asp, self.h);
        u.confidence = self.c;
        u
    }
    fn of(x: &Universal2DBox) -> UB {
        UB { xc: x.xc, yc: x.yc, ang: x.angle, asp: x.aspect, h: x.height, c: x.confidence }
    }
    fn s(&self) -> String {
        format!("{},{},{},{},{},{}", b(self.xc), b(self.yc), ob(self.ang), b(self.asp), b(self.h), b(self.c))
    }
    fn parse(s: &str) -> UB {
        let v: Vec<&str> = s.split(',').collect();
        UB { xc: pf(v[0]), yc: pf(v[1]), ang: pof(v[2]), asp: pf(v[3]), h: pf(v[4]), c: pf(v[5]) }
    }
    fn get(&self, k: usize) -> f32 {
        [self.xc, self.yc, self.ang.unwrap_or(0.0), self.asp, self.h, self.c][k]
    }
    fn set(&mut self, k: usize, x: f32) {
        match k {
            0 => self.xc = x,
            1 => self.yc = x,
            2 => self.ang = Some(x),
            3 => self.asp = x,
            4 => self.h = x,
            _ => self.c = x,
        }
    }
}

fn b01(x: bool) -> &'static str {
    if x {
        "1"
    } else {
        "0"
    }
}

// ---------------------------------------------------------------------------------------------------------
// evaluation of the real code

fn ev_eqb(a: &BB, bb: &BB, k: usize) -> String {
    let (x, y) = (a.real(), bb.real());
    format!("eqb a={} b={} k={} ab={} ba={} aa={} bb={}", a.s(), bb.s(), k, b01(x == y), b01(y == x), b01(x == x), b01(y == y))
}

fn ev_equ(a: &UB, bb: &UB, k: usize) -> String {
    let (x, y) = (a.real(), bb.real());
    format!("equ a={} b={} k={} ab={} ba={} aa={} bb={}", a.s(), bb.s(), k, b01(x == y), b01(y == x), b01(x == x), b01(y == y))
}

fn ev_conv(a: &BB) -> String {
    let x = a.real();
    let u = x.as_xyaah();
    let back = match BoundingBox::try_from(&u) {
        Ok(r) => BB::of(&r).s(),
        Err(_) => "E".into(),
    };
    format!("conv a={} u={} back={}", a.s(), UB::of(&u).s(), back)
}

fn ev_convu(a: &UB) -> String {
    let u = a.real();
    match BoundingBox::try_from(&u) {
        Ok(r) => {
            let u2 = r.as_xyaah();
            format!("convu a={} b={} back={}", a.s(), BB::of(&r).s(), UB::of(&u2).s())
        }
        Err(_) => format!("convu a={} b=E back=E", a.s()),
    }
}

fn ev_poly(a: &UB) -> String {
    let u = a.real();
    let p = u.get_vertices();
    let ring: Vec<_> = p.exterior().coords().cloned().collect();
    let ang = a.ang.unwrap_or(0.0) as f64;
    let mut v = vec![];
    for c in ring.iter().take(4) {
        v.push(f64b(c.x));
        v.push(f64b(c.y));
    }
    format!(
        "poly a={} cs={},{} n={} v={} area={} radius={}",
        a.s(),
        f64b(ang.cos()),
        f64b(ang.sin()),
        ring.len(),
        v.join(","),
        b(u.area()),
        b(u.get_radius())
    )
}

fn ev_norm(a: f32) -> String {
    format!("norm a={} r={}", b(a), b(normalize_angle(a)))
}

fn ev_inter(a: &BB, bb: &BB) -> String {
    let (x, y) = (a.real(), bb.real());
    let r = guarded(|| BoundingBox::intersection(&x, &y));
    format!("inter a={} b={} i={}", a.s(), bb.s(), r.map(f64b).unwrap_or_else(|| "P".into()))
}

fn ev_far(a: &UB, bb: &UB) -> String {
    let (x, y) = (a.real(), bb.real());
    let far = guarded(|| Universal2DBox::too_far(&x, &y));
    let d = guarded(|| Universal2DBox::dist_in_2r(&x, &y));
    format!(
        "far a={} b={} far={} d2r={} ra={} rb={}",
        a.s(),
        bb.s(),
        far.map(|f| b01(f).to_string()).unwrap_or_else(|| "P".into()),
        d.map(b).unwrap_or_else(|| "P".into()),
        b(x.get_radius()),
        b(y.get_radius())
    )
}

fn ev_cost(d: f32) -> String {
    format!(
        "cost d={} bd={} bi={} pd={} pi={}",
        b(d),
        b(Universal2DBoxKalmanFilter::calculate_cost(d, false)),
        b(Universal2DBoxKalmanFilter::calculate_cost(d, true)),
        b(Point2DKalmanFilter::calculate_cost(d, false)),
        b(Point2DKalmanFilter::calculate_cost(d, true))
    )
}

fn ev_gate(mode: &str, mc: f32, thr: f32, a: &UB, t: &UB, hist: &[UB]) -> String {
    let opts = Arc::new(SortAttributesOptions::new(None, 0, 5, SpatioTemporalConstraints::default(), 1.0 / 20.0, 1.0 / 160.0));
    let cand_attrs = SortAttributes::new(opts.clone());
    let mut track_attrs = SortAttributes::new(opts.clone());
    let method = if mode == "iou" { PositionalMetricType::IoU(thr) } else { PositionalMetricType::Mahalanobis };
    let metric = SortMetric::new(method, mc);
    let (ca, tr) = (a.real(), t.real());
    // the track's filter state: one prediction per historical box (as SortMetric::optimize does)
    let mut dist = None;
    if mode == "maha" {
        for hb in hist {
            let _ = track_attrs.make_prediction(&hb.real());
        }
        if let Some(state) = track_attrs.get_state() {
            let f = Universal2DBoxKalmanFilter::new(track_attrs.get_position_weight(), track_attrs.get_velocity_weight());
            dist = guarded(|| f.distance(state, &ca));
        }
    }
    let far = guarded(|| Universal2DBox::too_far(&ca, &tr));
    let iou = if mode == "iou" && far == Some(false) { guarded(|| Universal2DBox::calculate_metric_object(&Some(&ca), &Some(&tr))) } else { None };
    let cand_obs = Observation::new(Some(ca.clone()), None);
    let track_obs = Observation::new(Some(tr.clone()), None);
    let res = guarded(|| {
        let mq = MetricQuery {
            feature_class: 0,
            candidate_attrs: &cand_attrs,
            candidate_observation: &cand_obs,
            track_attrs: &track_attrs,
            track_observation: &track_obs,
        };
        metric.metric(&mq)
    });
    let res_s = match res {
        None => "P".to_string(),
        Some(None) => "X".to_string(),
        Some(Some((w, f))) => format!("S:{}:{}", ob(w), if f.is_some() { "F" } else { "N" }),
    };
    let hs: Vec<String> = hist.iter().map(|h| h.s()).collect();
    format!(
        "gate mode={} mc={} thr={} a={} b={} hist={} far={} iou={} dist={} res={}",
        mode,
        b(mc),
        b(thr),
        a.s(),
        t.s(),
        if hs.is_empty() { "-".to_string() } else { hs.join(";") },
        far.map(|f| b01(f).to_string()).unwrap_or_else(|| "P".into()),
        match iou {
            Some(Some(v)) => b(v),
            Some(None) => "N".into(),
            None => "-".into(),
        },
        dist.map(b).unwrap_or_else(|| "-".into()),
        res_s
    )
}

fn ev_baked(lu: usize, mi: usize, ep: Option<usize>, has_db: bool) -> String {
    let db = if has_db {
        let mut m = HashMap::new();
        if let Some(e) = ep {
            m.insert(7u64, e);
        }
        Some(RwLock::new(m))
    } else {
        None
    };
    let opts = SortAttributesOptions::new(db, mi, 5, SpatioTemporalConstraints::default(), 1.0 / 20.0, 1.0 / 160.0);
    let st = match opts.baked(7, lu) {
        Ok(TrackStatus::Wasted) => "W",
        Ok(TrackStatus::Pending) => "P",
        Ok(TrackStatus::Ready) => "R",
        Err(_) => "E",
    };
    format!("baked lu={} mi={} ep={} db={} st={}", lu, mi, ep.map(|e| e.to_string()).unwrap_or_else(|| "N".into()), b01(has_db), st)
}

fn ev_kst(a: &UB) -> String {
    let bx = a.real();
    let f = Universal2DBoxKalmanFilter::default();
    let state = f.initiate(&bx);
    let (mean, _cov) = state.verif_raw();
    let ms: Vec<String> = mean.iter().map(|x| b(*x)).collect();
    let (us, ua, au) = match Universal2DBox::try_from(state) {
        Ok(u) => (UB::of(&u).s(), b01(u == bx).to_string(), b01(bx == u).to_string()),
        Err(_) => ("E".to_string(), "-".to_string(), "-".to_string()),
    };
    let bbs = match BoundingBox::try_from(state) {
        Ok(r) => BB::of(&r).s(),
        Err(_) => "E".to_string(),
    };
    format!("kst a={} mean={} u={} ua={} au={} bb={}", a.s(), ms.join(","), us, ua, au, bbs)
}

fn ring8(p: &geo::Polygon<f64>) -> (usize, String) {
    let ring: Vec<_> = p.exterior().coords().cloned().collect();
    let mut v = vec![];
    for c in ring.iter().take(4) {
        v.push(f64b(c.x));
        v.push(f64b(c.y));
    }
    (ring.len(), v.join(","))
}

fn ev_seq(a: &UB, ops: &str) -> String {
    let mut bx = a.real();
    // the fields the box must have afterwards: only the mutators (rm r x y s h an) change them; g cl ix cp tf are
    // queries / cache fills and must leave every public observable alone
    let mut exp = *a;
    let other = Universal2DBox::new(a.xc + a.h * a.asp * 0.25, a.yc - a.h * 0.25, None, a.asp, a.h);
    for op in ops.split(';').filter(|o| !o.is_empty()) {
        let (k, arg) = match op.split_once(':') {
            Some((k, v)) => (k, v),
            None => (op, ""),
        };
        match k {
            "g" => {
                bx.gen_vertices();
            }
            "cl" => bx = bx.clone(),
            "ix" => {
                let _ = guarded(|| Universal2DBox::intersection(&bx, &other));
                let _ = guarded(|| Universal2DBox::calculate_metric_object(&Some(&bx), &Some(&other)));
            }
            "cp" => {
                let (c1, c2) = (bx.clone(), other.clone());
                let _ = guarded(move || c1.sutherland_hodgman_clip(c2));
            }
            "tf" => {
                let _ = BoundingBox::try_from(&bx);
            }
            "rm" => {
                bx.rotate_mut(pf(arg));
                exp.ang = Some(pf(arg));
            }
            "r" => {
                bx = bx.rotate(pf(arg));
                exp.ang = Some(pf(arg));
            }
            "x" => {
                bx.xc = pf(arg);
                exp.xc = pf(arg);
            }
            "y" => {
                bx.yc = pf(arg);
                exp.yc = pf(arg);
            }
            "s" => {
                bx.aspect = pf(arg);
                exp.asp = pf(arg);
            }
            "h" => {
                bx.height = pf(arg);
                exp.h = pf(arg);
            }
            "an" => {
                bx.angle = pof(arg);
                exp.ang = pof(arg);
            }
            _ => return format!("# unknown op {}", op),
        }
    }
    let cur = UB::of(&bx);
    let mut fresh = exp.real();
    let tfs = |r: Result<BoundingBox, similari::Errors>| match r {
        Ok(x) => BB::of(&x).s(),
        Err(_) => "E".to_string(),
    };
    let (tb, tbf) = (tfs(BoundingBox::try_from(&bx)), tfs(BoundingBox::try_from(&fresh)));
    let (tv, tvf) = (tfs(BoundingBox::try_from(bx.clone())), tfs(BoundingBox::try_from(fresh.clone())));
    let (area_f, radius_f) = (fresh.area(), fresh.get_radius());
    let eqs = format!("{}{}", b01(bx == fresh), b01(fresh == bx));
    let (n, gv) = ring8(&bx.get_vertices());
    let (_, fv) = ring8(&fresh.get_vertices());
    let (_, pfv) = ring8(&geo::Polygon::from(&bx));
    let (_, ffv) = ring8(&geo::Polygon::from(&fresh));
    let area = bx.area();
    let radius = bx.get_radius();
    bx.gen_vertices();
    fresh.gen_vertices();
    let gc = bx.get_cached_vertices().as_ref().map(|p| ring8(p).1).unwrap_or_else(|| "N".into());
    let fc = fresh.get_cached_vertices().as_ref().map(|p| ring8(p).1).unwrap_or_else(|| "N".into());
    format!(
        "seq a={} ops={} cur={} exp={} n={} gv={} fv={} pf={} ff={} gc={} fc={} area={} radius={} areaf={} radiusf={} tb={} tbf={} tv={} tvf={} eq={}",
        a.s(), ops, cur.s(), exp.s(), n, gv, fv, pfv, ffv, gc, fc, b(area), b(radius), b(area_f), b(radius_f), tb, tbf, tv, tvf, eqs
    )
}

fn ev_vis(kind: &str, t: f32, d: f32) -> String {
    let k = if kind == "E" { VisualSortMetricType::Euclidean(t) } else { VisualSortMetricType::Cosine(t) };
    format!("vis kind={} t={} d={} ok={} w={}", kind, b(t), b(d), b01(k.is_ok(d)), b(k.distance_to_weight(d)))
}

// ---------------------------------------------------------------------------------------------------------
// generators

/// magnitude 10^u, u uniform in [lo, hi], mantissa truncated to `bits` bits (so sums/products stay exact more often)
fn mag(r: &mut Rng, lo: f64, hi: f64, bits: u32) -> f32 {
    let u = lo + (hi - lo) * r.unit_f64();
    let x = 10f64.powf(u) as f32;
    let m = x.to_bits() & !((1u32 << (23 - bits)) - 1);
    f32::from_bits(m)
}
fn signed(x: f32, r: &mut Rng) -> f32 {
    if r.chance(1, 2) {
        -x
    } else {
        x
    }
}
fn ulp_step(x: f32, n: i64) -> f32 {
    // the f32 n steps away from x (x finite; crossing zero handled through the ordered-integer view)
    let bits = x.to_bits() as i32;
    let ord: i64 = if bits < 0 { (i32::MIN as i64) - (bits as i64) } else { bits as i64 };
    let o2 = ord + n;
    let b2: i32 = if o2 < 0 { ((i32::MIN as i64) - o2) as i32 } else { o2 as i32 };
    f32::from_bits(b2 as u32)
}

fn gen_angle(r: &mut Rng) -> Option<f32> {
    match r.below(8) {
        0 => None,
        1 => Some(0.0),
        2 => Some((r.range(-8, 8) as f32) * (PI / 2.0)),
        3 => Some(signed(2.0 * PI + mag(r, -2.0, 2.0, 12), r)),
        4 => Some(signed(mag(r, -3.0, 0.0, 16), r)),
        _ => Some(signed((r.unit_f64() * 10.0) as f32, r)),
    }
}

fn gen_bb(r: &mut Rng) -> BB {
    let bits = *r.pick(&[6u32, 12, 23]);
    BB {
        l: signed(mag(r, -2.0, 4.0, bits), r),
        t: signed(mag(r, -2.0, 4.0, bits), r),
        w: mag(r, -2.0, 4.0, bits),
        h: mag(r, -2.0, 4.0, bits),
        c: (r.range(0, 64) as f32) / 64.0,
    }
}

fn gen_ub(r: &mut Rng) -> UB {
    let bits = *r.pick(&[6u32, 12, 23]);
    UB {
        xc: signed(mag(r, -2.0, 4.0, bits), r),
        yc: signed(mag(r, -2.0, 4.0, bits), r),
        ang: gen_angle(r),
        asp: mag(r, -2.0, 2.0, bits),
        h: mag(r, -2.0, 4.0, bits),
        c: (r.range(0, 64) as f32) / 64.0,
    }
}

/// values of field that differ from x by about +-delta, for delta across the EPS boundary
fn neighbours(r: &mut Rng, x: f32) -> Vec<f32> {
    let mut out = vec![];
    // (1) additive deltas relative to EPS (meaningful where ulp(x) << EPS)
    let rel: [f32; 17] = [0.0, 0.25, 0.5, 0.9, 0.99, 0.999, 0.9999, 1.0, 1.0001, 1.001, 1.01, 1.1, 2.0, 10.0, 1e3, 1e5, 9.9e6];
    for _ in 0..4 {
        let d = *r.pick(&rel) * EPS;
        out.push(x + d);
        out.push(x - d);
    }
    // (2) stepping by ulps so that n*ulp straddles EPS (exact differences at any magnitude)
    let ulp = (ulp_step(x.abs(), 1) - x.abs()).abs();
    if ulp > 0.0 && ulp.is_finite() {
        let n0 = (EPS as f64 / ulp as f64).floor() as i64;
        if n0 < (1 << 22) {
            for dn in [-1i64, 0, 1, 2] {
                let n = n0 + dn;
                if n >= 0 {
                    out.push(ulp_step(x, n));
                    out.push(ulp_step(x, -n));
                }
            }
        }
    }
    // (3) the exact f32 EPS, its neighbours
    out.push(x + ulp_step(EPS, -1));
    out.push(x + ulp_step(EPS, 1));
    out.push(x - ulp_step(EPS, 1));
    // (4) gross differences (the historical defect: 1 vs 100)
    out.push(x + 99.0);
    out.push(x - 99.0);
    out
}

fn small_field(r: &mut Rng) -> f32 {
    // small magnitudes: ulp well below EPS, incl. 0 and dyadics
    match r.below(4) {
        0 => 0.0,
        1 => (r.range(1, 64) as f32) / 1024.0,
        2 => mag(r, -2.0, -1.2, 23),
        _ => mag(r, -2.0, 0.0, 10),
    }
}

fn main() {
    quiet_panics();
    let a = parse_args();
    match a.cmd.as_str() {
        "gen" => gen(a.seed, a.n),
        "replay" => replay(a.file.as_deref().expect("--file")),
        _ => {
            eprintln!("usage: boxes gen --seed S --n N | replay --file F");
            std::process::exit(2);
        }
    }
}

fn gen(seed: u64, n: usize) {
    let mut r = Rng::new(seed);
    // ---- equality: pairs differing in exactly one coordinate
    for i in 0..n {
        let mut a = gen_bb(&mut r);
        let k = i % 5;
        if r.chance(1, 2) {
            let v = small_field(&mut r);
            let v = if k < 2 { signed(v, &mut r) } else if k == 4 { v.min(1.0) } else { v.max(0.0078125) };
            a.set(k, v);
        }
        for y in neighbours(&mut r, a.get(k)) {
            let mut bb = a;
            bb.set(k, y);
            println!("{}", ev_eqb(&a, &bb, k));
        }
        let mut u = gen_ub(&mut r);
        let k = i % 6;
        if r.chance(1, 2) {
            let v = small_field(&mut r);
            let v = if k < 3 { signed(v, &mut r) } else if k == 5 { v.min(1.0) } else { v.max(0.0078125) };
            u.set(k, v);
        }
        if k == 2 && u.ang.is_none() {
            // None is compared as angle 0: vary around 0 on the other side
            for y in neighbours(&mut r, 0.0) {
                let mut v = u;
                v.ang = Some(y);
                println!("{}", ev_equ(&u, &v, k));
            }
        } else {
            for y in neighbours(&mut r, u.get(k)) {
                let mut v = u;
                v.set(k, y);
                println!("{}", ev_equ(&u, &v, k));
            }
        }
    }
    // ---- conversions, polygon, area, radius
    for _ in 0..n {
        let a = gen_bb(&mut r);
        println!("{}", ev_conv(&a));
        let u = gen_ub(&mut r);
        println!("{}", ev_convu(&u));
        let mut u0 = u;
        u0.ang = None;
        println!("{}", ev_convu(&u0));
        println!("{}", ev_poly(&u));
        println!("{}", ev_poly(&gen_ub(&mut r)));
    }
    // ---- angle normalisation
    let two_pi = 2.0 * PI;
    let mut angles: Vec<f32> = vec![0.0, -0.0, 1e-10, -1e-10, -1e-30, two_pi, -two_pi, PI, -PI, 0.3, -0.3, 6.583184, 1e5, -1e5, 12345.678, -54321.0];
    for k in -12i64..=12 {
        let m = (k as f32) * two_pi;
        for s in -2i64..=2 {
            angles.push(ulp_step(m, s));
        }
        angles.push((k as f32) * (PI / 2.0));
    }
    for _ in 0..n {
        angles.push(signed((r.unit_f64() * 1000.0) as f32, &mut r));
        angles.push(signed(mag(&mut r, -6.0, 4.0, 23), &mut r));
        let k = r.range(-150, 150) as f32;
        angles.push(ulp_step(k * two_pi, r.range(-3, 3)));
    }
    for x in angles {
        println!("{}", ev_norm(x));
    }
    // ---- axis-aligned intersection; too_far / dist_in_2r
    for i in 0..n {
        let a = gen_bb(&mut r);
        let mut bb = gen_bb(&mut r);
        match i % 4 {
            0 => {
                // overlapping: shift by a fraction of the size
                bb.l = a.l + a.w * ((r.range(-8, 8) as f32) / 8.0);
                bb.t = a.t + a.h * ((r.range(-8, 8) as f32) / 8.0);
            }
            1 => {
                // touching edges exactly
                bb.l = a.l + a.w;
                bb.t = a.t;
            }
            2 => {
                bb = a;
            }
            _ => {}
        }
        println!("{}", ev_inter(&a, &bb));
        println!("{}", ev_inter(&bb, &a));
        let u = gen_ub(&mut r);
        let mut v = gen_ub(&mut r);
        match i % 4 {
            0 => {
                // centres at about r1+r2 along a random direction
                let rr = u.real().get_radius() + v.real().get_radius();
                let th = r.unit_f64() * 6.283;
                let f = *r.pick(&[0.5f32, 0.9, 0.999, 1.0, 1.001, 1.1, 2.0]);
                v.xc = u.xc + rr * f * (th.cos() as f32);
                v.yc = u.yc + rr * f * (th.sin() as f32);
            }
            1 => {
                // on an axis: distance exactly representable relative to the radii sum
                let rr = u.real().get_radius() + v.real().get_radius();
                v.yc = u.yc;
                v.xc = u.xc + ulp_step(rr, r.range(-2, 2));
            }
            2 => {
                v.xc = u.xc;
                v.yc = u.yc;
            }
            _ => {}
        }
        println!("{}", ev_far(&u, &v));
        println!("{}", ev_far(&v, &u));
    }
    // ---- Kalman cost functions: boundary grid around every table entry, plus a sweep
    let mut ds: Vec<f32> = vec![0.0, 1e-6, 1.0, 7.0, 50.0, 99.0, 100.0, 101.0, 1e3, 1e6];
    for t in CHI2INV95.iter() {
        for s in -3i64..=3 {
            ds.push(ulp_step(*t, s));
        }
        ds.push(*t - 0.01);
        ds.push(*t + 0.01);
    }
    for _ in 0..n {
        ds.push((r.unit_f64() * 20.0) as f32);
    }
    for d in ds {
        println!("{}", ev_cost(d));
    }
    // ---- SortMetric::metric
    for i in 0..n {
        let mc = *r.pick(&[0.05f32, 0.25, 0.5, 0.0078125]);
        let thr = *r.pick(&[0.3f32, 0.25, 0.5, 0.0625, 0.75]);
        // candidate near the track: overlapping axis-aligned or rotated boxes
        let mut t = gen_ub(&mut r);
        t.xc = (r.range(-4000, 4000) as f32) / 4.0;
        t.yc = (r.range(-4000, 4000) as f32) / 4.0;
        t.h = (r.range(8, 800) as f32) / 4.0;
        t.asp = (r.range(2, 32) as f32) / 8.0;
        if i % 3 != 2 {
            t.ang = None;
        }
        let mut c = t;
        let sh = *r.pick(&[0.0f32, 0.125, 0.25, 0.5, 0.75, 1.0, 1.5, 3.0]);
        c.xc = t.xc + t.h * t.asp * sh * ((r.range(-4, 4) as f32) / 4.0);
        c.yc = t.yc + t.h * sh * ((r.range(-4, 4) as f32) / 4.0);
        c.h = t.h * ((r.range(4, 12) as f32) / 8.0);
        c.c = *r.pick(&[0.0f32, 0.015625, 0.05, 0.25, 0.3, 0.5, 0.75, 1.0]);
        println!("{}", ev_gate("iou", mc, thr, &c, &t, &[]));
        // Mahalanobis: the track has seen 1-4 boxes drifting slowly; the candidate is near or far
        let steps = r.range(1, 4) as usize;
        let mut hist = vec![];
        let mut hb = t;
        hb.ang = None;
        for _ in 0..steps {
            hist.push(hb);
            hb.xc += (r.range(-8, 8) as f32) / 4.0;
            hb.yc += (r.range(-8, 8) as f32) / 4.0;
        }
        let mut cm = hb;
        let jump = *r.pick(&[0.0f32, 0.01, 0.05, 0.1, 0.2, 0.4, 1.0, 4.0]);
        cm.xc += hb.h * jump;
        cm.yc -= hb.h * jump * ((r.range(0, 4) as f32) / 4.0);
        cm.h *= 1.0 + jump / 4.0;
        cm.c = c.c;
        println!("{}", ev_gate("maha", mc, thr, &cm, &hb, &hist));
    }
    // ---- box -> Kalman state -> box: angle None / 0 / -0 / positive / NEGATIVE / beyond a full turn
    for i in 0..n {
        let mut u = gen_ub(&mut r);
        u.c = 1.0;
        let m = mag(&mut r, -3.0, 0.8, 23);
        u.ang = match i % 8 {
            0 => None,
            1 => Some(0.0),
            2 => Some(-0.0),
            3 => Some(m),
            4 => Some(-m),
            5 => Some(-(2.0 * PI + m)),
            6 => Some(2.0 * PI + m),
            _ => Some(-(r.unit_f64() as f32) * 1e-6 - 1e-30),
        };
        println!("{}", ev_kst(&u));
    }
    // ---- API sequences around the vertex cache: generate, then change the box, then ask for the polygon again
    for i in 0..n {
        let mut u = gen_ub(&mut r);
        u.c = 1.0;
        let m = mag(&mut r, -2.0, 0.8, 23);
        u.ang = Some(if i % 2 == 0 { m } else { -m });
        let mut ops: Vec<String> = vec![];
        if i % 3 == 2 {
            // the universal form of an ltwh box (angle None), then only queries / cache fills, sometimes a mutator
            let bb = gen_bb(&mut r);
            u = UB::of(&bb.real().as_xyaah());
            let q = 1 + r.below(3);
            for _ in 0..q {
                ops.push((*r.pick(&["g", "g", "ix", "cp", "cl", "tf"])).to_string());
            }
            if r.chance(1, 3) {
                ops.push(format!("x:{}", b(signed(mag(&mut r, -1.0, 2.0, 12), &mut r))));
                ops.push("g".into());
            }
            println!("{}", ev_seq(&u, &ops.join(";")));
            continue;
        }
        if i % 5 != 4 {
            ops.push("g".into());
        }
        let k = 1 + r.below(3);
        for _ in 0..k {
            let v = mag(&mut r, -1.0, 2.0, 12);
            let sv = signed(v, &mut r);
            let op = match r.below(9) {
                0 => format!("rm:{}", b(signed(mag(&mut r, -2.0, 0.8, 23), &mut r))),
                1 => format!("r:{}", b(signed(mag(&mut r, -2.0, 0.8, 23), &mut r))),
                2 => format!("x:{}", b(sv)),
                3 => format!("y:{}", b(sv)),
                4 => format!("s:{}", b(v)),
                5 => format!("h:{}", b(v)),
                6 => format!("an:{}", b(signed(mag(&mut r, -2.0, 0.8, 23), &mut r))),
                7 => "an:N".to_string(),
                _ => (*r.pick(&["cl", "ix", "cp"])).to_string(),
            };
            ops.push(op);
            if r.chance(1, 4) {
                ops.push("g".into());
                if r.chance(1, 2) {
                    ops.push(format!("rm:{}", b(signed(mag(&mut r, -2.0, 0.8, 23), &mut r))));
                }
            }
        }
        println!("{}", ev_seq(&u, &ops.join(";")));
    }
    // ---- VisualSortMetricType: thresholds and distances on and around each other
    for i in 0..n {
        let kind = if i % 2 == 0 { "E" } else { "C" };
        let t = if kind == "E" { mag(&mut r, -2.0, 2.0, 12) } else { (r.range(-64, 64) as f32) / 64.0 };
        for s in -2i64..=2 {
            println!("{}", ev_vis(kind, t, ulp_step(t, s)));
        }
        println!("{}", ev_vis(kind, t, t * 0.5));
        println!("{}", ev_vis(kind, t, t * 2.0 + 0.125));
        println!("{}", ev_vis(kind, t, -t));
        println!("{}", ev_vis(kind, t, (r.unit_f64() * 2.0 - 1.0) as f32));
    }
    // ---- EpochDb::baked: small exhaustive grid
    for lu in 0..5usize {
        for mi in 0..4usize {
            println!("{}", ev_baked(lu, mi, None, false));
            println!("{}", ev_baked(lu, mi, None, true));
            for ep in 0..9usize {
                println!("{}", ev_baked(lu, mi, Some(ep), true));
            }
        }
    }
}

fn kv(line: &str) -> (String, HashMap<String, String>) {
    let mut it = line.split_whitespace();
    let kind = it.next().unwrap_or("").to_string();
    let mut m = HashMap::new();
    for tok in it {
        if let Some((k, v)) = tok.split_once('=') {
            m.insert(k.to_string(), v.to_string());
        }
    }
    (kind, m)
}

fn replay(path: &str) {
    let txt = std::fs::read_to_string(path).expect("read replay file");
    for line in txt.lines() {
        let line = line.trim();
        if line.is_empty() || line.starts_with('#') {
            continue;
        }
        let (kind, m) = kv(line);
        let g = |k: &str| m.get(k).cloned().unwrap_or_default();
        let out = match kind.as_str() {
            "eqb" => ev_eqb(&BB::parse(&g("a")), &BB::parse(&g("b")), g("k").parse().unwrap_or(0)),
            "equ" => ev_equ(&UB::parse(&g("a")), &UB::parse(&g("b")), g("k").parse().unwrap_or(0)),
            "conv" => ev_conv(&BB::parse(&g("a"))),
            "convu" => ev_convu(&UB::parse(&g("a"))),
            "poly" => ev_poly(&UB::parse(&g("a"))),
            "norm" => ev_norm(pf(&g("a"))),
            "inter" => ev_inter(&BB::parse(&g("a")), &BB::parse(&g("b"))),
            "far" => ev_far(&UB::parse(&g("a")), &UB::parse(&g("b"))),
            "cost" => ev_cost(pf(&g("d"))),
            "gate" => {
                let hist: Vec<UB> = if g("hist") == "-" || g("hist").is_empty() { vec![] } else { g("hist").split(';').map(UB::parse).collect() };
                ev_gate(&g("mode"), pf(&g("mc")), pf(&g("thr")), &UB::parse(&g("a")), &UB::parse(&g("b")), &hist)
            }
            "kst" => ev_kst(&UB::parse(&g("a"))),
            "seq" => ev_seq(&UB::parse(&g("a")), &g("ops")),
            "vis" => ev_vis(&g("kind"), pf(&g("t")), pf(&g("d"))),
            "baked" => ev_baked(g("lu").parse().unwrap(), g("mi").parse().unwrap(), if g("ep") == "N" { None } else { Some(g("ep").parse().unwrap()) }, g("db") == "1"),
            _ => format!("# unknown record kind: {}", kind),
        };
        println!("{}", out);
    }
}
