//! C07: Kalman filter correspondence. Drives the REAL Universal2DBoxKalmanFilter, Point2DKalmanFilter and
//! Vec2DKalmanFilter and prints their raw mean / covariance (KalmanState::verif_raw) as f32 bit patterns.
//!
//! Records (one per line):
//!   spec <id> <box|point|vec> kind=<name> wp=<f32bits> wv=<f32bits> rot=<0|1> z0=<pt|pt|..> ops=<op;op;..>
//!        pt = comma separated f32 bits (5 for a box: xc,yc,angle,aspect,height; 2 for a point);
//!        op = P | U:<pt|pt|..>          (vec: one pt per tracked point, `|` separated)
//!   st <id> <step> <pt-index> <I|P|U> mean=<bits,..> cov=<bits,.. row major> probe=<pt> dist=<bits|X> [ro=<read-out>]
//!        box histories: ro = Universal2DBox::try_from(state) as xc,yc,angle,aspect,height bits, angle = N for None
//!        step 0 = after initiate; probe = the measurement of the next update (or the last one used)
//!   pst ...   same as st, for the stand-alone Point2DKalmanFilter run on point <pt-index> of a vec history
//!   vdist <id> <step> <bits,..>      Vec2DKalmanFilter::distance on all points (vec histories)
//!   spec .. hvec .. hist=<ops of point 0>/<ops of point 1>/..   private histories before the vector is assembled
//!   panic <id> <step> <what>         a call panicked; the history stops
//!   cost <box|point|vec> <d bits> <0|1> <out bits>
//!   mpspec <cfg>/<cfg>/..      one PROCESS-level sequence of tracker configurations for make_prediction:
//!        cfg = <attrs|sort|sortm|vsort>:<wp bits>:<wv bits>:<obs>|<obs>|..   obs = xc,yc,angle,aspect,height bits
//!   mp <cfg index> <kind> wp=<bits> wv=<bits> frame=<i> obs=<pt> got=<read-out|X:reason> refraw=<raw mean[0..5]>
//!        got = the box returned by make_prediction / SortTrack::predicted_bbox, ref = initiate/predict/update of a
//!        Universal2DBoxKalmanFilter::new(wp, wv) built with THAT configuration's weights
//! Sub-commands (mkpred --seed S --n N: N configurations in ONE process, replay also takes mpspec lines):
//! Sub-commands: gen --seed S --n N ; replay --file F (spec lines, `costq <d bits>` lines) ; costs --seed S --n N
use nalgebra::Point2;
use similari::utils::bbox::Universal2DBox;
use similari::utils::kalman::kalman_2d_box::Universal2DBoxKalmanFilter;
use similari::utils::kalman::kalman_2d_point::Point2DKalmanFilter;
use similari::utils::kalman::kalman_2d_point_vec::Vec2DKalmanFilter;
use similari::utils::kalman::{CHI2INV95, CHI2_UPPER_BOUND};
use similari::prelude::{PositionalMetricType, Sort, VisualSort, VisualSortObservation, VisualSortOptions};
use similari::trackers::kalman_prediction::TrackAttributesKalmanPrediction;
use similari::utils::kalman::kalman_2d_box::DIM_2D_BOX_X2;
use similari::utils::kalman::KalmanState;
use similari_verif_harness::*;
use std::io::Write;

#[derive(Clone, Debug)]
enum Op {
    P,
    U(Vec<Vec<f32>>), // one measurement per tracked point (box/point: exactly one)
}

#[derive(Clone, Debug)]
struct Spec {
    id: usize,
    ty: String,
    kind: String,
    wp: f32,
    wv: f32,
    rot: bool,
    z0: Vec<Vec<f32>>,
    ops: Vec<Op>,
    /// hvec only: the private history of every point BEFORE the states are assembled into one vector
    hist: Vec<Vec<Op>>,
}

fn bits(v: &[f32]) -> String {
    v.iter().map(|x| f32b(*x)).collect::<Vec<_>>().join(",")
}

fn pts(v: &[Vec<f32>]) -> String {
    v.iter().map(|p| bits(p)).collect::<Vec<_>>().join("|")
}

fn ops_str(ops: &[Op]) -> String {
    if ops.is_empty() {
        return "-".to_string();
    }
    ops.iter()
        .map(|o| match o {
            Op::P => "P".to_string(),
            Op::U(z) => format!("U:{}", pts(z)),
        })
        .collect::<Vec<_>>()
        .join(";")
}

fn spec_line(s: &Spec) -> String {
    let mut l = format!(
        "spec {} {} kind={} wp={} wv={} rot={} z0={} ops={}",
        s.id,
        s.ty,
        s.kind,
        f32b(s.wp),
        f32b(s.wv),
        if s.rot { 1 } else { 0 },
        pts(&s.z0),
        ops_str(&s.ops)
    );
    if s.ty == "hvec" {
        l.push_str(&format!(" hist={}", s.hist.iter().map(|h| ops_str(h)).collect::<Vec<_>>().join("/")));
    }
    l
}

fn parse_ops(v: &str) -> Option<Vec<Op>> {
    let mut ops = vec![];
    for o in v.split(';').filter(|x| !x.is_empty() && *x != "-") {
        if o == "P" {
            ops.push(Op::P);
        } else if let Some(r) = o.strip_prefix("U:") {
            ops.push(Op::U(r.split('|').map(parse_pt).collect()));
        } else {
            return None;
        }
    }
    Some(ops)
}

fn parse_pt(s: &str) -> Vec<f32> {
    s.split(',').filter(|x| !x.is_empty()).map(|x| f32::from_bits(x.parse::<u32>().unwrap())).collect()
}

fn parse_spec(line: &str) -> Option<Spec> {
    let toks: Vec<&str> = line.split_whitespace().collect();
    if toks.len() < 4 || toks[0] != "spec" {
        return None;
    }
    let mut s = Spec {
        id: toks[1].parse().ok()?,
        ty: toks[2].to_string(),
        kind: String::new(),
        wp: 0.0,
        wv: 0.0,
        rot: false,
        z0: vec![],
        ops: vec![],
        hist: vec![],
    };
    for t in &toks[3..] {
        let (k, v) = t.split_once('=')?;
        match k {
            "kind" => s.kind = v.to_string(),
            "wp" => s.wp = f32::from_bits(v.parse().ok()?),
            "wv" => s.wv = f32::from_bits(v.parse().ok()?),
            "rot" => s.rot = v == "1",
            "z0" => s.z0 = v.split('|').map(parse_pt).collect(),
            "ops" => s.ops = parse_ops(v)?,
            "hist" => {
                for h in v.split('/') {
                    s.hist.push(parse_ops(h)?);
                }
            }
            _ => {}
        }
    }
    Some(s)
}

fn mk_box(z: &[f32], rot: bool) -> Universal2DBox {
    Universal2DBox::new(z[0], z[1], if rot { Some(z[2]) } else { None }, z[3], z[4])
}

/// the probe used for `distance` at step k: the measurement of the next update at or after position k,
/// else the last measurement used before, else z0
fn probe_for(s: &Spec, k: usize) -> Vec<Vec<f32>> {
    for o in &s.ops[k.min(s.ops.len())..] {
        if let Op::U(z) = o {
            return z.clone();
        }
    }
    for o in s.ops.iter().rev() {
        if let Op::U(z) = o {
            return z.clone();
        }
    }
    s.z0.clone()
}

fn run_box(s: &Spec, out: &mut impl Write) {
    let f = Universal2DBoxKalmanFilter::new(s.wp, s.wv);
    let b0 = mk_box(&s.z0[0], s.rot);
    let mut st = match guarded(|| f.initiate(&b0)) {
        Some(x) => x,
        None => {
            writeln!(out, "panic {} 0 initiate", s.id).unwrap();
            return;
        }
    };
    let emit = |out: &mut dyn Write, step: usize, tag: &str, st: &similari::utils::kalman::KalmanState<10>| {
        let (m, c) = st.verif_raw();
        let pr = probe_for(s, step);
        let pb = mk_box(&pr[0], s.rot);
        let stc = *st;
        let d = guarded(|| f.distance(stc, &pb));
        // the public read-out of the mean: TryFrom<KalmanState> for Universal2DBox (angle: N = None)
        let ro = guarded(|| Universal2DBox::try_from(stc)).and_then(|r| r.ok()).map(|b| box_ro(&b)).unwrap_or_else(|| "X".into());
        writeln!(
            out,
            "st {} {} 0 {} mean={} cov={} probe={} dist={} ro={}",
            s.id,
            step,
            tag,
            bits(&m),
            bits(&c),
            bits(&pr[0]),
            d.map(f32b).unwrap_or_else(|| "X".into()),
            ro
        )
        .unwrap();
    };
    emit(out, 0, "I", &st);
    for (k, o) in s.ops.iter().enumerate() {
        let r = match o {
            Op::P => guarded(|| f.predict(&st)),
            Op::U(z) => {
                let b = mk_box(&z[0], s.rot);
                guarded(|| f.update(&st, &b))
            }
        };
        match r {
            Some(x) => st = x,
            None => {
                writeln!(out, "panic {} {} {}", s.id, k + 1, if matches!(o, Op::P) { "predict" } else { "update" }).unwrap();
                return;
            }
        }
        emit(out, k + 1, if matches!(o, Op::P) { "P" } else { "U" }, &st);
    }
}

fn run_point_one(s: &Spec, idx: usize, tag_line: &str, out: &mut impl Write) {
    let f = Point2DKalmanFilter::new(s.wp, s.wv);
    let p0 = Point2::from([s.z0[idx][0], s.z0[idx][1]]);
    let mut st = match guarded(|| f.initiate(&p0)) {
        Some(x) => x,
        None => {
            writeln!(out, "panic {} 0 initiate", s.id).unwrap();
            return;
        }
    };
    let emit = |out: &mut dyn Write, step: usize, tag: &str, st: &similari::utils::kalman::KalmanState<4>| {
        let (m, c) = st.verif_raw();
        let pr = probe_for(s, step);
        let pp = Point2::from([pr[idx][0], pr[idx][1]]);
        let d = guarded(|| f.distance(st, &pp));
        writeln!(
            out,
            "{} {} {} {} {} mean={} cov={} probe={} dist={}",
            tag_line,
            s.id,
            step,
            idx,
            tag,
            bits(&m),
            bits(&c),
            bits(&pr[idx]),
            d.map(f32b).unwrap_or_else(|| "X".into())
        )
        .unwrap();
    };
    emit(out, 0, "I", &st);
    for (k, o) in s.ops.iter().enumerate() {
        let r = match o {
            Op::P => guarded(|| f.predict(&st)),
            Op::U(z) => {
                let p = Point2::from([z[idx][0], z[idx][1]]);
                guarded(|| f.update(&st, &p))
            }
        };
        match r {
            Some(x) => st = x,
            None => {
                writeln!(out, "panic {} {} point-step", s.id, k + 1).unwrap();
                return;
            }
        }
        emit(out, k + 1, if matches!(o, Op::P) { "P" } else { "U" }, &st);
    }
}

fn run_vec(s: &Spec, out: &mut impl Write) {
    let f = Vec2DKalmanFilter::new(s.wp, s.wv);
    let to_pts = |z: &Vec<Vec<f32>>| z.iter().map(|p| Point2::from([p[0], p[1]])).collect::<Vec<_>>();
    let p0 = to_pts(&s.z0);
    let mut st = match guarded(|| f.initiate(&p0)) {
        Some(x) => x,
        None => {
            writeln!(out, "panic {} 0 initiate", s.id).unwrap();
            return;
        }
    };
    let emit = |out: &mut dyn Write, step: usize, tag: &str, st: &Vec<similari::utils::kalman::KalmanState<4>>| {
        let pr = probe_for(s, step);
        let pp = to_pts(&pr);
        let ds = guarded(|| f.distance(st, &pp));
        for (i, x) in st.iter().enumerate() {
            let (m, c) = x.verif_raw();
            writeln!(
                out,
                "st {} {} {} {} mean={} cov={} probe={} dist={}",
                s.id,
                step,
                i,
                tag,
                bits(&m),
                bits(&c),
                bits(&pr[i]),
                ds.as_ref().map(|d| f32b(d[i])).unwrap_or_else(|| "X".into())
            )
            .unwrap();
        }
        if let Some(d) = ds {
            // the vector cost conversion on the same distances, both modes
            let c0 = Vec2DKalmanFilter::calculate_cost(&d, false);
            let c1 = Vec2DKalmanFilter::calculate_cost(&d, true);
            let p0: Vec<f32> = d.iter().map(|x| Point2DKalmanFilter::calculate_cost(*x, false)).collect();
            let p1: Vec<f32> = d.iter().map(|x| Point2DKalmanFilter::calculate_cost(*x, true)).collect();
            writeln!(
                out,
                "vdist {} {} d={} direct={} inverted={} pdirect={} pinverted={}",
                s.id,
                step,
                bits(&d),
                bits(&c0),
                bits(&c1),
                bits(&p0),
                bits(&p1)
            )
            .unwrap();
        }
    };
    emit(out, 0, "I", &st);
    for (k, o) in s.ops.iter().enumerate() {
        let r = match o {
            Op::P => guarded(|| f.predict(&st)),
            Op::U(z) => {
                let p = to_pts(z);
                guarded(|| f.update(&st, &p))
            }
        };
        match r {
            Some(x) => st = x,
            None => {
                writeln!(out, "panic {} {} vec-step", s.id, k + 1).unwrap();
                return;
            }
        }
        emit(out, k + 1, if matches!(o, Op::P) { "P" } else { "U" }, &st);
    }
    // the same histories through stand-alone point filters
    for i in 0..s.z0.len() {
        run_point_one(s, i, "pst", out);
    }
}

/// Heterogeneous vector history: every point evolves privately through the stand-alone point filter (`hist`), the
/// final states are assembled into ONE Vec<state>, and from there every per-point API of Vec2DKalmanFilter
/// (distance, calculate_cost, predict, update) is applied to the vector (`st` lines) and, side by side, the point
/// filter to every element (`pst` lines). Step numbers are per point: 0..=L_k private, L_k = the assembled state
/// (its `st` distance comes from Vec2DKalmanFilter::distance on the whole vector), L_k + j = after joint op j.
fn run_hvec(s: &Spec, out: &mut impl Write) {
    let pf = Point2DKalmanFilter::new(s.wp, s.wv);
    let vf = Vec2DKalmanFilter::new(s.wp, s.wv);
    let n = s.z0.len();
    // combined measurement list per point, for the probes
    let comb: Vec<Vec<Option<Vec<f32>>>> = (0..n)
        .map(|k| {
            let mut v: Vec<Option<Vec<f32>>> = s.hist[k]
                .iter()
                .map(|o| match o {
                    Op::P => None,
                    Op::U(z) => Some(z[0].clone()),
                })
                .collect();
            for o in &s.ops {
                v.push(match o {
                    Op::P => None,
                    Op::U(z) => Some(z[k].clone()),
                });
            }
            v
        })
        .collect();
    let probe = |k: usize, t: usize| -> Vec<f32> {
        for o in comb[k][t.min(comb[k].len())..].iter().flatten() {
            return o.clone();
        }
        for o in comb[k].iter().rev().flatten() {
            return o.clone();
        }
        s.z0[k].clone()
    };
    let line = |out: &mut dyn Write, tag: &str, k: usize, step: usize, op: &str, st: &similari::utils::kalman::KalmanState<4>, pr: &[f32], d: Option<f32>| {
        let (m, c) = st.verif_raw();
        writeln!(
            out,
            "{} {} {} {} {} mean={} cov={} probe={} dist={}",
            tag,
            s.id,
            step,
            k,
            op,
            bits(&m),
            bits(&c),
            bits(pr),
            d.map(f32b).unwrap_or_else(|| "X".into())
        )
        .unwrap();
    };
    let mut fin = vec![];
    for k in 0..n {
        let p0 = Point2::from([s.z0[k][0], s.z0[k][1]]);
        let mut st = pf.initiate(&p0);
        let lk = s.hist[k].len();
        for t in 0..=lk {
            if t > 0 {
                st = match &s.hist[k][t - 1] {
                    Op::P => pf.predict(&st),
                    Op::U(z) => pf.update(&st, &Point2::from([z[0][0], z[0][1]])),
                };
            }
            let tag = if t == 0 { "I" } else if matches!(s.hist[k][t - 1], Op::P) { "P" } else { "U" };
            let pr = probe(k, t);
            let d = guarded(|| pf.distance(&st, &Point2::from([pr[0], pr[1]])));
            if t < lk {
                line(out, "st", k, t, tag, &st, &pr, d);
            }
            line(out, "pst", k, t, tag, &st, &pr, d);
        }
        fin.push(st);
    }
    let mut v = fin.clone();
    let mut ps = fin;
    for j in 0..=s.ops.len() {
        let mut tag = "A"; // assembled
        if j > 0 {
            match &s.ops[j - 1] {
                Op::P => {
                    tag = "P";
                    match guarded(|| vf.predict(&v)) {
                        Some(x) => v = x,
                        None => {
                            writeln!(out, "panic {} {} vec-predict", s.id, j).unwrap();
                            return;
                        }
                    }
                    ps = ps.iter().map(|x| pf.predict(x)).collect();
                }
                Op::U(z) => {
                    tag = "U";
                    let p: Vec<Point2<f32>> = z.iter().map(|q| Point2::from([q[0], q[1]])).collect();
                    match guarded(|| vf.update(&v, &p)) {
                        Some(x) => v = x,
                        None => {
                            writeln!(out, "panic {} {} vec-update", s.id, j).unwrap();
                            return;
                        }
                    }
                    ps = ps.iter().zip(p.iter()).map(|(x, q)| pf.update(x, q)).collect();
                }
            }
        }
        let probes: Vec<Vec<f32>> = (0..n).map(|k| probe(k, s.hist[k].len() + j)).collect();
        let pp: Vec<Point2<f32>> = probes.iter().map(|q| Point2::from([q[0], q[1]])).collect();
        let ds = guarded(|| vf.distance(&v, &pp));
        for k in 0..n {
            let step = s.hist[k].len() + j;
            let op = if j == 0 {
                // the assembled state keeps the tag of the operation that produced it
                if s.hist[k].is_empty() { "I" } else if matches!(s.hist[k][s.hist[k].len() - 1], Op::P) { "P" } else { "U" }
            } else {
                tag
            };
            line(out, "st", k, step, op, &v[k], &probes[k], ds.as_ref().map(|d| d[k]));
            if j > 0 {
                let d = guarded(|| pf.distance(&ps[k], &pp[k]));
                line(out, "pst", k, step, op, &ps[k], &probes[k], d);
            }
        }
        if let Some(d) = ds {
            let c0 = Vec2DKalmanFilter::calculate_cost(&d, false);
            let c1 = Vec2DKalmanFilter::calculate_cost(&d, true);
            let p0: Vec<f32> = d.iter().map(|x| Point2DKalmanFilter::calculate_cost(*x, false)).collect();
            let p1: Vec<f32> = d.iter().map(|x| Point2DKalmanFilter::calculate_cost(*x, true)).collect();
            writeln!(
                out,
                "vdist {} {} d={} direct={} inverted={} pdirect={} pinverted={}",
                s.id,
                j,
                bits(&d),
                bits(&c0),
                bits(&c1),
                bits(&p0),
                bits(&p1)
            )
            .unwrap();
        }
    }
}

/// points with heterogeneous histories: initiated at different times, occluded (predict-only) for a while,
/// different numbers of updates; then a few joint operations on the assembled vector
fn gen_hvec(rng: &mut Rng, id: usize) -> Spec {
    let (wp, wv) = weights(rng);
    let npts = 2 + rng.below(5) as usize;
    let mut z0 = vec![];
    let mut hist = vec![];
    let mut cur = vec![];
    for k in 0..npts {
        let (mut x, mut y) = (1.0 + rng.unit_f64() * 999.0, 1.0 + rng.unit_f64() * 999.0);
        let (vx, vy) = ((rng.unit_f64() - 0.5) * 4.0, (rng.unit_f64() - 0.5) * 4.0);
        z0.push(vec![x as f32, y as f32]);
        // history class: fresh (initiated just now), young, old, occluded (old + trailing predicts)
        let class = if k == 0 { rng.below(4) } else { rng.below(4) };
        let len = match class {
            0 => 0,
            1 => 1 + rng.below(4) as usize,
            _ => 6 + rng.below(50) as usize,
        };
        let mut h = vec![];
        for t in 0..len {
            if t % 2 == 0 {
                x = clampf(x + vx, 1.0, 10000.0);
                y = clampf(y + vy, 1.0, 10000.0);
                h.push(Op::P);
            } else {
                let jx = (rng.unit_f64() - 0.5) * 0.4;
                let jy = (rng.unit_f64() - 0.5) * 0.4;
                h.push(Op::U(vec![vec![(x + jx) as f32, (y + jy) as f32]]));
            }
        }
        if class == 3 {
            for _ in 0..(1 + rng.below(8)) {
                x = clampf(x + vx, 1.0, 10000.0);
                y = clampf(y + vy, 1.0, 10000.0);
                h.push(Op::P);
            }
        }
        hist.push(h);
        cur.push((x, y, vx, vy));
    }
    let mut ops = vec![];
    for _ in 0..rng.below(6) {
        if rng.chance(1, 2) {
            for c in cur.iter_mut() {
                c.0 = clampf(c.0 + c.2, 1.0, 10000.0);
                c.1 = clampf(c.1 + c.3, 1.0, 10000.0);
            }
            ops.push(Op::P);
        } else {
            ops.push(Op::U(cur.iter().map(|c| vec![(c.0 + (rng.unit_f64() - 0.5) * 0.4) as f32, (c.1 + (rng.unit_f64() - 0.5) * 0.4) as f32]).collect()));
        }
    }
    Spec { id, ty: "hvec".into(), kind: "heterogeneous".into(), wp, wv, rot: false, z0, ops, hist }
}

// ------------------------------------------------------------------------------------------------
// make_prediction (trackers/kalman_prediction.rs): several trackers with DIFFERENT weights in one process

struct Attrs {
    state: Option<KalmanState<{ DIM_2D_BOX_X2 }>>,
    position_weight: f32,
    velocity_weight: f32,
}

impl TrackAttributesKalmanPrediction for Attrs {
    fn get_state(&self) -> Option<KalmanState<{ DIM_2D_BOX_X2 }>> {
        self.state
    }
    fn set_state(&mut self, state: KalmanState<{ DIM_2D_BOX_X2 }>) {
        self.state = Some(state);
    }
    fn get_position_weight(&self) -> f32 {
        self.position_weight
    }
    fn get_velocity_weight(&self) -> f32 {
        self.velocity_weight
    }
}

#[derive(Clone)]
struct MpCfg {
    kind: String,
    wp: f32,
    wv: f32,
    obs: Vec<Vec<f32>>,
}

fn mp_box(z: &[f32]) -> Universal2DBox {
    Universal2DBox::new(z[0], z[1], if z[2] != 0.0 { Some(z[2]) } else { None }, z[3], z[4])
}

/// xc,yc,angle,aspect,height as f32 bits; the angle is `N` when it is None
fn box_ro(b: &Universal2DBox) -> String {
    format!(
        "{},{},{},{},{}",
        f32b(b.xc),
        f32b(b.yc),
        b.angle.map(f32b).unwrap_or_else(|| "N".into()),
        f32b(b.aspect),
        f32b(b.height)
    )
}

fn mpspec_line(cfgs: &[MpCfg]) -> String {
    let parts: Vec<String> = cfgs
        .iter()
        .map(|c| format!("{}:{}:{}:{}", c.kind, f32b(c.wp), f32b(c.wv), pts(&c.obs)))
        .collect();
    format!("mpspec {}", parts.join("/"))
}

fn parse_mpspec(line: &str) -> Option<Vec<MpCfg>> {
    let r = line.strip_prefix("mpspec ")?;
    let mut v = vec![];
    for c in r.trim().split('/') {
        let f: Vec<&str> = c.split(':').collect();
        if f.len() != 4 {
            return None;
        }
        v.push(MpCfg {
            kind: f[0].to_string(),
            wp: f32::from_bits(f[1].parse().ok()?),
            wv: f32::from_bits(f[2].parse().ok()?),
            obs: f[3].split('|').map(parse_pt).collect(),
        });
    }
    Some(v)
}

fn one_track(ts: Vec<similari::prelude::SortTrack>, frame: usize) -> Result<Universal2DBox, String> {
    if ts.len() != 1 {
        return Err(format!("tracks={}", ts.len()));
    }
    if ts[0].length != frame + 1 {
        return Err(format!("length={}", ts[0].length));
    }
    Ok(ts[0].predicted_bbox.clone())
}

fn run_mp(cfgs: &[MpCfg], out: &mut impl Write) {
    writeln!(out, "{}", mpspec_line(cfgs)).unwrap();
    for (ci, c) in cfgs.iter().enumerate() {
        // the reference: the box filter built with THIS configuration's weights
        let f = Universal2DBoxKalmanFilter::new(c.wp, c.wv);
        let mut rstate = f.initiate(&mp_box(&c.obs[0]));
        let mut attrs = Attrs { state: None, position_weight: c.wp, velocity_weight: c.wv };
        let mut sort = match c.kind.as_str() {
            "sort" => Some(Sort::new(1, 1, 5, PositionalMetricType::IoU(0.3), 0.0, None, c.wp, c.wv)),
            "sortm" => Some(Sort::new(1, 1, 5, PositionalMetricType::Mahalanobis, 0.0, None, c.wp, c.wv)),
            _ => None,
        };
        let mut vsort = if c.kind == "vsort" {
            let opts = VisualSortOptions::default()
                .max_idle_epochs(5)
                .positional_metric(PositionalMetricType::IoU(0.3))
                .kalman_position_weight(c.wp)
                .kalman_velocity_weight(c.wv);
            Some(VisualSort::new(1, &opts))
        } else {
            None
        };
        for (i, z) in c.obs.iter().enumerate() {
            let b = mp_box(z);
            rstate = f.predict(&rstate);
            rstate = f.update(&rstate, &b);
            // the reference is read from the RAW mean of the reference filter (not through the conversion under test)
            let refraw: Vec<f32> = rstate.verif_raw().0[..5].to_vec();
            let got: Result<Universal2DBox, String> = match c.kind.as_str() {
                "attrs" => guarded(|| attrs.make_prediction(&b)).ok_or_else(|| "panic".to_string()),
                "sort" | "sortm" => {
                    let s = sort.as_mut().unwrap();
                    match guarded(|| s.predict(&[(b.clone(), None)])) {
                        Some(ts) => one_track(ts, i),
                        None => Err("panic".into()),
                    }
                }
                "vsort" => {
                    let s = vsort.as_mut().unwrap();
                    match guarded(|| s.predict(&[VisualSortObservation::new(None, None, b.clone(), None)])) {
                        Some(ts) => one_track(ts, i),
                        None => Err("panic".into()),
                    }
                }
                _ => Err("kind".into()),
            };
            writeln!(
                out,
                "mp {} {} wp={} wv={} frame={} obs={} got={} refraw={}",
                ci,
                c.kind,
                f32b(c.wp),
                f32b(c.wv),
                i,
                bits(z),
                match &got {
                    Ok(g) => box_ro(g),
                    Err(e) => format!("X:{}", e),
                },
                bits(&refraw)
            )
            .unwrap();
        }
    }
}

/// a moving, growing box observed for 3..=10 frames
fn gen_mp_obs(rng: &mut Rng, rotated: bool) -> Vec<Vec<f32>> {
    let frames = 3 + rng.below(8) as usize;
    let mut h = 40.0 + rng.unit_f64() * 400.0;
    let (mut x, mut y) = (100.0 + rng.unit_f64() * 5000.0, 100.0 + rng.unit_f64() * 5000.0);
    let sp = h * (0.01 + rng.unit_f64() * 0.05);
    let d = rng.unit_f64() * 6.283185307179586;
    let (mut vx, mut vy) = (sp * d.cos(), sp * d.sin());
    let grow = 1.002 + rng.unit_f64() * 0.01;
    let asp = 0.3 + rng.unit_f64() * 1.2;
    // oriented boxes: counter-clockwise AND clockwise (negative) angles
    let mut ang = if rotated { (0.05 + rng.unit_f64() * 1.15) * if rng.chance(1, 2) { -1.0 } else { 1.0 } } else { 0.0 };
    let mut v = vec![];
    for _ in 0..frames {
        v.push(vec![x as f32, y as f32, ang as f32, asp as f32, h as f32]);
        vx *= 1.02;
        vy *= 1.02;
        x += vx;
        y += vy;
        h *= grow;
        if rotated {
            ang += 0.01;
        }
    }
    v
}

fn gen_mp(rng: &mut Rng, n: usize) -> Vec<MpCfg> {
    // weight pairs: the defaults are NOT always first (position rotates with the seed)
    let mut ws: Vec<(f32, f32)> = vec![(1.0 / 20.0, 1.0 / 160.0), (0.2, 0.05), (0.1, 1.0 / 160.0), (0.1, 0.1), (1.0 / 40.0, 1.0 / 80.0), (0.125, 1.0 / 320.0)];
    rng.shuffle(&mut ws);
    let kinds = ["attrs", "sort", "vsort", "sortm"];
    let mut v = vec![];
    for i in 0..n {
        let kind = kinds[(i + rng.below(4) as usize) % 4];
        let w = ws[i % ws.len()];
        let rotated = rng.chance(1, 2);
        v.push(MpCfg { kind: kind.into(), wp: w.0, wv: w.1, obs: gen_mp_obs(rng, rotated) });
    }
    v
}

fn run_spec(s: &Spec, out: &mut impl Write) {
    writeln!(out, "{}", spec_line(s)).unwrap();
    match s.ty.as_str() {
        "box" => run_box(s, out),
        "point" => run_point_one(s, 0, "st", out),
        "vec" => run_vec(s, out),
        "hvec" => {
            if s.hist.len() == s.z0.len() && s.ops.iter().all(|o| matches!(o, Op::P) || matches!(o, Op::U(z) if z.len() == s.z0.len())) {
                run_hvec(s, out)
            }
        }
        _ => {}
    }
}

// ------------------------------------------------------------------------------------------------
// generators

const WP: [f32; 7] = [1.0 / 80.0, 1.0 / 40.0, 1.0 / 20.0, 0.1, 0.125, 0.2, 0.25];
const WV: [f32; 7] = [1.0 / 640.0, 1.0 / 320.0, 1.0 / 160.0, 1.0 / 80.0, 0.05, 0.1, 0.125];

fn weights(rng: &mut Rng) -> (f32, f32) {
    match rng.below(10) {
        0..=3 => (1.0 / 20.0, 1.0 / 160.0), // library defaults
        4 => (0.1, 0.1),                    // the values of the python examples
        _ => (*rng.pick(&WP), *rng.pick(&WV)),
    }
}

fn clampf(x: f64, lo: f64, hi: f64) -> f64 {
    x.max(lo).min(hi)
}

fn length(rng: &mut Rng, maxlen: usize) -> usize {
    let l = match rng.below(10) {
        0..=2 => 1 + rng.below(10) as usize,
        3..=6 => 11 + rng.below(90) as usize,
        _ => 101 + rng.below(300) as usize,
    };
    l.min(maxlen).max(1)
}

/// op pattern over `len` ops: mostly the tracker's (predict, update) pairs, sometimes missed detections
/// (several predicts in a row) or repeated updates
fn op_pattern(rng: &mut Rng, len: usize, random_mix: bool) -> Vec<bool> {
    // true = update
    let mut v = vec![];
    if random_mix {
        for _ in 0..len {
            v.push(rng.chance(1, 2));
        }
    } else {
        let miss = rng.below(4) == 0;
        while v.len() < len {
            v.push(false);
            if miss && rng.chance(1, 6) {
                continue;
            }
            if v.len() < len {
                v.push(true);
            }
        }
    }
    v.truncate(len);
    v
}

fn gen_box(rng: &mut Rng, id: usize, kind_sel: u64, maxlen: usize, coarse: bool) -> Spec {
    let kinds = ["stationary", "moving", "accelerating", "jittering", "scaling", "rotating", "mixed-ops"];
    let kind = kinds[(kind_sel % kinds.len() as u64) as usize];
    let (wp, wv) = weights(rng);
    let len = length(rng, maxlen);
    let rot = kind == "rotating" || rng.chance(1, 5);
    // start state
    let big = rng.chance(1, 3);
    let mut x = 1.0 + rng.unit_f64() * if big { 9999.0 } else { 999.0 };
    let mut y = 1.0 + rng.unit_f64() * if big { 9999.0 } else { 999.0 };
    let mut h = match rng.below(4) {
        0 => 1.0 + rng.unit_f64() * 9.0,
        1 => 10.0 + rng.unit_f64() * 90.0,
        2 => 100.0 + rng.unit_f64() * 900.0,
        _ => 1000.0 + rng.unit_f64() * 9000.0,
    };
    let mut asp = 0.1 + rng.unit_f64() * 3.0;
    let mut ang = if rot { rng.unit_f64() * 3.0 - 1.5 } else { 0.0 };
    let speed = h * (0.02 + rng.unit_f64() * 0.3);
    let dir = rng.unit_f64() * 6.283185307179586;
    let (mut vx, mut vy) = (speed * dir.cos(), speed * dir.sin());
    let (ax, ay) = if kind == "accelerating" {
        (vx * 0.02 * (rng.unit_f64() - 0.3), vy * 0.02 * (rng.unit_f64() - 0.3))
    } else {
        (0.0, 0.0)
    };
    let scale = if kind == "scaling" { 0.96 + rng.unit_f64() * 0.08 } else { 1.0 };
    let dang = if kind == "rotating" { (rng.unit_f64() - 0.5) * 0.1 } else { 0.0 };
    let jit = if kind == "jittering" { 0.02 + rng.unit_f64() * 0.1 } else { 0.0 };
    if kind == "stationary" {
        vx = 0.0;
        vy = 0.0;
    }
    let q = |v: f64| -> f32 {
        if coarse {
            ((v * 4.0).round() / 4.0) as f32
        } else {
            v as f32
        }
    };
    let qa = |v: f64| -> f32 {
        if coarse {
            ((v * 16.0).round().max(1.0) / 16.0) as f32
        } else {
            v as f32
        }
    };
    let qh = |v: f64| -> f32 {
        if coarse {
            v.round().max(1.0) as f32
        } else {
            v as f32
        }
    };
    let meas = |x: f64, y: f64, ang: f64, asp: f64, h: f64| -> Vec<f32> {
        vec![q(x), q(y), if rot { q(ang) } else { 0.0 }, qa(asp), qh(h)]
    };
    let z0 = meas(x, y, ang, asp, h);
    let pat = op_pattern(rng, len, kind == "mixed-ops");
    let mut ops = vec![];
    for upd in pat {
        if !upd {
            // time advances with every predict
            vx += ax;
            vy += ay;
            x += vx;
            y += vy;
            if !(1.0..=10000.0).contains(&x) {
                vx = -vx;
                x = clampf(x, 1.0, 10000.0);
            }
            if !(1.0..=10000.0).contains(&y) {
                vy = -vy;
                y = clampf(y, 1.0, 10000.0);
            }
            h = clampf(h * scale, 1.0, 10000.0);
            ang += dang;
            ops.push(Op::P);
        } else {
            let (jx, jy, jh, ja) = if jit > 0.0 {
                (
                    (rng.unit_f64() - 0.5) * 2.0 * jit * h,
                    (rng.unit_f64() - 0.5) * 2.0 * jit * h,
                    (rng.unit_f64() - 0.5) * 2.0 * jit * h,
                    (rng.unit_f64() - 0.5) * 0.1 * asp,
                )
            } else {
                (0.0, 0.0, 0.0, 0.0)
            };
            if kind == "scaling" {
                asp = clampf(asp * (0.99 + rng.unit_f64() * 0.02), 0.05, 10.0);
            }
            if kind == "stationary" {
                ops.push(Op::U(vec![z0.clone()]));
            } else {
                ops.push(Op::U(vec![meas(
                    clampf(x + jx, 1.0, 10000.0),
                    clampf(y + jy, 1.0, 10000.0),
                    ang,
                    (asp + ja).max(0.05),
                    clampf(h + jh, 1.0, 10000.0),
                )]));
            }
        }
    }
    Spec { id, ty: "box".into(), kind: kind.into(), wp, wv, rot, z0: vec![z0], ops, hist: vec![] }
}

fn gen_points(rng: &mut Rng, id: usize, ty: &str, kind_sel: u64, maxlen: usize, coarse: bool) -> Spec {
    let kinds = ["stationary", "moving", "accelerating", "jittering", "mixed-ops"];
    let kind = kinds[(kind_sel % kinds.len() as u64) as usize];
    let (wp, wv) = weights(rng);
    let len = length(rng, maxlen);
    let npts = if ty == "vec" { 1 + rng.below(6) as usize } else { 1 };
    let q = |v: f64| -> f32 {
        if coarse {
            ((v * 4.0).round() / 4.0) as f32
        } else {
            v as f32
        }
    };
    let mut xs = vec![];
    for _ in 0..npts {
        let big = rng.chance(1, 3);
        let x = 1.0 + rng.unit_f64() * if big { 9999.0 } else { 99.0 };
        let y = 1.0 + rng.unit_f64() * if big { 9999.0 } else { 99.0 };
        let sp = if kind == "stationary" { 0.0 } else { 0.05 + rng.unit_f64() * 3.0 };
        let d = rng.unit_f64() * 6.283185307179586;
        let acc = if kind == "accelerating" { 0.02 * (rng.unit_f64() - 0.3) } else { 0.0 };
        xs.push((x, y, sp * d.cos(), sp * d.sin(), acc));
    }
    let jit = if kind == "jittering" { 0.05 + rng.unit_f64() * 0.3 } else { 0.0 };
    let z0: Vec<Vec<f32>> = xs.iter().map(|p| vec![q(p.0), q(p.1)]).collect();
    let pat = op_pattern(rng, len, kind == "mixed-ops");
    let mut ops = vec![];
    for upd in pat {
        if !upd {
            for p in xs.iter_mut() {
                p.2 += p.2 * p.4;
                p.3 += p.3 * p.4;
                p.0 += p.2;
                p.1 += p.3;
                if !(1.0..=10000.0).contains(&p.0) {
                    p.2 = -p.2;
                    p.0 = clampf(p.0, 1.0, 10000.0);
                }
                if !(1.0..=10000.0).contains(&p.1) {
                    p.3 = -p.3;
                    p.1 = clampf(p.1, 1.0, 10000.0);
                }
            }
            ops.push(Op::P);
        } else if kind == "stationary" {
            ops.push(Op::U(z0.clone()));
        } else {
            let z: Vec<Vec<f32>> = xs
                .iter()
                .map(|p| {
                    let jx = (rng.unit_f64() - 0.5) * 2.0 * jit;
                    let jy = (rng.unit_f64() - 0.5) * 2.0 * jit;
                    vec![q(clampf(p.0 + jx, 1.0, 10000.0)), q(clampf(p.1 + jy, 1.0, 10000.0))]
                })
                .collect();
            ops.push(Op::U(z));
        }
    }
    Spec { id, ty: ty.into(), kind: kind.into(), wp, wv, rot: false, z0, ops, hist: vec![] }
}

fn costs(rng: &mut Rng, n: usize, out: &mut impl Write) {
    let mut ds: Vec<f32> = vec![0.0, f32::MIN_POSITIVE, 1e-6, 0.5, 1.0, 2.0, 7.0, 50.0, 99.0, 99.999, 100.0, 100.001, 101.0, 1e3, 1e6, 1e30, f32::MAX];
    for c in CHI2INV95.iter().chain([CHI2_UPPER_BOUND].iter()) {
        for k in -4i32..=4 {
            ds.push(f32::from_bits((c.to_bits() as i32 + k) as u32));
        }
        for e in [1e-6f32, 1e-4, 1e-3, 1e-2, 0.1, 0.5] {
            ds.push(c - e);
            ds.push(c + e);
            ds.push(c * (1.0 - e));
            ds.push(c * (1.0 + e));
        }
    }
    let mut g = 0.0f32;
    while g <= 20.0 {
        ds.push(g);
        g += 0.125;
    }
    for _ in 0..n {
        ds.push((rng.unit_f64() * 20.0) as f32);
        ds.push((rng.unit_f64() * 130.0) as f32);
        ds.push((rng.unit_f64().powi(4) * 1e5) as f32);
    }
    ds.retain(|d| *d >= 0.0 && d.is_finite());
    ds.sort_by(|a, b| a.partial_cmp(b).unwrap());
    ds.dedup();
    for d in ds {
        for inv in [false, true] {
            let i = if inv { 1 } else { 0 };
            writeln!(out, "cost box {} {} {}", f32b(d), i, f32b(Universal2DBoxKalmanFilter::calculate_cost(d, inv))).unwrap();
            writeln!(out, "cost point {} {} {}", f32b(d), i, f32b(Point2DKalmanFilter::calculate_cost(d, inv))).unwrap();
            writeln!(out, "cost vec {} {} {}", f32b(d), i, f32b(Vec2DKalmanFilter::calculate_cost(&[d], inv)[0])).unwrap();
        }
    }
}

fn main() {
    quiet_panics();
    let a = parse_args();
    let mut rng = Rng::new(a.seed);
    let stdout = std::io::stdout();
    let mut out = std::io::BufWriter::with_capacity(1 << 20, stdout.lock());
    match a.cmd.as_str() {
        "gen" => {
            // --n N: N box histories, N/2 point histories, N/4 vector histories of 1..400 steps,
            // plus N/2 + N/4 short histories on coarse dyadic grids for the exact-rational runs (kind prefix q-)
            let mut id = 0usize;
            // fixed corpus first: the repository's own unit test (kalman_2d_box.rs `step`)
            let ut = Spec {
                id,
                ty: "box".into(),
                kind: "unit-test".into(),
                wp: 1.0 / 20.0,
                wv: 1.0 / 160.0,
                rot: false,
                z0: vec![vec![-9.0, 4.5, 0.0, 0.4, 5.0]],
                ops: vec![Op::P, Op::U(vec![vec![8.75, 52.35, 0.0, 0.150_849_15, 100.1]]), Op::P],
                hist: vec![],
            };
            run_spec(&ut, &mut out);
            id += 1;
            // oriented boxes with negative (clockwise), positive, zero and absent angle: the read-out of the mean
            for (ang, rot) in [(-0.7f32, true), (-0.05, true), (0.6, true), (0.0, true), (0.0, false)] {
                let z = |k: usize| vec![300.0 + 3.0 * k as f32, 200.0 + 2.0 * k as f32, if rot { ang - 0.01 * k as f32 } else { 0.0 }, 0.5, 80.0 + k as f32];
                let mut ops = vec![];
                for k in 1..4 {
                    ops.push(Op::P);
                    ops.push(Op::U(vec![z(k)]));
                }
                let s = Spec { id, ty: "box".into(), kind: "oriented".into(), wp: 1.0 / 20.0, wv: 1.0 / 160.0, rot, z0: vec![z(0)], ops, hist: vec![] };
                run_spec(&s, &mut out);
                id += 1;
            }
            // deep shrink: an object whose height falls from 1e4 by 4% (10%) per frame - the regime in which the
            // f32 covariance loses symmetry / positive definiteness (reported under its own key)
            // (start height, frames of growth by 5%, shrink factor per frame, frames of shrinking):
            // x3500 in 200 frames, x7700 in 85, x1e4 in 200, and growing 10 -> 9000 then shrinking back to 1
            for (h0, grow, scale, frames) in [(10000.0f64, 0usize, 0.96f64, 200usize), (10000.0, 0, 0.9, 85), (10000.0, 0, 0.955, 200), (10.0, 140, 0.95, 180)] {
                let (mut x, y, mut h) = (5000.0f64, 5000.0f64, h0);
                let z0 = vec![x as f32, y as f32, 0.0, 0.5, h as f32];
                let mut ops = vec![];
                for f in 0..(grow + frames) {
                    x = (x + h * 0.05).min(10000.0);
                    h = if f < grow { (h * 1.05).min(10000.0) } else { (h * scale).max(1.0) };
                    ops.push(Op::P);
                    ops.push(Op::U(vec![vec![x as f32, y as f32, 0.0, 0.5, h as f32]]));
                }
                let s = Spec { id, ty: "box".into(), kind: "deep-shrink".into(), wp: 1.0 / 20.0, wv: 1.0 / 160.0, rot: false, z0: vec![z0], ops, hist: vec![] };
                run_spec(&s, &mut out);
                id += 1;
            }
            for k in 0..a.n {
                let s = gen_box(&mut rng, id, k as u64, 400, false);
                run_spec(&s, &mut out);
                id += 1;
            }
            for k in 0..(a.n / 2).max(1) {
                let s = gen_points(&mut rng, id, "point", k as u64, 400, false);
                run_spec(&s, &mut out);
                id += 1;
            }
            for k in 0..(a.n / 4).max(1) {
                let s = gen_points(&mut rng, id, "vec", k as u64, 120, false);
                run_spec(&s, &mut out);
                id += 1;
            }
            // few-bit dyadic weights and measurements keep the exact rationals of the q- histories small
            const QW: [(f32, f32); 4] = [(1.0 / 16.0, 1.0 / 128.0), (1.0 / 32.0, 1.0 / 64.0), (1.0 / 8.0, 1.0 / 8.0), (1.0 / 16.0, 1.0 / 256.0)];
            // vectors assembled from points with heterogeneous histories
            for _ in 0..(a.n / 4).max(4) {
                let s = gen_hvec(&mut rng, id);
                run_spec(&s, &mut out);
                id += 1;
            }
            for k in 0..(a.n / 2).max(1) {
                let mut s = gen_box(&mut rng, id, k as u64, 5, true);
                let w = QW[k % 4];
                s.wp = w.0;
                s.wv = w.1;
                s.kind = format!("q-{}", s.kind);
                run_spec(&s, &mut out);
                id += 1;
            }
            for k in 0..(a.n / 4).max(1) {
                let mut s = gen_points(&mut rng, id, "point", k as u64, 10, true);
                let w = QW[k % 4];
                s.wp = w.0;
                s.wv = w.1;
                s.kind = format!("q-{}", s.kind);
                run_spec(&s, &mut out);
                id += 1;
            }
        }
        "replay" => {
            let txt = std::fs::read_to_string(a.file.expect("--file")).unwrap();
            for line in txt.lines() {
                if let Some(s) = parse_spec(line) {
                    run_spec(&s, &mut out);
                } else if let Some(c) = parse_mpspec(line) {
                    run_mp(&c, &mut out);
                } else if let Some(r) = line.strip_prefix("costq ") {
                    // one cost probe: `costq <d f32 bits>`
                    if let Ok(b) = r.trim().parse::<u32>() {
                        let d = f32::from_bits(b);
                        for inv in [false, true] {
                            let i = if inv { 1 } else { 0 };
                            writeln!(out, "cost box {} {} {}", f32b(d), i, f32b(Universal2DBoxKalmanFilter::calculate_cost(d, inv))).unwrap();
                            writeln!(out, "cost point {} {} {}", f32b(d), i, f32b(Point2DKalmanFilter::calculate_cost(d, inv))).unwrap();
                            writeln!(out, "cost vec {} {} {}", f32b(d), i, f32b(Vec2DKalmanFilter::calculate_cost(&[d], inv)[0])).unwrap();
                        }
                    }
                }
            }
        }
        "costs" => costs(&mut rng, a.n, &mut out),
        "mkpred" => {
            let c = gen_mp(&mut rng, a.n.max(2));
            run_mp(&c, &mut out);
        }
        _ => {
            eprintln!("usage: kalman gen|replay|costs|mkpred [--seed S] [--n N] [--file F]");
            std::process::exit(2);
        }
    }
    out.flush().unwrap();
}
