//! C08 / C15: oriented-box geometry correspondence.
//!
//! Sub-commands
//!   pairs --seed S --n N      generate box pairs over every configuration of C08's quantifier and print one
//!                             `pair` record per line (implementation results, exact bit patterns)
//!   sets  --seed S --n N      generate box sets (1..8 boxes) for C15 and print one `set` record per line
//!   eval  --file F            re-evaluate the cases of F (lines `pair cfg a=BOX b=BOX [mt=BOX;BOX] [mr=BOX;BOX]`
//!                             or `set cfg boxes=BOX;BOX;...`), same records (used by replay and by the shrinkers)
//!
//! BOX = xc:yc:angle:aspect:height, every number the decimal u32 bit pattern of the f32, angle `N` for None.
//! f64 results are printed as u64 bit patterns, a panic as `P`, Option::None as `N`.
use geo::{Area, CoordsIter, Polygon};
use similari::track::ObservationAttributes;
use similari::trackers::visual_sort::observation_attributes::VisualObservationAttributes;
use similari::utils::bbox::{BoundingBox, Universal2DBox};
use similari::utils::clipping::bbox_own_areas::{
    exclusively_owned_areas, exclusively_owned_areas_normalized_shares,
};
use similari::utils::clipping::sutherland_hodgman_clip;
use similari_verif_harness::*;
use std::f32::consts::PI;
use std::sync::Mutex;

/// where the last panic came from (file:line of the panic site), recorded by the panic hook
static LAST_PANIC: Mutex<String> = Mutex::new(String::new());

fn record_panics() {
    std::panic::set_hook(Box::new(|info| {
        let loc = info
            .location()
            .map(|l| {
                let f = l.file();
                let short = f.rsplit("registry/src/").next().unwrap_or(f);
                let short = short.splitn(2, '/').nth(1).unwrap_or(short);
                format!("{}:{}", short, l.line())
            })
            .unwrap_or_else(|| "?".to_string());
        if let Ok(mut g) = LAST_PANIC.lock() {
            *g = loc;
        }
    }));
}

fn last_panic() -> String {
    LAST_PANIC.lock().map(|g| g.clone()).unwrap_or_default().replace(' ', "_")
}

#[derive(Clone, Copy, Debug)]
struct B {
    xc: f32,
    yc: f32,
    angle: Option<f32>,
    aspect: f32,
    h: f32,
}

impl B {
    fn ub(&self) -> Universal2DBox {
        Universal2DBox::new(self.xc, self.yc, self.angle, self.aspect, self.h)
    }
    fn txt(&self) -> String {
        format!(
            "{}:{}:{}:{}:{}",
            f32b(self.xc),
            f32b(self.yc),
            match self.angle {
                None => "N".to_string(),
                Some(a) => f32b(a),
            },
            f32b(self.aspect),
            f32b(self.h)
        )
    }
    fn parse(s: &str) -> B {
        let p: Vec<&str> = s.split(':').collect();
        let f = |x: &str| f32::from_bits(x.parse::<u32>().unwrap());
        B {
            xc: f(p[0]),
            yc: f(p[1]),
            angle: if p[2] == "N" { None } else { Some(f(p[2])) },
            aspect: f(p[3]),
            h: f(p[4]),
        }
    }
    fn ltwh(l: f32, t: f32, w: f32, h: f32) -> B {
        let u = Universal2DBox::ltwh(l, t, w, h);
        B { xc: u.xc, yc: u.yc, angle: None, aspect: u.aspect, h: u.height }
    }
    fn radius(&self) -> f64 {
        let hw = self.aspect as f64 * self.h as f64 / 2.0;
        let hh = self.h as f64 / 2.0;
        (hw * hw + hh * hh).sqrt()
    }
    /// the f64 cos / sin exactly as `From<&Universal2DBox> for Polygon<f64>` computes them
    fn cs(&self) -> (f64, f64) {
        let a = self.angle.unwrap_or(0.0) as f64;
        (a.cos(), a.sin())
    }
}

fn coords(p: &Polygon<f64>) -> String {
    p.exterior().coords_iter().map(|c| format!("{}:{}", f64b(c.x), f64b(c.y))).collect::<Vec<_>>().join(",")
}

fn opt_f32(x: Option<Option<f32>>) -> String {
    match x {
        None => "P".into(),
        Some(None) => "N".into(),
        Some(Some(v)) => f32b(v),
    }
}

fn opt_f64(x: Option<f64>) -> String {
    match x {
        None => "P".into(),
        Some(v) => f64b(v),
    }
}

fn opt_bool(x: Option<bool>) -> String {
    match x {
        None => "P".into(),
        Some(true) => "1".into(),
        Some(false) => "0".into(),
    }
}

fn iou(a: &B, b: &B) -> Option<Option<f32>> {
    let (ua, ub) = (a.ub(), b.ub());
    guarded(|| Universal2DBox::calculate_metric_object(&Some(&ua), &Some(&ub)))
}

fn iou_visual(a: &B, b: &B) -> Option<Option<f32>> {
    let va = VisualObservationAttributes::new(1.0, a.ub());
    let vb = VisualObservationAttributes::new(1.0, b.ub());
    guarded(|| VisualObservationAttributes::calculate_metric_object(&Some(&va), &Some(&vb)))
}

fn clip(a: &B, b: &B) -> String {
    let (pa, pb) = (a.ub().get_vertices(), b.ub().get_vertices());
    match guarded(|| sutherland_hodgman_clip(&pa, &pb)) {
        None => "P".into(),
        Some(p) => {
            let s = coords(&p);
            if s.is_empty() {
                "E".into()
            } else {
                s
            }
        }
    }
}

fn eval_pair(k: usize, cfg: &str, a: &B, b: &B, mt: Option<(B, B)>, mr: Option<(B, B)>) {
    let (ua, ub) = (a.ub(), b.ub());
    let (ca, sa) = a.cs();
    let (cb, sb) = b.cs();
    let mut line = format!(
        "pair {} cfg={} a={} b={} csa={}:{} csb={}:{} va={} vb={}",
        k,
        cfg,
        a.txt(),
        b.txt(),
        f64b(ca),
        f64b(sa),
        f64b(cb),
        f64b(sb),
        coords(&ua.get_vertices()),
        coords(&ub.get_vertices())
    );
    line += &format!(" clip={} clip_ba={}", clip(a, b), clip(b, a));
    // the method on the box type (own vertex generation path, None -> Some(0.0))
    let via_method = guarded(|| a.ub().sutherland_hodgman_clip(b.ub()));
    line += &format!(
        " clipm={}",
        match via_method {
            None => "P".to_string(),
            Some(p) => {
                let s = coords(&p);
                if s.is_empty() {
                    "E".into()
                } else {
                    s
                }
            }
        }
    );
    line += &format!(
        " inter={} inter_ba={}",
        opt_f64(guarded(|| Universal2DBox::intersection(&ua, &ub))),
        opt_f64(guarded(|| Universal2DBox::intersection(&ub, &ua)))
    );
    line += &format!(
        " iou={} iou_ba={} iouv={} iou_aa={} iou_bb={}",
        opt_f32(iou(a, b)),
        opt_f32(iou(b, a)),
        opt_f32(iou_visual(a, b)),
        opt_f32(iou(a, a)),
        opt_f32(iou(b, b))
    );
    line += &format!(
        " tf={} tf_ba={}",
        opt_bool(guarded(|| Universal2DBox::too_far(&ua, &ub))),
        opt_bool(guarded(|| Universal2DBox::too_far(&ub, &ua)))
    );
    line += &format!(" area={}:{}", f32b(ua.area()), f32b(ub.area()));
    line += &format!(" rad={}:{}", f32b(ua.get_radius()), f32b(ub.get_radius()));
    // closed form when neither box is rotated (angle None or exactly 0)
    let unrot = |x: &B| x.angle.is_none() || x.angle == Some(0.0);
    if unrot(a) && unrot(b) {
        let to_bb = |x: &B| {
            let mut y = *x;
            y.angle = None;
            BoundingBox::try_from(&y.ub()).unwrap()
        };
        let (la, lb) = (to_bb(a), to_bb(b));
        line += &format!(
            " la={}:{}:{}:{} lb={}:{}:{}:{}",
            f32b(la.left),
            f32b(la.top),
            f32b(la.width),
            f32b(la.height),
            f32b(lb.left),
            f32b(lb.top),
            f32b(lb.width),
            f32b(lb.height)
        );
        line += &format!(
            " aa={} aa_ba={} aaiou={} aaiou_ba={}",
            opt_f64(guarded(|| BoundingBox::intersection(&la, &lb))),
            opt_f64(guarded(|| BoundingBox::intersection(&lb, &la))),
            opt_f32(guarded(|| BoundingBox::calculate_metric_object(&Some(&la), &Some(&lb)))),
            opt_f32(guarded(|| BoundingBox::calculate_metric_object(&Some(&lb), &Some(&la))))
        );
    }
    if let Some((at, bt)) = mt {
        line += &format!(" mt={};{} iou_mt={}", at.txt(), bt.txt(), opt_f32(iou(&at, &bt)));
    }
    if let Some((ar, br)) = mr {
        line += &format!(" mr={};{} iou_mr={}", ar.txt(), br.txt(), opt_f32(iou(&ar, &br)));
    }
    println!("{}", line);
}

// ---------------------------------------------------------------------------------------------
// generators

fn log_uniform(rng: &mut Rng, lo: f64, hi: f64) -> f64 {
    let u = rng.unit_f64();
    (lo.ln() + u * (hi.ln() - lo.ln())).exp()
}

fn quant(x: f64, bits: u32) -> f32 {
    let s = (1u64 << bits) as f64;
    ((x * s).round() / s) as f32
}

fn rnd_angle(rng: &mut Rng) -> Option<f32> {
    match rng.below(10) {
        0 | 1 => None,
        2 => Some(0.0),
        3 => Some(rng.range(-8, 8) as f32 * (PI / 2.0)),
        4 => Some(quant((rng.unit_f64() - 0.5) * 100.0, 6)), // |angle| up to 50 > 2 pi
        5 => Some(((rng.unit_f64() - 0.5) * 2.0 * std::f64::consts::PI) as f32), // raw f32
        _ => Some(quant((rng.unit_f64() - 0.5) * 2.0 * std::f64::consts::PI, 10)),
    }
}

fn rnd_dims(rng: &mut Rng) -> (f32, f32) {
    // width and height in [0.1, 1000]; returns (aspect, height)
    let h = log_uniform(rng, 0.1, 1000.0);
    let asp = log_uniform(rng, 0.1, 10.0);
    let w = (h * asp).clamp(0.1, 1000.0);
    let h32 = quant(h, 6).max(0.1);
    let asp32 = if rng.chance(1, 3) { quant(w / h, 8).max(1.0 / 256.0) } else { (w / h) as f32 };
    (asp32, h32)
}

fn rnd_centre(rng: &mut Rng) -> (f32, f32) {
    let m = *rng.pick(&[1.0f64, 16.0, 256.0, 4096.0, 10000.0]);
    (quant((rng.unit_f64() - 0.5) * 2.0 * m, 4), quant((rng.unit_f64() - 0.5) * 2.0 * m, 4))
}

fn rnd_box(rng: &mut Rng) -> B {
    let (aspect, h) = rnd_dims(rng);
    let (xc, yc) = rnd_centre(rng);
    B { xc, yc, angle: rnd_angle(rng), aspect, h }
}

/// a box near `a` (most of the time overlapping it)
fn rnd_near(rng: &mut Rng, a: &B, spread: f64) -> B {
    let (mut aspect, mut h) = rnd_dims(rng);
    if rng.chance(2, 3) {
        let f = log_uniform(rng, 0.2, 5.0);
        h = quant((a.h as f64 * f).clamp(0.1, 1000.0), 6).max(0.1);
        aspect = quant(log_uniform(rng, 0.2, 5.0), 8);
    }
    let mut b = B { xc: 0.0, yc: 0.0, angle: rnd_angle(rng), aspect, h };
    let d = rng.unit_f64() * spread * (a.radius() + b.radius());
    let dir = rng.unit_f64() * 2.0 * std::f64::consts::PI;
    b.xc = (a.xc as f64 + d * dir.cos()) as f32;
    b.yc = (a.yc as f64 + d * dir.sin()) as f32;
    b
}

fn local_offset(a: &B, dx: f64, dy: f64) -> (f32, f32) {
    let (c, s) = a.cs();
    ((a.xc as f64 + dx * c - dy * s) as f32, (a.yc as f64 + dx * s + dy * c) as f32)
}

fn exact_add(x: f32, d: f32) -> Option<f32> {
    let e = x as f64 + d as f64;
    let r = e as f32;
    if r as f64 == e {
        Some(r)
    } else {
        None
    }
}

fn translate(rng: &mut Rng, a: &B, b: &B) -> Option<(B, B)> {
    for _ in 0..8 {
        let sc = *rng.pick(&[1.0f32, 8.0, 64.0, 0.25]);
        let dx = rng.range(-64, 64) as f32 * sc;
        let dy = rng.range(-64, 64) as f32 * sc;
        if let (Some(ax), Some(ay), Some(bx), Some(by)) =
            (exact_add(a.xc, dx), exact_add(a.yc, dy), exact_add(b.xc, dx), exact_add(b.yc, dy))
        {
            let mut at = *a;
            let mut bt = *b;
            at.xc = ax;
            at.yc = ay;
            bt.xc = bx;
            bt.yc = by;
            return Some((at, bt));
        }
    }
    None
}

fn rotate(rng: &mut Rng, a: &B, b: &B) -> Option<(B, B)> {
    let th: f32 = match rng.below(4) {
        0 => PI / 2.0,
        1 => quant((rng.unit_f64() - 0.5) * 6.0, 8),
        2 => -2.25,
        _ => ((rng.unit_f64() - 0.5) * 6.0) as f32,
    };
    let (c, s) = ((th as f64).cos(), (th as f64).sin());
    let (dx, dy) = (b.xc as f64 - a.xc as f64, b.yc as f64 - a.yc as f64);
    let mut ar = *a;
    let mut br = *b;
    ar.angle = Some(a.angle.unwrap_or(0.0) + th);
    br.angle = Some(b.angle.unwrap_or(0.0) + th);
    br.xc = (a.xc as f64 + dx * c - dy * s) as f32;
    br.yc = (a.yc as f64 + dx * s + dy * c) as f32;
    Some((ar, br))
}

fn moderate_box(rng: &mut Rng) -> B {
    B {
        xc: rng.dyadic(-1024, 1024, 3),
        yc: rng.dyadic(-1024, 1024, 3),
        angle: rnd_angle(rng),
        aspect: rng.dyadic(64, 1024, 8),
        h: rng.dyadic(16, 512, 4),
    }
}

fn gen_pair(rng: &mut Rng, cfg: &str) -> (B, B) {
    match cfg {
        "general" => {
            let a = rnd_box(rng);
            let b = rnd_near(rng, &a, 1.3);
            (a, b)
        }
        "rigid" => {
            // moderate magnitudes: both rigid-motion oracles apply with a fixed tolerance
            let a = moderate_box(rng);
            let mut b = moderate_box(rng);
            let d = rng.unit_f64() * 0.9 * (a.radius() + b.radius());
            let dir = rng.unit_f64() * 2.0 * std::f64::consts::PI;
            b.xc = quant(a.xc as f64 + d * dir.cos(), 6);
            b.yc = quant(a.yc as f64 + d * dir.sin(), 6);
            (a, b)
        }
        "aa" | "aa0" => {
            // axis-aligned on a dyadic grid: general position, touching, nested, identical, corner contact
            let sc = *rng.pick(&[1.0f32, 0.125, 16.0, 250.0]);
            let g = |rng: &mut Rng, lo: i64, hi: i64| rng.range(lo, hi) as f32 * sc;
            let (l, t, w, h) = (g(rng, -20, 20), g(rng, -20, 20), g(rng, 1, 24), g(rng, 1, 24));
            let a = B::ltwh(l, t, w, h);
            let mut b = match rng.below(7) {
                0 => B::ltwh(l + w, t + g(rng, -5, 5), g(rng, 1, 24), g(rng, 1, 24)), // shares the right edge line
                1 => B::ltwh(l + g(rng, -5, 5), t + h, g(rng, 1, 24), g(rng, 1, 24)), // shares the bottom edge line
                2 => B::ltwh(l + w, t + h, g(rng, 1, 24), g(rng, 1, 24)),             // corner contact
                3 => {
                    // nested, possibly sharing edges
                    let w2 = g(rng, 1, 24).min(w);
                    let h2 = g(rng, 1, 24).min(h);
                    let ox = if rng.chance(1, 2) { 0.0 } else { ((w - w2) / sc * rng.unit_f64() as f32).floor() * sc };
                    let oy = if rng.chance(1, 2) { 0.0 } else { ((h - h2) / sc * rng.unit_f64() as f32).floor() * sc };
                    B::ltwh(l + ox, t + oy, w2, h2)
                }
                4 => a,
                _ => B::ltwh(l + g(rng, -24, 24), t + g(rng, -24, 24), g(rng, 1, 24), g(rng, 1, 24)),
            };
            let mut a = a;
            if cfg == "aa0" {
                if rng.chance(2, 3) {
                    a.angle = Some(0.0);
                }
                if rng.chance(2, 3) || a.angle.is_none() {
                    b.angle = Some(0.0);
                }
            }
            (a, b)
        }
        "identical" => {
            let a = rnd_box(rng);
            (a, a)
        }
        "nested" => {
            // b strictly inside a, any relative angle, no shared edge lines
            let a = rnd_box(rng);
            let hwa = a.aspect as f64 * a.h as f64 / 2.0;
            let hha = a.h as f64 / 2.0;
            let m = hwa.min(hha);
            let r = m * (0.1 + 0.7 * rng.unit_f64());
            // b's bounding circle of radius r fits inside a when the centre offset is small
            let asp = log_uniform(rng, 0.3, 3.0);
            let hb = 2.0 * r / (1.0 + asp * asp).sqrt();
            let mut b = B { xc: a.xc, yc: a.yc, angle: rnd_angle(rng), aspect: asp as f32, h: (hb as f32).max(0.01) };
            let (ox, oy) = ((rng.unit_f64() - 0.5) * 1.6 * (hwa - r).max(0.0), (rng.unit_f64() - 0.5) * 1.6 * (hha - r).max(0.0));
            let (x, y) = local_offset(&a, ox, oy);
            b.xc = x;
            b.yc = y;
            (a, b)
        }
        "touching" => {
            // same orientation, b placed next to a along a's local x or y axis: contact, tiny overlap, tiny gap
            let mut a = rnd_box(rng);
            if a.angle.is_none() {
                a.angle = Some(quant((rng.unit_f64() - 0.5) * 6.0, 10));
            }
            let (asp, h) = rnd_dims(rng);
            let mut b = B { xc: 0.0, yc: 0.0, angle: a.angle, aspect: asp, h: (h as f64).clamp(a.h as f64 * 0.2, a.h as f64 * 5.0) as f32 };
            let hwa = a.aspect as f64 * a.h as f64 / 2.0;
            let hwb = b.aspect as f64 * b.h as f64 / 2.0;
            let gap = match rng.below(3) {
                0 => 0.0,
                1 => -0.01 * hwb,
                _ => 0.01 * hwb,
            };
            let lateral = (rng.unit_f64() - 0.5) * (a.h as f64);
            let (x, y) = local_offset(&a, hwa + hwb + gap, lateral);
            b.xc = x;
            b.yc = y;
            if rng.chance(1, 4) {
                b.angle = Some(a.angle.unwrap() + PI / 2.0);
            }
            (a, b)
        }
        "collinear" => {
            // the family of DESIGN section 6: same centre and angle, different aspect / size: nested boxes
            // sharing two edge LINES; also edge-sharing neighbours of the same height (collinear long edges)
            let mut a = rnd_box(rng);
            if a.angle.is_none() || a.angle == Some(0.0) {
                a.angle = Some(quant((rng.unit_f64() - 0.5) * 6.0, 10) + 0.013);
            }
            let mut b = a;
            match rng.below(4) {
                0 | 1 => {
                    // same height, smaller or larger aspect
                    b.aspect = (a.aspect as f64 * log_uniform(rng, 0.2, 5.0)) as f32;
                }
                2 => {
                    // same width, different height: aspect*h constant
                    let f = log_uniform(rng, 0.3, 3.0);
                    b.h = (a.h as f64 * f) as f32;
                    b.aspect = ((a.aspect as f64 * a.h as f64) / b.h as f64) as f32;
                }
                _ => {
                    // same height, shifted along the local x axis (overlapping neighbours with collinear long edges)
                    b.aspect = (a.aspect as f64 * log_uniform(rng, 0.5, 2.0)) as f32;
                    let hwa = a.aspect as f64 * a.h as f64 / 2.0;
                    let (x, y) = local_offset(&a, hwa * (rng.unit_f64() * 2.0 - 1.0), 0.0);
                    b.xc = x;
                    b.yc = y;
                }
            }
            (a, b)
        }
        "rightangle" => {
            // integer geometry, angles k*pi/2 (as f32): numerically almost axis-aligned
            let g = |rng: &mut Rng, lo: i64, hi: i64| rng.range(lo, hi) as f32;
            let mk = |rng: &mut Rng| {
                let h = g(rng, 1, 16);
                B {
                    xc: g(rng, -12, 12) * 0.5,
                    yc: g(rng, -12, 12) * 0.5,
                    angle: Some(rng.range(-4, 4) as f32 * (PI / 2.0)),
                    aspect: g(rng, 1, 16) / h,
                    h,
                }
            };
            (mk(rng), mk(rng))
        }
        "far" => {
            let a = rnd_box(rng);
            let b = rnd_near(rng, &a, 3.0);
            (a, b)
        }
        "boundary" => {
            // too_far boundary: Pythagorean half-dimensions so that every f32 operation is exact; centre distance
            // exactly r1+r2 (not too far), one ulp more (too far), one ulp less
            let trip = [(3.0f32, 4.0f32, 5.0f32), (6.0, 8.0, 10.0), (12.0, 16.0, 20.0), (0.75, 1.0, 1.25), (1.5, 2.0, 2.5)];
            let (hw1, hh1, r1) = *rng.pick(&trip);
            let (hw2, hh2, r2) = *rng.pick(&trip);
            let mk = |hw: f32, hh: f32, swap: bool, ang: Option<f32>, x: f32, y: f32| {
                let (hw, hh) = if swap { (hh, hw) } else { (hw, hh) };
                B { xc: x, yc: y, angle: ang, aspect: (2.0 * hw) / (2.0 * hh), h: 2.0 * hh }
            };
            let d = r1 + r2;
            // k = 0: exactly on the boundary; k = +-1: a dyadic step 2^-8 beyond / before it (squares stay exact)
            let k = rng.range(-1, 1) as f32;
            let step = k / 256.0;
            let (mut dx, mut dy) = if rng.chance(1, 2) { (d + step, 0.0) } else { (0.0, d + step) };
            if (d / 5.0).fract() == 0.0 && rng.chance(1, 3) {
                // a Pythagorean direction (3/5, 4/5)
                dx = d / 5.0 * 3.0;
                dy = d / 5.0 * 4.0;
                if k != 0.0 {
                    dx += step;
                }
            }
            let (x0, y0) = if rng.chance(1, 2) { (0.0, 0.0) } else { (rng.range(-8, 8) as f32, rng.range(-8, 8) as f32) };
            let a = mk(hw1, hh1, false, rnd_angle(rng), x0, y0);
            let b = mk(hw2, hh2, false, rnd_angle(rng), x0 + dx, y0 + dy);
            (a, b)
        }
        _ => panic!("unknown configuration {}", cfg),
    }
}


// ---------------------------------------------------------------------------------------------
// API sequences (C08: the value must be a function of the box's CURRENT fields): a box is prepared with
// gen_vertices() and then mutated through the public API / public fields, cloned, rotated ...; every observable
// is evaluated on the resulting ("dirty") box and on a FRESH box built from the dirty box's current field values.
#[derive(Clone, Copy, Debug)]
enum Op {
    Gen,
    RotMut(f32),
    Rotate(f32),
    SetXc(f32),
    SetYc(f32),
    SetAsp(f32),
    SetH(f32),
    AngleNone,
    AngleSome(f32),
    CloneIt,
    Conf,
}

fn op_txt(o: &Op) -> String {
    match o {
        Op::Gen => "G".into(),
        Op::RotMut(a) => format!("R:{}", f32b(*a)),
        Op::Rotate(a) => format!("r:{}", f32b(*a)),
        Op::SetXc(v) => format!("X:{}", f32b(*v)),
        Op::SetYc(v) => format!("Y:{}", f32b(*v)),
        Op::SetAsp(v) => format!("A:{}", f32b(*v)),
        Op::SetH(v) => format!("H:{}", f32b(*v)),
        Op::AngleNone => "N".into(),
        Op::AngleSome(a) => format!("a:{}", f32b(*a)),
        Op::CloneIt => "C".into(),
        Op::Conf => "S".into(),
    }
}

fn op_parse(s: &str) -> Op {
    let v = |x: &str| f32::from_bits(x[2..].parse::<u32>().unwrap());
    match &s[..1] {
        "G" => Op::Gen,
        "R" => Op::RotMut(v(s)),
        "r" => Op::Rotate(v(s)),
        "X" => Op::SetXc(v(s)),
        "Y" => Op::SetYc(v(s)),
        "A" => Op::SetAsp(v(s)),
        "H" => Op::SetH(v(s)),
        "N" => Op::AngleNone,
        "a" => Op::AngleSome(v(s)),
        "C" => Op::CloneIt,
        _ => Op::Conf,
    }
}

fn ops_txt(ops: &[Op]) -> String {
    if ops.is_empty() {
        "-".into()
    } else {
        ops.iter().map(op_txt).collect::<Vec<_>>().join(",")
    }
}

fn ops_parse(s: &str) -> Vec<Op> {
    if s == "-" {
        vec![]
    } else {
        s.split(',').map(op_parse).collect()
    }
}

fn apply_ops(start: &B, ops: &[Op]) -> Universal2DBox {
    let mut x = start.ub();
    for o in ops {
        match o {
            Op::Gen => {
                x.gen_vertices();
            }
            Op::RotMut(a) => x.rotate_mut(*a),
            Op::Rotate(a) => x = x.rotate(*a),
            Op::SetXc(v) => x.xc = *v,
            Op::SetYc(v) => x.yc = *v,
            Op::SetAsp(v) => x.aspect = *v,
            Op::SetH(v) => x.height = *v,
            Op::AngleNone => x.angle = None,
            Op::AngleSome(a) => x.angle = Some(*a),
            Op::CloneIt => x = x.clone(),
            Op::Conf => x.set_confidence(0.5),
        }
    }
    x
}

fn fresh_of(x: &Universal2DBox) -> B {
    B { xc: x.xc, yc: x.yc, angle: x.angle, aspect: x.aspect, h: x.height }
}

/// every observable of the pair, as one canonical string; `mk` builds the two boxes anew for every call that
/// consumes or could modify them
fn observe(mk: &dyn Fn() -> (Universal2DBox, Universal2DBox)) -> String {
    let mut out = vec![];
    let (a, b) = mk();
    out.push(format!("inter={}", opt_f64(guarded(|| Universal2DBox::intersection(&a, &b)))));
    out.push(format!("inter_ba={}", opt_f64(guarded(|| Universal2DBox::intersection(&b, &a)))));
    out.push(format!("iou={}", opt_f32(guarded(|| Universal2DBox::calculate_metric_object(&Some(&a), &Some(&b))))));
    out.push(format!("iou_ba={}", opt_f32(guarded(|| Universal2DBox::calculate_metric_object(&Some(&b), &Some(&a))))));
    out.push(format!("iou_self={}", opt_f32(guarded(|| Universal2DBox::calculate_metric_object(&Some(&a), &Some(&a))))));
    out.push(format!("tf={}", opt_bool(guarded(|| Universal2DBox::too_far(&a, &b)))));
    out.push(format!("verts={}", coords(&a.get_vertices())));
    let (va, vb) = (VisualObservationAttributes::new(1.0, a.clone()), VisualObservationAttributes::new(1.0, b.clone()));
    out.push(format!("iouv={}", opt_f32(guarded(|| VisualObservationAttributes::calculate_metric_object(&Some(&va), &Some(&vb))))));
    let (ca, cb) = (a.clone(), b.clone());
    out.push(format!(
        "clipc={}",
        match guarded(move || ca.sutherland_hodgman_clip(cb)) {
            None => "P".to_string(),
            Some(p) => coords(&p),
        }
    ));
    // C15: own-area shares of the pair
    let shares = guarded(|| {
        let refs = [&a, &b];
        let own = exclusively_owned_areas(&refs);
        exclusively_owned_areas_normalized_shares(&refs, own.as_ref())
    });
    out.push(format!(
        "own={}",
        match shares {
            None => "P".to_string(),
            Some(v) => v.iter().map(|x| f32b(*x)).collect::<Vec<_>>().join(":"),
        }
    ));
    // the method called on the boxes themselves (moved, not cloned): reported separately
    let (ma, mb) = mk();
    out.push(format!(
        "clipmv={}",
        match guarded(move || ma.sutherland_hodgman_clip(mb)) {
            None => "P".to_string(),
            Some(p) => coords(&p),
        }
    ));
    out.join(";")
}

fn eval_seq(k: usize, a: &B, opsa: &[Op], b: &B, opsb: &[Op]) {
    let da = apply_ops(a, opsa);
    let db = apply_ops(b, opsb);
    let (fa, fb) = (fresh_of(&da), fresh_of(&db));
    let dirty = observe(&|| (apply_ops(a, opsa), apply_ops(b, opsb)));
    let fresh = observe(&|| (fa.ub(), fb.ub()));
    println!(
        "seq {} a={} opsa={} b={} opsb={} cura={} curb={} D={} F={}",
        k,
        a.txt(),
        ops_txt(opsa),
        b.txt(),
        ops_txt(opsb),
        fa.txt(),
        fb.txt(),
        dirty,
        fresh
    );
}

fn gen_ops(rng: &mut Rng, start: &B) -> Vec<Op> {
    let mut ops = vec![];
    let n = 1 + rng.below(5) as usize;
    if rng.chance(3, 4) {
        ops.push(Op::Gen);
    }
    for _ in 0..n {
        let o = match rng.below(12) {
            0 => Op::Gen,
            1 | 2 => Op::RotMut(quant((rng.unit_f64() - 0.5) * 6.0, 8)),
            3 => Op::Rotate(quant((rng.unit_f64() - 0.5) * 6.0, 8)),
            4 => Op::SetXc(start.xc + rng.range(-40, 40) as f32 * 0.25 * start.h.max(1.0)),
            5 => Op::SetYc(start.yc + rng.range(-40, 40) as f32 * 0.25 * start.h.max(1.0)),
            6 => Op::SetAsp(start.aspect * *rng.pick(&[0.25f32, 0.5, 2.0, 3.0])),
            7 => Op::SetH(start.h * *rng.pick(&[0.25f32, 0.5, 2.0, 3.0])),
            8 => Op::AngleNone,
            9 => Op::AngleSome(quant((rng.unit_f64() - 0.5) * 6.0, 8)),
            10 => Op::CloneIt,
            _ => Op::Conf,
        };
        ops.push(o);
    }
    ops
}

const PAIR_CFGS: [(&str, u64); 12] = [
    ("general", 20),
    ("rigid", 14),
    ("aa", 12),
    ("aa0", 6),
    ("identical", 4),
    ("nested", 8),
    ("touching", 8),
    ("collinear", 8),
    ("rightangle", 6),
    ("far", 4),
    ("boundary", 6),
    ("general", 4),
];

// ---------------------------------------------------------------------------------------------
// C15

fn in_box(b: &B, c: f64, s: f64, x: f64, y: f64) -> bool {
    let (dx, dy) = (x - b.xc as f64, y - b.yc as f64);
    let u = dx * c + dy * s;
    let v = -dx * s + dy * c;
    let hw = b.aspect as f64 * b.h as f64 / 2.0;
    let hh = b.h as f64 / 2.0;
    u.abs() <= hw && v.abs() <= hh
}

/// independent inclusion by sampling: fraction of an m x m midpoint grid of box i that lies in no other box
fn sampled_share(boxes: &[B], i: usize, m: usize) -> f64 {
    let b = &boxes[i];
    let (c, s) = b.cs();
    let hw = b.aspect as f64 * b.h as f64 / 2.0;
    let hh = b.h as f64 / 2.0;
    let cs: Vec<(f64, f64)> = boxes.iter().map(|o| o.cs()).collect();
    let mut free = 0usize;
    for p in 0..m {
        for q in 0..m {
            let u = -hw + (2.0 * hw) * (p as f64 + 0.5) / m as f64;
            let v = -hh + (2.0 * hh) * (q as f64 + 0.5) / m as f64;
            let x = b.xc as f64 + u * c - v * s;
            let y = b.yc as f64 + u * s + v * c;
            let covered = boxes.iter().enumerate().any(|(j, o)| j != i && in_box(o, cs[j].0, cs[j].1, x, y));
            if !covered {
                free += 1;
            }
        }
    }
    free as f64 / (m * m) as f64
}

/// result of one call of the own-area functions: Ok(shares, areas), Err("P") on a panic, Err("T") when the call did
/// not return within the watchdog time (GEOM_TIMEOUT seconds, default 20; a normal call takes milliseconds)
fn shares_of(boxes: &[B]) -> Result<(Vec<f32>, Vec<f64>), &'static str> {
    shares_of_ubs(boxes.iter().map(|b| b.ub()).collect())
}

/// the same on boxes that were prepared by the caller (API sequences: generated vertices, later mutations, clones)
fn shares_of_ubs(ubs: Vec<Universal2DBox>) -> Result<(Vec<f32>, Vec<f64>), &'static str> {
    let (tx, rx) = std::sync::mpsc::channel();
    std::thread::spawn(move || {
        let r = guarded(|| {
            let refs: Vec<&Universal2DBox> = ubs.iter().collect();
            let own = exclusively_owned_areas(refs.as_ref());
            let shares = exclusively_owned_areas_normalized_shares(refs.as_ref(), own.as_ref());
            (shares, own.iter().map(|p| p.unsigned_area()).collect::<Vec<f64>>())
        });
        let _ = tx.send(r);
    });
    let secs: u64 = std::env::var("GEOM_TIMEOUT").ok().and_then(|x| x.parse().ok()).unwrap_or(20);
    match rx.recv_timeout(std::time::Duration::from_secs(secs)) {
        Ok(Some(v)) => Ok(v),
        Ok(None) => Err("P"),
        Err(_) => Err("T"),
    }
}

fn shares_txt(r: &Result<(Vec<f32>, Vec<f64>), &'static str>) -> String {
    match r {
        Err(e) => e.to_string(),
        Ok((sh, own)) => format!(
            "{}/{}",
            sh.iter().map(|x| f32b(*x)).collect::<Vec<_>>().join(","),
            own.iter().map(|x| f64b(*x)).collect::<Vec<_>>().join(",")
        ),
    }
}

/// C15 API sequences: every box of the set goes through its own op list (gen_vertices, mutations, clones ...); the
/// own-area functions are called on the resulting boxes (D), on clones of them (Dc) and on FRESH boxes built from the
/// current field values (F)
fn eval_set_seq(k: usize, boxes: &[B], ops: &[Vec<Op>]) {
    let dirty = || -> Vec<Universal2DBox> { boxes.iter().zip(ops.iter()).map(|(b, o)| apply_ops(b, o)).collect() };
    let cur: Vec<B> = dirty().iter().map(fresh_of).collect();
    let d = shares_of_ubs(dirty());
    let dc = shares_of_ubs(dirty().iter().map(|x| x.clone()).collect());
    let f = shares_of_ubs(cur.iter().map(|b| b.ub()).collect());
    println!(
        "sseq {} boxes={} ops={} cur={} D={} Dc={} F={}",
        k,
        boxes.iter().map(|b| b.txt()).collect::<Vec<_>>().join(";"),
        ops.iter().map(|o| ops_txt(o)).collect::<Vec<_>>().join("|"),
        cur.iter().map(|b| b.txt()).collect::<Vec<_>>().join(";"),
        shares_txt(&d),
        shares_txt(&dc),
        shares_txt(&f)
    );
    if matches!(d, Err("T")) || matches!(dc, Err("T")) || matches!(f, Err("T")) {
        use std::io::Write;
        let _ = std::io::stdout().flush();
        std::process::exit(3);
    }
}

fn permutations(n: usize) -> Vec<Vec<usize>> {
    fn rec(cur: &mut Vec<usize>, used: &mut Vec<bool>, n: usize, out: &mut Vec<Vec<usize>>) {
        if cur.len() == n {
            out.push(cur.clone());
            return;
        }
        for i in 0..n {
            if !used[i] {
                used[i] = true;
                cur.push(i);
                rec(cur, used, n, out);
                cur.pop();
                used[i] = false;
            }
        }
    }
    let mut out = vec![];
    rec(&mut vec![], &mut vec![false; n], n, &mut out);
    out
}

fn eval_set(k: usize, cfg: &str, boxes: &[B], seed: u64, sample: bool) {
    // the random permutations have their own generator so that skipping a set does not shift the stream
    let rng = &mut Rng::new(seed.wrapping_mul(1_000_003).wrapping_add(k as u64));
    let mut timed_out = false;
    let n = boxes.len();
    if std::env::var("GEOM_TRACE").is_ok() {
        eprintln!("set {} cfg={} boxes={}", k, cfg, boxes.iter().map(|b| b.txt()).collect::<Vec<_>>().join(";"));
    }
    let mut line = format!(
        "set {} cfg={} boxes={} cs={}",
        k,
        cfg,
        boxes.iter().map(|b| b.txt()).collect::<Vec<_>>().join(";"),
        boxes.iter().map(|b| { let (c, s) = b.cs(); format!("{}:{}", f64b(c), f64b(s)) }).collect::<Vec<_>>().join(";")
    );
    line += &format!(
        " verts={}",
        boxes.iter().map(|b| coords(&b.ub().get_vertices())).collect::<Vec<_>>().join(";")
    );
    match shares_of(boxes) {
        Err("T") => {
            line += " res=T own=T";
            timed_out = true;
        }
        Err(_) => line += &format!(" res=P own=P panic={}", last_panic()),
        Ok((sh, own)) => {
            line += &format!(
                " res={} own={}",
                sh.iter().map(|x| f32b(*x)).collect::<Vec<_>>().join(","),
                own.iter().map(|x| f64b(*x)).collect::<Vec<_>>().join(",")
            );
        }
    }
    let mut tf = String::new();
    for i in 0..n {
        for j in (i + 1)..n {
            let (a, b) = (boxes[i].ub(), boxes[j].ub());
            tf += &opt_bool(guarded(|| Universal2DBox::too_far(&a, &b)));
        }
    }
    line += &format!(" tf={}", if tf.is_empty() { "-".to_string() } else { tf });
    line += &format!(
        " areas={}",
        boxes.iter().map(|b| f32b(b.ub().area())).collect::<Vec<_>>().join(",")
    );
    if sample {
        line += &format!(
            " samp={}",
            (0..n).map(|i| f64b(sampled_share(boxes, i, 96))).collect::<Vec<_>>().join(",")
        );
    }
    // order independence: every permutation for n <= 4, a few random ones above
    let mut perms: Vec<Vec<usize>> = if n <= 4 {
        permutations(n)
    } else {
        (0..3)
            .map(|_| {
                let mut p: Vec<usize> = (0..n).collect();
                rng.shuffle(&mut p);
                p
            })
            .collect()
    };
    perms.retain(|p| p.iter().enumerate().any(|(i, x)| i != *x));
    let mut ps = vec![];
    for p in &perms {
        if timed_out {
            break;
        }
        let pb: Vec<B> = p.iter().map(|i| boxes[*i]).collect();
        let r = match shares_of(&pb) {
            Err("T") => {
                timed_out = true;
                "T".to_string()
            }
            Err(_) => {
                line += &format!(" panic={}", last_panic());
                "P".to_string()
            }
            Ok((sh, _)) => sh.iter().map(|x| f32b(*x)).collect::<Vec<_>>().join(","),
        };
        ps.push(format!("{}>{}", p.iter().map(|i| i.to_string()).collect::<Vec<_>>().join(""), r));
    }
    line += &format!(" perms={}", if ps.is_empty() { "-".to_string() } else { ps.join("|") });
    println!("{}", line);
    if timed_out {
        // the stuck call still occupies worker threads: stop here, the driver resumes with --from k+1
        use std::io::Write;
        let _ = std::io::stdout().flush();
        std::process::exit(3);
    }
}

fn gen_set(rng: &mut Rng, cfg: &str) -> Vec<B> {
    let n = 1 + rng.below(8) as usize;
    match cfg {
        "int" => {
            // integer ltwh boxes in a small window (many overlaps, shared edges and corners)
            let win = *rng.pick(&[8i64, 16, 40]);
            (0..n)
                .map(|_| {
                    let w = rng.range(1, win / 2);
                    let h = rng.range(1, win / 2);
                    B::ltwh(rng.range(0, win - w) as f32, rng.range(0, win - h) as f32, w as f32, h as f32)
                })
                .collect()
        }
        "intbig" => {
            // integer boxes with large coordinates
            let off = *rng.pick(&[1000i64, 5000, 9000]);
            (0..n)
                .map(|_| {
                    let w = rng.range(1, 200);
                    let h = rng.range(1, 200);
                    B::ltwh((off + rng.range(0, 300)) as f32, (off + rng.range(0, 300)) as f32, w as f32, h as f32)
                })
                .collect()
        }
        "aa" => {
            // random dyadic axis-aligned boxes
            let first = {
                let mut b = rnd_box(rng);
                b.angle = None;
                b
            };
            let mut v = vec![first];
            for _ in 1..n {
                let base = *rng.pick(&v);
                let mut b = rnd_near(rng, &base, 1.0);
                b.angle = None;
                b.xc = quant(b.xc as f64, 4);
                b.yc = quant(b.yc as f64, 4);
                v.push(b);
            }
            v
        }
        "rot" => {
            let first = moderate_box(rng);
            let mut v = vec![first];
            for _ in 1..n {
                let base = *rng.pick(&v);
                let mut b = moderate_box(rng);
                let d = rng.unit_f64() * 1.1 * (base.radius() + b.radius());
                let dir = rng.unit_f64() * 2.0 * std::f64::consts::PI;
                b.xc = quant(base.xc as f64 + d * dir.cos(), 6);
                b.yc = quant(base.yc as f64 + d * dir.sin(), 6);
                v.push(b);
            }
            v
        }
        "rotwide" => {
            let first = rnd_box(rng);
            let mut v = vec![first];
            for _ in 1..n {
                let base = *rng.pick(&v);
                v.push(rnd_near(rng, &base, 1.1));
            }
            v
        }
        "degenerate" => {
            // identical boxes, right-angle rotations, shared edges (axis-aligned and rotated), corner contacts
            let mut v: Vec<B> = vec![];
            let g = |rng: &mut Rng, lo: i64, hi: i64| rng.range(lo, hi) as f32;
            for _ in 0..n {
                let kind = if v.is_empty() { 0 } else { rng.below(6) };
                let b = match kind {
                    0 => {
                        let h = g(rng, 1, 12);
                        B { xc: g(rng, -10, 10) * 0.5, yc: g(rng, -10, 10) * 0.5, angle: if rng.chance(1, 2) { None } else { Some(rng.range(-4, 4) as f32 * (PI / 2.0)) }, aspect: g(rng, 1, 12) / h, h }
                    }
                    1 => *rng.pick(&v), // identical
                    2 => {
                        // right-angle rotation of an existing box about its own centre
                        let mut b = *rng.pick(&v);
                        b.angle = Some(b.angle.unwrap_or(0.0) + rng.range(-3, 3) as f32 * (PI / 2.0));
                        b
                    }
                    3 => {
                        // edge-sharing neighbour of an axis-aligned box
                        let a = *rng.pick(&v);
                        let w = a.aspect * a.h;
                        let mut b = a;
                        if rng.chance(1, 2) {
                            b.xc = a.xc + w;
                        } else {
                            b.yc = a.yc + a.h;
                        }
                        b
                    }
                    4 => {
                        // corner contact
                        let a = *rng.pick(&v);
                        let mut b = a;
                        b.xc = a.xc + a.aspect * a.h;
                        b.yc = a.yc + a.h;
                        b
                    }
                    _ => {
                        // almost collinear: an axis-aligned box rotated by a tiny angle
                        let mut b = *rng.pick(&v);
                        b.angle = Some(b.angle.unwrap_or(0.0) + *rng.pick(&[1e-3f32, -1e-3, 1e-5, 1e-7]));
                        b
                    }
                };
                v.push(b);
            }
            v
        }
        "collinear" => {
            // DESIGN section 6: rotated nested boxes with the same centre and angle (shared edge lines)
            let (a, b) = gen_pair(rng, "collinear");
            let mut v = vec![a, b];
            if rng.chance(1, 4) {
                v.push(rnd_near(rng, &a, 1.0));
            }
            v
        }
        _ => panic!("unknown set configuration {}", cfg),
    }
}

const SET_CFGS: [(&str, u64); 7] =
    [("int", 26), ("intbig", 8), ("aa", 14), ("rot", 22), ("rotwide", 8), ("degenerate", 14), ("collinear", 8)];

fn pick_cfg<'a>(rng: &mut Rng, table: &[(&'a str, u64)]) -> &'a str {
    let total: u64 = table.iter().map(|x| x.1).sum();
    let mut r = rng.below(total);
    for (name, w) in table {
        if r < *w {
            return name;
        }
        r -= w;
    }
    table[0].0
}

fn main() {
    record_panics();
    let a = parse_args();
    let mut rng = Rng::new(a.seed);
    match a.cmd.as_str() {
        "pairs" => {
            let only: Option<String> = a.rest.iter().position(|x| x == "--cfg").map(|i| a.rest[i + 1].clone());
            // corpus first: the unit tests' boxes and the minimised pair of DESIGN section 6
            let mut k = 0usize;
            let corpus = [
                (B { xc: 0.0, yc: 0.0, angle: Some(2.0), aspect: 0.5, h: 2.0 }, B { xc: 0.0, yc: 0.0, angle: Some(2.0 + PI / 2.0), aspect: 0.5, h: 2.0 }),
                (B { xc: 0.0, yc: 0.0, angle: Some(2.0), aspect: 0.5, h: 2.0 }, B { xc: 10.0, yc: 0.0, angle: Some(2.0 + PI / 2.0), aspect: 0.5, h: 2.0 }),
                (B { xc: 8044.315, yc: 8011.0454, angle: Some(2.678_774_8), aspect: 1.00801, h: 49.8073 }, B { xc: 8044.455, yc: 8011.338, angle: Some(2.678_774_8), aspect: 1.0083783, h: 49.79979 }),
                (B::ltwh(0.0, 0.0, 6.0, 8.0), B::ltwh(6.0, 0.0, 6.0, 8.0)),
                (B::ltwh(0.0, 0.0, 6.0, 8.0), B::ltwh(10.0, 0.0, 6.0, 8.0)),
                (B::ltwh(-1.0, -1.0, 2.0, 2.0), B::ltwh(-0.9, -0.9, 2.0, 2.0)),
                // minimised witness of C08:sh-clip:collinear-edges (fixed by commit 04617aa): same centre and angle,
                // aspect 3 vs 1: IoU was 0.444 one way, 0.3333 the other (truth 1/3)
                (B { xc: 0.0, yc: 0.0, angle: Some(-1.3671875), aspect: 3.0, h: 0.140625 }, B { xc: 0.0, yc: 0.0, angle: Some(-1.3671875), aspect: 1.0, h: 0.140625 }),
                (B { xc: 0.0, yc: 0.0, angle: Some(0.25), aspect: 0.5, h: 1.0 }, B { xc: 0.0, yc: 0.0, angle: Some(0.25), aspect: 1.0, h: 1.0 }),
            ];
            if only.is_none() {
                for (x, y) in corpus.iter() {
                    let mt = translate(&mut rng, x, y);
                    eval_pair(k, "corpus", x, y, mt, None);
                    k += 1;
                }
            }
            for _ in 0..a.n {
                let cfg = match &only {
                    Some(c) => c.as_str().to_string(),
                    None => pick_cfg(&mut rng, &PAIR_CFGS).to_string(),
                };
                let (x, y) = gen_pair(&mut rng, &cfg);
                let mt = translate(&mut rng, &x, &y);
                let mr = if cfg == "rigid" || cfg == "rightangle" { rotate(&mut rng, &x, &y) } else { None };
                eval_pair(k, &cfg, &x, &y, mt, mr);
                k += 1;
            }
        }
        "seqs" => {
            // corpus: the two demonstrations of a stale vertex cache (box moved / re-oriented after gen_vertices)
            let mut k = 0usize;
            let c0 = B { xc: 0.0, yc: 0.0, angle: Some(0.3), aspect: 2.0, h: 2.0 };
            eval_seq(k, &c0, &[Op::Gen, Op::SetXc(100.0), Op::SetYc(50.0)], &c0, &[]);
            k += 1;
            let c1 = B { xc: 10.0, yc: 10.0, angle: Some(0.0), aspect: 8.0, h: 1.0 };
            let up = B { xc: 10.0, yc: 13.0, angle: Some(0.0), aspect: 1.0, h: 1.0 };
            eval_seq(k, &c1, &[Op::Gen, Op::RotMut(PI / 2.0)], &up, &[]);
            k += 1;
            for _ in 0..a.n {
                let mut x = moderate_box(&mut rng);
                if x.angle.is_none() || rng.chance(1, 2) {
                    x.angle = Some(quant((rng.unit_f64() - 0.5) * 6.0, 8));
                }
                let opsa = gen_ops(&mut rng, &x);
                // the partner is placed near the FINAL geometry of the first box
                let fx = fresh_of(&apply_ops(&x, &opsa));
                let mut y = moderate_box(&mut rng);
                y.h = (fx.h * *rng.pick(&[0.5f32, 1.0, 1.5])).max(0.25);
                let d = rng.unit_f64() * 0.6 * (fx.radius() + y.radius());
                let dir = rng.unit_f64() * 2.0 * std::f64::consts::PI;
                y.xc = quant(fx.xc as f64 + d * dir.cos(), 6);
                y.yc = quant(fx.yc as f64 + d * dir.sin(), 6);
                if y.angle.is_none() {
                    y.angle = Some(quant((rng.unit_f64() - 0.5) * 6.0, 8));
                }
                let opsb = if rng.chance(1, 3) {
                    vec![Op::Gen, Op::RotMut(quant((rng.unit_f64() - 0.5) * 6.0, 8)), *rng.pick(&[Op::CloneIt, Op::Conf, Op::Gen])]
                } else {
                    vec![]
                };
                eval_seq(k, &x, &opsa, &y, &opsb);
                k += 1;
            }
        }
        "setseqs" => {
            let from: usize = a.rest.iter().position(|x| x == "--from").map(|i| a.rest[i + 1].parse().unwrap()).unwrap_or(0);
            let mut k = 0usize;
            // corpus: a small box prepared far away and then moved into a big one must own nothing
            let big = B { xc: 0.0, yc: 0.0, angle: Some(0.2), aspect: 1.0, h: 20.0 };
            let small = B { xc: 100.0, yc: 100.0, angle: Some(0.3), aspect: 1.0, h: 2.0 };
            if k >= from {
                eval_set_seq(k, &[big, small], &[vec![], vec![Op::Gen, Op::SetXc(0.0), Op::SetYc(0.0)]]);
            }
            k += 1;
            if k >= from {
                eval_set_seq(k, &[big, small], &[vec![Op::Gen, Op::RotMut(1.0)], vec![Op::SetXc(9.0), Op::SetYc(0.0), Op::Gen, Op::SetH(6.0)]]);
            }
            k += 1;
            for _ in 0..a.n {
                let n = 2 + rng.below(4) as usize;
                let mut v: Vec<B> = vec![];
                let mut ops: Vec<Vec<Op>> = vec![];
                for i in 0..n {
                    let mut x = moderate_box(&mut rng);
                    x.angle = Some(quant((rng.unit_f64() - 0.5) * 6.0, 8) + 0.0137 * (i as f32 + 1.0));
                    let o = if rng.chance(2, 3) { gen_ops(&mut rng, &x) } else { vec![] };
                    if i > 0 {
                        // near the FINAL geometry of an earlier box
                        let j = rng.below(i as u64) as usize;
                        let base = fresh_of(&apply_ops(&v[j], &ops[j]));
                        let fx = fresh_of(&apply_ops(&x, &o));
                        let d = rng.unit_f64() * 0.7 * (base.radius() + fx.radius());
                        let dir = rng.unit_f64() * 2.0 * std::f64::consts::PI;
                        // shift the start so that the final centre lands near the base box
                        let (tx, ty) = (quant(base.xc as f64 + d * dir.cos(), 6), quant(base.yc as f64 + d * dir.sin(), 6));
                        x.xc += tx - fx.xc;
                        x.yc += ty - fx.yc;
                    }
                    // ops that write absolute coordinates were generated relative to the old start: regenerate them
                    let o = if i > 0 && rng.chance(1, 2) { gen_ops(&mut rng, &x) } else { o };
                    v.push(x);
                    ops.push(o);
                }
                if k >= from {
                    eval_set_seq(k, &v, &ops);
                }
                k += 1;
            }
        }
        "sets" => {
            let only: Option<String> = a.rest.iter().position(|x| x == "--cfg").map(|i| a.rest[i + 1].clone());
            let from: usize = a.rest.iter().position(|x| x == "--from").map(|i| a.rest[i + 1].parse().unwrap()).unwrap_or(0);
            let mut k = 0usize;
            if only.is_none() {
                // corpus: the unit test of bbox_own_areas.rs
                let c = vec![B::ltwh(0.0, 0.0, 10.0, 10.0), B::ltwh(5.0, 5.0, 10.0, 10.0), B::ltwh(10.0, 10.0, 10.0, 10.0)];
                if k >= from { eval_set(k, "corpus", &c, a.seed, true); }
                k += 1;
                // minimised witness of C15:geo-difference:no-return (geo 0.27 does not return)
                let q = |ang: f32| B { xc: 12.0, yc: 1.0, angle: Some(ang), aspect: 4.0, h: 2.0 };
                let c = vec![q(4.712389), q(4.713389), q(0.0009765625), q(4.712389)];
                if k >= from { eval_set(k, "corpus", &c, a.seed, true); }
                k += 1;
                // minimised witness of C15:geo-difference:collinear-edges (geo 0.27 panics; exact shares 0 and 0.5)
                let c = vec![
                    B { xc: 0.0, yc: 0.0, angle: Some(0.25), aspect: 0.5, h: 1.0 },
                    B { xc: 0.0, yc: 0.0, angle: Some(0.25), aspect: 1.0, h: 1.0 },
                ];
                if k >= from { eval_set(k, "corpus", &c, a.seed, true); }
                k += 1;
            }
            for _ in 0..a.n {
                let cfg = match &only {
                    Some(c) => c.as_str().to_string(),
                    None => pick_cfg(&mut rng, &SET_CFGS).to_string(),
                };
                let v = gen_set(&mut rng, &cfg);
                if k >= from {
                    eval_set(k, &cfg, &v, a.seed, true);
                }
                k += 1;
            }
        }
        "eval" => {
            let txt = std::fs::read_to_string(a.file.expect("--file")).unwrap();
            let mut k = 0usize;
            for line in txt.lines() {
                let toks: Vec<&str> = line.split_whitespace().collect();
                if toks.is_empty() {
                    continue;
                }
                let get = |key: &str| toks.iter().find_map(|t| t.strip_prefix(key));
                let two = |s: &str| {
                    let v: Vec<B> = s.split(';').map(B::parse).collect();
                    (v[0], v[1])
                };
                match toks[0] {
                    "pair" => {
                        let cfg = get("cfg=").unwrap_or("replay");
                        let x = B::parse(get("a=").unwrap());
                        let y = B::parse(get("b=").unwrap());
                        eval_pair(k, cfg, &x, &y, get("mt=").map(two), get("mr=").map(two));
                    }
                    "seq" => {
                        let x = B::parse(get("a=").unwrap());
                        let y = B::parse(get("b=").unwrap());
                        eval_seq(k, &x, &ops_parse(get("opsa=").unwrap_or("-")), &y, &ops_parse(get("opsb=").unwrap_or("-")));
                    }
                    "sseq" => {
                        let v: Vec<B> = get("boxes=").unwrap().split(';').map(B::parse).collect();
                        let o: Vec<Vec<Op>> = get("ops=").unwrap().split('|').map(ops_parse).collect();
                        eval_set_seq(k, &v, &o);
                    }
                    "set" => {
                        let cfg = get("cfg=").unwrap_or("replay");
                        let v: Vec<B> = get("boxes=").unwrap().split(';').map(B::parse).collect();
                        eval_set(k, cfg, &v, a.seed, true);
                    }
                    _ => {}
                }
                k += 1;
            }
        }
        _ => {
            eprintln!("usage: geom pairs|sets|seqs --seed S --n N [--cfg NAME] | eval --file F");
            std::process::exit(2);
        }
    }
}
