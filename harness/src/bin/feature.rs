//! C16: feature packing and feature distances.  One record per line, every f32 as its bit pattern:
//!   pack  <k> style=<s> in=<b,...> blocks=<b,..(8)|b,..(8)|...> out=<b,...> blocksv=<...> outv=<...>   (P on panic)
//!         ALL conversion entry points of src/track/utils.rs (the three `FromVec` impls):
//!         blocks  = lanes (as_array_ref) of Feature::from_vec(&vec)      [impl FromVec<&Vec<f32>, Feature>]
//!         blocksv = lanes of Feature::from_vec(vec) with an OWNED Vec    [impl FromVec<Vec<f32>, Feature>]
//!         out / outv = Vec::<f32>::from_vec(&feature) of the two          [impl FromVec<&Feature, Vec<f32>>]
//!   dist  <k> kind=<s> u=<b,...> v=<b,...> eu=<b> eur=<b> cos=<b> cosr=<b> euu=<b> cosuu=<b>
//!         euclidean(u,v), euclidean(v,u), cosine(u,v), cosine(v,u), euclidean(u,u), cosine(u,u)   (P = panicked)
//!         on features built by reference; euv= cosv= the same two on features built BY VALUE, eum= cosm= mixed (u by
//!         reference, v by value)
//!   tri   <k> kind=<s> a=.. b=.. c=.. dab=<b> dbc=<b> dac=<b>
//!   scale <k> ka=<b> kb=<b> u=.. v=.. cos=<b> coss=<b>           cosine(u,v) and cosine(ka*u, kb*v), ka, kb > 0
//!   par   <k> kf=<b> u=.. cosp=<b>                               cosine(u, kf*u), kf != 0
use similari::distance::{cosine, euclidean};
use similari::track::utils::FromVec;
use similari::track::Feature;
use similari_verif_harness::*;

fn bits(v: &[f32]) -> String {
    v.iter().map(|x| x.to_bits().to_string()).collect::<Vec<_>>().join(",")
}

fn ob(x: Option<f32>) -> String {
    match x {
        None => "P".into(),
        Some(v) => f32b(v),
    }
}

fn feat(v: &[f32]) -> Feature {
    Feature::from_vec(&v.to_vec())
}

fn featv(v: &[f32]) -> Feature {
    Feature::from_vec(v.to_vec())
}

fn pack_case(k: usize, style: &str, v: &[f32]) {
    let one = |by_value: bool| {
        guarded(|| {
            let f = if by_value { featv(v) } else { feat(v) };
            let blocks: Vec<String> = f.iter().map(|b| bits(b.as_array_ref())).collect();
            let back: Vec<f32> = Vec::<f32>::from_vec(&f);
            (blocks.join("|"), bits(&back))
        })
        .unwrap_or(("P".to_string(), "P".to_string()))
    };
    let (b, o) = one(false);
    let (bv, ov) = one(true);
    println!("pack {} style={} in={} blocks={} out={} blocksv={} outv={}", k, style, bits(v), b, o, bv, ov);
}

fn eu(u: &[f32], v: &[f32]) -> Option<f32> {
    guarded(|| euclidean(&feat(u), &feat(v)))
}

fn cs(u: &[f32], v: &[f32]) -> Option<f32> {
    guarded(|| cosine(&feat(u), &feat(v)))
}

fn dist_case(k: usize, kind: &str, u: &[f32], v: &[f32]) {
    println!(
        "dist {} kind={} u={} v={} eu={} eur={} cos={} cosr={} euu={} cosuu={} euv={} cosv={} eum={} cosm={}",
        k, kind, bits(u), bits(v), ob(eu(u, v)), ob(eu(v, u)), ob(cs(u, v)), ob(cs(v, u)), ob(eu(u, u)), ob(cs(u, u)),
        ob(guarded(|| euclidean(&featv(u), &featv(v)))), ob(guarded(|| cosine(&featv(u), &featv(v)))),
        ob(guarded(|| euclidean(&feat(u), &featv(v)))), ob(guarded(|| cosine(&feat(u), &featv(v))))
    );
}

// ---------------------------------------------------------------------------------------------------------

/// finite value: dyadic mantissa in (-1,1) on a 2^-12 grid times 2^e
fn val(rng: &mut Rng, e: i32) -> f32 {
    let m = rng.range(-4095, 4095) as f32 / 4096.0;
    m * (2.0f32).powi(e)
}

/// a finite vector "over several magnitudes": per-vector scale 2^e0, per-element extra scale 2^(-s..s)
fn vec_finite(rng: &mut Rng, n: usize) -> Vec<f32> {
    let e0 = rng.range(-12, 12) as i32;
    let spread = *rng.pick(&[0i64, 0, 2, 6]);
    (0..n).map(|_| {
        if rng.chance(1, 12) {
            0.0
        } else {
            let e = e0 + rng.range(-spread, spread) as i32;
            val(rng, e)
        }
    }).collect()
}

fn vec_special(rng: &mut Rng, n: usize) -> Vec<f32> {
    const SP: [u32; 10] = [0x7FC00000, 0x7F800000, 0xFF800000, 0x80000000, 0x00000001, 0x7F7FFFFF, 0xFFC00001, 0x00800000, 0x3F800000, 0xBF800000];
    (0..n).map(|_| if rng.chance(1, 3) { f32::from_bits(*rng.pick(&SP)) } else { f32::from_bits(rng.next() as u32) }).collect()
}

fn vec_nonzero_ints(rng: &mut Rng, n: usize) -> Vec<f32> {
    (0..n).map(|i| (i as f32 + 1.0) * if rng.chance(1, 2) { 1.0 } else { -1.0 }).collect()
}

fn main() {
    quiet_panics();
    let a = parse_args();
    let mut rng = Rng::new(a.seed);
    match a.cmd.as_str() {
        "gen" => {
            // a.n = repetitions per length
            let reps = a.n.max(1);
            let mut k = 0usize;
            // corpus: the unit tests of utils.rs and distance.rs
            pack_case(k, "corpus", &[0.0, 0.2, 0.3]);
            k += 1;
            dist_case(k, "corpus", &[1.0, 0.0, 0.0], &[0.0, 1.0, 0.0]);
            k += 1;
            dist_case(k, "corpus", &[1.0, 0.0, 0.0], &[-1.0, 0.0, 0.0]);
            k += 1;
            // ---- packing: every length 0..=130, several value styles
            for n in 0..=130usize {
                for r in 0..reps {
                    let (style, v) = match (r + n) % 4 {
                        0 => ("nonzero-ints", vec_nonzero_ints(&mut rng, n)),
                        1 => ("finite", vec_finite(&mut rng, n)),
                        2 => ("special", vec_special(&mut rng, n)),
                        _ => ("zeros", vec![0.0; n]),
                    };
                    pack_case(k, style, &v);
                    k += 1;
                }
                if reps < 4 {
                    // make sure every length sees a vector whose elements are all distinguishable from padding
                    let v = vec_nonzero_ints(&mut rng, n);
                    pack_case(k, "nonzero-ints", &v);
                    k += 1;
                }
            }
            // ---- distances: every length, equal and unequal partners
            for n in 0..=130usize {
                for _ in 0..reps {
                    let u = vec_finite(&mut rng, n);
                    let v = vec_finite(&mut rng, n);
                    dist_case(k, "equal-len", &u, &v);
                    k += 1;
                    let m = rng.range(0, 130) as usize;
                    let w = vec_finite(&mut rng, m);
                    dist_case(k, "unequal-len", &u, &w);
                    k += 1;
                    // same number of blocks, different length; and one block more / less
                    let m2 = if n == 0 { rng.range(1, 8) as usize } else { ((n - 1) / 8) * 8 + 1 + rng.below(8) as usize };
                    let w2 = vec_finite(&mut rng, m2.min(130));
                    dist_case(k, "same-blocks", &u, &w2);
                    k += 1;
                    // nearly identical vectors (cancellation in the difference, cosine near 1)
                    let w3: Vec<f32> = u.iter().map(|x| if rng.chance(1, 4) { x + x / 1024.0 } else { *x }).collect();
                    dist_case(k, "near-identical", &u, &w3);
                    k += 1;
                }
            }
            // ---- triangle inequality: triples of one length, generic / collinear (equality case) / near-identical
            let ntri = 60 * reps;
            for i in 0..ntri {
                let n = if i % 3 == 0 { rng.range(0, 130) as usize } else { rng.range(1, 40) as usize };
                let e0 = rng.range(-8, 8) as i32;
                let g = |rng: &mut Rng| -> Vec<f32> { (0..n).map(|_| val(rng, e0)).collect() };
                let (kind, x, y, z) = match i % 4 {
                    0 | 1 => ("generic", g(&mut rng), g(&mut rng), g(&mut rng)),
                    2 => {
                        // b is the exact midpoint of a and c: d(a,c) = d(a,b) + d(b,c) in exact arithmetic
                        let x = g(&mut rng);
                        let d: Vec<f32> = (0..n).map(|_| rng.range(-255, 255) as f32 / 256.0 * (2.0f32).powi(e0)).collect();
                        let y: Vec<f32> = x.iter().zip(&d).map(|(p, q)| p + q).collect();
                        let z: Vec<f32> = y.iter().zip(&d).map(|(p, q)| p + q).collect();
                        ("collinear", x, y, z)
                    }
                    _ => {
                        let x = g(&mut rng);
                        let y: Vec<f32> = x.iter().map(|p| p + p / 4096.0).collect();
                        let z = g(&mut rng);
                        ("near-identical", x, y, z)
                    }
                };
                println!("tri {} kind={} a={} b={} c={} dab={} dbc={} dac={}", k, kind, bits(&x), bits(&y), bits(&z), ob(eu(&x, &y)), ob(eu(&y, &z)), ob(eu(&x, &z)));
                k += 1;
            }
            // ---- cosine under positive scaling, parallel and opposite vectors
            const KS: [f32; 10] = [0.5, 2.0, 1024.0, 0.0009765625, 1.5, 3.0, 0.1, 7.25, 100.0, 0.3];
            for i in 0..(60 * reps) {
                let n = if i % 3 == 0 { rng.range(1, 130) as usize } else { rng.range(1, 24) as usize };
                let u = vec_finite(&mut rng, n);
                let v = vec_finite(&mut rng, n);
                let ka = *rng.pick(&KS);
                let kb = *rng.pick(&KS);
                let us: Vec<f32> = u.iter().map(|x| x * ka).collect();
                let vs: Vec<f32> = v.iter().map(|x| x * kb).collect();
                println!("scale {} ka={} kb={} u={} v={} cos={} coss={}", k, f32b(ka), f32b(kb), bits(&u), bits(&v), ob(cs(&u, &v)), ob(cs(&us, &vs)));
                k += 1;
                let kf = *rng.pick(&KS) * if i % 2 == 0 { 1.0 } else { -1.0 };
                let up: Vec<f32> = u.iter().map(|x| x * kf).collect();
                println!("par {} kf={} u={} cosp={}", k, f32b(kf), bits(&u), ob(cs(&u, &up)));
                k += 1;
            }
            // ---- extreme magnitudes: every square and both squared norms are representable in f32, but the PRODUCT of
            //      the two squared norms (formed by `cosine` before its sqrt) is not
            for i in 0..(12 * reps) {
                let n = rng.range(1, 40) as usize;
                let e0 = (31 + rng.below(15) as i32) * if i % 2 == 0 { 1 } else { -1 };
                let u: Vec<f32> = (0..n).map(|_| val(&mut rng, e0)).collect();
                let v: Vec<f32> = (0..n).map(|_| val(&mut rng, e0)).collect();
                dist_case(k, "extreme", &u, &v);
                k += 1;
                let us: Vec<f32> = u.iter().map(|x| x * 2.0).collect();
                let vs: Vec<f32> = v.iter().map(|x| x * 0.5).collect();
                println!("scale {} kind=extreme ka={} kb={} u={} v={} cos={} coss={}", k, f32b(2.0), f32b(0.5), bits(&u), bits(&v), ob(cs(&u, &v)), ob(cs(&us, &vs)));
                k += 1;
                let kf = if i % 4 < 2 { 2.0f32 } else { -0.5 };
                let up: Vec<f32> = u.iter().map(|x| x * kf).collect();
                println!("par {} kind=extreme kf={} u={} cosp={}", k, f32b(kf), bits(&u), ob(cs(&u, &up)));
                k += 1;
            }
        }
        "replay" => {
            // lines: "pack in=<bits>" | "dist u=<bits> v=<bits>" | "tri a= b= c=" | "scale ka= kb= u= v=" | "par kf= u="
            let txt = std::fs::read_to_string(a.file.expect("--file")).unwrap();
            let pv = |s: &str| -> Vec<f32> { s.split(',').filter(|x| !x.is_empty()).map(|x| f32::from_bits(x.parse::<u32>().unwrap())).collect() };
            for (k, line) in txt.lines().enumerate() {
                let mut toks = line.split_whitespace();
                let what = toks.next().unwrap_or("");
                let kv: std::collections::HashMap<&str, &str> = toks.filter_map(|t| t.split_once('=')).collect();
                let g = |key: &str| pv(kv.get(key).copied().unwrap_or(""));
                let s = |key: &str| f32::from_bits(kv.get(key).unwrap().parse::<u32>().unwrap());
                match what {
                    "pack" => pack_case(k, "replay", &g("in")),
                    "dist" => dist_case(k, "replay", &g("u"), &g("v")),
                    "tri" => {
                        let (x, y, z) = (g("a"), g("b"), g("c"));
                        println!("tri {} kind=replay a={} b={} c={} dab={} dbc={} dac={}", k, bits(&x), bits(&y), bits(&z), ob(eu(&x, &y)), ob(eu(&y, &z)), ob(eu(&x, &z)));
                    }
                    "scale" => {
                        let (u, v, ka, kb) = (g("u"), g("v"), s("ka"), s("kb"));
                        let us: Vec<f32> = u.iter().map(|x| x * ka).collect();
                        let vs: Vec<f32> = v.iter().map(|x| x * kb).collect();
                        println!("scale {} ka={} kb={} u={} v={} cos={} coss={}", k, f32b(ka), f32b(kb), bits(&u), bits(&v), ob(cs(&u, &v)), ob(cs(&us, &vs)));
                    }
                    "par" => {
                        let (u, kf) = (g("u"), s("kf"));
                        let up: Vec<f32> = u.iter().map(|x| x * kf).collect();
                        println!("par {} kf={} u={} cosp={}", k, f32b(kf), bits(&u), ob(cs(&u, &up)));
                    }
                    _ => {}
                }
            }
        }
        _ => {
            eprintln!("usage: feature gen --seed S --n REPS | feature replay --file F");
            std::process::exit(2);
        }
    }
}
