//! C06: the REAL BatchSort / BatchVisualSort next to Sort / VisualSort, under randomised delay plans at the
//! schedule points (`similari::verif_hooks`), with a recorded event trace and a watchdog.
//!
//!   batch gen --seed S --n N --tier T      random histories x (distance_shards, voting_shards) in 1..4 x delay plans
//!   batch replay --file F                  re-run `run` lines (fields kind d v mode dseed hist)
//!
//! One line per run:
//!   run kind=<sort|visual> d=<distance shards> v=<voting shards> mode=<A|B> dseed=<delay seed> hist=<history>
//!       batch=<results of the batch tracker> simple=<results of one simple tracker per scene>
//!       log=<events> status=<ok|hang|panic>
//! history: batches joined by '/', scenes by '|', scene = `sid:det;det`, det = x,y,aspect,height,conf (f32 bits),
//!          custom id (or n), feature quality bits (or n), feature values bits joined by '_' (or n)
//! results: batches '/', scene results '|', `sid:rec;rec`, rec = id,epoch,length,custom,scene,votingtype,
//!          observed box (5 fields + angle) and predicted box as f32 bits joined by '.'
//! events:  `<site letter><arg>@<thread>`: P=batch_monitor_passed(size) D=batch_scene_dispatched(scene)
//!          J=vote_job_begin W=vote_store_write S=vote_send E=vote_job_end C=consumed(scene, by the harness,
//!          logged atomically with the removal from the result channel) p=predict called r=predict returned
//!          x=drop begins y=drop finished
//! Probe lines (`probe site=.. early=0|1`): all voting threads are parked at a schedule point of batch k while
//! predict(k+1) is started; `early=1` means the monitor let predict pass although jobs of batch k were unfinished.
#[path = "../sched_util.rs"]
mod sched_util;

use sched_util::*;
use similari::prelude::*;
use similari::trackers::batch::PredictionBatchResult;
use similari::trackers::tracker_api::TrackerAPI;
use similari::trackers::sort::batch_api::SortPredictionBatchRequest;
use similari::trackers::visual_sort::batch_api::{BatchVisualSort, VisualSortPredictionBatchRequest};
use similari_verif_harness::*;
use std::collections::BTreeMap;
use std::sync::atomic::{AtomicBool, AtomicU64, AtomicUsize, Ordering};
use std::sync::{mpsc, Arc, Mutex, OnceLock};
use std::time::{Duration, Instant};

#[derive(Clone, Debug)]
struct Det {
    x: f32,
    y: f32,
    aspect: f32,
    h: f32,
    conf: f32,
    custom: Option<i64>,
    q: Option<f32>,
    feat: Option<Vec<f32>>,
}

type Scene = (u64, Vec<Det>);
type Batch = Vec<Scene>;

fn ob(x: Option<f32>) -> String {
    x.map(|v| v.to_bits().to_string()).unwrap_or("n".into())
}

fn enc_det(d: &Det) -> String {
    format!(
        "{},{},{},{},{},{},{},{}",
        d.x.to_bits(),
        d.y.to_bits(),
        d.aspect.to_bits(),
        d.h.to_bits(),
        d.conf.to_bits(),
        d.custom.map(|c| c.to_string()).unwrap_or("n".into()),
        ob(d.q),
        d.feat.as_ref().map(|f| f.iter().map(|v| v.to_bits().to_string()).collect::<Vec<_>>().join("_")).unwrap_or("n".into())
    )
}

fn dec_det(s: &str) -> Det {
    let p: Vec<&str> = s.split(',').collect();
    let f = |i: usize| f32::from_bits(p[i].parse::<u32>().unwrap());
    Det {
        x: f(0),
        y: f(1),
        aspect: f(2),
        h: f(3),
        conf: f(4),
        custom: if p[5] == "n" { None } else { Some(p[5].parse().unwrap()) },
        q: if p[6] == "n" { None } else { Some(f(6)) },
        feat: if p[7] == "n" { None } else { Some(p[7].split('_').map(|v| f32::from_bits(v.parse::<u32>().unwrap())).collect()) },
    }
}

fn enc_hist(h: &[Batch]) -> String {
    h.iter()
        .map(|b| b.iter().map(|(s, ds)| format!("{}:{}", s, ds.iter().map(enc_det).collect::<Vec<_>>().join(";"))).collect::<Vec<_>>().join("|"))
        .collect::<Vec<_>>()
        .join("/")
}

fn dec_hist(s: &str) -> Vec<Batch> {
    s.split('/')
        .filter(|b| !b.is_empty())
        .map(|b| {
            b.split('|')
                .map(|sc| {
                    let (sid, ds) = sc.split_once(':').unwrap();
                    (sid.parse().unwrap(), ds.split(';').filter(|d| !d.is_empty()).map(dec_det).collect())
                })
                .collect()
        })
        .collect()
}

fn ubox(d: &Det) -> Universal2DBox {
    Universal2DBox::new_with_confidence(d.x, d.y, None, d.aspect, d.h, d.conf)
}

fn enc_box(b: &Universal2DBox) -> String {
    format!("{}.{}.{}.{}.{}.{}", b.xc.to_bits(), b.yc.to_bits(), ob(b.angle), b.aspect.to_bits(), b.height.to_bits(), b.confidence.to_bits())
}

fn enc_rec(t: &SortTrack) -> String {
    format!(
        "{},{},{},{},{},{:?},{},{}",
        t.id,
        t.epoch,
        t.length,
        t.custom_object_id.map(|c| c.to_string()).unwrap_or("n".into()),
        t.scene_id,
        t.voting_type,
        enc_box(&t.observed_bbox),
        enc_box(&t.predicted_bbox)
    )
}

// ---------------------------------------------------------------------------------------------------------
// hook: log + delay plan + optional gate

static GATES: OnceLock<Arc<Gates>> = OnceLock::new();
static DELAY_SEED: AtomicU64 = AtomicU64::new(0);
static HOOK_CALLS: AtomicU64 = AtomicU64::new(0);
static HOLD_SITE: Mutex<Option<&'static str>> = Mutex::new(None);
static RUNNING: AtomicBool = AtomicBool::new(false);
/// own-area thresholds (use, collect) of the visual trackers of the current run, in 1/1000
static OWN_AREA: Mutex<(u32, u32)> = Mutex::new((0, 0));
/// lifecycle calls of the current run: (index of the batch after which the call is made, call)
/// calls: clear | wasted | skip.<scene>.<n> | idle.<scene> | aw.<periodicity>
static OPS: Mutex<Vec<(usize, String)>> = Mutex::new(Vec::new());
static BATCHES_RETRIEVED: AtomicUsize = AtomicUsize::new(0);

fn gates() -> &'static Arc<Gates> {
    GATES.get_or_init(Gates::new)
}

fn mix(a: u64, b: u64) -> u64 {
    let mut z = a ^ b.wrapping_mul(0x9E3779B97F4A7C15);
    z = (z ^ (z >> 30)).wrapping_mul(0xBF58476D1CE4E5B9);
    z = (z ^ (z >> 27)).wrapping_mul(0x94D049BB133111EB);
    z ^ (z >> 31)
}

fn planned_delay(site: &'static str, arg: u64) {
    let seed = DELAY_SEED.load(Ordering::Relaxed);
    if seed == 0 {
        return;
    }
    let k = HOOK_CALLS.fetch_add(1, Ordering::Relaxed);
    let h = mix(mix(seed, k), mix(site.len() as u64 * 131 + site.as_bytes()[site.len() - 1] as u64, arg));
    match h % 8 {
        0 => std::thread::sleep(Duration::from_micros(20 + (h >> 8) % 400)),
        1 => std::thread::yield_now(),
        2 => std::thread::sleep(Duration::from_micros((h >> 8) % 60)),
        _ => {}
    }
}

fn install_hook() {
    let g = gates().clone();
    similari::verif_hooks::set_hook(Some(Arc::new(move |site: &'static str, arg: u64| {
        let logged = matches!(
            site,
            "batch_monitor_passed" | "batch_scene_dispatched" | "vote_job_begin" | "vote_store_write" | "vote_send" | "vote_job_end"
        );
        if logged {
            g.log(site, arg);
        }
        let hold = *HOLD_SITE.lock().unwrap();
        if hold == Some(site) {
            g.arrive_and_wait((site, 0), "gate_passed");
        }
        // never sleep while the library holds the monitor mutex (vote_job_end is called under it)
        if site != "vote_job_end" {
            planned_delay(site, arg);
        }
    })));
}

// ---------------------------------------------------------------------------------------------------------
// trackers

enum BatchTracker {
    Sort(BatchSort),
    Visual(BatchVisualSort),
}

fn visual_opts() -> VisualSortOptions {
    let (oau, oac) = *OWN_AREA.lock().unwrap();
    VisualSortOptions::default()
        .max_idle_epochs(3)
        .kept_history_length(3)
        .visual_metric(VisualSortMetricType::Euclidean(1.0))
        .positional_metric(PositionalMetricType::IoU(0.3))
        .visual_minimal_track_length(2)
        .visual_minimal_area(5.0)
        .visual_minimal_quality_use(0.45)
        .visual_minimal_quality_collect(0.7)
        .visual_max_observations(3)
        .visual_min_votes(1)
        .visual_minimal_own_area_percentage_use(oau as f32 / 1000.0)
        .visual_minimal_own_area_percentage_collect(oac as f32 / 1000.0)
}

fn new_batch_tracker(kind: &str, d: usize, v: usize) -> BatchTracker {
    if kind == "sort" {
        BatchTracker::Sort(BatchSort::new(d, v, 1, 3, PositionalMetricType::IoU(0.3), 0.05, None, 1.0 / 20.0, 1.0 / 160.0))
    } else {
        BatchTracker::Visual(BatchVisualSort::new(d, v, &visual_opts()))
    }
}

fn submit(tr: &mut BatchTracker, batch: &Batch) -> PredictionBatchResult {
    match tr {
        BatchTracker::Sort(t) => {
            let mut req = SortPredictionBatchRequest::new();
            for (sid, ds) in batch {
                for d in ds {
                    req.add(*sid, ubox(d), d.custom);
                }
            }
            let res = req.result.take().unwrap();
            t.predict(req.batch);
            res
        }
        BatchTracker::Visual(t) => {
            let mut req = VisualSortPredictionBatchRequest::new();
            for (sid, ds) in batch {
                for d in ds {
                    req.add(*sid, VisualSortObservation::new(d.feat.as_deref(), d.q, ubox(d), d.custom));
                }
            }
            let res = req.result.take().unwrap();
            t.predict(req.batch);
            res
        }
    }
}

/// retrieve `n` results; every removal from the channel is logged atomically with it (under the log mutex)
fn consume(res: &PredictionBatchResult, n: usize, out: &mut Vec<(u64, Vec<SortTrack>)>, dseed: u64) {
    let g = gates();
    let mut got = 0;
    let mut spins = 0u64;
    while got < n {
        let mut taken = None;
        {
            let mut st = g.m.lock().unwrap();
            if res.ready() {
                let (sid, recs) = res.get();
                let t = {
                    let id = std::thread::current().id();
                    let k = st.threads.len();
                    *st.threads.entry(id).or_insert(k)
                };
                st.log.push(Ev { thread: t, site: "consumed", arg: sid });
                st.progress += 1;
                taken = Some((sid, recs));
            }
        }
        match taken {
            Some(r) => {
                out.push(r);
                got += 1;
                if dseed != 0 && mix(dseed, got as u64 + 77) % 3 == 0 {
                    std::thread::sleep(Duration::from_micros(mix(dseed, got as u64) % 300));
                }
            }
            None => {
                spins += 1;
                if spins % 64 == 0 {
                    std::thread::sleep(Duration::from_micros(50));
                } else {
                    std::thread::yield_now();
                }
                if !RUNNING.load(Ordering::Relaxed) {
                    return;
                }
            }
        }
    }
}

/// the tracker-API lifecycle calls that the batch and the simple trackers share
trait LifeOps {
    fn clear_w(&mut self);
    fn wasted_recs(&mut self) -> Vec<SortTrack>;
    fn skip(&mut self, scene: u64, n: usize);
    fn idle(&mut self, scene: u64) -> Vec<SortTrack>;
    fn set_aw(&mut self, p: usize);
}

macro_rules! life_ops {
    ($t:ty) => {
        impl LifeOps for $t {
            fn clear_w(&mut self) {
                self.clear_wasted()
            }
            fn wasted_recs(&mut self) -> Vec<SortTrack> {
                self.wasted().iter().map(SortTrack::from).collect()
            }
            fn skip(&mut self, scene: u64, n: usize) {
                self.skip_epochs_for_scene(scene, n)
            }
            fn idle(&mut self, scene: u64) -> Vec<SortTrack> {
                self.idle_tracks_with_scene(scene)
            }
            fn set_aw(&mut self, p: usize) {
                self.set_auto_waste(p)
            }
        }
    };
}
life_ops!(Sort);
life_ops!(VisualSort);
life_ops!(BatchSort);
life_ops!(BatchVisualSort);

fn enc_grouped(mut recs: Vec<SortTrack>) -> String {
    recs.sort_by_key(|r| (r.scene_id, r.id));
    let mut groups: BTreeMap<u64, Vec<SortTrack>> = BTreeMap::new();
    for r in recs {
        groups.entry(r.scene_id).or_default().push(r);
    }
    let g: Vec<String> = groups.iter().map(|(s, rs)| enc_scene_res(*s, rs)).collect();
    if g.is_empty() {
        "-".into()
    } else {
        g.join("|")
    }
}

/// applies one lifecycle call to a set of trackers (one batch tracker, or every per-scene simple tracker; `only`
/// restricts scene-addressed calls to the tracker of that scene) and returns what it handed out
fn apply_op(trackers: &mut [(Option<u64>, &mut dyn LifeOps)], op: &str) -> String {
    let p: Vec<&str> = op.split('.').collect();
    let mut out: Vec<SortTrack> = vec![];
    for (scene, t) in trackers.iter_mut() {
        match p[0] {
            "clear" => t.clear_w(),
            "wasted" => out.extend(t.wasted_recs()),
            "aw" => t.set_aw(p[1].parse().unwrap()),
            "skip" => {
                let s: u64 = p[1].parse().unwrap();
                if scene.is_none() || *scene == Some(s) {
                    t.skip(s, p[2].parse().unwrap());
                }
            }
            "idle" => {
                let s: u64 = p[1].parse().unwrap();
                if scene.is_none() || *scene == Some(s) {
                    out.extend(t.idle(s));
                }
            }
            _ => {}
        }
    }
    enc_grouped(out)
}

enum SimpleTracker {
    S(Sort),
    V(VisualSort),
}

/// one simple tracker per scene, fed that scene's detection lists; lifecycle calls go to every tracker
fn simple_results(kind: &str, hist: &[Batch], ops: &[(usize, String)]) -> (BTreeMap<u64, Vec<Vec<SortTrack>>>, Vec<String>) {
    let mut scenes: Vec<u64> = hist.iter().flat_map(|b| b.iter().map(|(s, _)| *s)).collect();
    scenes.sort();
    scenes.dedup();
    let mut trackers: BTreeMap<u64, SimpleTracker> = BTreeMap::new();
    let mut out: BTreeMap<u64, Vec<Vec<SortTrack>>> = BTreeMap::new();
    for s in &scenes {
        trackers.insert(
            *s,
            if kind == "sort" {
                SimpleTracker::S(Sort::new(1, 1, 3, PositionalMetricType::IoU(0.3), 0.05, None, 1.0 / 20.0, 1.0 / 160.0))
            } else {
                SimpleTracker::V(VisualSort::new(1, &visual_opts()))
            },
        );
        out.insert(*s, vec![]);
    }
    let mut op_out = vec![];
    for (bi, b) in hist.iter().enumerate() {
        for (sid, ds) in b {
            let r = match trackers.get_mut(sid).unwrap() {
                SimpleTracker::S(t) => {
                    let boxes: Vec<(Universal2DBox, Option<i64>)> = ds.iter().map(|d| (ubox(d), d.custom)).collect();
                    t.predict_with_scene(*sid, &boxes)
                }
                SimpleTracker::V(t) => {
                    let obs: Vec<VisualSortObservation> =
                        ds.iter().map(|d| VisualSortObservation::new(d.feat.as_deref(), d.q, ubox(d), d.custom)).collect();
                    t.predict_with_scene(*sid, &obs)
                }
            };
            out.get_mut(sid).unwrap().push(r);
        }
        for (pos, op) in ops {
            if *pos == bi {
                let mut refs: Vec<(Option<u64>, &mut dyn LifeOps)> = trackers
                    .iter_mut()
                    .map(|(s, t)| {
                        let l: &mut dyn LifeOps = match t {
                            SimpleTracker::S(x) => x,
                            SimpleTracker::V(x) => x,
                        };
                        (Some(*s), l)
                    })
                    .collect();
                op_out.push(apply_op(&mut refs, op));
            }
        }
    }
    (out, op_out)
}

fn enc_scene_res(sid: u64, recs: &[SortTrack]) -> String {
    format!("{}:{}", sid, recs.iter().map(enc_rec).collect::<Vec<_>>().join(";"))
}

fn enc_log(log: &[Ev]) -> String {
    log.iter()
        .filter_map(|e| {
            let c = match e.site {
                "batch_monitor_passed" => "P",
                "batch_scene_dispatched" => "D",
                "vote_job_begin" => "J",
                "vote_store_write" => "W",
                "vote_send" => "S",
                "vote_job_end" => "E",
                "consumed" => "C",
                "predict_call" => "p",
                "predict_ret" => "r",
                "drop_begin" => "x",
                "drop_end" => "y",
                _ => return None,
            };
            Some(format!("{}{}@{}", c, e.arg, e.thread))
        })
        .collect::<Vec<_>>()
        .join(".")
}

const WATCHDOG: Duration = Duration::from_secs(90);

/// runs `f` on a worker thread; if the event log makes no progress for WATCHDOG the run is reported as hung
fn with_watchdog<R: Send + 'static>(f: impl FnOnce() -> R + Send + 'static) -> Result<R, &'static str> {
    let (tx, rx) = mpsc::channel();
    RUNNING.store(true, Ordering::SeqCst);
    std::thread::spawn(move || {
        let r = guarded(f);
        let _ = tx.send(r);
    });
    let g = gates();
    let mut last = g.progress();
    let mut since = Instant::now();
    loop {
        match rx.recv_timeout(Duration::from_millis(50)) {
            Ok(Some(r)) => {
                RUNNING.store(false, Ordering::SeqCst);
                return Ok(r);
            }
            Ok(None) => {
                RUNNING.store(false, Ordering::SeqCst);
                return Err("panic");
            }
            Err(mpsc::RecvTimeoutError::Disconnected) => {
                RUNNING.store(false, Ordering::SeqCst);
                return Err("panic");
            }
            Err(mpsc::RecvTimeoutError::Timeout) => {
                let p = g.progress();
                if p != last {
                    last = p;
                    since = Instant::now();
                } else if since.elapsed() > WATCHDOG {
                    return Err("hang");
                }
            }
        }
    }
}

fn run_case(kind: &str, d: usize, v: usize, mode: &str, dseed: u64, hist: &[Batch]) {
    let g = gates();
    g.reset(false);
    *HOLD_SITE.lock().unwrap() = None;
    HOOK_CALLS.store(0, Ordering::SeqCst);
    DELAY_SEED.store(dseed, Ordering::SeqCst);
    let (kind_s, mode_s, hist_c) = (kind.to_string(), mode.to_string(), hist.to_vec());
    let ops: Vec<(usize, String)> = OPS.lock().unwrap().clone();
    let ops_c = ops.clone();
    let outcome = with_watchdog(move || {
        let g = gates();
        let mut tr = new_batch_tracker(&kind_s, d, v);
        let mut results: Vec<Vec<(u64, Vec<SortTrack>)>> = vec![];
        let mut op_out: Vec<String> = vec![];
        BATCHES_RETRIEVED.store(0, Ordering::SeqCst);
        // lifecycle calls are made between batches, after the results of the preceding batch have been retrieved
        let mut do_ops = |tr: &mut BatchTracker, bi: usize, op_out: &mut Vec<String>| {
            for (pos, op) in &ops_c {
                if *pos == bi {
                    while BATCHES_RETRIEVED.load(Ordering::SeqCst) < bi + 1 {
                        std::thread::sleep(Duration::from_micros(50));
                    }
                    let l: &mut dyn LifeOps = match tr {
                        BatchTracker::Sort(x) => x,
                        BatchTracker::Visual(x) => x,
                    };
                    op_out.push(apply_op(&mut [(None, l)], op));
                }
            }
        };
        if mode_s == "A" {
            // results of a batch are retrieved (by the submitting thread) before the next batch is submitted
            for (bi, b) in hist_c.iter().enumerate() {
                g.log("predict_call", bi as u64);
                let res = submit(&mut tr, b);
                g.log("predict_ret", bi as u64);
                let mut out = vec![];
                consume(&res, res.batch_size(), &mut out, dseed);
                results.push(out);
                BATCHES_RETRIEVED.fetch_add(1, Ordering::SeqCst);
                do_ops(&mut tr, bi, &mut op_out);
            }
        } else {
            // results are retrieved from another thread
            let (tx, rx) = mpsc::channel::<PredictionBatchResult>();
            let consumer = std::thread::spawn(move || {
                let mut all = vec![];
                while let Ok(res) = rx.recv() {
                    let mut out = vec![];
                    consume(&res, res.batch_size(), &mut out, dseed);
                    all.push(out);
                    BATCHES_RETRIEVED.fetch_add(1, Ordering::SeqCst);
                }
                all
            });
            for (bi, b) in hist_c.iter().enumerate() {
                g.log("predict_call", bi as u64);
                let res = submit(&mut tr, b);
                g.log("predict_ret", bi as u64);
                tx.send(res).unwrap();
                do_ops(&mut tr, bi, &mut op_out);
            }
            drop(tx);
            results = consumer.join().unwrap();
        }
        g.log("drop_begin", 0);
        drop(tr);
        g.log("drop_end", 0);
        (results, op_out)
    });
    DELAY_SEED.store(0, Ordering::SeqCst);
    let bops_s = match &outcome {
        Ok((_, o)) => o.join("/"),
        Err(_) => String::new(),
    };
    let (status, batch_s) = match &outcome {
        Ok((results, _)) => (
            "ok",
            results.iter().map(|b| b.iter().map(|(s, r)| enc_scene_res(*s, r)).collect::<Vec<_>>().join("|")).collect::<Vec<_>>().join("/"),
        ),
        Err(e) => (*e, String::new()),
    };
    let log = enc_log(&g.take_log());
    // the reference: one simple tracker per scene (no hooks relevant, no delays)
    let simple = guarded(|| simple_results(kind, hist, &ops));
    let (simple_s, sops_s) = match simple {
        Some((m, o)) => (
            m.iter()
                .map(|(s, calls)| calls.iter().map(|c| enc_scene_res(*s, c)).collect::<Vec<_>>().join("|"))
                .collect::<Vec<_>>()
                .join("/"),
            o.join("/"),
        ),
        None => ("PANIC".into(), String::new()),
    };
    let ops_s = ops.iter().map(|(p, o)| format!("{}:{}", p, o)).collect::<Vec<_>>().join(";");
    let (oau, oac) = *OWN_AREA.lock().unwrap();
    println!(
        "run kind={} d={} v={} mode={} dseed={} oau={} oac={} ops={} hist={} batch={} simple={} bops={} sops={} log={} status={}",
        kind,
        d,
        v,
        mode,
        dseed,
        oau,
        oac,
        ops_s,
        enc_hist(hist),
        batch_s,
        simple_s,
        bops_s,
        sops_s,
        log,
        status
    );
    if status == "hang" {
        use std::io::Write;
        std::io::stdout().flush().unwrap();
        std::process::exit(3);
    }
}

/// all voting threads parked at `site` of batch 0, then predict(batch 1) is started: it must not get past the monitor
fn probe(kind: &str, site: &'static str, hist: &[Batch]) {
    let g = gates();
    g.reset(true);
    HOOK_CALLS.store(0, Ordering::SeqCst);
    DELAY_SEED.store(0, Ordering::SeqCst);
    *HOLD_SITE.lock().unwrap() = Some(site);
    let (kind_s, hist_c) = (kind.to_string(), hist.to_vec());
    let nvoters = hist[0].len();
    let outcome = with_watchdog(move || {
        let g = gates();
        let mut tr = new_batch_tracker(&kind_s, 2, nvoters);
        let res0 = submit(&mut tr, &hist_c[0]);
        // wait until every voting thread is parked at the site
        let deadline = Instant::now() + Duration::from_secs(10);
        loop {
            let parked = *g.m.lock().unwrap().parked.get(&(site, 0)).unwrap_or(&0);
            if parked >= nvoters || Instant::now() > deadline {
                break;
            }
            std::thread::sleep(Duration::from_millis(1));
        }
        let passed_before = g.take_log().iter().filter(|e| e.site == "batch_monitor_passed").count();
        let (tx, rx) = mpsc::channel();
        let b1 = hist_c[1].clone();
        let th = std::thread::spawn(move || {
            let res1 = submit(&mut tr, &b1);
            let _ = tx.send(());
            (tr, res1)
        });
        // does predict(1) get past the monitor although the jobs of batch 0 are parked?
        let mut early = false;
        let t0 = Instant::now();
        while t0.elapsed() < Duration::from_millis(300) {
            let passed = g.take_log().iter().filter(|e| e.site == "batch_monitor_passed").count();
            if passed > passed_before {
                early = true;
                break;
            }
            std::thread::sleep(Duration::from_millis(2));
        }
        *HOLD_SITE.lock().unwrap() = None;
        g.open();
        let mut out = vec![];
        consume(&res0, res0.batch_size(), &mut out, 0);
        let _ = rx.recv();
        let (tr, res1) = th.join().unwrap();
        consume(&res1, res1.batch_size(), &mut out, 0);
        drop(tr);
        early
    });
    *HOLD_SITE.lock().unwrap() = None;
    let (status, early) = match outcome {
        Ok(e) => ("ok", e),
        Err(e) => (e, false),
    };
    println!("probe kind={} site={} early={} hist={} log={} status={}", kind, site, early as u8, enc_hist(hist), enc_log(&g.take_log()), status);
    if status == "hang" {
        use std::io::Write;
        std::io::stdout().flush().unwrap();
        std::process::exit(3);
    }
}

// ---------------------------------------------------------------------------------------------------------
// generation: well separated objects moving slowly; every object keeps its own lane, so assignments are unique
// by a wide margin (IoU of an object with its own track >= 0.6, with any other object 0)

fn gen_history(rng: &mut Rng, visual: bool, nbatches: usize, many: bool) -> Vec<Batch> {
    let nscenes = 1 + rng.below(4) as usize;
    let scene_ids: Vec<u64> = (0..nscenes).map(|i| 3 + 7 * i as u64 + rng.below(3)).collect();
    // objects per scene
    let mut objs: Vec<Vec<(f32, f32, f32, f32)>> = vec![];
    for (si, _) in scene_ids.iter().enumerate() {
        let k = if many { 6 + rng.below(6) as usize } else { 1 + rng.below(4) as usize };
        objs.push(
            (0..k)
                .map(|j| {
                    (
                        100.0 * j as f32 + rng.dyadic(0, 64, 2),
                        60.0 * si as f32 + rng.dyadic(0, 64, 2),
                        rng.dyadic(-8, 8, 2),
                        rng.dyadic(-8, 8, 2),
                    )
                })
                .collect(),
        );
    }
    let mut hist = vec![];
    let mut serial = 0u32;
    for f in 0..nbatches {
        let mut b: Batch = vec![];
        for (si, sid) in scene_ids.iter().enumerate() {
            if !rng.chance(3, 4) && !(b.is_empty() && si + 1 == nscenes) {
                continue;
            }
            let mut ds = vec![];
            for (j, o) in objs[si].iter().enumerate() {
                if rng.chance(1, 5) {
                    continue; // the object is not detected in this frame
                }
                let x = o.0 + o.2 * f as f32;
                let y = o.1 + o.3 * f as f32;
                ds.push(Det {
                    x,
                    y,
                    aspect: 0.5 + 0.125 * (j % 3) as f32,
                    h: 30.0 + 2.0 * (j % 4) as f32,
                    conf: if rng.chance(1, 6) { 0.75 } else { 1.0 },
                    custom: if rng.chance(1, 3) { Some(100 * si as i64 + j as i64) } else { None },
                    q: if visual { Some(0.9) } else { None },
                    feat: if visual && rng.chance(4, 5) {
                        // a private offset per detection: no two feature distances of a scene coincide (no exact ties)
                        serial += 1;
                        Some(vec![j as f32 * 4.0 + serial as f32 / 509.0, si as f32 + (serial * serial % 31) as f32 / 1021.0])
                    } else {
                        None
                    },
                });
            }
            rng.shuffle(&mut ds);
            // a scene without detections cannot be part of a batch request (scenes are created by `add`)
            if !ds.is_empty() {
                b.push((*sid, ds));
            }
        }
        if b.is_empty() {
            continue;
        }
        hist.push(b);
    }
    hist
}

/// Two consecutive batches over `nscenes` scenes with 1-2 well separated detections each: many jobs per voting
/// thread, so that a bound on a voting thread's job queue (the model's queues are unbounded) would block predict
/// while that thread waits on the bounded(1) result channel.
fn gen_large(rng: &mut Rng, visual: bool, nscenes: usize) -> Vec<Batch> {
    let mut hist = vec![];
    let two: Vec<bool> = (0..nscenes).map(|_| rng.chance(1, 3)).collect();
    let off: Vec<(f32, f32)> = (0..nscenes).map(|_| (rng.dyadic(0, 64, 2), rng.dyadic(0, 64, 2))).collect();
    let mut serial = 0u32;
    for f in 0..2 {
        let mut b: Batch = vec![];
        for si in 0..nscenes {
            let mut ds = vec![];
            for j in 0..(if two[si] { 2 } else { 1 }) {
                ds.push(Det {
                    x: 100.0 * j as f32 + off[si].0 + 2.0 * f as f32,
                    y: off[si].1 + 1.0 * f as f32,
                    aspect: 0.625,
                    h: 32.0,
                    conf: 1.0,
                    custom: None,
                    q: if visual { Some(0.9) } else { None },
                    feat: if visual {
                        serial += 1;
                        Some(vec![4.0 * j as f32 + (serial % 251) as f32 / 509.0, (serial * serial % 31) as f32 / 1021.0])
                    } else {
                        None
                    },
                });
            }
            b.push((1 + si as u64, ds));
        }
        rng.shuffle(&mut b);
        hist.push(b);
    }
    hist
}

/// Occlusion stream for the visual pair (own-area thresholds): per scene two established objects A and B with
/// far-apart features; then a detection X at A's place that is mostly covered by a bigger box Y of the same scene
/// (X keeps ~20% of its area, Y ~49%) and whose appearance disagrees with its position:
///   variant U: X carries B's look (B itself is not detected): with the use-gate X goes to A by position, without it
///              to B by appearance;
///   variant C: X carries a new look D, and one frame later an unoccluded detection Z with look D shows up far away
///              (A is not detected): Z joins A only if X's feature was collected in spite of the collect-gate.
/// Box edges never share a coordinate line (the geo dependency's boolean ops are fragile there, C15).
fn gen_occlusion(rng: &mut Rng) -> Vec<Batch> {
    // every history contains both variants: scene 0 is U, scene 1 is C, a third scene is either
    let nscenes = 2 + rng.below(2) as usize;
    let variants: Vec<bool> = (0..nscenes).map(|i| if i == 0 { true } else if i == 1 { false } else { rng.chance(1, 2) }).collect(); // true = U, false = C
    let base: Vec<(f32, f32)> = (0..nscenes).map(|_| (rng.dyadic(0, 40, 2), rng.dyadic(0, 40, 2))).collect();
    // Appearance must be free of exact ties as well: when two detections claim one track (after X's look has entered
    // A's gallery) BestFitVoting compares sums of (max distance - distance); on equal weights the outcome depends on
    // HashMap order, in the simple tracker too. Every detection therefore gets its own offset on a grid whose steps
    // are pairwise incommensurable enough (1/8, 3/32, 5/64 per look family plus a per-scene shift): no two feature
    // distances inside a scene coincide.
    let mut serial = 0u32;
    let mut feat = |_rng: &mut Rng, x: f32, y: f32| {
        serial += 1;
        let fam = if x == 0.0 && y == 0.0 { 8.0 } else if x == 4.0 && y == 0.0 { 32.0 / 3.0 } else { 64.0 / 5.0 };
        Some(vec![x + serial as f32 / fam / 8.0, y + (serial * serial % 17) as f32 / 512.0])
    };
    let mk = |x: f32, y: f32, h: f32, f: Option<Vec<f32>>| Det { x, y, aspect: 0.625, h, conf: 1.0, custom: None, q: Some(0.9), feat: f };
    let mut hist = vec![];
    for f in 0..5usize {
        let mut b: Batch = vec![];
        for si in 0..nscenes {
            let (bx, by) = base[si];
            let ax = bx + 1.25 * f as f32;
            let bxx = bx + 200.0 + 0.75 * f as f32;
            let mut ds = vec![];
            match f {
                0 | 1 | 2 => {
                    ds.push(mk(ax, by, 32.0, feat(rng, 0.0, 0.0)));
                    ds.push(mk(bxx, by + 3.0, 32.0, feat(rng, 4.0, 0.0)));
                }
                3 => {
                    let look = if variants[si] { (4.0, 0.0) } else { (8.0, 8.0) };
                    ds.push(mk(ax, by, 32.0, feat(rng, look.0, look.1))); // X
                    ds.push(mk(ax + 6.0, by + 5.0, 40.0, feat(rng, 0.0, 4.0))); // Y, the occluder
                    if !variants[si] {
                        ds.push(mk(bxx, by + 3.0, 32.0, feat(rng, 4.0, 0.0)));
                    }
                }
                _ => {
                    if variants[si] {
                        ds.push(mk(ax, by, 32.0, feat(rng, 0.0, 0.0)));
                        ds.push(mk(bxx, by + 3.0, 32.0, feat(rng, 4.0, 0.0)));
                    } else {
                        ds.push(mk(bx + 400.0, by + 100.0, 32.0, feat(rng, 8.0, 8.0))); // Z
                        ds.push(mk(bxx, by + 3.0, 32.0, feat(rng, 4.0, 0.0)));
                    }
                }
            }
            if rng.chance(1, 2) {
                ds.reverse();
            }
            b.push((2 + 5 * si as u64, ds));
        }
        hist.push(b);
    }
    hist
}

fn gen(seed: u64, n: usize, tier: &str) {
    let mut rng = Rng::new(seed);
    let thorough = tier == "thorough";
    let total = if thorough { 12 * n } else { n };
    for i in 0..total {
        let kind = if i % 3 == 2 { "visual" } else { "sort" };
        let nb = 2 + rng.below(5) as usize;
        let hist = gen_history(&mut rng, kind == "visual", nb, false);
        // every (distance_shards, voting_shards) pair is visited over the run
        let d = 1 + (i % 4);
        let v = 1 + ((i / 4) % 4);
        let mode = if rng.chance(1, 2) { "A" } else { "B" };
        let dseed = 1 + rng.below(1 << 40);
        run_case(kind, d, v, mode, dseed, &hist);
    }
    // crowded scenes, all voting threads busy: many concurrent id draws and store writes
    let crowded = if thorough { 3 * n / 2 } else { n / 4 + 1 };
    for i in 0..crowded {
        let kind = if i % 2 == 1 { "visual" } else { "sort" };
        let hist = gen_history(&mut rng, kind == "visual", 3, true);
        run_case(kind, 1 + (i % 4), 4, "B", 1 + rng.below(1 << 40), &hist);
    }
    // large batches (33..80 scenes) on one or two voting threads, both retrieval modes, both trackers
    let sizes: Vec<usize> = if thorough { vec![33, 34, 35, 40, 48, 64, 65, 72, 80] } else { vec![33, 34, 35, 40, 64, 65, 80] };
    for (i, sz) in sizes.iter().enumerate() {
        for kind in ["sort", "visual"] {
            for v in [1usize, 2] {
                // one voting thread receives sz (v = 1) or sz/2 (v = 2) jobs; with v = 2 use twice the scenes for the
                // sizes around plausible queue depths so that each thread still gets that many
                let nsc = if v == 2 && *sz <= 40 { 2 * sz } else { *sz };
                let hist = gen_large(&mut rng, kind == "visual", nsc);
                let modes: Vec<&str> = if thorough || (i + v) % 2 == 0 { vec!["A", "B"] } else { vec!["A"] };
                for mode in modes {
                    run_case(kind, 1 + (i % 2), v, mode, 1 + rng.below(1 << 40), &hist);
                }
            }
        }
    }
    // visual pair with own-area thresholds: use only / collect only / both / none
    let reps = if thorough { 8 } else { 3 };
    for rep in 0..reps {
        for (u, c) in [(1u32, 0u32), (0, 1), (1, 1), (0, 0)] {
            let val = |on: u32, rng: &mut Rng| if on == 1 { 300 + 125 * rng.below(5) as u32 } else { 0 };
            let (uu, cc) = (val(u, &mut rng), val(c, &mut rng));
            *OWN_AREA.lock().unwrap() = (uu, cc);
            let hist = gen_occlusion(&mut rng);
            run_case("visual", 1 + (rep % 4), 1 + rng.below(3) as usize, if rng.chance(1, 2) { "A" } else { "B" }, 1 + rng.below(1 << 40), &hist);
        }
    }
    *OWN_AREA.lock().unwrap() = (0, 0);
    // lifecycle calls between batches (clear_wasted, wasted, skip_epochs_for_scene, idle_tracks_with_scene,
    // set_auto_waste), applied identically to the batch tracker and to every per-scene simple tracker
    let nlife = if thorough { 24 } else { 8 };
    for i in 0..nlife {
        let kind = if i % 3 == 2 { "visual" } else { "sort" };
        let hist = gen_history(&mut rng, kind == "visual", 7, false);
        let scenes: Vec<u64> = {
            let mut v: Vec<u64> = hist.iter().flat_map(|b| b.iter().map(|(s, _)| *s)).collect();
            v.sort();
            v.dedup();
            v
        };
        let mut ops: Vec<(usize, String)> = vec![];
        for pos in 1..hist.len().saturating_sub(1) {
            if !rng.chance(3, 5) {
                continue;
            }
            let s = *rng.pick(&scenes);
            let choice = rng.below(6);
            let one = match choice {
                0 => "clear".to_string(),
                1 => "wasted".to_string(),
                2 => format!("skip.{}.{}", s, 1 + rng.below(5)),
                3 => format!("idle.{}", s),
                4 => format!("aw.{}", rng.below(3)),
                _ => {
                    // expire, collect, clear: the live tracks must survive
                    ops.push((pos, format!("skip.{}.{}", s, 4 + rng.below(3))));
                    ops.push((pos, "wasted".to_string()));
                    "clear".to_string()
                }
            };
            ops.push((pos, one));
        }
        if ops.is_empty() {
            ops.push((1, "clear".to_string()));
        }
        *OPS.lock().unwrap() = ops;
        run_case(kind, 1 + (i % 4), 1 + ((i / 2) % 4), if i % 2 == 0 { "A" } else { "B" }, 1 + rng.below(1 << 40), &hist);
    }
    OPS.lock().unwrap().clear();
    // probes of the monitor
    for (i, site) in ["vote_job_begin", "vote_store_write", "vote_send"].iter().enumerate() {
        let kind = if i % 2 == 1 { "visual" } else { "sort" };
        let mut hist;
        loop {
            hist = gen_history(&mut rng, kind == "visual", 2, false);
            if hist.len() >= 2 && hist[0].len() >= 2 {
                break;
            }
        }
        probe(kind, site, &hist);
    }
}

fn replay(path: &str) {
    let txt = std::fs::read_to_string(path).unwrap();
    for line in txt.lines() {
        if line.trim().is_empty() {
            continue;
        }
        let mut m = std::collections::HashMap::new();
        for tok in line.split_whitespace() {
            if let Some((k, v)) = tok.split_once('=') {
                m.insert(k.to_string(), v.to_string());
            }
        }
        let hist = dec_hist(m.get("hist").map(|s| s.as_str()).unwrap_or(""));
        let kind = m.get("kind").cloned().unwrap_or("sort".into());
        *OPS.lock().unwrap() = m
            .get("ops")
            .map(|x| {
                x.split(';')
                    .filter(|t| !t.is_empty())
                    .map(|t| {
                        let (p, o) = t.split_once(':').unwrap();
                        (p.parse().unwrap(), o.to_string())
                    })
                    .collect()
            })
            .unwrap_or_default();
        *OWN_AREA.lock().unwrap() = (
            m.get("oau").map(|x| x.parse().unwrap()).unwrap_or(0),
            m.get("oac").map(|x| x.parse().unwrap()).unwrap_or(0),
        );
        if let Some(site) = m.get("site") {
            let site: &'static str = match site.as_str() {
                "vote_job_begin" => "vote_job_begin",
                "vote_store_write" => "vote_store_write",
                _ => "vote_send",
            };
            probe(&kind, site, &hist);
        } else {
            run_case(
                &kind,
                m.get("d").map(|x| x.parse().unwrap()).unwrap_or(1),
                m.get("v").map(|x| x.parse().unwrap()).unwrap_or(1),
                m.get("mode").map(|s| s.as_str()).unwrap_or("B"),
                m.get("dseed").map(|x| x.parse().unwrap()).unwrap_or(1),
                &hist,
            );
        }
    }
}

fn main() {
    quiet_panics();
    let a = parse_args();
    install_hook();
    match a.cmd.as_str() {
        "gen" => gen(a.seed, a.n, &a.tier),
        "replay" => replay(a.file.as_deref().expect("--file")),
        _ => {
            eprintln!("usage: batch gen|replay [--seed S] [--n N] [--tier T] [--file F]");
            std::process::exit(2);
        }
    }
}
