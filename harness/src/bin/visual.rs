//! C13 / C12: VisualSORT galleries, histories and voting. Runs the REAL `VisualSort` / `Sort` / `BatchVisualSort` on a
//! textual history specification and prints canonical records (one per line):
//!
//!   spec <the specification line, see `Spec::to_line`>
//!   call k=<case> j=<call> scene=<s> epoch=<e> dets=<uid:qbits:feat:areabits:ownbits|-;...> recs=<id:len:epoch:vt:obsuid:preduid:scene;...|PANIC>
//!   fd  k j <cand uid> <track id> <obs uid>:<f32 bits>,...     raw feature distances (euclidean/cosine as configured), BEFORE the call
//!   pos k j <cand uid> <track id> <f32 bits> <wz>              raw positional metric (IoU threshold disabled), BEFORE the call
//!   trk k j id=.. scene=.. epoch=.. vt=V|P|N coll=.. len=.. gal=<qbits:feat:uid:hasbox,...> obs=<uids> pred=<uids> feat=<uid:0/1,...>
//!   wasted k id=.. len=.. epoch=.. obs=.. pred=.. feat=.. robs=.. rpred=..
//!   end k
//!
//! Detections are named by uids (< 2048); the box confidence 0.75 + uid/8192 carries the uid through observed and
//! predicted boxes, and the pair (quality bits, feature bits) carries it through features (generators keep it unique).
use similari::distance::{cosine, euclidean};
use similari::prelude::*;
use similari::track::utils::FromVec;
use similari::track::{Feature, MetricQuery, Observation, ObservationMetric, Track};
use similari::trackers::batch::PredictionBatchRequest;
use similari::trackers::sort::metric::SortMetric;
use similari::trackers::sort::{SortAttributes, VotingType, WastedSortTrack};
use similari::trackers::tracker_api::TrackerAPI;
use similari::trackers::visual_sort::batch_api::BatchVisualSort;
use similari::trackers::visual_sort::metric::{VisualMetric, VisualMetricOptions};
use similari::trackers::visual_sort::observation_attributes::VisualObservationAttributes;
use similari::trackers::visual_sort::track_attributes::{VisualAttributes, VisualAttributesUpdate};
use similari::trackers::visual_sort::WastedVisualSortTrack;
use similari::utils::clipping::bbox_own_areas::{exclusively_owned_areas, exclusively_owned_areas_normalized_shares};
use similari_verif_harness::*;
use std::collections::HashMap;
use std::sync::Arc;

type VTrack = Track<VisualAttributes, VisualMetric, VisualObservationAttributes>;
type STrack = Track<SortAttributes, SortMetric, Universal2DBox>;

#[derive(Clone, Debug)]
struct Det {
    uid: u32,
    q: Option<f32>,
    l: f32,
    t: f32,
    w: f32,
    h: f32,
    feat: Option<Vec<f32>>,
    cc: u8, // confidence class: 0 = 0.75 + uid/8192 (legacy); 1..4 = about 0.05 / 0.2 / 0.5 / 1.0, the uid in the low bits
}

#[derive(Clone, Debug)]
struct Spec {
    k: usize,
    trk: String, // vs | sort | bvs
    shards: usize,
    hist: usize,
    idle: usize,
    maxobs: usize,
    minlen: usize,
    votes: usize,
    quse: f32,
    qcol: f32,
    minarea: f32,
    ownuse: f32,
    owncol: f32,
    pos_iou: Option<f32>, // None = Mahalanobis
    minconf: f32,
    vis_cos: bool,
    vis_thr: f32,
    stc: Vec<(usize, f32)>, // spatio-temporal constraints (epoch delta, max distance in 2r); empty = none
    ops: Vec<String>,       // C03 runner: operation history (see run_c03); empty for the call-based runners
    grp: Vec<usize>,        // C15 runner: sizes of the batches (consecutive calls, distinct scenes); empty = one call per batch
    calls: Vec<(u64, Vec<Det>)>,
}

const CONF_BASE: [f32; 5] = [0.0, 0.046875, 0.1875, 0.5, 0.9990234375];

/// the box confidence names the detection: legacy 0.75 + uid/8192, or a class base (about 0.05 / 0.2 / 0.5 / 1.0) + uid/2^21
fn conf_of(d: &Det) -> f32 {
    assert!(d.uid < 2048);
    if d.cc == 0 {
        0.75 + d.uid as f32 / 8192.0
    } else {
        CONF_BASE[d.cc as usize] + d.uid as f32 / 2097152.0
    }
}
fn uid_of_conf(c: f32) -> u32 {
    for b in CONF_BASE.iter().skip(1) {
        let x = (c - b) * 2097152.0;
        if x >= 0.0 && x < 2048.0 && x.fract() == 0.0 {
            return x as u32;
        }
    }
    let x = (c - 0.75) * 8192.0;
    if x >= 0.0 && x < 2048.0 && x.fract() == 0.0 {
        x as u32
    } else {
        u32::MAX
    }
}

impl Spec {
    fn to_line(&self) -> String {
        let calls: Vec<String> = self
            .calls
            .iter()
            .map(|(s, ds)| {
                let d: Vec<String> = ds
                    .iter()
                    .map(|d| {
                        format!(
                            "{},{},{},{},{},{},{}{}",
                            d.uid,
                            d.q.map(f32b).unwrap_or_else(|| "n".into()),
                            f32b(d.l),
                            f32b(d.t),
                            f32b(d.w),
                            f32b(d.h),
                            match &d.feat {
                                None => "-".to_string(),
                                Some(v) => v.iter().map(|x| f32b(*x)).collect::<Vec<_>>().join("/"),
                            },
                            if d.cc == 0 { String::new() } else { format!(",{}", d.cc) }
                        )
                    })
                    .collect();
                format!("{}@{}", s, d.join("|"))
            })
            .collect();
        format!(
            "k={} trk={} shards={} hist={} idle={} maxobs={} minlen={} votes={} quse={} qcol={} minarea={} ownuse={} owncol={} pos={} minconf={} vis={}:{} stc={} grp={} ops={} calls={}",
            self.k,
            self.trk,
            self.shards,
            self.hist,
            self.idle,
            self.maxobs,
            self.minlen,
            self.votes,
            f32b(self.quse),
            f32b(self.qcol),
            f32b(self.minarea),
            f32b(self.ownuse),
            f32b(self.owncol),
            match self.pos_iou {
                None => "maha".to_string(),
                Some(t) => format!("iou:{}", f32b(t)),
            },
            f32b(self.minconf),
            if self.vis_cos { "cos" } else { "euc" },
            f32b(self.vis_thr),
            if self.stc.is_empty() { "-".to_string() } else { self.stc.iter().map(|(g, l)| format!("{}:{}", g, f32b(*l))).collect::<Vec<_>>().join(",") },
            if self.grp.is_empty() { "-".to_string() } else { self.grp.iter().map(|g| g.to_string()).collect::<Vec<_>>().join(",") },
            if self.ops.is_empty() { "-".to_string() } else { self.ops.join(";") },
            calls.join(";")
        )
    }

    fn parse(line: &str) -> Spec {
        let mut m: HashMap<&str, &str> = HashMap::new();
        for tok in line.split_whitespace() {
            if let Some((a, b)) = tok.split_once('=') {
                m.insert(a, b);
            }
        }
        let fb = |s: &str| f32::from_bits(s.parse::<u32>().unwrap());
        let g = |k: &str| *m.get(k).unwrap_or_else(|| panic!("missing {}", k));
        let mut calls = vec![];
        for c in m.get("calls").copied().unwrap_or("").split(';').filter(|x| !x.is_empty()) {
            let (s, ds) = c.split_once('@').unwrap();
            let mut dets = vec![];
            for d in ds.split('|').filter(|x| !x.is_empty()) {
                let p: Vec<&str> = d.split(',').collect();
                dets.push(Det {
                    uid: p[0].parse().unwrap(),
                    q: if p[1] == "n" { None } else { Some(fb(p[1])) },
                    l: fb(p[2]),
                    t: fb(p[3]),
                    w: fb(p[4]),
                    h: fb(p[5]),
                    feat: if p[6] == "-" { None } else { Some(p[6].split('/').map(fb).collect()) },
            cc: if p.len() > 7 { p[7].parse().unwrap() } else { 0 },
                });
            }
            calls.push((s.parse().unwrap(), dets));
        }
        let vis = g("vis");
        let (vk, vt) = vis.split_once(':').unwrap();
        let pos = g("pos");
        Spec {
            k: g("k").parse().unwrap(),
            trk: g("trk").to_string(),
            shards: g("shards").parse().unwrap(),
            hist: g("hist").parse().unwrap(),
            idle: g("idle").parse().unwrap(),
            maxobs: g("maxobs").parse().unwrap(),
            minlen: g("minlen").parse().unwrap(),
            votes: g("votes").parse().unwrap(),
            quse: fb(g("quse")),
            qcol: fb(g("qcol")),
            minarea: fb(g("minarea")),
            ownuse: fb(g("ownuse")),
            owncol: fb(g("owncol")),
            pos_iou: if pos == "maha" { None } else { Some(fb(pos.split_once(':').unwrap().1)) },
            minconf: fb(g("minconf")),
            vis_cos: vk == "cos",
            vis_thr: fb(vt),
            stc: match m.get("stc") {
                None => vec![],
                Some(x) if *x == "-" => vec![],
                Some(x) => x.split(',').map(|e| { let (g, l) = e.split_once(':').unwrap(); (g.parse().unwrap(), fb(l)) }).collect(),
            },
            ops: match m.get("ops") {
                None => vec![],
                Some(x) if *x == "-" => vec![],
                Some(x) => x.split(';').filter(|e| !e.is_empty()).map(|e| e.to_string()).collect(),
            },
            grp: match m.get("grp") {
                None => vec![],
                Some(x) if *x == "-" => vec![],
                Some(x) => x.split(',').map(|e| e.parse().unwrap()).collect(),
            },
            calls,
        }
    }

    fn options(&self) -> VisualSortOptions {
        let base = if self.stc.is_empty() {
            VisualSortOptions::default()
        } else {
            let mut c = SpatioTemporalConstraints::default();
            c.add_constraints(self.stc.clone());
            VisualSortOptions::default().spatio_temporal_constraints(c)
        };
        base
            .max_idle_epochs(self.idle)
            .kept_history_length(self.hist)
            .visual_metric(if self.vis_cos {
                VisualSortMetricType::Cosine(self.vis_thr)
            } else {
                VisualSortMetricType::Euclidean(self.vis_thr)
            })
            .positional_metric(match self.pos_iou {
                None => PositionalMetricType::Mahalanobis,
                Some(t) => PositionalMetricType::IoU(t),
            })
            .positional_min_confidence(self.minconf)
            .visual_max_observations(self.maxobs)
            .visual_minimal_track_length(self.minlen)
            .visual_min_votes(self.votes)
            .visual_minimal_area(self.minarea)
            .visual_minimal_quality_use(self.quse)
            .visual_minimal_quality_collect(self.qcol)
            .visual_minimal_own_area_percentage_use(self.ownuse)
            .visual_minimal_own_area_percentage_collect(self.owncol)
    }
}

fn parse_dets(ds: &str) -> Vec<Det> {
    let fb = |s: &str| f32::from_bits(s.parse::<u32>().unwrap());
    let mut dets = vec![];
    for d in ds.split('|').filter(|x| !x.is_empty()) {
        let p: Vec<&str> = d.split(',').collect();
        dets.push(Det {
            uid: p[0].parse().unwrap(),
            q: if p[1] == "n" { None } else { Some(fb(p[1])) },
            l: fb(p[2]),
            t: fb(p[3]),
            w: fb(p[4]),
            h: fb(p[5]),
            feat: if p[6] == "-" { None } else { Some(p[6].split('/').map(fb).collect()) },
            cc: if p.len() > 7 { p[7].parse().unwrap() } else { 0 },
        });
    }
    dets
}

fn dets_text(ds: &[Det]) -> String {
    ds.iter()
        .map(|d| {
            format!(
                "{},{},{},{},{},{},{}{}",
                d.uid,
                d.q.map(f32b).unwrap_or_else(|| "n".into()),
                f32b(d.l),
                f32b(d.t),
                f32b(d.w),
                f32b(d.h),
                match &d.feat {
                    None => "-".to_string(),
                    Some(v) => v.iter().map(|x| f32b(*x)).collect::<Vec<_>>().join("/"),
                },
                if d.cc == 0 { String::new() } else { format!(",{}", d.cc) }
            )
        })
        .collect::<Vec<_>>()
        .join("|")
}

fn bbox_of(d: &Det) -> Universal2DBox {
    Universal2DBox::ltwh_with_confidence(d.l, d.t, d.w, d.h, conf_of(d))
}

/// (quality bits, feature lanes bits) -> uid
type FeatDict = HashMap<(u32, Vec<u32>), u32>;

fn feat_key(q: f32, f: &Feature) -> (u32, Vec<u32>) {
    let v: Vec<f32> = Vec::from_vec(f);
    (q.to_bits(), v.iter().map(|x| x.to_bits()).collect())
}

fn uids(v: impl Iterator<Item = u32>) -> String {
    v.map(|u| if u == u32::MAX { "?".to_string() } else { u.to_string() }).collect::<Vec<_>>().join(",")
}

fn obs_uid(o: &Observation<VisualObservationAttributes>, dict: &FeatDict) -> u32 {
    let a = o.attr().as_ref().unwrap();
    let by_box = a.bbox_opt().as_ref().map(|b| uid_of_conf(b.confidence));
    let by_feat = o.feature().as_ref().map(|f| *dict.get(&feat_key(a.visual_quality(), f)).unwrap_or(&u32::MAX));
    match (by_box, by_feat) {
        (Some(b), Some(f)) => {
            if b == f {
                b
            } else {
                u32::MAX
            }
        }
        (Some(b), None) => b,
        (None, Some(f)) => f,
        (None, None) => u32::MAX,
    }
}

fn dump_vtrack(prefix: &str, t: &VTrack, dict: &FeatDict, featq: &HashMap<Vec<u32>, Vec<u32>>) {
    let a = t.get_attributes();
    let empty = vec![];
    let obs = t.get_observations(0).unwrap_or(&empty);
    let gal: Vec<String> = obs
        .iter()
        .map(|o| {
            let at = o.attr().as_ref().unwrap();
            let u = obs_uid(o, dict);
            format!(
                "{}:{}:{}:{}",
                f32b(at.visual_quality()),
                o.feature().is_some() as u8,
                if u == u32::MAX { "?".to_string() } else { u.to_string() },
                at.bbox_opt().is_some() as u8
            )
        })
        .collect();
    // feature history: identify by content among the uids whose box is at the same history position
    let ob: Vec<u32> = a.observed_boxes.iter().map(|b| uid_of_conf(b.confidence)).collect();
    let pb: Vec<u32> = a.predicted_boxes.iter().map(|b| uid_of_conf(b.confidence)).collect();
    let fh: Vec<String> = a
        .observed_features
        .iter()
        .enumerate()
        .map(|(i, f)| match f {
            None => format!("{}:0", ob.get(i).map(|u| u.to_string()).unwrap_or("?".into())),
            Some(f) => {
                let v: Vec<f32> = Vec::from_vec(f);
                let key: Vec<u32> = v.iter().map(|x| x.to_bits()).collect();
                // the uid at the same position must be one of the detections that carried exactly this feature
                let ok = ob.get(i).map(|u| featq.get(&key).map(|us| us.contains(u)).unwrap_or(false)).unwrap_or(false);
                format!("{}:1", if ok { ob[i].to_string() } else { "?".to_string() })
            }
        })
        .collect();
    println!(
        "{} id={} scene={} epoch={} vt={} coll={} len={} gal={} obs={} pred={} feat={}",
        prefix,
        t.get_track_id(),
        a.scene_id,
        a.last_updated_epoch,
        match a.voting_type {
            None => "N",
            Some(VotingType::Visual) => "V",
            Some(VotingType::Positional) => "P",
        },
        a.visual_features_collected_count,
        a.track_length,
        gal.join(","),
        uids(ob.iter().cloned()),
        uids(pb.iter().cloned()),
        fh.join(",")
    );
}

fn rec_str(r: &SortTrack) -> String {
    format!(
        "{}:{}:{}:{}:{}:{}:{}:{}",
        r.id,
        r.length,
        r.epoch,
        match r.voting_type {
            VotingType::Visual => "V",
            VotingType::Positional => "P",
        },
        {
            let u = uid_of_conf(r.observed_bbox.confidence);
            if u == u32::MAX { "?".to_string() } else { u.to_string() }
        },
        {
            let u = uid_of_conf(r.predicted_bbox.confidence);
            if u == u32::MAX { "?".to_string() } else { u.to_string() }
        },
        r.scene_id,
        r.custom_object_id.map(|x| x.to_string()).unwrap_or_else(|| "-".into())
    )
}

fn all_vtracks(store: &similari::store::TrackStore<VisualAttributes, VisualMetric, VisualObservationAttributes>, shards: usize) -> Vec<VTrack> {
    let mut v = vec![];
    for s in 0..shards {
        let g = store.get_store(s);
        for (_, t) in g.iter() {
            v.push(t.clone());
        }
    }
    v.sort_by_key(|t| t.get_track_id());
    v
}

enum Tracker {
    Vs(VisualSort),
    Bvs(BatchVisualSort),
}

impl Tracker {
    fn tracks(&self, shards: usize) -> Vec<VTrack> {
        match self {
            Tracker::Vs(t) => all_vtracks(&t.get_main_store(), shards),
            Tracker::Bvs(t) => all_vtracks(&t.get_main_store(), shards),
        }
    }
    fn epoch(&self, scene: u64) -> usize {
        match self {
            Tracker::Vs(t) => t.current_epoch_with_scene(scene),
            Tracker::Bvs(t) => t.current_epoch_with_scene(scene),
        }
    }
    fn candidate(&self, id: u64, attrs: VisualObservationAttributes, feat: Option<Feature>, epoch: usize, scene: u64) -> VTrack {
        let mut ob = ObservationBuilder::new(0).observation_attributes(attrs);
        if let Some(f) = feat {
            ob = ob.observation(f);
        }
        let ob = ob.track_attributes_update(VisualAttributesUpdate::new_init_with_scene(epoch, scene, None)).build();
        match self {
            Tracker::Vs(t) => t.get_main_store().new_track(id).observation(ob).build().unwrap(),
            Tracker::Bvs(t) => t.get_main_store().new_track(id).observation(ob).build().unwrap(),
        }
    }
    fn predict(&mut self, scene: u64, obs: &[VisualSortObservation]) -> Vec<SortTrack> {
        match self {
            Tracker::Vs(t) => t.predict_with_scene(scene, obs),
            Tracker::Bvs(t) => {
                let (mut batch, res) = PredictionBatchRequest::<VisualSortObservation>::new();
                // a scene without detections still has to advance its epoch: the batch API does so only for scenes in the batch
                for o in obs {
                    batch.add(scene, o.clone());
                }
                let n = batch.batch_size();
                t.predict(batch);
                let mut out = vec![];
                let t0 = std::time::Instant::now();
                let mut got = 0;
                while got < n {
                    if res.ready() {
                        let (s, tracks) = res.get();
                        if s == scene {
                            out = tracks;
                        }
                        got += 1;
                    } else if t0.elapsed().as_secs() > 20 {
                        panic!("no result from the voting thread within 20 s");
                    } else {
                        std::thread::sleep(std::time::Duration::from_micros(200));
                    }
                }
                out
            }
        }
    }
    /// several scenes in ONE request (BatchVisualSort); VisualSort gets the calls one by one. One result per call.
    fn predict_batch(&mut self, calls: &[(u64, Vec<VisualSortObservation>)]) -> Vec<Option<Vec<SortTrack>>> {
        match self {
            Tracker::Vs(t) => calls.iter().map(|(s, obs)| guarded(|| t.predict_with_scene(*s, obs))).collect(),
            Tracker::Bvs(t) => {
                let (mut batch, res) = PredictionBatchRequest::<VisualSortObservation>::new();
                let mut nscenes = 0;
                for (s, obs) in calls {
                    for o in obs {
                        batch.add(*s, o.clone());
                    }
                    if !obs.is_empty() {
                        nscenes += 1;
                    }
                }
                let mut out: Vec<Option<Vec<SortTrack>>> = calls.iter().map(|(_, obs)| if obs.is_empty() { Some(vec![]) } else { None }).collect();
                if nscenes == 0 || guarded(|| t.predict(batch)).is_none() {
                    return out;
                }
                let t0 = std::time::Instant::now();
                let mut got = 0;
                while got < nscenes {
                    if res.ready() {
                        let (s, tracks) = res.get();
                        for (ci, (sc, obs)) in calls.iter().enumerate() {
                            if *sc == s && !obs.is_empty() {
                                out[ci] = Some(tracks.clone());
                            }
                        }
                        got += 1;
                    } else if t0.elapsed().as_secs() > 20 {
                        break;
                    } else {
                        std::thread::sleep(std::time::Duration::from_micros(200));
                    }
                }
                out
            }
        }
    }
    fn wasted(&mut self, scene: u64, n: usize) -> Vec<VTrack> {
        match self {
            Tracker::Vs(t) => {
                t.skip_epochs_for_scene(scene, n);
                t.wasted()
            }
            Tracker::Bvs(t) => {
                t.skip_epochs_for_scene(scene, n);
                t.wasted()
            }
        }
    }
}

/// Phase 1 of a predict call on a visual tracker: the facts of the detections and (when `tables`) the oracle tables, printed
/// BEFORE the call. None = the history stops here (already printed why).
struct Prepared {
    epoch: usize,
    det_s: Vec<String>,
    boxes: Vec<Universal2DBox>,
}

#[allow(clippy::too_many_arguments)]
fn visual_prepare(
    tracker: &mut Tracker,
    spec: &Spec,
    raw_metric: &VisualMetric,
    dict: &mut FeatDict,
    featq: &mut HashMap<Vec<u32>, Vec<u32>>,
    j: usize,
    scene: &u64,
    dets: &Vec<Det>,
    tables: bool,
    strict: bool,
) -> Option<Prepared> {
    let k = spec.k;
    let use_own = spec.owncol + spec.ownuse > 0.0;
    let boxes: Vec<Universal2DBox> = dets.iter().map(bbox_of).collect();
    // ---- facts and oracle tables, BEFORE the call, with the implementation's own public functions
    let own: Option<Vec<f32>> = if use_own {
        guarded(|| {
            let refs: Vec<&Universal2DBox> = boxes.iter().collect();
            exclusively_owned_areas_normalized_shares(refs.as_ref(), exclusively_owned_areas(refs.as_ref()).as_ref())
        })
    } else {
        None
    };
    if use_own && own.is_none() {
        println!("call k={} j={} scene={} epoch=0 dets= recs=OWNPANIC", k, j, scene);
        return None;
    }
    let epoch = tracker.epoch(*scene) + 1;
    let stored = tracker.tracks(spec.shards);
    let mut det_s = vec![];
    let mut bad = false;
    for (i, d) in dets.iter().enumerate() {
        let q = d.q.unwrap_or(1.0);
        let feat: Option<Feature> = d.feat.as_ref().map(|f| Feature::from_vec(f.to_vec()));
        if let Some(f) = &feat {
            let key = feat_key(q, f);
            if let Some(u) = dict.get(&key) {
                if *u != d.uid {
                    bad = true;
                }
            }
            dict.insert(key.clone(), d.uid);
            featq.entry(key.1).or_default().push(d.uid);
        }
        let attrs = match &own {
            Some(p) => {
                if !(0.0..=1.0).contains(&p[i]) {
                    bad = true;
                    VisualObservationAttributes::new(q, boxes[i].clone())
                } else {
                    VisualObservationAttributes::with_own_area_percentage(q, boxes[i].clone(), p[i])
                }
            }
            None => VisualObservationAttributes::new(q, boxes[i].clone()),
        };
        let cand = tracker.candidate(u64::MAX - i as u64, attrs, feat.clone(), epoch, *scene);
        let cobs = &cand.get_observations(0).unwrap()[0];
        let area = cobs.attr().as_ref().unwrap().bbox_opt().as_ref().unwrap().area();
        det_s.push(format!(
            "{}:{}:{}:{}:{}",
            d.uid,
            f32b(q),
            d.feat.is_some() as u8,
            f32b(area),
            own.as_ref().map(|p| f32b(p[i])).unwrap_or_else(|| "-".into())
        ));
        if tables {
            for t in &stored {
                let tobs = match t.get_observations(0) {
                    Some(o) => o,
                    None => continue,
                };
                let mut fds = vec![];
                for o in tobs.iter() {
                    if let (Some(cf), Some(tf)) = (cobs.feature().as_ref(), o.feature().as_ref()) {
                        let dd = if spec.vis_cos { cosine(cf, tf) } else { euclidean(cf, tf) };
                        let u = obs_uid(o, &dict);
                        fds.push(format!("{}:{}", if u == u32::MAX { "?".to_string() } else { u.to_string() }, f32b(dd)));
                    }
                    let mq = MetricQuery {
                        feature_class: 0,
                        candidate_attrs: cand.get_attributes(),
                        candidate_observation: cobs,
                        track_attrs: t.get_attributes(),
                        track_observation: o,
                    };
                    if let Some((Some(w), _)) = guarded(|| raw_metric.metric(&mq)).flatten() {
                        // also the bare IoU of the two boxes and the candidate box confidence (for the independent
                        // re-derivation of conf = max(confidence, positional_min_confidence))
                        let cb = cobs.attr().as_ref().unwrap().bbox_opt().as_ref();
                        let tb = o.attr().as_ref().unwrap().bbox_opt().as_ref();
                        let iou = guarded(|| <Universal2DBox as similari::track::ObservationAttributes>::calculate_metric_object(&cb, &tb)).flatten();
                        println!(
                            "pos {} {} {} {} {} {} {} {}",
                            k,
                            j,
                            d.uid,
                            t.get_track_id(),
                            f32b(w),
                            (w * 1_000_000.0f32) as i64,
                            iou.map(f32b).unwrap_or_else(|| "-".into()),
                            cb.map(|b| f32b(b.confidence)).unwrap_or_else(|| "-".into())
                        );
                    }
                }
                if !fds.is_empty() {
                    println!("fd {} {} {} {} {}", k, j, d.uid, t.get_track_id(), fds.join(","));
                }
            }
        }
    }
    if bad && strict {
        println!("call k={} j={} scene={} epoch={} dets={} recs=BADCASE", k, j, scene, epoch, det_s.join(";"));
        return None;
    }
    Some(Prepared { epoch, det_s, boxes })
}

/// Phase 2: the call line with the records and the tracks touched.
fn visual_finish(
    tracker: &mut Tracker,
    spec: &Spec,
    dict: &FeatDict,
    featq: &HashMap<Vec<u32>, Vec<u32>>,
    j: usize,
    scene: &u64,
    p: &Prepared,
    recs: Option<Vec<SortTrack>>,
) -> Option<Vec<SortTrack>> {
    let k = spec.k;
    match &recs {
        None => {
            println!("call k={} j={} scene={} epoch={} dets={} recs=PANIC", k, j, scene, p.epoch, p.det_s.join(";"));
            return None;
        }
        Some(recs) => {
            let rs: Vec<String> = recs.iter().map(rec_str).collect();
            println!("call k={} j={} scene={} epoch={} after={} dets={} recs={}", k, j, scene, p.epoch, tracker.epoch(*scene), p.det_s.join(";"), rs.join(";"));
        }
    }
    // tracks touched by this call (all tracks are dumped once more at the end of the history)
    let touched: Vec<u64> = recs.as_ref().map(|r| r.iter().map(|x| x.id).collect()).unwrap_or_default();
    for t in tracker.tracks(spec.shards) {
        if touched.contains(&t.get_track_id()) {
            dump_vtrack(&format!("trk {} {}", k, j), &t, dict, featq);
        }
    }
    recs
}

fn observations_of<'a>(dets: &'a [Det], boxes: &[Universal2DBox]) -> Vec<VisualSortObservation<'a>> {
    dets.iter()
        .enumerate()
        .map(|(i, d)| VisualSortObservation::new(d.feat.as_deref(), d.q, boxes[i].clone(), Some(d.uid as i64)))
        .collect()
}

/// One predict call: prepare, predict, finish. None = the history stops here.
#[allow(clippy::too_many_arguments)]
fn visual_call(
    tracker: &mut Tracker,
    spec: &Spec,
    raw_metric: &VisualMetric,
    dict: &mut FeatDict,
    featq: &mut HashMap<Vec<u32>, Vec<u32>>,
    j: usize,
    scene: &u64,
    dets: &Vec<Det>,
    tables: bool,
    strict: bool,
) -> Option<Vec<SortTrack>> {
    let p = visual_prepare(tracker, spec, raw_metric, dict, featq, j, scene, dets, tables, strict)?;
    let obs = observations_of(dets, &p.boxes);
    let recs = guarded(|| tracker.predict(*scene, &obs));
    visual_finish(tracker, spec, dict, featq, j, scene, &p, recs)
}

fn raw_metric_of(spec: &Spec) -> VisualMetric {
    // metric used for RAW positional values: IoU threshold disabled, visual part off
    VisualMetric {
        opts: Arc::new(VisualMetricOptions {
            visual_max_observations: spec.maxobs,
            visual_min_votes: spec.votes,
            visual_kind: VisualSortMetricType::Euclidean(f32::MAX),
            positional_kind: match spec.pos_iou {
                None => PositionalMetricType::Mahalanobis,
                Some(_) => PositionalMetricType::IoU(f32::NEG_INFINITY),
            },
            visual_minimal_track_length: usize::MAX,
            visual_minimal_area: 0.0,
            visual_minimal_quality_use: 0.0,
            visual_minimal_quality_collect: 0.0,
            visual_minimal_own_area_percentage_use: 0.0,
            visual_minimal_own_area_percentage_collect: 0.0,
            positional_min_confidence: spec.minconf,
        }),
    }
}

fn run_visual(spec: &Spec, tables: bool, strict: bool) {
    println!("spec {}", spec.to_line());
    let k = spec.k;
    let opts = spec.options();
    let mut tracker = if spec.trk == "bvs" {
        Tracker::Bvs(BatchVisualSort::new(spec.shards, 1, &opts))
    } else {
        Tracker::Vs(VisualSort::new(spec.shards, &opts))
    };
    let raw_metric = raw_metric_of(spec);
    let mut dict: FeatDict = HashMap::new();
    let mut featq: HashMap<Vec<u32>, Vec<u32>> = HashMap::new();
    let mut scenes: Vec<u64> = vec![];
    // batches: consecutive calls (distinct scenes) submitted as ONE request to BatchVisualSort (spec field grp=)
    let groups: Vec<usize> = if spec.grp.is_empty() || spec.trk != "bvs" { vec![1; spec.calls.len()] } else { spec.grp.clone() };
    let mut j0 = 0usize;
    'outer: for g in groups {
        let idx: Vec<usize> = (j0..(j0 + g).min(spec.calls.len())).collect();
        j0 += g;
        for j in &idx {
            if !scenes.contains(&spec.calls[*j].0) {
                scenes.push(spec.calls[*j].0);
            }
        }
        if idx.len() == 1 {
            let (scene, dets) = &spec.calls[idx[0]];
            if visual_call(&mut tracker, spec, &raw_metric, &mut dict, &mut featq, idx[0], scene, dets, tables, strict).is_none() {
                break;
            }
            continue;
        }
        let mut prepared = vec![];
        for j in &idx {
            let (scene, dets) = &spec.calls[*j];
            match visual_prepare(&mut tracker, spec, &raw_metric, &mut dict, &mut featq, *j, scene, dets, tables, strict) {
                Some(p) => prepared.push(p),
                None => break 'outer,
            }
        }
        let calls: Vec<(u64, Vec<VisualSortObservation>)> =
            idx.iter().zip(prepared.iter()).map(|(j, p)| (spec.calls[*j].0, observations_of(&spec.calls[*j].1, &p.boxes))).collect();
        let results = tracker.predict_batch(&calls);
        let mut stop = false;
        for ((j, p), r) in idx.iter().zip(prepared.iter()).zip(results.into_iter()) {
            if visual_finish(&mut tracker, spec, &dict, &featq, *j, &spec.calls[*j].0, p, r).is_none() {
                stop = true;
            }
        }
        if stop {
            break;
        }
    }
    for t in tracker.tracks(spec.shards) {
        dump_vtrack(&format!("trk {} END", k), &t, &dict, &featq);
    }
    // ---- wasted conversions
    let r = guarded(|| {
        let mut all = vec![];
        for s in &scenes {
            all.extend(tracker.wasted(*s, spec.idle + spec.hist + 2));
        }
        all
    });
    if let Some(mut ws) = r {
        ws.sort_by_key(|t| t.get_track_id());
        for t in ws {
            let w = WastedVisualSortTrack::from(t);
            let fh: Vec<String> = w
                .observed_features
                .iter()
                .enumerate()
                .map(|(i, f)| {
                    let u = uid_of_conf(w.observed_boxes[i].confidence);
                    match f {
                        None => format!("{}:0", u),
                        Some(v) => {
                            let key: Vec<u32> = v.iter().map(|x| x.to_bits()).collect();
                            let ok = featq.get(&key).map(|us| us.contains(&u)).unwrap_or(false);
                            format!("{}:1", if ok { u.to_string() } else { "?".into() })
                        }
                    }
                })
                .collect();
            println!(
                "wasted {} id={} len={} epoch={} obs={} pred={} feat={} robs={} rpred={}",
                k,
                w.id,
                w.length,
                w.epoch,
                uids(w.observed_boxes.iter().map(|b| uid_of_conf(b.confidence))),
                uids(w.predicted_boxes.iter().map(|b| uid_of_conf(b.confidence))),
                fh.join(","),
                uids(std::iter::once(uid_of_conf(w.observed_bbox.confidence))),
                uids(std::iter::once(uid_of_conf(w.predicted_bbox.confidence)))
            );
        }
    } else {
        println!("wasted {} PANIC", k);
    }
    println!("end {}", k);
}

enum STracker {
    S(Sort),
    B(similari::prelude::BatchSort),
}

impl STracker {
    fn predict(&mut self, scene: u64, boxes: &[(Universal2DBox, Option<i64>)]) -> Vec<SortTrack> {
        match self {
            STracker::S(t) => t.predict_with_scene(scene, boxes),
            STracker::B(t) => {
                if boxes.is_empty() {
                    return vec![]; // the batch API cannot submit a scene without detections
                }
                let (mut batch, res) = PredictionBatchRequest::<(Universal2DBox, Option<i64>)>::new();
                for b in boxes {
                    batch.add(scene, b.clone());
                }
                t.predict(batch);
                let t0 = std::time::Instant::now();
                loop {
                    if res.ready() {
                        return res.get().1;
                    } else if t0.elapsed().as_secs() > 20 {
                        panic!("no result from the voting thread within 20 s");
                    }
                    std::thread::sleep(std::time::Duration::from_micros(200));
                }
            }
        }
    }
    fn epoch(&self, scene: u64) -> usize {
        match self {
            STracker::S(t) => t.current_epoch_with_scene(scene),
            STracker::B(t) => t.current_epoch_with_scene(scene),
        }
    }
    fn tracks(&self, shards: usize) -> Vec<STrack> {
        let mut ts: Vec<STrack> = vec![];
        let mut grab = |store: &similari::store::TrackStore<SortAttributes, SortMetric, Universal2DBox>| {
            for s in 0..shards {
                let g = store.get_store(s);
                for (_, t) in g.iter() {
                    ts.push(t.clone());
                }
            }
        };
        match self {
            STracker::S(t) => grab(&t.get_main_store()),
            STracker::B(t) => grab(&t.get_main_store()),
        }
        ts.sort_by_key(|t| t.get_track_id());
        ts
    }
    fn expire_and_collect(&mut self, scene: u64, n: usize) -> Vec<STrack> {
        match self {
            STracker::S(t) => {
                t.skip_epochs_for_scene(scene, n);
                t.wasted()
            }
            STracker::B(t) => {
                t.skip_epochs_for_scene(scene, n);
                t.wasted()
            }
        }
    }
}

fn run_sort(spec: &Spec) {
    println!("spec {}", spec.to_line());
    let k = spec.k;
    let method = match spec.pos_iou {
        None => PositionalMetricType::Mahalanobis,
        Some(t) => PositionalMetricType::IoU(t),
    };
    let mut tracker = if spec.trk == "bsort" {
        STracker::B(similari::prelude::BatchSort::new(spec.shards, 1 + (spec.k % 2), spec.hist, spec.idle, method, spec.minconf, None, 1.0 / 20.0, 1.0 / 160.0))
    } else {
        STracker::S(Sort::new(spec.shards, spec.hist, spec.idle, method, spec.minconf, None, 1.0 / 20.0, 1.0 / 160.0))
    };
    let mut scenes: Vec<u64> = vec![];
    for (j, (scene, dets)) in spec.calls.iter().enumerate() {
        if !scenes.contains(scene) {
            scenes.push(*scene);
        }
        let boxes: Vec<(Universal2DBox, Option<i64>)> = dets.iter().map(|d| (bbox_of(d), Some(d.uid as i64))).collect();
        let epoch = tracker.epoch(*scene) + 1;
        let det_s: Vec<String> = dets.iter().map(|d| format!("{}:0:0:0:-", d.uid)).collect();
        let touched: Vec<u64>;
        match guarded(|| tracker.predict(*scene, &boxes)) {
            None => {
                println!("call k={} j={} scene={} epoch={} dets={} recs=PANIC", k, j, scene, epoch, det_s.join(";"));
                break;
            }
            Some(recs) => {
                let rs: Vec<String> = recs.iter().map(rec_str).collect();
                touched = recs.iter().map(|x| x.id).collect();
                println!("call k={} j={} scene={} epoch={} dets={} recs={}", k, j, scene, epoch, det_s.join(";"), rs.join(";"));
            }
        }
        for t in tracker.tracks(spec.shards) {
            if !touched.contains(&t.get_track_id()) {
                continue;
            }
            let a = t.get_attributes();
            println!(
                "trk {} {} id={} scene={} epoch={} vt=N coll=0 len={} gal= obs={} pred={} feat=",
                k,
                j,
                t.get_track_id(),
                a.scene_id,
                a.last_updated_epoch,
                a.track_length,
                uids(a.observed_boxes.iter().map(|b| uid_of_conf(b.confidence))),
                uids(a.predicted_boxes.iter().map(|b| uid_of_conf(b.confidence)))
            );
        }
    }
    let r = guarded(|| {
        let mut all = vec![];
        for s in &scenes {
            all.extend(tracker.expire_and_collect(*s, spec.idle + spec.hist + 2));
        }
        all
    });
    if let Some(mut ws) = r {
        ws.sort_by_key(|t| t.get_track_id());
        for t in ws {
            let w = WastedSortTrack::from(t);
            println!(
                "wasted {} id={} len={} epoch={} obs={} pred={} feat= robs={} rpred={}",
                k,
                w.id,
                w.length,
                w.epoch,
                uids(w.observed_boxes.iter().map(|b| uid_of_conf(b.confidence))),
                uids(w.predicted_boxes.iter().map(|b| uid_of_conf(b.confidence))),
                uids(std::iter::once(uid_of_conf(w.observed_bbox.confidence))),
                uids(std::iter::once(uid_of_conf(w.predicted_bbox.confidence)))
            );
        }
    } else {
        println!("wasted {} PANIC", k);
    }
    println!("end {}", k);
}

fn run_spec(spec: &Spec, tables: bool, strict: bool) {
    if spec.trk == "sort" || spec.trk == "bsort" {
        run_sort(spec)
    } else {
        run_visual(spec, tables, strict)
    }
}

// ------------------------------------------------------------------------------------------------------------
// generators

const QGRID: [f32; 9] = [0.0, 0.125, 0.25, 0.375, 0.5, 0.625, 0.75, 0.875, 1.0];

fn base_spec(k: usize, rng: &mut Rng) -> Spec {
    let maxobs = 1 + rng.below(8) as usize;
    Spec {
        k,
        trk: "vs".into(),
        shards: 1 + rng.below(2) as usize,
        hist: 1 + rng.below(10) as usize,
        idle: if rng.chance(1, 12) { 0 } else { *rng.pick(&[1usize, 2, 3, 5]) },
        maxobs,
        minlen: 1 + rng.below(maxobs as u64) as usize,
        votes: 1 + rng.below(3) as usize,
        quse: *rng.pick(&[0.0, 0.25, 0.5]),
        qcol: *rng.pick(&[0.0, 0.25, 0.5, 0.75]),
        minarea: *rng.pick(&[0.0, 0.0, 650.0]),
        ownuse: 0.0,
        owncol: 0.0,
        pos_iou: if rng.chance(2, 3) { Some(*rng.pick(&[0.25, 0.3, 0.5])) } else { None },
        minconf: *rng.pick(&[0.05, 0.1, 0.25]),
        vis_cos: false,
        vis_thr: f32::MAX,
        stc: vec![],
        ops: vec![],
        grp: vec![],
        calls: vec![],
    }
}

/// quality of update number i (0-based) of a life of length n under pattern p
fn quality(p: u64, i: usize, n: usize, rng: &mut Rng, thr: f32) -> Option<f32> {
    match p {
        0 => Some((i as f32 + 1.0) / (n as f32 + 1.0)),                  // increasing
        1 => Some(1.0 - (i as f32) / (n as f32 + 1.0)),                   // decreasing
        2 => Some(0.75),                                                   // all equal
        3 => Some(*rng.pick(&QGRID)),                                      // random grid (many equal)
        4 => Some(if rng.chance(1, 2) { thr } else if rng.chance(1, 2) { f32::from_bits(thr.to_bits().wrapping_sub(1)).max(0.0) } else { f32::from_bits(thr.to_bits() + 1) }), // straddling the collect threshold
        5 => Some(if i % 2 == 0 { 0.875 } else { 0.125 }),                // alternating above / below
        6 => {
            if rng.chance(1, 5) {
                None
            } else {
                Some(*rng.pick(&QGRID))
            }
        } // quality not supplied (defaults to 1.0)
        _ => Some(rng.dyadic(0, 64, 6)),
    }
}

fn gen_c13(k: usize, rng: &mut Rng, tier_long: bool) -> Spec {
    let mut s = base_spec(k, rng);
    let mode = rng.below(10); // 0-5 single object, 6-7 multi object, 8-9 SORT
    let pattern = rng.below(8);
    let pfeat = *rng.pick(&[100u64, 100, 90, 70, 50, 0]);
    let mut uid: u32 = 1;
    if mode >= 8 {
        s.trk = if rng.chance(1, 2) { "bsort".into() } else { "sort".into() };
    } else if rng.chance(1, 8) {
        s.trk = "bvs".into(); // BatchVisualSort, one scene per batch, used synchronously
    }
    let n = if mode <= 5 {
        if rng.chance(1, 4) || tier_long { *rng.pick(&[150usize, 300, 40, 20]) } else { 5 + rng.below(40) as usize }
    } else {
        5 + rng.below(40) as usize
    };
    let nobj = if mode <= 5 { 1 } else { 2 + rng.below(2) as usize };
    if nobj > 1 && rng.chance(1, 2) && mode < 8 {
        s.owncol = *rng.pick(&[0.25, 0.5, 0.75]);
        if rng.chance(1, 2) {
            s.ownuse = 0.5;
        }
    }
    let scene = rng.below(3);
    for i in 0..n {
        let mut dets = vec![];
        for ob in 0..nobj {
            if nobj > 1 && rng.chance(1, 8) {
                continue; // object missed in this call
            }
            if uid >= 2040 {
                break;
            }
            // objects sit 40 apart (20 when own-area shares are wanted so that boxes overlap), drift slowly
            let step = if s.owncol > 0.0 { 12.0 } else { 40.0 };
            // areas 600..704 straddle visual_minimal_area = 650 while the boxes keep overlapping well
            let w = 20.0 + rng.dyadic(0, 8, 2);
            let h = 30.0 + rng.dyadic(0, 8, 2);
            let l = 10.0 + ob as f32 * step + (i % 7) as f32 * 0.25;
            let t = 10.0 + (i % 5) as f32 * 0.25 + ob as f32 * 3.0;
            let q = quality(pattern, i, n, rng, s.qcol);
            let feat = if rng.below(100) < pfeat {
                let mut v = vec![uid as f32];
                for _ in 0..(1 + rng.below(9)) {
                    v.push(rng.dyadic(-8, 8, 2));
                }
                Some(v)
            } else {
                None
            };
            dets.push(Det { uid, q, l, t, w, h, feat, cc: 0 });
            uid += 1;
        }
        s.calls.push((scene, dets));
        // an occasional gap (empty call) that may or may not expire the track
        if rng.chance(1, if n > 60 { 120 } else { 25 }) {
            for _ in 0..(1 + rng.below(4)) {
                s.calls.push((scene, vec![]));
            }
        }
    }
    s
}


/// C12: several objects with identity features on a dyadic grid, crossing paths, look-alikes, occlusions,
/// missing / low-quality features, small boxes; all option combinations.
fn gen_c12(k: usize, rng: &mut Rng) -> Spec {
    let mut s = base_spec(k, rng);
    s.trk = if rng.chance(1, 6) { "bvs".into() } else { "vs".into() };
    s.idle = *rng.pick(&[1usize, 2, 3, 5]);
    s.hist = 1 + rng.below(4) as usize;
    s.maxobs = *rng.pick(&[1usize, 2, 3, 4, 5, 8]);
    s.minlen = 1 + rng.below(s.maxobs.min(3) as u64) as usize;
    s.votes = 1 + rng.below(3) as usize;
    s.vis_cos = rng.chance(1, 3);
    s.vis_thr = if s.vis_cos { *rng.pick(&[0.5f32, 0.9, 0.98]) } else { *rng.pick(&[0.5f32, 1.0, 2.0, f32::MAX]) };
    s.quse = *rng.pick(&[0.0, 0.25, 0.5]);
    s.qcol = *rng.pick(&[0.0, 0.25, 0.5, 0.75]);
    s.minarea = *rng.pick(&[0.0, 0.0, 650.0]);
    if rng.chance(1, 3) {
        s.ownuse = *rng.pick(&[0.0, 0.25, 0.5]);
        s.owncol = *rng.pick(&[0.0, 0.25, 0.5]);
    }
    // positional_min_confidence 0.1 / 0.5 / 0.8 and detection confidences about 0.05 / 0.2 / 0.5 / 1.0: a confidence below the
    // minimum is raised to it in the positional metric (as in SORT). A third of the histories are feature-less, so that the
    // positional stage decides everything
    s.minconf = *rng.pick(&[0.1f32, 0.5, 0.8]);
    let featureless = rng.chance(1, 3);
    let low_conf = rng.chance(1, 2);
    let nobj = 2 + rng.below(4) as usize;
    let dim = *rng.pick(&[2usize, 3, 4, 8, 10]);
    let ncalls = 8 + rng.below(28) as usize;
    let two_scenes = rng.chance(1, 5);
    // identities: grid points; look-alikes copy another identity with a small (or no) offset
    let mut ident: Vec<Vec<f32>> = vec![];
    for ob in 0..nobj {
        if ob > 0 && rng.chance(1, 3) {
            let src = rng.below(ob as u64) as usize;
            let mut v = ident[src].clone();
            if rng.chance(3, 4) {
                let lane = rng.below(dim as u64) as usize;
                v[lane] += rng.dyadic(-2, 2, 3);
            }
            ident.push(v);
        } else {
            let mut v = vec![];
            for _ in 0..dim {
                v.push(rng.dyadic(-8, 8, 2));
            }
            if v.iter().all(|x| *x == 0.0) {
                v[0] = 1.0;
            }
            ident.push(v);
        }
    }
    // motion: start position, velocity (some pairs cross), all on a 0.25 grid
    let mut pos: Vec<(f32, f32, f32, f32)> = vec![];
    for ob in 0..nobj {
        let row = (ob / 2) as f32 * 45.0 + 10.0;
        let right = ob % 2 == 0;
        let x0 = if right { 10.0 } else { 10.0 + rng.dyadic(80, 400, 2) };
        let vx = if right { rng.dyadic(2, 24, 2) } else { -rng.dyadic(2, 24, 2) };
        let vy = rng.dyadic(-2, 2, 2);
        pos.push((x0, row + rng.dyadic(0, 16, 2), vx, vy));
    }
    let mut hidden: Vec<usize> = vec![0; nobj];
    let mut uid: u32 = 1;
    for i in 0..ncalls {
        let scene = if two_scenes { (i % 2) as u64 } else { 0 };
        let mut dets = vec![];
        for ob in 0..nobj {
            if two_scenes && (ob % 2) as u64 != scene {
                continue;
            }
            if hidden[ob] > 0 {
                hidden[ob] -= 1;
                continue;
            }
            if rng.chance(1, 12) {
                hidden[ob] = 1 + rng.below(4) as usize; // occlusion
                continue;
            }
            if uid >= 2040 {
                break;
            }
            let (x0, y0, vx, vy) = pos[ob];
            let l = x0 + vx * i as f32;
            let t = y0 + vy * i as f32;
            let small = rng.chance(1, 15);
            let w = if small { 8.0 } else { 20.0 + rng.dyadic(0, 8, 2) };
            let h = if small { 12.0 } else { 30.0 + rng.dyadic(0, 8, 2) };
            // quality: grid value, made unique per detection far below the grid step (identifies the detection)
            let qb = if rng.chance(1, 5) { *rng.pick(&[0.0f32, 0.125, 0.25, 0.375]) } else { *rng.pick(&[0.5f32, 0.625, 0.75, 0.875]) };
            let q = if rng.chance(1, 10) { None } else { Some(qb + uid as f32 / 1048576.0) };
            let feat = if featureless || rng.chance(1, 8) {
                None
            } else {
                let mut v = ident[ob].clone();
                for x in v.iter_mut() {
                    if rng.chance(1, 3) {
                        *x += rng.dyadic(-2, 2, 3);
                    }
                }
                if v.iter().all(|x| *x == 0.0) {
                    v[0] = 0.125;
                }
                if q.is_none() {
                    v[0] += uid as f32 / 4096.0; // quality 1.0 for all of these: keep (quality, feature) unique
                }
                Some(v)
            };
            let cc = if low_conf { *rng.pick(&[1u8, 2, 2, 3, 4, 0]) } else { 0 };
            dets.push(Det { uid, q, l, t, w, h, feat, cc });
            uid += 1;
        }
        rng.shuffle(&mut dets);
        s.calls.push((scene, dets));
    }
    s
}

/// C01 (visual trackers): exact duplicates (same box + feature, same feature + shifted box, 2-4 copies), crowded calls,
/// objects appearing / disappearing, with / without features, several scenes, IoU / Mahalanobis, shards 1-4.
/// crowded frames: 64 / 65 / 100 / 200 well-separated detections with distinct custom ids (a few exact duplicates), 2-3
/// frames so that the tracks continue; record i has to echo detection i
fn gen_c01_crowded(k: usize, rng: &mut Rng) -> Spec {
    let mut s = base_spec(k, rng);
    s.trk = if rng.chance(1, 2) { "bvs".into() } else { "vs".into() };
    s.shards = 1 + rng.below(4) as usize;
    s.idle = 2;
    s.hist = 2;
    s.maxobs = 3;
    s.minlen = 1;
    s.votes = 1;
    s.quse = 0.0;
    s.qcol = 0.0;
    s.minarea = 0.0;
    s.ownuse = 0.0;
    s.owncol = 0.0;
    let n = *rng.pick(&[64usize, 65, 100, 200]);
    let frames = 2 + rng.below(2) as usize;
    let with_feat = rng.chance(2, 3);
    let ndup = rng.below(4) as usize;
    let scene = rng.below(3);
    let mut uid: u32 = 1;
    for f in 0..frames {
        let mut dets = vec![];
        for ob in 0..n {
            let (col, row) = (ob % 16, ob / 16);
            let l = 10.0 + col as f32 * 60.0 + f as f32 * 0.5;
            let t = 10.0 + row as f32 * 80.0;
            let feat = if with_feat { Some(vec![col as f32, row as f32, 1.0 + (ob % 7) as f32 * 0.25]) } else { None };
            let copies = if ob < ndup { 2 } else { 1 };
            for _ in 0..copies {
                if uid >= 2040 {
                    break;
                }
                dets.push(Det { uid, q: Some(0.75), l, t, w: 20.0, h: 30.0, feat: feat.clone(), cc: 0 });
                uid += 1;
            }
        }
        if rng.chance(1, 2) {
            rng.shuffle(&mut dets);
        }
        s.calls.push((scene, dets));
    }
    s
}

fn gen_c01(k: usize, rng: &mut Rng) -> Spec {
    if k % 25 == 7 {
        return gen_c01_crowded(k, rng);
    }
    let mut s = base_spec(k, rng);
    s.trk = if rng.chance(1, 3) { "bvs".into() } else { "vs".into() };
    s.shards = 1 + rng.below(4) as usize;
    s.idle = *rng.pick(&[1usize, 2, 3]);
    s.hist = 1 + rng.below(3) as usize;
    s.maxobs = *rng.pick(&[1usize, 2, 3, 5]);
    s.minlen = 1 + rng.below(s.maxobs.min(2) as u64) as usize;
    s.votes = 1 + rng.below(s.maxobs.min(2) as u64) as usize;
    s.vis_cos = rng.chance(1, 3);
    s.vis_thr = if s.vis_cos { *rng.pick(&[0.5f32, 0.9]) } else { *rng.pick(&[1.0f32, 2.0, f32::MAX]) };
    s.quse = *rng.pick(&[0.0, 0.25]);
    s.qcol = *rng.pick(&[0.0, 0.25, 0.5]);
    s.minarea = 0.0;
    let nobj = 1 + rng.below(4) as usize;
    let dim = *rng.pick(&[2usize, 4, 8, 10]);
    let ncalls = 4 + rng.below(14) as usize;
    let nscenes = 1 + rng.below(3);
    let mut ident: Vec<Vec<f32>> = vec![];
    for _ in 0..nobj {
        let mut v = vec![];
        for _ in 0..dim {
            v.push(rng.dyadic(-8, 8, 2));
        }
        if v.iter().all(|x| *x == 0.0) {
            v[0] = 1.0;
        }
        ident.push(v);
    }
    let crowded = rng.chance(1, 3);
    let mut uid: u32 = 1;
    let mut present: Vec<bool> = (0..nobj).map(|_| rng.chance(3, 4)).collect();
    for i in 0..ncalls {
        let scene = rng.below(nscenes);
        let mut dets = vec![];
        for ob in 0..nobj {
            if rng.chance(1, 6) {
                present[ob] = !present[ob]; // appears / disappears
            }
            if !present[ob] {
                continue;
            }
            let step = if crowded { 6.0 } else { 45.0 };
            let l = 10.0 + ob as f32 * step + (i % 5) as f32 * 0.5;
            let t = 10.0 + (i % 3) as f32 * 0.5;
            let w = 20.0 + rng.dyadic(0, 4, 2);
            let h = 30.0 + rng.dyadic(0, 4, 2);
            let q = if rng.chance(1, 8) { None } else { Some(*rng.pick(&[0.5f32, 0.75, 1.0])) };
            let feat = if rng.chance(1, 6) {
                None
            } else {
                let mut v = ident[ob].clone();
                if rng.chance(1, 2) {
                    let lane = rng.below(dim as u64) as usize;
                    v[lane] += rng.dyadic(-2, 2, 3);
                }
                if v.iter().all(|x| *x == 0.0) {
                    v[0] = 0.125;
                }
                Some(v)
            };
            let copies = if rng.chance(1, 3) { 2 + rng.below(3) as usize } else { 1 };
            for c in 0..copies {
                if uid >= 2040 {
                    break;
                }
                let (dl, dt) = if c == 0 || rng.chance(1, 2) { (0.0, 0.0) } else { (rng.dyadic(-8, 8, 2), rng.dyadic(-8, 8, 2)) };
                dets.push(Det { uid, q, l: l + dl, t: t + dt, w, h, feat: feat.clone(), cc: 0 });
                uid += 1;
            }
        }
        if rng.chance(1, 2) {
            rng.shuffle(&mut dets);
        }
        s.calls.push((scene, dets));
    }
    s
}

/// C04 (visual trackers): 2-4 scenes that deliberately occupy the SAME image region with look-alike features, calls
/// interleaved at random; with / without spatio-temporal constraint tables (loose or binding); max_idle 1-3.
fn gen_c04(k: usize, rng: &mut Rng) -> Spec {
    let mut s = base_spec(k, rng);
    s.trk = if rng.chance(1, 3) { "bvs".into() } else { "vs".into() };
    s.shards = 1 + rng.below(3) as usize;
    s.idle = 1 + rng.below(3) as usize;
    s.hist = 1 + rng.below(3) as usize;
    s.maxobs = *rng.pick(&[1usize, 2, 3, 5]);
    s.minlen = 1 + rng.below(s.maxobs.min(2) as u64) as usize;
    s.votes = 1 + rng.below(s.maxobs.min(2) as u64) as usize;
    s.vis_cos = rng.chance(1, 4);
    s.vis_thr = if s.vis_cos { *rng.pick(&[0.5f32, 0.9]) } else { *rng.pick(&[1.0f32, 2.0, f32::MAX]) };
    s.quse = *rng.pick(&[0.0, 0.25]);
    s.qcol = *rng.pick(&[0.0, 0.25, 0.5]);
    s.minarea = 0.0;
    s.stc = match rng.below(3) {
        0 => vec![],
        1 => (1..=s.idle + 1).map(|g| (g, 100.0f32)).collect(),                           // never binds
        _ => (1..=s.idle + 1).map(|g| (g, *rng.pick(&[0.125f32, 0.25, 0.5, 1.0]) * g as f32)).collect(), // may bind
    };
    // own-area thresholds (use only / collect only / both, small): the share a detection gets depends on ITS scene's boxes only
    let own_on = if s.trk == "bvs" { rng.chance(2, 3) } else { rng.chance(1, 3) };
    if own_on {
        match rng.below(4) {
            0 | 1 => s.ownuse = *rng.pick(&[0.25f32, 0.5, 0.75]),
            2 => s.owncol = *rng.pick(&[0.25f32, 0.5, 0.75]),
            _ => {
                s.ownuse = *rng.pick(&[0.25f32, 0.5, 0.75]);
                s.owncol = *rng.pick(&[0.25f32, 0.5]);
            }
        }
    }
    let nscenes = 2 + rng.below(3) as usize;
    let nobj = if own_on { 2 + rng.below(2) as usize } else { 1 + rng.below(3) as usize };
    // how the objects of a scene stand: free (45 apart) or occluding one another (8 / 14 apart): with own-area thresholds one
    // scene's features are usable and another scene's are not
    let mut layouts = vec![45.0f32, 8.0, 14.0, 45.0];
    rng.shuffle(&mut layouts);
    let spacing: Vec<f32> = (0..nscenes).map(|i| layouts[i % 4]).collect();
    let dim = *rng.pick(&[2usize, 4, 8]);
    let pfeat = *rng.pick(&[100u64, 85, 50]);
    let ncalls = 6 + rng.below(20) as usize;
    // one set of object tracks (positions, velocities, identities) shared by all scenes, look-alike identities per scene
    let mut ident: Vec<Vec<f32>> = vec![];
    let mut motion: Vec<(f32, f32, f32, f32)> = vec![];
    for _ob in 0..nobj {
        let mut v = vec![];
        for _ in 0..dim {
            v.push(rng.dyadic(-8, 8, 2));
        }
        if v.iter().all(|x| *x == 0.0) {
            v[0] = 1.0;
        }
        ident.push(v);
        motion.push((10.0, 10.0 + rng.dyadic(0, 16, 2), rng.dyadic(-8, 8, 2), rng.dyadic(-4, 4, 2)));
    }
    let mut step: Vec<usize> = vec![0; nscenes];
    let mut uid: u32 = 1;
    // EMPTY frames (VisualSort only; the batch tracker cannot submit an empty scene): an empty frame advances its scene's
    // epoch whatever the other scenes hold. Leading ones come before a scene's first detection (in random scene order, so
    // that some arrive while other scenes already have tracks and some while the tracker is still empty), others in between
    let empties = s.trk == "vs";
    let mut lead: Vec<usize> = (0..nscenes).map(|_| if empties && rng.chance(1, 2) { 1 + rng.below(3) as usize } else { 0 }).collect();
    for _ in 0..ncalls {
        let scene = rng.below(nscenes as u64) as usize;
        if lead[scene] > 0 {
            lead[scene] -= 1;
            s.calls.push((scene as u64, vec![]));
            continue;
        }
        if empties && rng.chance(1, 8) {
            s.calls.push((scene as u64, vec![]));
            continue;
        }
        let i = step[scene];
        step[scene] += 1;
        let mut dets = vec![];
        for ob in 0..nobj {
            if rng.chance(1, 10) || uid >= 2040 {
                continue;
            }
            let (x0, y0, vx, vy) = motion[ob];
            let l = x0 + ob as f32 * spacing[scene] + vx * i as f32 + rng.dyadic(-2, 2, 2);
            let t = y0 + vy * i as f32;
            let w = 20.0 + rng.dyadic(0, 4, 2);
            let h = 30.0 + rng.dyadic(0, 4, 2);
            let q = Some(*rng.pick(&[0.5f32, 0.625, 0.75, 0.875]) + uid as f32 / 1048576.0);
            let feat = if rng.below(100) < pfeat {
                let mut v = ident[ob].clone();
                let lane = rng.below(dim as u64) as usize;
                v[lane] += rng.dyadic(-3, 3, 4) + scene as f32 / 64.0;
                if v.iter().all(|x| *x == 0.0) {
                    v[0] = 0.125;
                }
                Some(v)
            } else {
                None
            };
            dets.push(Det { uid, q, l, t, w, h, feat, cc: 0 });
            uid += 1;
        }
        s.calls.push((scene as u64, dets));
    }
    if s.trk == "bvs" && rng.chance(5, 6) {
        // multi-scene BATCHES: consecutive calls are put into one request as long as their scenes are distinct
        let mut grp: Vec<usize> = vec![];
        let mut cur: Vec<u64> = vec![];
        for (sc, _) in s.calls.iter() {
            if cur.contains(sc) || cur.len() >= 4 || (!cur.is_empty() && rng.chance(1, 4)) {
                grp.push(cur.len());
                cur.clear();
            }
            cur.push(*sc);
        }
        if !cur.is_empty() {
            grp.push(cur.len());
        }
        s.grp = grp;
    }
    s
}

// ------------------------------------------------------------------------------------------------------------
// C15: the exclusively-owned area share as STORED by the trackers. Batches of several scenes go to BatchVisualSort in one
// request; VisualSort gets the same calls one by one. Prints, per call, the share evaluated directly with the public
// functions on that scene's boxes (dets field) and, per record, the share stored with the track's newest observation:
//   share k j <uid> <track id> <stored f32 bits|-> <feature stored 0/1> <record length>
static PANIC_LOC: std::sync::Mutex<Option<String>> = std::sync::Mutex::new(None);

fn panic_loc() -> String {
    PANIC_LOC.lock().unwrap().take().unwrap_or_else(|| "?".into())
}

fn run_c15(spec: &Spec) {
    println!("spec {}", spec.to_line());
    std::panic::set_hook(Box::new(|info| {
        let loc = info.location().map(|l| format!("{}:{}", l.file(), l.line())).unwrap_or_else(|| "?".into());
        let mut g = PANIC_LOC.lock().unwrap();
        if g.is_none() {
            *g = Some(loc.replace(' ', "_"));
        }
    }));
    let k = spec.k;
    let opts = spec.options();
    let mut tracker = if spec.trk == "bvs" {
        Tracker::Bvs(BatchVisualSort::new(spec.shards, 1 + (spec.k % 2), &opts))
    } else {
        Tracker::Vs(VisualSort::new(spec.shards, &opts))
    };
    let use_own = spec.owncol + spec.ownuse > 0.0;
    let groups: Vec<usize> = if spec.grp.is_empty() { vec![1; spec.calls.len()] } else { spec.grp.clone() };
    let mut j = 0usize;
    'outer: for g in groups {
        let calls: Vec<(usize, &(u64, Vec<Det>))> = (j..(j + g).min(spec.calls.len())).map(|x| (x, &spec.calls[x])).collect();
        j += g;
        // expected shares, evaluated directly on each scene's boxes
        let mut det_ss: Vec<String> = vec![];
        let mut boxes_all: Vec<Vec<Universal2DBox>> = vec![];
        for (cj, (scene, dets)) in calls.iter() {
            let boxes: Vec<Universal2DBox> = dets.iter().map(bbox_of).collect();
            let own: Option<Vec<f32>> = if use_own {
                guarded(|| {
                    let refs: Vec<&Universal2DBox> = boxes.iter().collect();
                    exclusively_owned_areas_normalized_shares(refs.as_ref(), exclusively_owned_areas(refs.as_ref()).as_ref())
                })
            } else {
                None
            };
            if use_own && own.is_none() {
                println!("call k={} j={} scene={} epoch=0 dets= recs=OWNPANIC@{}", k, cj, scene, panic_loc());
                break 'outer;
            }
            let ds: Vec<String> = dets
                .iter()
                .enumerate()
                .map(|(i, d)| {
                    format!("{}:{}:{}:{}:{}", d.uid, f32b(d.q.unwrap_or(1.0)), d.feat.is_some() as u8, f32b(boxes[i].area()), own.as_ref().map(|p| f32b(p[i])).unwrap_or_else(|| "-".into()))
                })
                .collect();
            det_ss.push(ds.join(";"));
            boxes_all.push(boxes);
        }
        // the calls
        let feats: Vec<Vec<Option<Vec<f32>>>> = calls.iter().map(|(_, (_, dets))| dets.iter().map(|d| d.feat.clone()).collect()).collect();
        let mut results: Vec<Option<Vec<SortTrack>>> = vec![None; calls.len()];
        let mut panicked = false;
        match &mut tracker {
            Tracker::Vs(t) => {
                for (ci, (_, (scene, dets))) in calls.iter().enumerate() {
                    let obs: Vec<VisualSortObservation> = dets
                        .iter()
                        .enumerate()
                        .map(|(i, d)| VisualSortObservation::new(feats[ci][i].as_deref(), d.q, boxes_all[ci][i].clone(), Some(d.uid as i64)))
                        .collect();
                    match guarded(|| t.predict_with_scene(*scene, &obs)) {
                        Some(r) => results[ci] = Some(r),
                        None => {
                            panicked = true;
                            break;
                        }
                    }
                }
            }
            Tracker::Bvs(t) => {
                let (mut batch, res) = PredictionBatchRequest::<VisualSortObservation>::new();
                let mut nscenes = 0;
                for (ci, (_, (scene, dets))) in calls.iter().enumerate() {
                    for (i, d) in dets.iter().enumerate() {
                        batch.add(*scene, VisualSortObservation::new(feats[ci][i].as_deref(), d.q, boxes_all[ci][i].clone(), Some(d.uid as i64)));
                    }
                    if !dets.is_empty() {
                        nscenes += 1;
                    }
                }
                if guarded(|| t.predict(batch)).is_none() {
                    panicked = true;
                } else {
                    let t0 = std::time::Instant::now();
                    let mut got = 0;
                    while got < nscenes {
                        if res.ready() {
                            let (s, tracks) = res.get();
                            for (ci, (_, (scene, dets))) in calls.iter().enumerate() {
                                if *scene == s && !dets.is_empty() {
                                    results[ci] = Some(tracks.clone());
                                }
                            }
                            got += 1;
                        } else if t0.elapsed().as_secs() > 20 {
                            panicked = true; // a voting thread died: no result will ever arrive
                            break;
                        } else {
                            std::thread::sleep(std::time::Duration::from_millis(1));
                        }
                    }
                }
            }
        }
        let stored = tracker.tracks(spec.shards);
        for (ci, (cj, (scene, dets))) in calls.iter().enumerate() {
            let epoch = tracker.epoch(*scene);
            match &results[ci] {
                None if dets.is_empty() && !panicked => {
                    println!("call k={} j={} scene={} epoch={} after={} dets= recs=", k, cj, scene, epoch, epoch);
                }
                None => {
                    println!("call k={} j={} scene={} epoch={} dets={} recs=PANIC@{}", k, cj, scene, epoch, det_ss[ci], panic_loc());
                }
                Some(recs) => {
                    let rs: Vec<String> = recs.iter().map(rec_str).collect();
                    println!("call k={} j={} scene={} epoch={} after={} dets={} recs={}", k, cj, scene, epoch, epoch, det_ss[ci], rs.join(";"));
                    for (d, r) in dets.iter().zip(recs.iter()) {
                        let t = stored.iter().find(|t| t.get_track_id() == r.id);
                        let o = t.and_then(|t| t.get_observations(0)).and_then(|v| v.first());
                        let share = o.and_then(|o| o.attr().as_ref()).and_then(|a| *a.own_area_percentage_opt());
                        println!(
                            "share {} {} {} {} {} {} {}",
                            k,
                            cj,
                            d.uid,
                            r.id,
                            share.map(f32b).unwrap_or_else(|| "-".into()),
                            o.map(|o| o.feature().is_some() as u8).unwrap_or(2),
                            r.length
                        );
                    }
                }
            }
        }
        if panicked {
            break;
        }
    }
    quiet_panics();
    println!("end {}", k);
}

// ------------------------------------------------------------------------------------------------------------
// C03: track lifecycle on the visual trackers. Operation history (spec field ops=, ';' separated):
//   P<scene>@<dets>  predict (dets may be empty for VisualSort)     S<scene>:<n>  skip_epochs_for_scene
//   W  wasted()      I<scene>  idle_tracks_with_scene      C  clear_wasted      A<p>  set_auto_waste(p)
//   E<scene>  current_epoch_with_scene      a  active_shard_stats      w  wasted_shard_stats
// Prints after every operation:
//   op k i <op head> res=<result> main=<id:scene:last epoch:length,...> wst=<...>      (physical content of the two stores)
fn store_dump(ts: &[VTrack]) -> String {
    let v: Vec<String> = ts
        .iter()
        .map(|t| {
            let a = t.get_attributes();
            format!("{}:{}:{}:{}", t.get_track_id(), a.scene_id, a.last_updated_epoch, a.track_length)
        })
        .collect();
    if v.is_empty() {
        "-".into()
    } else {
        v.join(",")
    }
}

fn recs_text(recs: &[SortTrack]) -> String {
    if recs.is_empty() {
        "-".into()
    } else {
        recs.iter().map(rec_str).collect::<Vec<_>>().join(",")
    }
}

fn run_c03(spec: &Spec) {
    println!("spec {}", spec.to_line());
    std::panic::set_hook(Box::new(|info| {
        let loc = info.location().map(|l| format!("{}:{}", l.file(), l.line())).unwrap_or_else(|| "?".into());
        let mut g = PANIC_LOC.lock().unwrap();
        if g.is_none() {
            *g = Some(loc.replace(' ', "_"));
        }
    }));
    let k = spec.k;
    let opts = spec.options();
    let mut tracker = if spec.trk == "bvs" {
        Tracker::Bvs(BatchVisualSort::new(spec.shards, 1 + (spec.k % 2), &opts))
    } else {
        Tracker::Vs(VisualSort::new(spec.shards, &opts))
    };
    let raw_metric = raw_metric_of(spec);
    let mut dict: FeatDict = HashMap::new();
    let mut featq: HashMap<Vec<u32>, Vec<u32>> = HashMap::new();
    for (i, op) in spec.ops.iter().enumerate() {
        let head = op.chars().next().unwrap();
        let rest = &op[1..];
        let res: Option<String> = match head {
            'P' => {
                let (sc, ds) = rest.split_once('@').unwrap();
                let scene: u64 = sc.parse().unwrap();
                let dets = parse_dets(ds);
                if matches!(tracker, Tracker::Bvs(_)) && dets.is_empty() {
                    Some("-".into())
                } else {
                    // prints the oracle tables, the call line and the touched tracks as well (used for tie detection)
                    visual_call(&mut tracker, spec, &raw_metric, &mut dict, &mut featq, i, &scene, &dets, true, false).map(|r| recs_text(&r))
                }
            }
            'S' => {
                let (sc, n) = rest.split_once(':').unwrap();
                let (scene, n): (u64, usize) = (sc.parse().unwrap(), n.parse().unwrap());
                guarded(|| match &mut tracker {
                    Tracker::Vs(t) => t.skip_epochs_for_scene(scene, n),
                    Tracker::Bvs(t) => t.skip_epochs_for_scene(scene, n),
                })
                .map(|_| "-".to_string())
            }
            'W' => guarded(|| match &mut tracker {
                Tracker::Vs(t) => t.wasted(),
                Tracker::Bvs(t) => t.wasted(),
            })
            .map(|mut ws| {
                ws.sort_by_key(|t| t.get_track_id());
                let v: Vec<String> = ws
                    .into_iter()
                    .map(|t| {
                        let w = WastedVisualSortTrack::from(t);
                        format!("{}:{}:{}:{}:{}", w.id, w.length, w.epoch, w.scene_id, w.observed_boxes.len())
                    })
                    .collect();
                if v.is_empty() {
                    "-".into()
                } else {
                    v.join(",")
                }
            }),
            'I' => {
                let scene: u64 = rest.parse().unwrap();
                guarded(|| match &mut tracker {
                    Tracker::Vs(t) => t.idle_tracks_with_scene(scene),
                    Tracker::Bvs(t) => t.idle_tracks_with_scene(scene),
                })
                .map(|mut r| {
                    r.sort_by_key(|x| x.id);
                    recs_text(&r)
                })
            }
            'C' => guarded(|| match &mut tracker {
                Tracker::Vs(t) => t.clear_wasted(),
                Tracker::Bvs(t) => t.clear_wasted(),
            })
            .map(|_| "-".to_string()),
            'A' => {
                let p: usize = rest.parse().unwrap();
                guarded(|| match &mut tracker {
                    Tracker::Vs(t) => t.set_auto_waste(p),
                    Tracker::Bvs(t) => t.set_auto_waste(p),
                })
                .map(|_| "-".to_string())
            }
            'E' => {
                let scene: u64 = rest.parse().unwrap();
                guarded(|| tracker.epoch(scene)).map(|e| e.to_string())
            }
            'a' => guarded(|| match &tracker {
                Tracker::Vs(t) => t.active_shard_stats(),
                Tracker::Bvs(t) => t.active_shard_stats(),
            })
            .map(|v| v.iter().map(|x| x.to_string()).collect::<Vec<_>>().join(",")),
            'w' => guarded(|| match &tracker {
                Tracker::Vs(t) => t.wasted_shard_stats(),
                Tracker::Bvs(t) => t.wasted_shard_stats(),
            })
            .map(|v| v.iter().map(|x| x.to_string()).collect::<Vec<_>>().join(",")),
            _ => Some("?".into()),
        };
        let ophead = if head == 'P' { format!("P{}", rest.split_once('@').unwrap().0) } else { op.clone() };
        match res {
            None => {
                println!("op {} {} {} res=PANIC@{} main=- wst=-", k, i, ophead, panic_loc());
                break;
            }
            Some(r) => {
                let main = tracker.tracks(spec.shards);
                let wst = match &tracker {
                    Tracker::Vs(t) => all_vtracks(&t.get_wasted_store(), spec.shards),
                    Tracker::Bvs(t) => all_vtracks(&t.get_wasted_store(), spec.shards),
                };
                println!("op {} {} {} res={} main={} wst={}", k, i, ophead, r, store_dump(&main), store_dump(&wst));
            }
        }
    }
    quiet_panics();
    println!("end {}", k);
}

fn gen_c03(k: usize, rng: &mut Rng) -> Spec {
    let mut s = base_spec(k, rng);
    s.trk = if rng.chance(1, 3) { "bvs".into() } else { "vs".into() };
    s.shards = 1 + rng.below(3) as usize;
    s.idle = rng.below(4) as usize;
    s.hist = 1 + rng.below(3) as usize;
    s.maxobs = *rng.pick(&[1usize, 2, 3]);
    s.minlen = 1;
    s.votes = 1;
    s.quse = 0.0;
    s.qcol = 0.0;
    s.minarea = 0.0;
    let nscenes = 1 + rng.below(3);
    let nobj = 1 + rng.below(3) as usize;
    let pfeat = *rng.pick(&[100u64, 70, 0]);
    let nops = 12 + rng.below(40) as usize;
    let mut uid: u32 = 1;
    let batch = s.trk == "bvs";
    for _ in 0..nops {
        let scene = rng.below(nscenes);
        let r = rng.below(100);
        let op = if r < 50 {
            let mut dets = vec![];
            let empty = !batch && rng.chance(1, 4);
            if !empty {
                for ob in 0..nobj {
                    if (rng.chance(1, 5) && nobj > 1) || uid >= 2040 {
                        continue;
                    }
                    let feat = if rng.below(100) < pfeat { Some(vec![ob as f32 + 1.0, rng.dyadic(-4, 4, 3), uid as f32 / 64.0]) } else { None };
                    dets.push(Det { uid, q: Some(0.75), l: 10.0 + ob as f32 * 50.0 + rng.dyadic(0, 4, 2), t: 10.0, w: 20.0, h: 30.0, feat, cc: 0 });
                    uid += 1;
                }
            }
            if batch && dets.is_empty() {
                format!("E{}", scene)
            } else {
                format!("P{}@{}", scene, dets_text(&dets))
            }
        } else if r < 58 {
            format!("S{}:{}", scene, 1 + rng.below(4))
        } else if r < 66 {
            "W".to_string()
        } else if r < 76 {
            format!("I{}", scene)
        } else if r < 80 {
            "C".to_string()
        } else if r < 85 {
            format!("A{}", rng.pick(&[0usize, 1, 2, 100]))
        } else if r < 93 {
            format!("E{}", scene)
        } else if r < 97 {
            "a".to_string()
        } else {
            "w".to_string()
        };
        s.ops.push(op);
    }
    s
}

/// C15 generator: batches of 1-5 scenes x 1-6 axis-aligned boxes with partial overlaps (shares 1, ~0.75, ~0.5, 0, ...).
fn gen_c15(k: usize, rng: &mut Rng) -> Spec {
    let mut s = base_spec(k, rng);
    s.trk = if rng.chance(2, 3) { "bvs".into() } else { "vs".into() };
    s.shards = 1 + rng.below(3) as usize;
    s.idle = 1 + rng.below(3) as usize;
    s.hist = 1 + rng.below(3) as usize;
    s.maxobs = *rng.pick(&[2usize, 3, 5]);
    s.minlen = 1;
    s.votes = 1;
    s.vis_cos = false;
    s.vis_thr = f32::MAX;
    s.quse = 0.0;
    s.qcol = 0.0;
    s.minarea = 0.0;
    s.pos_iou = if rng.chance(1, 2) { Some(0.25) } else { None };
    match rng.below(3) {
        0 => {
            s.ownuse = *rng.pick(&[0.0625f32, 0.125, 0.25]);
            s.owncol = 0.0;
        }
        1 => {
            s.ownuse = 0.0;
            s.owncol = *rng.pick(&[0.0625f32, 0.125, 0.3125]);
        }
        _ => {
            s.ownuse = *rng.pick(&[0.0625f32, 0.125]);
            s.owncol = *rng.pick(&[0.125f32, 0.3125]);
        }
    }
    let nbatches = 2 + rng.below(5) as usize;
    let mut uid: u32 = 1;
    for _ in 0..nbatches {
        let nsc = 1 + rng.below(5) as usize;
        let mut scenes: Vec<u64> = (0..5u64).collect();
        rng.shuffle(&mut scenes);
        s.grp.push(nsc);
        for sc in scenes.iter().take(nsc) {
            let nb = 1 + rng.below(6) as usize;
            let dx = *rng.pick(&[5.0f32, 10.0, 15.0, 25.0]);
            let dy = *rng.pick(&[0.0f32, 4.0, 7.5, 16.0]);
            let mut dets = vec![];
            for b in 0..nb {
                if uid >= 2040 {
                    break;
                }
                let inner = b > 0 && rng.chance(1, 6); // a box swallowed by its predecessor: share 0 for it
                let (l, t, w, h) = if inner {
                    (10.0 + (b - 1) as f32 * dx + 2.25, 10.0 + (b - 1) as f32 * dy + 3.25, 6.0, 8.0)
                } else {
                    (10.0 + b as f32 * dx + rng.dyadic(0, 3, 2), 10.0 + b as f32 * dy + rng.dyadic(0, 3, 2), 20.0 + rng.dyadic(0, 4, 1), 32.0 + rng.dyadic(0, 4, 1))
                };
                let feat = if rng.chance(5, 6) { Some(vec![uid as f32, rng.dyadic(-8, 8, 2), rng.dyadic(-8, 8, 2)]) } else { None };
                dets.push(Det { uid, q: Some(*rng.pick(&[0.5f32, 0.75, 1.0])), l, t, w, h, feat, cc: 0 });
                uid += 1;
            }
            s.calls.push((*sc, dets));
        }
    }
    s
}

fn main() {
    quiet_panics();
    let a = parse_args();
    match a.cmd.as_str() {
        "c13" => {
            for k in 0..a.n {
                let mut rng = Rng::new(a.seed.wrapping_mul(1_000_003).wrapping_add(k as u64));
                let s = gen_c13(k, &mut rng, a.tier == "thorough" && k % 4 == 0);
                run_spec(&s, false, true);
            }
        }
        "c12" => {
            for k in 0..a.n {
                let mut rng = Rng::new(a.seed.wrapping_mul(7_000_003).wrapping_add(k as u64));
                let s = gen_c12(k, &mut rng);
                run_spec(&s, true, true);
            }
        }
        "c01" => {
            for k in 0..a.n {
                let mut rng = Rng::new(a.seed.wrapping_mul(9_000_011).wrapping_add(k as u64));
                let s = gen_c01(k, &mut rng);
                // no oracle tables for the crowded frames (tens of thousands of pairs, not needed by the C01 oracle)
                let crowded = s.calls.iter().any(|(_, d)| d.len() >= 48);
                run_spec(&s, !crowded, false);
            }
        }
        "c04" => {
            for k in 0..a.n {
                let mut rng = Rng::new(a.seed.wrapping_mul(4_000_037).wrapping_add(k as u64));
                let s = gen_c04(k, &mut rng);
                run_spec(&s, true, true);
            }
        }
        "c15" => {
            for k in 0..a.n {
                let mut rng = Rng::new(a.seed.wrapping_mul(15_000_017).wrapping_add(k as u64));
                let s = gen_c15(k, &mut rng);
                run_c15(&s);
            }
        }
        "c03" => {
            for k in 0..a.n {
                let mut rng = Rng::new(a.seed.wrapping_mul(3_000_029).wrapping_add(k as u64));
                let s = gen_c03(k, &mut rng);
                run_c03(&s);
            }
        }
        "replay03" => {
            let txt = std::fs::read_to_string(a.file.expect("--file")).unwrap();
            for line in txt.lines() {
                let line = line.trim();
                if line.is_empty() {
                    continue;
                }
                let line = line.strip_prefix("spec ").unwrap_or(line);
                run_c03(&Spec::parse(line));
            }
        }
        "replay15" => {
            let txt = std::fs::read_to_string(a.file.expect("--file")).unwrap();
            for line in txt.lines() {
                let line = line.trim();
                if line.is_empty() {
                    continue;
                }
                let line = line.strip_prefix("spec ").unwrap_or(line);
                run_c15(&Spec::parse(line));
            }
        }
        "replay" => {
            let txt = std::fs::read_to_string(a.file.expect("--file")).unwrap();
            let tables = !a.rest.iter().any(|x| x == "--notables");
            let strict = !a.rest.iter().any(|x| x == "--lax");
            for line in txt.lines() {
                let line = line.trim();
                if line.is_empty() {
                    continue;
                }
                let line = line.strip_prefix("spec ").unwrap_or(line);
                let s = Spec::parse(line);
                run_spec(&s, tables, strict);
            }
        }
        _ => {
            eprintln!("usage: visual c13|c12|replay [--seed S] [--n N] [--tier T] [--file F]");
            std::process::exit(2);
        }
    }
}
