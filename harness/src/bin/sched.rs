//! Schedule forcing for the sharded track store (C10) and the simple trackers (C05).
//!
//! C10 (`sched c10 --seed S --n N --tier T`, `sched c10replay --file F`): the REAL `TrackStore` with a
//! scripted attribute/metric algebra (the same one as `DistInst` in coq/theories/Model/DistProto.v) is driven
//! through prescribed interleavings of the caller's enqueue steps (`store_distances_enqueued`) and the
//! workers' commands (`store_distances_begin/end`, gated). One line per run:
//!   run kind=<foreign|owned> S=<shards> cls=<c> ob=<0|1> store=<tracks> cands=<tracks|ids> sched=<tokens>
//!       recv=<0|1|2> mode=<gated|free> ok=<from:to:am:fd,..> err=<from:to:cls,..> other_err=<n>
//!       after=<tracks> log=<events> status=<ok|stuck:..|hang:..|panic>
//! tracks: `id:grp:status:cls=v.v/cls=v` joined by `,`; schedule tokens: E<k> (caller enqueues on shard k),
//! X<k> (worker k executes its next command), R (the query call returns to the caller).
//!
//! C05 (`sched c05 ...`): see the second half of this file.
#[path = "../sched_util.rs"]
mod sched_util;

use anyhow::Result;
use sched_util::*;
use similari::prelude::*;
use similari::track::{
    ObservationAttributes,
    MetricOutput, MetricQuery, NoopLookup, Observation, ObservationMetric, ObservationMetricOk,
    ObservationsDb, Track, TrackAttributes, TrackAttributesUpdate, TrackStatus,
};
use similari::store::TrackStore;
use similari::trackers::sort::WastedSortTrack;
use similari::trackers::tracker_api::TrackerAPI;
use similari::trackers::visual_sort::WastedVisualSortTrack;
use similari::Errors;
use similari_verif_harness::*;
use std::sync::{mpsc, Arc, Mutex, OnceLock};
use std::time::Duration;

// ---------------------------------------------------------------------------------------------------------
// scripted algebra (mirror of DistInst)

#[derive(Clone, Debug, Default)]
struct TA {
    grp: u64,
    status: u64,
}

#[derive(Clone, Debug, Default)]
struct TAUpd;

impl TrackAttributesUpdate<TA> for TAUpd {
    fn apply(&self, _attrs: &mut TA) -> Result<()> {
        Ok(())
    }
}

impl TrackAttributes<TA, f32> for TA {
    type Update = TAUpd;
    type Lookup = NoopLookup<TA, f32>;

    fn compatible(&self, other: &TA) -> bool {
        other.grp != (self.grp + 1) % 3
    }

    fn merge(&mut self, _other: &TA) -> Result<()> {
        Ok(())
    }

    fn baked(&self, _observations: &ObservationsDb<f32>) -> Result<TrackStatus> {
        match self.status {
            0 => Ok(TrackStatus::Pending),
            1 => Ok(TrackStatus::Ready),
            2 => Ok(TrackStatus::Wasted),
            _ => Err(anyhow::anyhow!("scripted baked failure")),
        }
    }
}

#[derive(Clone, Debug, Default)]
struct M {
    pp: bool,
}

impl ObservationMetric<TA, f32> for M {
    fn metric(&self, mq: &MetricQuery<'_, TA, f32>) -> MetricOutput<f32> {
        let a = mq.candidate_observation.attr().unwrap() as u64;
        let b = mq.track_observation.attr().unwrap() as u64;
        let fd = if (a * b) % 2 == 0 { Some(a as f32) } else { None };
        match (a + b) % 4 {
            0 => None,
            1 => Some((None, fd)),
            _ => Some((Some((16 * a + b + mq.feature_class) as f32), fd)),
        }
    }

    fn optimize(
        &mut self,
        _feature_class: u64,
        _merge_history: &[u64],
        _attrs: &mut TA,
        _features: &mut Vec<Observation<f32>>,
        _prev_length: usize,
        _is_merge: bool,
    ) -> Result<()> {
        Ok(())
    }

    fn postprocess_distances(&self, unfiltered: Vec<ObservationMetricOk<f32>>) -> Vec<ObservationMetricOk<f32>> {
        if self.pp {
            unfiltered.into_iter().filter(|r| r.attribute_metric.is_some()).collect()
        } else {
            unfiltered
        }
    }
}

/// Second scripted metric: it does NOT override postprocess_distances (the trait default is used), and it answers
/// Some((None, None)) for some observation pairs - a metric value without attribute metric and without feature
/// distance is still a value, and the pair must be reported.
#[derive(Clone, Debug, Default)]
struct M2;

impl ObservationMetric<TA, f32> for M2 {
    fn metric(&self, mq: &MetricQuery<'_, TA, f32>) -> MetricOutput<f32> {
        let a = mq.candidate_observation.attr().unwrap() as u64;
        let b = mq.track_observation.attr().unwrap() as u64;
        match (a + b) % 4 {
            0 => None,
            1 => Some((None, if a % 2 == 0 { None } else { Some(a as f32) })),
            _ => Some((Some((16 * a + b + mq.feature_class) as f32), if (a * b) % 2 == 0 { Some(a as f32) } else { None })),
        }
    }

    fn optimize(
        &mut self,
        _feature_class: u64,
        _merge_history: &[u64],
        _attrs: &mut TA,
        _features: &mut Vec<Observation<f32>>,
        _prev_length: usize,
        _is_merge: bool,
    ) -> Result<()> {
        Ok(())
    }
}

trait ScriptMetric: ObservationMetric<TA, f32> + Default {
    fn for_group(grp: u64) -> Self;
}

impl ScriptMetric for M {
    fn for_group(grp: u64) -> Self {
        M { pp: grp == 2 }
    }
}

impl ScriptMetric for M2 {
    fn for_group(_grp: u64) -> Self {
        M2
    }
}

type Trk<MM> = Track<TA, MM, f32, NoopNotifier>;
type Store<MM> = TrackStore<TA, MM, f32, NoopNotifier>;

#[derive(Clone, Debug)]
struct TrackSpec {
    id: u64,
    grp: u64,
    status: u64,
    obs: Vec<(u64, Vec<u64>)>,
}

impl TrackSpec {
    fn enc(&self) -> String {
        let o: Vec<String> = self
            .obs
            .iter()
            .map(|(c, vs)| format!("{}={}", c, vs.iter().map(|v| v.to_string()).collect::<Vec<_>>().join(".")))
            .collect();
        format!("{}:{}:{}:{}", self.id, self.grp, self.status, o.join("/"))
    }

    fn dec(s: &str) -> TrackSpec {
        let p: Vec<&str> = s.split(':').collect();
        let mut obs = vec![];
        if p.len() > 3 && !p[3].is_empty() {
            for c in p[3].split('/') {
                let (k, v) = c.split_once('=').unwrap();
                obs.push((k.parse().unwrap(), v.split('.').filter(|x| !x.is_empty()).map(|x| x.parse().unwrap()).collect()));
            }
        }
        TrackSpec { id: p[0].parse().unwrap(), grp: p[1].parse().unwrap(), status: p[2].parse().unwrap(), obs }
    }

    fn build<MM: ScriptMetric>(&self) -> Trk<MM> {
        let mut b = TrackBuilder::new(self.id)
            .attributes(TA { grp: self.grp, status: self.status })
            .metric(MM::for_group(self.grp))
            .notifier(NoopNotifier);
        for (c, vs) in &self.obs {
            for v in vs {
                b = b.observation(ObservationBuilder::new(*c).observation_attributes(*v as f32).build());
            }
        }
        let mut t = b.build().unwrap();
        // a class listed without values: the track received an attributes-only update addressed to that class
        // (no observation, no feature) - it still does not HAVE the class
        for (c, vs) in &self.obs {
            if vs.is_empty() {
                t.add_observation(*c, None, None, Some(TAUpd)).unwrap();
            }
        }
        t
    }
}

fn enc_tracks(ts: &[TrackSpec]) -> String {
    ts.iter().map(|t| t.enc()).collect::<Vec<_>>().join(",")
}

fn dec_tracks(s: &str) -> Vec<TrackSpec> {
    s.split(',').filter(|x| !x.is_empty()).map(TrackSpec::dec).collect()
}

fn dump_store<MM: ScriptMetric>(store: &Store<MM>, shards: usize) -> String {
    let mut all: Vec<(u64, String)> = vec![];
    for k in 0..shards {
        let sh = store.get_store(k);
        for (id, t) in sh.iter() {
            let mut classes = t.get_feature_classes();
            classes.sort();
            let obs: Vec<(u64, Vec<u64>)> = classes
                .iter()
                .map(|c| (*c, t.get_observations(*c).unwrap().iter().map(|o| o.attr().unwrap() as u64).collect()))
                .collect();
            let a = t.get_attributes();
            let spec = TrackSpec { id: t.get_track_id(), grp: a.grp, status: a.status, obs };
            // the shard the track was found in is part of the dump: k must be id mod shards
            all.push((*id, format!("{}@{}", spec.enc(), k)));
        }
    }
    all.sort();
    all.into_iter().map(|x| x.1).collect::<Vec<_>>().join(",")
}

// ---------------------------------------------------------------------------------------------------------
// scheduler glue

static GATES: OnceLock<Arc<Gates>> = OnceLock::new();
static PLAN: Mutex<Option<Arc<Plan>>> = Mutex::new(None);
const STEP_TIMEOUT: Duration = Duration::from_secs(90);
const RECV_TIMEOUT: Duration = Duration::from_secs(90);

fn gates() -> &'static Arc<Gates> {
    GATES.get_or_init(Gates::new)
}

/// what the caller thread does inside the i-th `store_distances_enqueued` hook (1-based)
struct Plan {
    after_enq: Vec<Vec<(char, u64)>>,
}

/// worker k takes its next command, computes and sends the ok chunk; it is then parked between its two sends
fn exec_ok(k: u64) -> Result<(), String> {
    let g = gates();
    if !g.wait_parked(("dist", k), STEP_TIMEOUT) {
        return Err(format!("worker {} never received the expected command", k));
    }
    g.grant(("dist", k));
    if !g.wait_parked(("mid", k), STEP_TIMEOUT) {
        return Err(format!("worker {} did not reach the point between its two sends", k));
    }
    Ok(())
}

/// worker k sends its pending err chunk and finishes the command
fn exec_err(k: u64) -> Result<(), String> {
    let g = gates();
    let done = g.count(("dist_end", k));
    if !g.wait_parked(("mid", k), STEP_TIMEOUT) {
        return Err(format!("worker {} is not between its two sends", k));
    }
    g.grant(("mid", k));
    if !g.wait_count(("dist_end", k), done + 1, STEP_TIMEOUT) {
        return Err(format!("worker {} did not finish its command", k));
    }
    Ok(())
}

fn exec_worker(k: u64) -> Result<(), String> {
    exec_ok(k)?;
    exec_err(k)
}

fn exec_op(op: &(char, u64)) -> Result<(), String> {
    match op.0 {
        'O' => exec_ok(op.1),
        'F' => exec_err(op.1),
        _ => exec_worker(op.1),
    }
}

fn install_hook() {
    let g = gates().clone();
    similari::verif_hooks::set_hook(Some(Arc::new(move |site: &'static str, arg: u64| {
        g.log(site, arg);
        match site {
            "store_distances_begin" => g.arrive_and_wait(("dist", arg), "gate_passed"),
            "store_distances_ok_sent" => g.arrive_and_wait(("mid", arg), "mid_passed"),
            "store_distances_end" => {
                g.signal(("dist_end", arg));
            }
            "store_distances_enqueued" => {
                let i = g.signal(("enq", 0));
                let plan = PLAN.lock().unwrap().clone();
                if let Some(plan) = plan {
                    if let Some(seg) = plan.after_enq.get(i - 1) {
                        for op in seg {
                            if let Err(e) = exec_op(op) {
                                g.set_error(e);
                                break;
                            }
                        }
                    }
                }
            }
            "owned_query_copied" => {
                g.signal(("copied", 0));
            }
            _ => {}
        }
    })));
}

// ---------------------------------------------------------------------------------------------------------
// one run

#[derive(Clone, Debug)]
struct Case {
    kind: String, // foreign | owned
    shards: usize,
    cls: u64,
    ob: bool,
    store: Vec<TrackSpec>,
    cands: Vec<TrackSpec>, // foreign
    ids: Vec<u64>,         // owned
    sched: Vec<String>,    // tokens E<k> X<k> R ; empty + mode free = free running
    recv: u8,
    gated: bool,
    mv: u8, // metric variant: 1 = M (own postprocess_distances), 2 = M2 (trait default)
}

fn enc_am(x: &Option<f32>) -> String {
    match x {
        Some(v) => format!("{}", *v as i64),
        None => "n".into(),
    }
}

fn run_case(c: &Case) {
    if c.mv == 2 {
        run_case_g::<M2>(c)
    } else {
        run_case_g::<M>(c)
    }
}

fn run_case_g<MM: ScriptMetric>(c: &Case) {
    let g = gates();
    g.reset(c.gated);
    // split the schedule: segments after each E, and the post-return part
    let mut after_enq: Vec<Vec<(char, u64)>> = vec![];
    let mut post: Vec<(char, u64)> = vec![];
    let mut returned = false;
    for tok in &c.sched {
        if tok == "R" {
            returned = true;
        } else if tok.starts_with('E') {
            after_enq.push(vec![]);
        } else {
            let kind = tok.chars().next().unwrap(); // X = whole command, O = ok half, F = err half
            let k: u64 = tok[1..].parse().unwrap();
            if returned || after_enq.is_empty() {
                post.push((kind, k));
            } else {
                after_enq.last_mut().unwrap().push((kind, k));
            }
        }
    }
    *PLAN.lock().unwrap() = if c.gated { Some(Arc::new(Plan { after_enq })) } else { None };

    let mut status = String::from("ok");
    let mut ok_s = String::new();
    let mut err_s = String::new();
    let mut other_err = 0usize;
    let mut after = String::new();
    let mut before = String::new();
    let outcome = guarded(|| {
        let mut store: Store<MM> = TrackStoreBuilder::new(c.shards)
            .default_attributes(TA::default())
            .metric(MM::default())
            .notifier(NoopNotifier)
            .build();
        for t in &c.store {
            let mut plain = t.clone();
            plain.obs.retain(|(_, vs)| !vs.is_empty());
            store.add_track(plain.build::<MM>()).unwrap();
            for (cl, vs) in &t.obs {
                if vs.is_empty() {
                    store.add(t.id, *cl, None, None, Some(TAUpd)).unwrap();
                }
            }
        }
        before = dump_store(&store, c.shards);
        let (ok, err) = if c.kind == "foreign" {
            store.foreign_track_distances(c.cands.iter().map(|t| t.build::<MM>()).collect(), c.cls, c.ob)
        } else {
            store.owned_track_distances(&c.ids, c.cls, c.ob)
        };
        // the caller's receives run on helper threads so that a missing chunk becomes a reported hang
        let (tx_ok, rx_ok) = mpsc::channel();
        let (tx_err, rx_err) = mpsc::channel();
        let recv = c.recv;
        let spawn_receivers = move || {
            std::thread::spawn(move || {
                let v: Vec<ObservationMetricOk<f32>> = if recv == 2 { ok.into_iter().collect() } else { ok.all() };
                let _ = tx_ok.send(v);
            });
            std::thread::spawn(move || {
                let v: Vec<Result<Vec<ObservationMetricOk<f32>>>> = if recv == 2 { err.into_iter().collect() } else { err.all() };
                let _ = tx_err.send(v);
            });
        };
        let mut spawn_receivers = Some(spawn_receivers);
        if c.recv == 1 {
            (spawn_receivers.take().unwrap())();
        }
        if c.gated {
            for op in &post {
                if g.take_error().is_some() {
                    break;
                }
                if let Err(e) = exec_op(op) {
                    g.set_error(e);
                    break;
                }
            }
        }
        if let Some(e) = g.take_error() {
            status = format!("stuck:{}", e.replace(' ', "_"));
        }
        if let Some(f) = spawn_receivers.take() {
            f();
        }
        match rx_ok.recv_timeout(RECV_TIMEOUT) {
            Ok(v) => {
                ok_s = v
                    .iter()
                    .map(|r| format!("{}:{}:{}:{}", r.from, r.to, enc_am(&r.attribute_metric), enc_am(&r.feature_distance)))
                    .collect::<Vec<_>>()
                    .join(",");
            }
            Err(_) => {
                if status == "ok" {
                    status = "hang:ok_stream_never_completes".into();
                }
            }
        }
        match rx_err.recv_timeout(if status == "ok" { RECV_TIMEOUT } else { Duration::from_millis(200) }) {
            Ok(v) => {
                let mut items = vec![];
                for e in v {
                    match e {
                        Err(e) => match e.downcast_ref::<Errors>() {
                            Some(Errors::ObservationForClassNotFound(a, b, cl)) => items.push(format!("{}:{}:{}", a, b, cl)),
                            _ => other_err += 1,
                        },
                        Ok(_) => other_err += 1,
                    }
                }
                err_s = items.join(",");
            }
            Err(_) => {
                if status == "ok" {
                    status = "hang:err_stream_never_completes".into();
                }
            }
        }
        after = dump_store(&store, c.shards);
        g.open();
        drop(store);
    });
    if outcome.is_none() {
        status = "panic".into();
        g.open();
    }
    *PLAN.lock().unwrap() = None;
    let log: Vec<String> = g
        .take_log()
        .iter()
        .filter_map(|e| {
            let s = match e.site {
                "store_distances_begin" => "b",
                "gate_passed" => "g",
                "store_distances_ok_sent" => "m",
                "mid_passed" => "n",
                "store_distances_end" => "e",
                "store_distances_enqueued" => "q",
                "owned_query_copied" => "c",
                _ => return None,
            };
            Some(format!("{}{}@{}", s, e.arg, e.thread))
        })
        .collect();
    println!(
        "run kind={} mv={} S={} cls={} ob={} store={} cands={} sched={} recv={} mode={} ok={} err={} other_err={} before={} after={} log={} status={}",
        c.kind,
        c.mv,
        c.shards,
        c.cls,
        c.ob as u8,
        enc_tracks(&c.store),
        if c.kind == "foreign" { enc_tracks(&c.cands) } else { c.ids.iter().map(|x| x.to_string()).collect::<Vec<_>>().join(",") },
        c.sched.join("."),
        c.recv,
        if c.gated { "gated" } else { "free" },
        ok_s,
        err_s,
        other_err,
        before,
        after,
        log.join("."),
        status
    );
    if status.starts_with("hang") {
        // a receiver thread is blocked for good; stop here, the driver reports the run above
        use std::io::Write;
        std::io::stdout().flush().unwrap();
        std::process::exit(3);
    }
}

// ---------------------------------------------------------------------------------------------------------
// generation

fn gen_track(rng: &mut Rng, id: u64, rich: bool) -> TrackSpec {
    let grp = rng.below(3);
    let status = if rng.chance(3, 5) { 1 } else { rng.below(4) };
    let mut obs = vec![];
    for cls in 0..3u64 {
        let p = if cls == 0 { (4, 5) } else { (2, 5) };
        if rng.chance(p.0, p.1) {
            let n = 1 + rng.below(if rich { 3 } else { 2 });
            obs.push((cls, (0..n).map(|_| rng.below(8)).collect()));
        }
    }
    if rng.chance(1, 10) {
        obs.clear(); // a track with no observations at all
    }
    // attributes-only updates addressed to classes the track does not have
    for cls in 0..3u64 {
        if !obs.iter().any(|(c, _)| *c == cls) && rng.chance(1, 4) {
            obs.push((cls, vec![]));
        }
    }
    TrackSpec { id, grp, status, obs }
}

fn gen_store(rng: &mut Rng, n: usize, idmax: u64) -> Vec<TrackSpec> {
    let mut ids: Vec<u64> = (1..=idmax).collect();
    rng.shuffle(&mut ids);
    ids.truncate(n);
    ids.iter().map(|id| gen_track(rng, *id, true)).collect()
}

/// all interleavings of the caller's enqueues (fixed order), the workers' commands and the return point
fn all_schedules(shards: usize, cands: usize) -> Vec<Vec<String>> {
    fn go(i: usize, total: usize, shards: usize, q: &mut Vec<usize>, r: bool, cur: &mut Vec<String>, out: &mut Vec<Vec<String>>) {
        if i == total && r && q.iter().all(|x| *x == 0) {
            out.push(cur.clone());
            return;
        }
        if i < total && !r {
            let k = i % shards;
            q[k] += 1;
            cur.push(format!("E{}", k));
            go(i + 1, total, shards, q, r, cur, out);
            cur.pop();
            q[k] -= 1;
        }
        for k in 0..shards {
            if q[k] > 0 {
                q[k] -= 1;
                cur.push(format!("X{}", k));
                go(i, total, shards, q, r, cur, out);
                cur.pop();
                q[k] += 1;
            }
        }
        if i == total && !r {
            cur.push("R".into());
            go(i, total, shards, q, true, cur, out);
            cur.pop();
        }
    }
    let mut out = vec![];
    go(0, shards * cands, shards, &mut vec![0; shards], false, &mut vec![], &mut out);
    out
}

fn random_schedule(rng: &mut Rng, shards: usize, cands: usize) -> Vec<String> {
    let total = shards * cands;
    let mut q = vec![0usize; shards];
    let mut i = 0;
    let mut r = false;
    let mut out = vec![];
    loop {
        let mut opts: Vec<String> = vec![];
        if i < total && !r {
            opts.push("E".into());
            opts.push("E".into());
        }
        for k in 0..shards {
            if q[k] > 0 {
                opts.push(format!("X{}", k));
            }
        }
        if i == total && !r {
            opts.push("R".into());
        }
        if opts.is_empty() {
            break;
        }
        let o = rng.pick(&opts).clone();
        if o == "E" {
            let k = i % shards;
            q[k] += 1;
            i += 1;
            out.push(format!("E{}", k));
        } else if o == "R" {
            r = true;
            out.push(o);
        } else {
            let k: usize = o[1..].parse().unwrap();
            q[k] -= 1;
            out.push(o);
        }
    }
    out
}

/// fine-grained interleavings: a command is an ok half O<k> and an err half F<k>; worker k cannot start its next
/// command before it has sent its pending err chunk
fn all_schedules_fine(shards: usize, cands: usize) -> Vec<Vec<String>> {
    fn go(i: usize, total: usize, shards: usize, q: &mut Vec<usize>, h: &mut Vec<bool>, r: bool, cur: &mut Vec<String>, out: &mut Vec<Vec<String>>) {
        if i == total && r && q.iter().all(|x| *x == 0) && h.iter().all(|x| !*x) {
            out.push(cur.clone());
            return;
        }
        if i < total && !r {
            let k = i % shards;
            q[k] += 1;
            cur.push(format!("E{}", k));
            go(i + 1, total, shards, q, h, r, cur, out);
            cur.pop();
            q[k] -= 1;
        }
        for k in 0..shards {
            if h[k] {
                h[k] = false;
                cur.push(format!("F{}", k));
                go(i, total, shards, q, h, r, cur, out);
                cur.pop();
                h[k] = true;
            } else if q[k] > 0 {
                q[k] -= 1;
                h[k] = true;
                cur.push(format!("O{}", k));
                go(i, total, shards, q, h, r, cur, out);
                cur.pop();
                h[k] = false;
                q[k] += 1;
            }
        }
        if i == total && !r {
            cur.push("R".into());
            go(i, total, shards, q, h, true, cur, out);
            cur.pop();
        }
    }
    let mut out = vec![];
    go(0, shards * cands, shards, &mut vec![0; shards], &mut vec![false; shards], false, &mut vec![], &mut out);
    out
}

fn random_schedule_fine(rng: &mut Rng, shards: usize, cands: usize) -> Vec<String> {
    let total = shards * cands;
    let mut q = vec![0usize; shards];
    let mut h = vec![false; shards];
    let mut i = 0;
    let mut r = false;
    let mut out = vec![];
    loop {
        let mut opts: Vec<String> = vec![];
        if i < total && !r {
            opts.push("E".into());
        }
        for k in 0..shards {
            if h[k] {
                opts.push(format!("F{}", k));
            } else if q[k] > 0 {
                opts.push(format!("O{}", k));
            }
        }
        if i == total && !r {
            opts.push("R".into());
        }
        if opts.is_empty() {
            break;
        }
        let o = rng.pick(&opts).clone();
        if o == "E" {
            let k = i % shards;
            q[k] += 1;
            i += 1;
            out.push(format!("E{}", k));
        } else if o == "R" {
            r = true;
            out.push(o);
        } else {
            let k: usize = o[1..].parse().unwrap();
            if o.starts_with('O') {
                q[k] -= 1;
                h[k] = true;
            } else {
                h[k] = false;
            }
            out.push(o);
        }
    }
    out
}

fn owned_cand_count(store: &[TrackSpec], ids: &[u64]) -> usize {
    ids.iter().filter(|id| store.iter().any(|t| t.id == **id)).count()
}

fn gen_c10(seed: u64, n: usize, tier: &str) {
    let mut rng = Rng::new(seed);
    let thorough = tier == "thorough";
    // (a) exhaustive small scope: <= 2 shards, <= 2 candidates, every interleaving
    let small = if thorough { 3 * n } else { n };
    for si in 0..small {
        let shards = 1 + (si % 2);
        let ncand = 1 + ((si / 2) % 2);
        let owned = si % 3 == 2;
        let nst = 2 + rng.below(3) as usize;
        let store = gen_store(&mut rng, nst, 6);
        let cls = if rng.chance(1, 2) { 0 } else { rng.below(3) };
        let ob = rng.chance(1, 2);
        let mut case = Case { kind: "foreign".into(), shards, cls, ob, store: store.clone(), cands: vec![], ids: vec![], sched: vec![], recv: 0, gated: true, mv: 1 + ((si / 4) % 2) as u8 };
        let ccount;
        if owned {
            case.kind = "owned".into();
            let mut ids: Vec<u64> = store.iter().map(|t| t.id).collect();
            rng.shuffle(&mut ids);
            ids.truncate(ncand);
            if rng.chance(1, 6) {
                ids.push(99); // an id that is not stored
            }
            ccount = owned_cand_count(&store, &ids);
            case.ids = ids;
        } else {
            for j in 0..ncand {
                // a foreign candidate; now and then it carries the id of a stored track
                let id = if rng.chance(1, 4) { store[rng.below(store.len() as u64) as usize].id } else { 20 + j as u64 };
                case.cands.push(gen_track(&mut rng, id, true));
            }
            ccount = ncand;
        }
        let scheds = all_schedules(shards, ccount);
        for (j, s) in scheds.iter().enumerate() {
            case.sched = s.clone();
            case.recv = ((j + si) % 3) as u8;
            run_case(&case);
        }
        // the same scenario at the granularity of single sends (a worker parked between its ok and err send):
        // every interleaving when there are at most 45 of them, a random sample otherwise
        if shards * ccount <= 2 {
            for (j, s) in all_schedules_fine(shards, ccount).iter().enumerate() {
                case.sched = s.clone();
                case.recv = ((j + si + 1) % 3) as u8;
                run_case(&case);
            }
        } else {
            let k = if thorough { 400 } else { 60 };
            for j in 0..k {
                case.sched = random_schedule_fine(&mut rng, shards, ccount);
                case.recv = ((j + si) % 3) as u8;
                run_case(&case);
            }
        }
    }
    // (b) larger, randomised: 1..4 shards, up to 4 candidates, random interleavings
    let big = if thorough { 40 * n } else { 6 * n };
    for bi in 0..big {
        let shards = 1 + rng.below(4) as usize;
        let nst = rng.below(8) as usize;
        let store = gen_store(&mut rng, nst, 12);
        let cls = if rng.chance(1, 2) { 0 } else { rng.below(3) };
        let ob = rng.chance(1, 2);
        let mut case = Case { kind: "foreign".into(), shards, cls, ob, store: store.clone(), cands: vec![], ids: vec![], sched: vec![], recv: (bi % 3) as u8, gated: true, mv: 1 + ((bi / 2) % 2) as u8 };
        let ccount;
        if bi % 2 == 1 && !store.is_empty() {
            case.kind = "owned".into();
            let mut ids: Vec<u64> = store.iter().map(|t| t.id).collect();
            rng.shuffle(&mut ids);
            ids.truncate(1 + rng.below(4) as usize);
            ccount = owned_cand_count(&store, &ids);
            case.ids = ids;
        } else {
            let nc = rng.below(5) as usize;
            for j in 0..nc {
                let id = if !store.is_empty() && rng.chance(1, 4) { store[rng.below(store.len() as u64) as usize].id } else { 20 + j as u64 };
                case.cands.push(gen_track(&mut rng, id, true));
            }
            ccount = nc;
        }
        case.sched = if bi % 4 < 2 { random_schedule_fine(&mut rng, shards, ccount) } else { random_schedule(&mut rng, shards, ccount) };
        run_case(&case);
    }
    // (c) free running (no gates): large owned batches - every queried track must meet every other one
    let free = if thorough { 4 * n } else { n };
    for _ in 0..free {
        let shards = 1 + rng.below(4) as usize;
        let nt = 16 + rng.below(9) as usize;
        let store: Vec<TrackSpec> = (1..=nt as u64)
            .map(|id| TrackSpec { id, grp: 0, status: 1, obs: vec![(0, vec![1 + (id % 2), 2])] })
            .collect();
        let mut ids: Vec<u64> = store.iter().map(|t| t.id).collect();
        rng.shuffle(&mut ids);
        ids.truncate(12);
        let case = Case { kind: "owned".into(), shards, cls: 0, ob: rng.chance(1, 2), store, cands: vec![], ids, sched: vec![], recv: 0, gated: false, mv: 1 };
        run_case(&case);
    }
    // (d) sequences of queries on one store with different ways of (not) draining the handles
    gen_c10_seq(&mut rng, if thorough { 40 * n } else { 10 * n });
}

// ---------------------------------------------------------------------------------------------------------
// sequences of queries on ONE store: every query must report exactly its own results on its own handles, whatever
// happened to the handles of the earlier queries (drained, dropped unread, read partially, drained later)
//
//   seq mv=<1|2> S=<shards> store=<tracks> q=<query>;<query>.. res=<result>;<result>.. status=..
//   query  = f~<candidate tracks>~<cls>~<ob>~<policy>  |  o~<ids>~<cls>~<ob>~<policy>
//   policy = full | drop | part<k> (ok drained, k error items read, then dropped) |
//            hold1 (drained right after the NEXT query has been issued) | hold2 (drained after the next query's own handling)
//   result = ok=<items>~err=<items>~other=<n>   or `-` for a handle that was dropped unread

#[derive(Clone, Debug)]
struct SeqQuery {
    owned: bool,
    cands: Vec<TrackSpec>,
    ids: Vec<u64>,
    cls: u64,
    ob: bool,
    policy: String,
}

fn enc_query(q: &SeqQuery) -> String {
    format!(
        "{}~{}~{}~{}~{}",
        if q.owned { "o" } else { "f" },
        if q.owned { q.ids.iter().map(|x| x.to_string()).collect::<Vec<_>>().join(",") } else { enc_tracks(&q.cands) },
        q.cls,
        q.ob as u8,
        q.policy
    )
}

fn dec_query(s: &str) -> SeqQuery {
    let p: Vec<&str> = s.split('~').collect();
    let owned = p[0] == "o";
    SeqQuery {
        owned,
        cands: if owned { vec![] } else { dec_tracks(p[1]) },
        ids: if owned { p[1].split(',').filter(|x| !x.is_empty()).map(|x| x.parse().unwrap()).collect() } else { vec![] },
        cls: p[2].parse().unwrap(),
        ob: p[3] == "1",
        policy: p[4].to_string(),
    }
}

fn enc_oks(v: &[ObservationMetricOk<f32>]) -> String {
    v.iter().map(|r| format!("{}:{}:{}:{}", r.from, r.to, enc_am(&r.attribute_metric), enc_am(&r.feature_distance))).collect::<Vec<_>>().join(",")
}

fn enc_errs(v: Vec<Result<Vec<ObservationMetricOk<f32>>>>) -> (String, usize) {
    let mut items = vec![];
    let mut other = 0;
    for e in v {
        match e {
            Err(e) => match e.downcast_ref::<Errors>() {
                Some(Errors::ObservationForClassNotFound(a, b, cl)) => items.push(format!("{}:{}:{}", a, b, cl)),
                _ => other += 1,
            },
            Ok(_) => other += 1,
        }
    }
    (items.join(","), other)
}

fn run_seq(mv: u8, shards: usize, store: &[TrackSpec], queries: &[SeqQuery]) {
    if mv == 2 {
        run_seq_g::<M2>(mv, shards, store, queries)
    } else {
        run_seq_g::<M>(mv, shards, store, queries)
    }
}

fn run_seq_g<MM: ScriptMetric>(mv: u8, shards: usize, store_spec: &[TrackSpec], queries: &[SeqQuery]) {
    use similari::store::track_distance::{TrackDistanceErr, TrackDistanceOk};
    let g = gates();
    g.reset(false);
    *PLAN.lock().unwrap() = None;
    let (tx, rx) = mpsc::channel();
    let (spec_c, queries_c) = (store_spec.to_vec(), queries.to_vec());
    std::thread::spawn(move || {
        let r = guarded(move || {
            let mut store: Store<MM> = TrackStoreBuilder::new(shards)
                .default_attributes(TA::default())
                .metric(MM::default())
                .notifier(NoopNotifier)
                .build();
            for t in &spec_c {
                let mut plain = t.clone();
                plain.obs.retain(|(_, vs)| !vs.is_empty());
                store.add_track(plain.build::<MM>()).unwrap();
                for (cl, vs) in &t.obs {
                    if vs.is_empty() {
                        store.add(t.id, *cl, None, None, Some(TAUpd)).unwrap();
                    }
                }
            }
            let n = queries_c.len();
            let mut results: Vec<String> = vec!["-".to_string(); n];
            let drain = |ok: TrackDistanceOk<f32>, err: TrackDistanceErr<f32>| -> String {
                let o = ok.all();
                let (e, other) = enc_errs(err.all());
                format!("ok={}~err={}~other={}", enc_oks(&o), e, other)
            };
            // (query index, handles, drain after the next query's own handling?)
            let mut held: Vec<(usize, TrackDistanceOk<f32>, TrackDistanceErr<f32>, bool)> = vec![];
            for (i, q) in queries_c.iter().enumerate() {
                let (ok, err) = if q.owned {
                    store.owned_track_distances(&q.ids, q.cls, q.ob)
                } else {
                    store.foreign_track_distances(q.cands.iter().map(|t| t.build::<MM>()).collect(), q.cls, q.ob)
                };
                // handles held with hold1 are drained now: the next query has been issued
                let mut later = vec![];
                for (j, o, e, after) in held.drain(..) {
                    if after {
                        later.push((j, o, e));
                    } else {
                        results[j] = drain(o, e);
                    }
                }
                match q.policy.as_str() {
                    "full" => results[i] = drain(ok, err),
                    "drop" => {
                        drop(ok);
                        drop(err);
                    }
                    "hold1" => held.push((i, ok, err, false)),
                    "hold2" => held.push((i, ok, err, true)),
                    p => {
                        let k: usize = p.trim_start_matches("part").parse().unwrap_or(1);
                        let o = ok.all();
                        let part: Vec<Result<Vec<ObservationMetricOk<f32>>>> = err.into_iter().take(k).collect();
                        let (e, other) = enc_errs(part);
                        results[i] = format!("ok={}~err={}~other={}", enc_oks(&o), e, other);
                    }
                }
                for (j, o, e) in later {
                    results[j] = drain(o, e);
                }
            }
            for (j, o, e, _) in held.drain(..) {
                results[j] = drain(o, e);
            }
            drop(store);
            results
        });
        let _ = tx.send(r);
    });
    let (status, res) = match rx.recv_timeout(RECV_TIMEOUT) {
        Ok(Some(r)) => ("ok", r.join(";")),
        Ok(None) => ("panic", String::new()),
        Err(_) => ("hang", String::new()),
    };
    println!(
        "seq mv={} S={} store={} q={} res={} status={}",
        mv,
        shards,
        enc_tracks(store_spec),
        queries.iter().map(enc_query).collect::<Vec<_>>().join(";"),
        res,
        status
    );
    if status == "hang" {
        use std::io::Write;
        std::io::stdout().flush().unwrap();
        std::process::exit(3);
    }
}

fn gen_c10_seq(rng: &mut Rng, n: usize) {
    for i in 0..n {
        let shards = 1 + rng.below(4) as usize;
        let nst = 2 + rng.below(6) as usize;
        let store = gen_store(rng, nst, 12);
        let nq = 2 + rng.below(3) as usize;
        let mut queries = vec![];
        for qi in 0..nq {
            let owned = rng.chance(1, 3);
            // classes alternate between queries so that the error multisets of neighbouring queries differ
            let cls = ((qi as u64) + rng.below(2)) % 3;
            let mut q = SeqQuery { owned, cands: vec![], ids: vec![], cls, ob: rng.chance(1, 3), policy: String::new() };
            if owned {
                let mut ids: Vec<u64> = store.iter().map(|t| t.id).collect();
                rng.shuffle(&mut ids);
                ids.truncate(1 + rng.below(3) as usize);
                q.ids = ids;
            } else {
                for j in 0..(1 + rng.below(3)) {
                    q.cands.push(gen_track(rng, 20 + j + 10 * qi as u64, true));
                }
            }
            q.policy = if qi + 1 == nq {
                "full".to_string()
            } else {
                match rng.below(6) {
                    0 => "full".to_string(),
                    1 | 2 => "drop".to_string(),
                    3 => format!("part{}", rng.below(3)),
                    4 => "hold1".to_string(),
                    _ => "hold2".to_string(),
                }
            };
            queries.push(q);
        }
        run_seq(1 + (i % 2) as u8, shards, &store, &queries);
    }
}

fn replay_c10(path: &str) {
    let txt = std::fs::read_to_string(path).unwrap();
    for line in txt.lines() {
        if line.trim().is_empty() {
            continue;
        }
        let mut m = std::collections::HashMap::new();
        for tok in line.split_whitespace() {
            if let Some((k, v)) = tok.split_once('=') {
                m.insert(k.to_string(), v.to_string());
            }
        }
        if let Some(q) = m.get("q") {
            let store = dec_tracks(m.get("store").map(|s| s.as_str()).unwrap_or(""));
            let queries: Vec<SeqQuery> = q.split(';').filter(|x| !x.is_empty()).map(dec_query).collect();
            run_seq(
                m.get("mv").map(|x| x.parse().unwrap()).unwrap_or(1),
                m.get("S").map(|x| x.parse().unwrap()).unwrap_or(1),
                &store,
                &queries,
            );
            continue;
        }
        let kind = m.get("kind").cloned().unwrap_or("foreign".into());
        let store = dec_tracks(m.get("store").map(|s| s.as_str()).unwrap_or(""));
        let cs = m.get("cands").cloned().unwrap_or_default();
        let case = Case {
            kind: kind.clone(),
            shards: m.get("S").map(|x| x.parse().unwrap()).unwrap_or(1),
            cls: m.get("cls").map(|x| x.parse().unwrap()).unwrap_or(0),
            ob: m.get("ob").map(|x| x == "1").unwrap_or(false),
            store,
            cands: if kind == "foreign" { dec_tracks(&cs) } else { vec![] },
            ids: if kind == "owned" { cs.split(',').filter(|x| !x.is_empty()).map(|x| x.parse().unwrap()).collect() } else { vec![] },
            sched: m.get("sched").map(|s| s.split('.').filter(|x| !x.is_empty()).map(|x| x.to_string()).collect()).unwrap_or_default(),
            recv: m.get("recv").map(|x| x.parse().unwrap()).unwrap_or(0),
            mv: m.get("mv").map(|x| x.parse().unwrap()).unwrap_or(1),
            gated: m.get("mode").map(|x| x == "gated").unwrap_or(true),
        };
        run_case(&case);
    }
}

// =========================================================================================================
// C05: the simple trackers under every shard count and forced worker finishing orders
//
//   sched c05 --seed S --n N --tier T
// One line per run:
//   c05 kind=<sort|visual> hist=<id> S=<shards> order=<free|perm:k.k.k|rand:seed> margin=<milli IoU> calls=<n>
//       recs=<call results joined by '/', records by ';'> trace=<per call: q count, executed shards> status=..
// The workers' Distances commands of every predict call are executed one at a time in the prescribed order, from
// inside the hook of the caller's last enqueue (the caller itself blocks in errs.all() right after it).

#[derive(Clone, Debug)]
struct CDet {
    x: f32,
    y: f32,
    aspect: f32,
    h: f32,
    conf: f32,
    feat: Option<Vec<f32>>,
}

type Call = (u64, Vec<CDet>);

fn cbox(d: &CDet) -> Universal2DBox {
    Universal2DBox::new_with_confidence(d.x, d.y, None, d.aspect, d.h, d.conf)
}

fn c05_visual_opts() -> VisualSortOptions {
    VisualSortOptions::default()
        .max_idle_epochs(3)
        .kept_history_length(3)
        .visual_metric(VisualSortMetricType::Euclidean(1.0))
        .positional_metric(PositionalMetricType::IoU(0.3))
        .visual_minimal_track_length(2)
        .visual_minimal_area(5.0)
        .visual_minimal_quality_use(0.45)
        .visual_minimal_quality_collect(0.7)
        .visual_max_observations(3)
        .visual_min_votes(1)
}

/// objects in lanes 100 apart; some lanes carry a PAIR of objects 8 px apart (cross IoU ~0.43 against own ~0.8),
/// so the assignment is a real contest but unique by a wide margin. Returns the calls and the margin in milli-IoU
/// (min own-IoU minus max cross-IoU between consecutive frames of one scene).
fn gen_c05_history(rng: &mut Rng, visual: bool) -> (Vec<Call>, i64) {
    let nscenes = 1 + rng.below(2) as usize;
    let mut objs: Vec<Vec<(f32, f32, f32, f32, usize)>> = vec![];
    for si in 0..nscenes {
        let lanes = 2 + rng.below(3) as usize;
        let mut v = vec![];
        for j in 0..lanes {
            let x0 = 100.0 * j as f32 + rng.dyadic(0, 32, 2);
            let y0 = 80.0 * si as f32 + rng.dyadic(0, 32, 2);
            let (vx, vy) = (rng.dyadic(-6, 6, 2), rng.dyadic(-6, 6, 2));
            v.push((x0, y0, vx, vy, v.len()));
            if rng.chance(1, 2) {
                v.push((x0 + 8.0, y0 + 1.0, vx, vy, v.len())); // a close companion moving in parallel
            }
        }
        objs.push(v);
    }
    let nframes = 5 + rng.below(6) as usize;
    let mut serial = 0u32;
    let mut calls = vec![];
    let mut last: Vec<Vec<Option<Universal2DBox>>> = objs.iter().map(|o| vec![None; o.len()]).collect();
    let mut margin = 1000i64;
    for f in 0..nframes {
        for si in 0..nscenes {
            if !rng.chance(5, 6) {
                continue;
            }
            let mut ds = vec![];
            let mut present = vec![];
            for (j, o) in objs[si].iter().enumerate() {
                if rng.chance(1, 7) {
                    continue;
                }
                let d = CDet {
                    x: o.0 + o.2 * f as f32,
                    y: o.1 + o.3 * f as f32,
                    aspect: 0.625,
                    h: 32.0,
                    conf: 1.0,
                    // every detection gets its own offset (no two feature distances of a scene coincide: the appearance
                    // stage compares sums of distances and an exact tie is resolved by HashMap order)
                    feat: if visual {
                        serial += 1;
                        Some(vec![3.0 * j as f32 + serial as f32 / 509.0, si as f32 + (serial * serial % 31) as f32 / 1021.0])
                    } else {
                        None
                    },
                };
                present.push(j);
                ds.push(d);
            }
            // margin between this frame's detections and the previous boxes of the scene's objects
            for (k, j) in present.iter().enumerate() {
                let mut b = cbox(&ds[k]);
                b.gen_vertices();
                for (j2, prev) in last[si].iter().enumerate() {
                    if let Some(p) = prev {
                        let mut p = p.clone();
                        p.gen_vertices();
                        let iou = if Universal2DBox::too_far(&b, &p) {
                            0.0
                        } else {
                            Universal2DBox::calculate_metric_object(&Some(&b), &Some(&p)).unwrap_or(0.0)
                        };
                        let m = (iou * 1000.0) as i64;
                        if *j == j2 {
                            margin = margin.min(m - 300);
                        } else {
                            margin = margin.min(700 - m);
                        }
                    }
                }
            }
            for (k, j) in present.iter().enumerate() {
                last[si][*j] = Some(cbox(&ds[k]));
            }
            let mut order: Vec<usize> = (0..ds.len()).collect();
            rng.shuffle(&mut order);
            let ds: Vec<CDet> = order.iter().map(|i| ds[*i].clone()).collect();
            calls.push((5 + 3 * si as u64, ds));
        }
    }
    (calls, margin)
}

static C05_ORDER: Mutex<Option<Vec<u64>>> = Mutex::new(None); // shard-major order, or None = random
static C05_RAND: Mutex<Option<Rng>> = Mutex::new(None);
/// (shard a, m): m commands of shard a first, then every other shard completely, then the rest of shard a
static C05_SPLIT: Mutex<Option<(u64, usize)>> = Mutex::new(None);
/// (shard k, query number c): in the c-th distance query worker k is held for SLOW_HOLD of wall-clock time while the
/// caller already waits for the results; the other workers answer at once
static C05_SLOW: Mutex<Option<(u64, usize)>> = Mutex::new(None);
/// (shard k, c): the worker of shard k is late by SLOW_HOLD in its c-th FindBaked command (find_usable, behind
/// auto_waste / skip_epochs / wasted) while the caller already waits for the answers
static C05_SLOWFB: Mutex<Option<(u64, usize)>> = Mutex::new(None);
static C05_FB_NO: std::sync::atomic::AtomicUsize = std::sync::atomic::AtomicUsize::new(0);
static C05_QUERY_NO: std::sync::atomic::AtomicUsize = std::sync::atomic::AtomicUsize::new(0);
static C05_HELPER: Mutex<Option<std::thread::JoinHandle<()>>> = Mutex::new(None);
const SLOW_HOLD: Duration = Duration::from_millis(1600);
static C05_TRACE: Mutex<Vec<String>> = Mutex::new(Vec::new());
static C05_SHARDS: std::sync::atomic::AtomicUsize = std::sync::atomic::AtomicUsize::new(0);
static C05_ENQ: std::sync::atomic::AtomicUsize = std::sync::atomic::AtomicUsize::new(0);

fn install_c05_hook() {
    use std::sync::atomic::Ordering;
    let g = gates().clone();
    similari::verif_hooks::set_hook(Some(Arc::new(move |site: &'static str, arg: u64| {
        match site {
            "store_distances_begin" => g.arrive_and_wait(("dist", arg), "gate_passed"),
            "store_distances_ok_sent" => g.arrive_and_wait(("mid", arg), "mid_passed"),
            "store_distances_end" => {
                g.signal(("dist_end", arg));
            }
            "store_find_baked_begin" => {
                let slow = *C05_SLOWFB.lock().unwrap();
                if let Some((k, c)) = slow {
                    if arg == k && C05_FB_NO.fetch_add(1, Ordering::SeqCst) == c {
                        std::thread::sleep(SLOW_HOLD);
                    }
                }
            }
            "store_distances_enqueued" => {
                let shards = C05_SHARDS.load(Ordering::SeqCst);
                let i = C05_ENQ.fetch_add(1, Ordering::SeqCst) + 1;
                let total = shards * arg as usize;
                if shards == 0 || i < total {
                    return;
                }
                C05_ENQ.store(0, Ordering::SeqCst);
                // a helper that still releases a held worker of the previous query finishes first
                if let Some(h) = C05_HELPER.lock().unwrap().take() {
                    let _ = h.join();
                }
                let qno = C05_QUERY_NO.fetch_add(1, Ordering::SeqCst);
                let ncand = arg as usize;
                if let Some((slow, at)) = *C05_SLOW.lock().unwrap() {
                    if at == qno && (slow as usize) < shards {
                        // the caller must already be waiting in all(): the schedule runs on a helper thread
                        let g2 = g.clone();
                        let h = std::thread::spawn(move || {
                            let mut seq: Vec<u64> = vec![];
                            'outer: for k in 0..shards as u64 {
                                if k != slow {
                                    for _ in 0..ncand {
                                        if let Err(e) = exec_worker(k) {
                                            g2.set_error(e);
                                            break 'outer;
                                        }
                                        seq.push(k);
                                    }
                                }
                            }
                            std::thread::sleep(SLOW_HOLD);
                            for _ in 0..ncand {
                                if let Err(e) = exec_worker(slow) {
                                    g2.set_error(e);
                                    break;
                                }
                                seq.push(slow);
                            }
                            C05_TRACE.lock().unwrap().push(format!("{}:{}", total, seq.iter().map(|k| k.to_string()).collect::<Vec<_>>().join(".")));
                        });
                        *C05_HELPER.lock().unwrap() = Some(h);
                        return;
                    }
                }
                // the last command of this query is queued: run the workers in the prescribed order
                let mut seq: Vec<u64> = vec![];
                if let Some((a, m)) = *C05_SPLIT.lock().unwrap() {
                    let m = m.min(ncand);
                    for _ in 0..m {
                        seq.push(a);
                    }
                    for k in 0..shards as u64 {
                        if k != a {
                            for _ in 0..ncand {
                                seq.push(k);
                            }
                        }
                    }
                    for _ in m..ncand {
                        seq.push(a);
                    }
                } else if let Some(order) = C05_ORDER.lock().unwrap().clone() {
                    for k in order {
                        for _ in 0..ncand {
                            seq.push(k);
                        }
                    }
                } else {
                    let mut left: Vec<usize> = vec![ncand; shards];
                    let mut guard = C05_RAND.lock().unwrap();
                    let rng = guard.as_mut().unwrap();
                    loop {
                        let open: Vec<usize> = (0..shards).filter(|k| left[*k] > 0).collect();
                        if open.is_empty() {
                            break;
                        }
                        let k = *rng.pick(&open);
                        left[k] -= 1;
                        seq.push(k as u64);
                    }
                }
                for k in &seq {
                    if let Err(e) = exec_worker(*k) {
                        g.set_error(e);
                        break;
                    }
                }
                C05_TRACE.lock().unwrap().push(format!("{}:{}", total, seq.iter().map(|k| k.to_string()).collect::<Vec<_>>().join(".")));
            }
            _ => {}
        }
    })));
}

fn enc_boxes(bs: &[Universal2DBox]) -> String {
    bs.iter().map(enc_ubox).collect::<Vec<_>>().join("+")
}

/// everything else a tracker reports at the end of a history: the idle tracks of every scene, then - after the
/// epochs have been skipped past max_idle - the finished tracks with their kept box (and feature) histories
fn c05_final_sort(t: &mut Sort, scenes: &[u64]) -> Vec<String> {
    let mut out = vec![];
    for s in scenes {
        let mut idle = t.idle_tracks_with_scene(*s);
        idle.sort_by_key(|r| r.id);
        out.push(format!("IDLE{}:{}", s, idle.iter().map(enc_sort_track).collect::<Vec<_>>().join(";")));
    }
    for s in scenes {
        t.skip_epochs_for_scene(*s, 6);
    }
    let mut w: Vec<WastedSortTrack> = t.wasted().into_iter().map(WastedSortTrack::from).collect();
    w.sort_by_key(|r| r.id);
    out.push(format!(
        "WASTED:{}",
        w.iter()
            .map(|r| format!("{},{},{},{},{},{}", r.id, r.epoch, r.length, r.scene_id, enc_boxes(&r.observed_boxes), enc_boxes(&r.predicted_boxes)))
            .collect::<Vec<_>>()
            .join(";")
    ));
    out
}

fn c05_final_visual(t: &mut VisualSort, scenes: &[u64]) -> Vec<String> {
    let mut out = vec![];
    for s in scenes {
        let mut idle = t.idle_tracks_with_scene(*s);
        idle.sort_by_key(|r| r.id);
        out.push(format!("IDLE{}:{}", s, idle.iter().map(enc_sort_track).collect::<Vec<_>>().join(";")));
    }
    for s in scenes {
        t.skip_epochs_for_scene(*s, 6);
    }
    let mut w: Vec<WastedVisualSortTrack> = t.wasted().into_iter().map(WastedVisualSortTrack::from).collect();
    w.sort_by_key(|r| r.id);
    out.push(format!(
        "WASTED:{}",
        w.iter()
            .map(|r| {
                let feats: Vec<String> = r
                    .observed_features
                    .iter()
                    .map(|f| f.as_ref().map(|v| v.iter().map(|x| x.to_bits().to_string()).collect::<Vec<_>>().join("_")).unwrap_or("n".into()))
                    .collect();
                format!("{},{},{},{},{},{},{}", r.id, r.epoch, r.length, r.scene_id, enc_boxes(&r.observed_boxes), enc_boxes(&r.predicted_boxes), feats.join("+"))
            })
            .collect::<Vec<_>>()
            .join(";")
    ));
    out
}

fn c05_run(kind: &str, hist_id: usize, calls: &[Call], margin: i64, shards: usize, order: &str, perm: Option<Vec<u64>>, rseed: u64) {
    use std::sync::atomic::Ordering;
    let g = gates();
    let gated = order != "free";
    g.reset(gated);
    C05_TRACE.lock().unwrap().clear();
    C05_ENQ.store(0, Ordering::SeqCst);
    C05_SHARDS.store(if gated { shards } else { 0 }, Ordering::SeqCst);
    *C05_ORDER.lock().unwrap() = perm;
    C05_QUERY_NO.store(0, Ordering::SeqCst);
    C05_FB_NO.store(0, Ordering::SeqCst);
    *C05_SLOWFB.lock().unwrap() = order.strip_prefix("slowfb:").map(|x| {
        let (k, c) = x.split_once('.').unwrap();
        (k.parse().unwrap(), c.parse().unwrap())
    });
    *C05_SLOW.lock().unwrap() = order.strip_prefix("slow:").map(|x| {
        let (k, c) = x.split_once('.').unwrap();
        (k.parse().unwrap(), c.parse().unwrap())
    });
    *C05_SPLIT.lock().unwrap() = order.strip_prefix("split:").map(|x| {
        let (a, m) = x.split_once('.').unwrap();
        (a.parse().unwrap(), m.parse().unwrap())
    });
    *C05_RAND.lock().unwrap() = Some(Rng::new(rseed));
    let (tx, rx) = mpsc::channel();
    let (kind_s, calls_c) = (kind.to_string(), calls.to_vec());
    std::thread::spawn(move || {
        let r = guarded(|| {
            let mut out: Vec<String> = vec![];
            let mut scenes: Vec<u64> = calls_c.iter().map(|(s, _)| *s).collect();
            scenes.sort();
            scenes.dedup();
            if kind_s == "sort" {
                let mut t = Sort::new(shards, 1, 3, PositionalMetricType::IoU(0.3), 0.05, None, 1.0 / 20.0, 1.0 / 160.0);
                for (sid, ds) in &calls_c {
                    let boxes: Vec<(Universal2DBox, Option<i64>)> = ds.iter().map(|d| (cbox(d), None)).collect();
                    let r = t.predict_with_scene(*sid, &boxes);
                    out.push(r.iter().map(enc_sort_track).collect::<Vec<_>>().join(";"));
                }
                out.extend(c05_final_sort(&mut t, &scenes));
            } else {
                let mut t = VisualSort::new(shards, &c05_visual_opts());
                for (sid, ds) in &calls_c {
                    let obs: Vec<VisualSortObservation> =
                        ds.iter().map(|d| VisualSortObservation::new(d.feat.as_deref(), Some(0.9), cbox(d), None)).collect();
                    let r = t.predict_with_scene(*sid, &obs);
                    out.push(r.iter().map(enc_sort_track).collect::<Vec<_>>().join(";"));
                }
                out.extend(c05_final_visual(&mut t, &scenes));
            }
            out
        });
        let _ = tx.send(r);
    });
    let mut status = String::from("ok");
    let mut recs = String::new();
    match rx.recv_timeout(Duration::from_secs(300)) {
        Ok(Some(out)) => recs = out.join("/"),
        Ok(None) => status = "panic".into(),
        Err(_) => status = "hang".into(),
    }
    if let Some(h) = C05_HELPER.lock().unwrap().take() {
        let _ = h.join();
    }
    if let Some(e) = g.take_error() {
        status = format!("stuck:{}", e.replace(' ', "_"));
    }
    g.open();
    C05_SHARDS.store(0, Ordering::SeqCst);
    println!(
        "c05 kind={} hist={} S={} order={} margin={} calls={} recs={} trace={} status={}",
        kind,
        hist_id,
        shards,
        order,
        margin,
        calls.len(),
        recs,
        C05_TRACE.lock().unwrap().join("|"),
        status
    );
    if status == "hang" {
        use std::io::Write;
        std::io::stdout().flush().unwrap();
        std::process::exit(3);
    }
}

fn permutations(n: usize) -> Vec<Vec<u64>> {
    fn go(cur: &mut Vec<u64>, used: &mut Vec<bool>, out: &mut Vec<Vec<u64>>) {
        if cur.len() == used.len() {
            out.push(cur.clone());
            return;
        }
        for k in 0..used.len() {
            if !used[k] {
                used[k] = true;
                cur.push(k as u64);
                go(cur, used, out);
                cur.pop();
                used[k] = false;
            }
        }
    }
    let mut out = vec![];
    go(&mut vec![], &mut vec![false; n], &mut out);
    out
}

/// One scene with `nobj` well separated objects (a grid with 100 px pitch, 1-2 px of motion per frame, every object
/// detected in every frame): the tracker issues more than 256 ids in the first frame and CONTINUES the tracks with
/// large ids in the later frames, so every shard count must route ids >= 256 consistently.
fn gen_c05_crowd(rng: &mut Rng, visual: bool, nobj: usize, frames: usize) -> (Vec<Call>, i64) {
    let cols = 24usize;
    let vel: Vec<(f32, f32)> = (0..nobj).map(|_| (rng.dyadic(-4, 4, 2), rng.dyadic(-4, 4, 2))).collect();
    let mut calls = vec![];
    for f in 0..frames {
        let mut ds: Vec<CDet> = (0..nobj)
            .map(|j| CDet {
                x: 100.0 * (j % cols) as f32 + vel[j].0 * f as f32,
                y: 100.0 * (j / cols) as f32 + vel[j].1 * f as f32,
                aspect: 0.625,
                h: 32.0,
                conf: 1.0,
                feat: if visual {
                    let serial = (f * nobj + j) as u32;
                    Some(vec![3.0 * (j % cols) as f32 + (serial % 251) as f32 / 1021.0, 3.0 * (j / cols) as f32 + (serial % 241) as f32 / 2039.0])
                } else {
                    None
                },
            })
            .collect();
        rng.shuffle(&mut ds);
        calls.push((5u64, ds));
    }
    // own IoU after 1 px of motion in each axis is > 0.9, every other box is at least 96 px away
    (calls, 600)
}

/// Appearance contest (VisualSort): tracks A, B, C, D are created in this order (ids 1..4, so A and B live in
/// different shards for every shard count >= 2) and collect two features each. In the last frame, in this candidate
/// order: dA (A's own detection, feature distances ~0.05 to A's gallery), dB (B's detection whose look has drifted:
/// distances ~0.9 to B's gallery, the largest distances of the stream), dL (a look-alike at a new place: distances
/// ~0.3 to A's gallery). dA and dL both claim A with two votes each; by the sum of (global max - distance) dA wins by
/// a wide margin (no tie), dL starts a new track. The shard of B delivers the large distances before, between or
/// after the two claims depending on the forced order. A fifth, still immature track Y (no feature distances) is the
/// first candidate of that frame: mixed visual maturity, with the feature-less group leading the stream or not
/// depending on which shard delivers first.
fn gen_c05_contest(rng: &mut Rng) -> (Vec<Call>, i64) {
    let e = |rng: &mut Rng| rng.dyadic(0, 8, 9); // < 0.016
    let pos = [(0.0f32, 0.0f32), (300.0, 0.0), (0.0, 300.0), (300.0, 300.0)];
    let look = [(0.0f32, 0.0f32), (10.0, 0.0), (20.0, 0.0), (30.0, 0.0)];
    let mk = |x: f32, y: f32, fx: f32, fy: f32| CDet { x, y, aspect: 0.625, h: 32.0, conf: 1.0, feat: Some(vec![fx, fy]) };
    let mut calls = vec![];
    // Y enters one frame later (id 5): in the last frame it is still too young for appearance matching, so its
    // record group carries no feature distance - and it is the FIRST candidate of that frame
    let (ypos, ylook) = ((600.0f32, 0.0f32), (40.0f32, 0.0f32));
    for f in 0..2 {
        let mut ds: Vec<CDet> = (0..4)
            .map(|j| mk(pos[j].0 + f as f32, pos[j].1 + 0.5 * f as f32, look[j].0 + 0.02 * f as f32 + e(rng), look[j].1 + 0.01 * f as f32 + e(rng)))
            .collect();
        if f == 1 {
            ds.push(mk(ypos.0, ypos.1, ylook.0 + e(rng), ylook.1));
        }
        calls.push((5u64, ds));
    }
    let drift = 0.86 + rng.dyadic(0, 8, 8); // 0.86 .. 0.89
    let alike = 0.26 + rng.dyadic(0, 16, 8); // 0.26 .. 0.32
    let ds = vec![
        mk(ypos.0 + 1.0, ypos.1 + 0.5, ylook.0 + 0.03 + e(rng), ylook.1),
        mk(pos[0].0 + 2.0, pos[0].1 + 1.0, look[0].0 + 0.05 + e(rng), look[0].1),
        mk(pos[1].0 + 2.0, pos[1].1 + 1.0, look[1].0 + drift, look[1].1),
        mk(150.0, 150.0, look[0].0 + e(rng), look[0].1 + alike),
        mk(pos[2].0 + 2.0, pos[2].1 + 1.0, look[2].0 + 0.04 + e(rng), look[2].1),
        mk(pos[3].0 + 2.0, pos[3].1 + 1.0, look[3].0 + 0.04 + e(rng), look[3].1),
    ];
    calls.push((5u64, ds));
    (calls, 600)
}

fn gen_c05(seed: u64, n: usize, tier: &str) {
    let mut rng = Rng::new(seed ^ 0xC05);
    let thorough = tier == "thorough";
    let nh = if thorough { 4 * n } else { n };
    // appearance contests (VisualSort): the large feature distances arrive before / between / after the two claims
    let ncontest = if thorough { 8 } else { 3 };
    for i in 0..ncontest {
        let (calls, margin) = gen_c05_contest(&mut rng);
        let h = 2000 + i;
        for _ in 0..4 {
            c05_run("visual", h, &calls, margin, 1, "free", None, 0);
        }
        for shards in 1..=4usize {
            let a = (1 % shards) as u64; // the shard of track A (id 1)
            for m in 0..=3usize {
                c05_run("visual", h, &calls, margin, shards, &format!("split:{}.{}", a, m), None, 0);
            }
            for p in permutations(shards) {
                let name = format!("perm:{}", p.iter().map(|k| k.to_string()).collect::<Vec<_>>().join("."));
                c05_run("visual", h, &calls, margin, shards, &name, Some(p), 0);
            }
            let rs = 1 + rng.below(1 << 30);
            c05_run("visual", h, &calls, margin, shards, &format!("rand:{}", rs), None, rs);
        }
    }
    // long-id histories: one per tracker kind
    for (i, kind) in ["sort", "visual"].iter().enumerate() {
        let nobj = 264 + rng.below(24) as usize;
        let (calls, margin) = gen_c05_crowd(&mut rng, *kind == "visual", nobj, if thorough { 5 } else { 3 });
        let h = 1000 + i;
        for shards in 1..=8usize {
            c05_run(kind, h, &calls, margin, shards, "free", None, 0);
        }
        c05_run(kind, h, &calls, margin, 3, "perm:2.0.1", Some(vec![2, 0, 1]), 0);
        if thorough {
            c05_run(kind, h, &calls, margin, 5, "rand:7", None, 7);
        }
    }
    for h in 0..nh {
        let kind = if h % 2 == 1 { "visual" } else { "sort" };
        // a history whose margin is too small is the generator's failure, not the implementation's: draw again
        let (mut calls, mut margin) = gen_c05_history(&mut rng, kind == "visual");
        let mut redrawn = 0;
        while margin < 100 {
            redrawn += 1;
            let g = gen_c05_history(&mut rng, kind == "visual");
            calls = g.0;
            margin = g.1;
        }
        if redrawn > 0 {
            println!("c05skip hist={} redrawn={}", h, redrawn);
        }
        // the reference is run several times: if a sequential one-shard tracker answers differently on identical
        // input, the history contains an exact tie and is skipped by the driver
        for _ in 0..4 {
            c05_run(kind, h, &calls, margin, 1, "free", None, 0);
        }
        // a worker that is merely late (held for 1.6 s while the caller already waits) must not change anything
        if h < 2 || (thorough && h < 8) {
            let shards = 2 + (h % 2);
            let at = 2.min(calls.len() - 1);
            c05_run(kind, h, &calls, margin, shards, &format!("slow:{}.{}", shards - 1, at), Some((0..shards as u64).collect()), 0);
            // ... nor may a worker that is late in answering find_usable: the last collection of expired tracks of
            // the main store (the one inside the final wasted()) comes after one skip_epochs per scene
            let nscenes = {
                let mut v: Vec<u64> = calls.iter().map(|(s, _)| *s).collect();
                v.sort();
                v.dedup();
                v.len()
            };
            c05_run(kind, h, &calls, margin, shards, &format!("slowfb:{}.{}", shards - 1, nscenes), Some((0..shards as u64).collect()), 0);
        }
        for shards in 1..=8usize {
            if shards <= 3 {
                for p in permutations(shards) {
                    let name = format!("perm:{}", p.iter().map(|k| k.to_string()).collect::<Vec<_>>().join("."));
                    c05_run(kind, h, &calls, margin, shards, &name, Some(p), 0);
                }
            } else {
                // a random permutation (shard-major) ...
                let mut p: Vec<u64> = (0..shards as u64).collect();
                rng.shuffle(&mut p);
                let name = format!("perm:{}", p.iter().map(|k| k.to_string()).collect::<Vec<_>>().join("."));
                c05_run(kind, h, &calls, margin, shards, &name, Some(p), 0);
            }
            // ... and fully random command-level finishing orders
            let reps = if thorough { 3 } else { 1 };
            for _ in 0..reps {
                let rs = 1 + rng.below(1 << 30);
                c05_run(kind, h, &calls, margin, shards, &format!("rand:{}", rs), None, rs);
            }
        }
    }
}

fn main() {
    quiet_panics();
    let a = parse_args();
    install_hook();
    match a.cmd.as_str() {
        "c10" => gen_c10(a.seed, a.n, &a.tier),
        "c05" => {
            install_c05_hook();
            gen_c05(a.seed, a.n, &a.tier)
        }
        "c10replay" => replay_c10(a.file.as_deref().expect("--file")),
        "count" => {
            for (s, c) in [(1, 1), (1, 2), (2, 1), (2, 2)] {
                println!("S={} C={} schedules={}", s, c, all_schedules(s, c).len());
            }
        }
        _ => {
            eprintln!("usage: sched c10|c10replay|c05|c05replay [--seed S] [--n N] [--tier T] [--file F]");
            std::process::exit(2);
        }
    }
}
