//! Schedule forcing for the sharded track store (C10) and the simple trackers (C05).
//!
//! C10 (`sched c10 --seed S --n N --tier T`, `sched c10replay --file F`): the REAL `TrackStore` with a
//! scripted attribute/metric algebra (the same one as `DistInst` in coq/theories/Model/DistProto.v) is driven
//! through prescribed interleavings of the caller's enqueue steps (`store_distances_enqueued`) and the
//! workers' commands (`store_distances_begin/end`, gated). One line per run:
//!   run kind=<foreign|owned> S=<shards> cls=<c> ob=<0|1> store=<tracks> cands=<tracks|ids> sched=<tokens>
//!       recv=<0|1|2> mode=<gated|free> ok=<from:to:am:fd,..> err=<from:to:cls,..> other_err=<n>
//!       after=<tracks> log=<events> status=<ok|stuck:..|hang:..|panic>
//! tracks: `id:grp:status:cls=v.v/cls=v` joined by `,`; schedule tokens: E<k> (caller enqueues on shard k),
//! X<k> (worker k executes its next command), R (the query call returns to the caller).
//!
//! C05 (`sched c05 ...`): see the second half of this file.
#[path = "../sched_util.rs"]
mod sched_util;

use anyhow::Result;
use sched_util::*;
use similari::prelude::*;
use similari::track::{
    MetricOutput, MetricQuery, NoopLookup, Observation, ObservationMetric, ObservationMetricOk,
    ObservationsDb, Track, TrackAttributes, TrackAttributesUpdate, TrackStatus,
};
use similari::store::TrackStore;
use similari::Errors;
use similari_verif_harness::*;
use std::sync::{mpsc, Arc, Mutex, OnceLock};
use std::time::Duration;

// ---------------------------------------------------------------------------------------------------------
// scripted algebra (mirror of DistInst)

#[derive(Clone, Debug, Default)]
struct TA {
    grp: u64,
    status: u64,
}

#[derive(Clone, Debug, Default)]
struct TAUpd;

impl TrackAttributesUpdate<TA> for TAUpd {
    fn apply(&self, _attrs: &mut TA) -> Result<()> {
        Ok(())
    }
}

impl TrackAttributes<TA, f32> for TA {
    type Update = TAUpd;
    type Lookup = NoopLookup<TA, f32>;

    fn compatible(&self, other: &TA) -> bool {
        other.grp != (self.grp + 1) % 3
    }

    fn merge(&mut self, _other: &TA) -> Result<()> {
        Ok(())
    }

    fn baked(&self, _observations: &ObservationsDb<f32>) -> Result<TrackStatus> {
        match self.status {
            0 => Ok(TrackStatus::Pending),
            1 => Ok(TrackStatus::Ready),
            2 => Ok(TrackStatus::Wasted),
            _ => Err(anyhow::anyhow!("scripted baked failure")),
        }
    }
}

#[derive(Clone, Debug, Default)]
struct M {
    pp: bool,
}

impl ObservationMetric<TA, f32> for M {
    fn metric(&self, mq: &MetricQuery<'_, TA, f32>) -> MetricOutput<f32> {
        let a = mq.candidate_observation.attr().unwrap() as u64;
        let b = mq.track_observation.attr().unwrap() as u64;
        let fd = if (a * b) % 2 == 0 { Some(a as f32) } else { None };
        match (a + b) % 4 {
            0 => None,
            1 => Some((None, fd)),
            _ => Some((Some((16 * a + b + mq.feature_class) as f32), fd)),
        }
    }

    fn optimize(
        &mut self,
        _feature_class: u64,
        _merge_history: &[u64],
        _attrs: &mut TA,
        _features: &mut Vec<Observation<f32>>,
        _prev_length: usize,
        _is_merge: bool,
    ) -> Result<()> {
        Ok(())
    }

    fn postprocess_distances(&self, unfiltered: Vec<ObservationMetricOk<f32>>) -> Vec<ObservationMetricOk<f32>> {
        if self.pp {
            unfiltered.into_iter().filter(|r| r.attribute_metric.is_some()).collect()
        } else {
            unfiltered
        }
    }
}

type Trk = Track<TA, M, f32, NoopNotifier>;
type Store = TrackStore<TA, M, f32, NoopNotifier>;

#[derive(Clone, Debug)]
struct TrackSpec {
    id: u64,
    grp: u64,
    status: u64,
    obs: Vec<(u64, Vec<u64>)>,
}

impl TrackSpec {
    fn enc(&self) -> String {
        let o: Vec<String> = self
            .obs
            .iter()
            .map(|(c, vs)| format!("{}={}", c, vs.iter().map(|v| v.to_string()).collect::<Vec<_>>().join(".")))
            .collect();
        format!("{}:{}:{}:{}", self.id, self.grp, self.status, o.join("/"))
    }

    fn dec(s: &str) -> TrackSpec {
        let p: Vec<&str> = s.split(':').collect();
        let mut obs = vec![];
        if p.len() > 3 && !p[3].is_empty() {
            for c in p[3].split('/') {
                let (k, v) = c.split_once('=').unwrap();
                obs.push((k.parse().unwrap(), v.split('.').filter(|x| !x.is_empty()).map(|x| x.parse().unwrap()).collect()));
            }
        }
        TrackSpec { id: p[0].parse().unwrap(), grp: p[1].parse().unwrap(), status: p[2].parse().unwrap(), obs }
    }

    fn build(&self) -> Trk {
        let mut b = TrackBuilder::new(self.id)
            .attributes(TA { grp: self.grp, status: self.status })
            .metric(M { pp: self.grp == 2 })
            .notifier(NoopNotifier);
        for (c, vs) in &self.obs {
            for v in vs {
                b = b.observation(ObservationBuilder::new(*c).observation_attributes(*v as f32).build());
            }
        }
        b.build().unwrap()
    }
}

fn enc_tracks(ts: &[TrackSpec]) -> String {
    ts.iter().map(|t| t.enc()).collect::<Vec<_>>().join(",")
}

fn dec_tracks(s: &str) -> Vec<TrackSpec> {
    s.split(',').filter(|x| !x.is_empty()).map(TrackSpec::dec).collect()
}

fn dump_store(store: &Store, shards: usize) -> String {
    let mut all: Vec<(u64, String)> = vec![];
    for k in 0..shards {
        let sh = store.get_store(k);
        for (id, t) in sh.iter() {
            let mut classes = t.get_feature_classes();
            classes.sort();
            let obs: Vec<(u64, Vec<u64>)> = classes
                .iter()
                .map(|c| (*c, t.get_observations(*c).unwrap().iter().map(|o| o.attr().unwrap() as u64).collect()))
                .collect();
            let a = t.get_attributes();
            let spec = TrackSpec { id: t.get_track_id(), grp: a.grp, status: a.status, obs };
            // the shard the track was found in is part of the dump: k must be id mod shards
            all.push((*id, format!("{}@{}", spec.enc(), k)));
        }
    }
    all.sort();
    all.into_iter().map(|x| x.1).collect::<Vec<_>>().join(",")
}

// ---------------------------------------------------------------------------------------------------------
// scheduler glue

static GATES: OnceLock<Arc<Gates>> = OnceLock::new();
static PLAN: Mutex<Option<Arc<Plan>>> = Mutex::new(None);
const STEP_TIMEOUT: Duration = Duration::from_secs(20);
const RECV_TIMEOUT: Duration = Duration::from_secs(20);

fn gates() -> &'static Arc<Gates> {
    GATES.get_or_init(Gates::new)
}

/// what the caller thread does inside the i-th `store_distances_enqueued` hook (1-based)
struct Plan {
    after_enq: Vec<Vec<u64>>,
}

fn exec_worker(k: u64) -> Result<(), String> {
    let g = gates();
    let done = g.count(("dist_end", k));
    if !g.wait_parked(("dist", k), STEP_TIMEOUT) {
        return Err(format!("worker {} never received the expected command", k));
    }
    g.grant(("dist", k));
    if !g.wait_count(("dist_end", k), done + 1, STEP_TIMEOUT) {
        return Err(format!("worker {} did not finish its command", k));
    }
    Ok(())
}

fn install_hook() {
    let g = gates().clone();
    similari::verif_hooks::set_hook(Some(Arc::new(move |site: &'static str, arg: u64| {
        g.log(site, arg);
        match site {
            "store_distances_begin" => g.arrive_and_wait(("dist", arg), "gate_passed"),
            "store_distances_end" => {
                g.signal(("dist_end", arg));
            }
            "store_distances_enqueued" => {
                let i = g.signal(("enq", 0));
                let plan = PLAN.lock().unwrap().clone();
                if let Some(plan) = plan {
                    if let Some(seg) = plan.after_enq.get(i - 1) {
                        for k in seg {
                            if let Err(e) = exec_worker(*k) {
                                g.set_error(e);
                                break;
                            }
                        }
                    }
                }
            }
            "owned_query_copied" => {
                g.signal(("copied", 0));
            }
            _ => {}
        }
    })));
}

// ---------------------------------------------------------------------------------------------------------
// one run

#[derive(Clone, Debug)]
struct Case {
    kind: String, // foreign | owned
    shards: usize,
    cls: u64,
    ob: bool,
    store: Vec<TrackSpec>,
    cands: Vec<TrackSpec>, // foreign
    ids: Vec<u64>,         // owned
    sched: Vec<String>,    // tokens E<k> X<k> R ; empty + mode free = free running
    recv: u8,
    gated: bool,
}

fn enc_am(x: &Option<f32>) -> String {
    match x {
        Some(v) => format!("{}", *v as i64),
        None => "n".into(),
    }
}

fn run_case(c: &Case) {
    let g = gates();
    g.reset(c.gated);
    // split the schedule: segments after each E, and the post-return part
    let mut after_enq: Vec<Vec<u64>> = vec![];
    let mut post: Vec<u64> = vec![];
    let mut returned = false;
    for tok in &c.sched {
        if tok == "R" {
            returned = true;
        } else if let Some(_k) = tok.strip_prefix('E') {
            after_enq.push(vec![]);
        } else if let Some(k) = tok.strip_prefix('X') {
            let k: u64 = k.parse().unwrap();
            if returned || after_enq.is_empty() {
                post.push(k);
            } else {
                after_enq.last_mut().unwrap().push(k);
            }
        }
    }
    *PLAN.lock().unwrap() = if c.gated { Some(Arc::new(Plan { after_enq })) } else { None };

    let mut status = String::from("ok");
    let mut ok_s = String::new();
    let mut err_s = String::new();
    let mut other_err = 0usize;
    let mut after = String::new();
    let outcome = guarded(|| {
        let mut store: Store = TrackStoreBuilder::new(c.shards)
            .default_attributes(TA::default())
            .metric(M::default())
            .notifier(NoopNotifier)
            .build();
        for t in &c.store {
            store.add_track(t.build()).unwrap();
        }
        let (ok, err) = if c.kind == "foreign" {
            store.foreign_track_distances(c.cands.iter().map(|t| t.build()).collect(), c.cls, c.ob)
        } else {
            store.owned_track_distances(&c.ids, c.cls, c.ob)
        };
        // the caller's receives run on helper threads so that a missing chunk becomes a reported hang
        let (tx_ok, rx_ok) = mpsc::channel();
        let (tx_err, rx_err) = mpsc::channel();
        let recv = c.recv;
        let spawn_receivers = move || {
            std::thread::spawn(move || {
                let v: Vec<ObservationMetricOk<f32>> = if recv == 2 { ok.into_iter().collect() } else { ok.all() };
                let _ = tx_ok.send(v);
            });
            std::thread::spawn(move || {
                let v: Vec<Result<Vec<ObservationMetricOk<f32>>>> = if recv == 2 { err.into_iter().collect() } else { err.all() };
                let _ = tx_err.send(v);
            });
        };
        let mut spawn_receivers = Some(spawn_receivers);
        if c.recv == 1 {
            (spawn_receivers.take().unwrap())();
        }
        if c.gated {
            for k in &post {
                if g.take_error().is_some() {
                    break;
                }
                if let Err(e) = exec_worker(*k) {
                    g.set_error(e);
                    break;
                }
            }
        }
        if let Some(e) = g.take_error() {
            status = format!("stuck:{}", e.replace(' ', "_"));
        }
        if let Some(f) = spawn_receivers.take() {
            f();
        }
        match rx_ok.recv_timeout(RECV_TIMEOUT) {
            Ok(v) => {
                ok_s = v
                    .iter()
                    .map(|r| format!("{}:{}:{}:{}", r.from, r.to, enc_am(&r.attribute_metric), enc_am(&r.feature_distance)))
                    .collect::<Vec<_>>()
                    .join(",");
            }
            Err(_) => {
                if status == "ok" {
                    status = "hang:ok_stream_never_completes".into();
                }
            }
        }
        match rx_err.recv_timeout(if status == "ok" { RECV_TIMEOUT } else { Duration::from_millis(200) }) {
            Ok(v) => {
                let mut items = vec![];
                for e in v {
                    match e {
                        Err(e) => match e.downcast_ref::<Errors>() {
                            Some(Errors::ObservationForClassNotFound(a, b, cl)) => items.push(format!("{}:{}:{}", a, b, cl)),
                            _ => other_err += 1,
                        },
                        Ok(_) => other_err += 1,
                    }
                }
                err_s = items.join(",");
            }
            Err(_) => {
                if status == "ok" {
                    status = "hang:err_stream_never_completes".into();
                }
            }
        }
        after = dump_store(&store, c.shards);
        g.open();
        drop(store);
    });
    if outcome.is_none() {
        status = "panic".into();
        g.open();
    }
    *PLAN.lock().unwrap() = None;
    let log: Vec<String> = g
        .take_log()
        .iter()
        .filter_map(|e| {
            let s = match e.site {
                "store_distances_begin" => "b",
                "gate_passed" => "g",
                "store_distances_end" => "e",
                "store_distances_enqueued" => "q",
                "owned_query_copied" => "c",
                _ => return None,
            };
            Some(format!("{}{}@{}", s, e.arg, e.thread))
        })
        .collect();
    println!(
        "run kind={} S={} cls={} ob={} store={} cands={} sched={} recv={} mode={} ok={} err={} other_err={} after={} log={} status={}",
        c.kind,
        c.shards,
        c.cls,
        c.ob as u8,
        enc_tracks(&c.store),
        if c.kind == "foreign" { enc_tracks(&c.cands) } else { c.ids.iter().map(|x| x.to_string()).collect::<Vec<_>>().join(",") },
        c.sched.join("."),
        c.recv,
        if c.gated { "gated" } else { "free" },
        ok_s,
        err_s,
        other_err,
        after,
        log.join("."),
        status
    );
    if status.starts_with("hang") {
        // a receiver thread is blocked for good; stop here, the driver reports the run above
        use std::io::Write;
        std::io::stdout().flush().unwrap();
        std::process::exit(3);
    }
}

// ---------------------------------------------------------------------------------------------------------
// generation

fn gen_track(rng: &mut Rng, id: u64, rich: bool) -> TrackSpec {
    let grp = rng.below(3);
    let status = if rng.chance(3, 5) { 1 } else { rng.below(4) };
    let mut obs = vec![];
    for cls in 0..3u64 {
        let p = if cls == 0 { (4, 5) } else { (2, 5) };
        if rng.chance(p.0, p.1) {
            let n = 1 + rng.below(if rich { 3 } else { 2 });
            obs.push((cls, (0..n).map(|_| rng.below(8)).collect()));
        }
    }
    if rng.chance(1, 10) {
        obs.clear(); // a track with no observations at all
    }
    TrackSpec { id, grp, status, obs }
}

fn gen_store(rng: &mut Rng, n: usize, idmax: u64) -> Vec<TrackSpec> {
    let mut ids: Vec<u64> = (1..=idmax).collect();
    rng.shuffle(&mut ids);
    ids.truncate(n);
    ids.iter().map(|id| gen_track(rng, *id, true)).collect()
}

/// all interleavings of the caller's enqueues (fixed order), the workers' commands and the return point
fn all_schedules(shards: usize, cands: usize) -> Vec<Vec<String>> {
    fn go(i: usize, total: usize, shards: usize, q: &mut Vec<usize>, r: bool, cur: &mut Vec<String>, out: &mut Vec<Vec<String>>) {
        if i == total && r && q.iter().all(|x| *x == 0) {
            out.push(cur.clone());
            return;
        }
        if i < total && !r {
            let k = i % shards;
            q[k] += 1;
            cur.push(format!("E{}", k));
            go(i + 1, total, shards, q, r, cur, out);
            cur.pop();
            q[k] -= 1;
        }
        for k in 0..shards {
            if q[k] > 0 {
                q[k] -= 1;
                cur.push(format!("X{}", k));
                go(i, total, shards, q, r, cur, out);
                cur.pop();
                q[k] += 1;
            }
        }
        if i == total && !r {
            cur.push("R".into());
            go(i, total, shards, q, true, cur, out);
            cur.pop();
        }
    }
    let mut out = vec![];
    go(0, shards * cands, shards, &mut vec![0; shards], false, &mut vec![], &mut out);
    out
}

fn random_schedule(rng: &mut Rng, shards: usize, cands: usize) -> Vec<String> {
    let total = shards * cands;
    let mut q = vec![0usize; shards];
    let mut i = 0;
    let mut r = false;
    let mut out = vec![];
    loop {
        let mut opts: Vec<String> = vec![];
        if i < total && !r {
            opts.push("E".into());
            opts.push("E".into());
        }
        for k in 0..shards {
            if q[k] > 0 {
                opts.push(format!("X{}", k));
            }
        }
        if i == total && !r {
            opts.push("R".into());
        }
        if opts.is_empty() {
            break;
        }
        let o = rng.pick(&opts).clone();
        if o == "E" {
            let k = i % shards;
            q[k] += 1;
            i += 1;
            out.push(format!("E{}", k));
        } else if o == "R" {
            r = true;
            out.push(o);
        } else {
            let k: usize = o[1..].parse().unwrap();
            q[k] -= 1;
            out.push(o);
        }
    }
    out
}

fn owned_cand_count(store: &[TrackSpec], ids: &[u64]) -> usize {
    ids.iter().filter(|id| store.iter().any(|t| t.id == **id)).count()
}

fn gen_c10(seed: u64, n: usize, tier: &str) {
    let mut rng = Rng::new(seed);
    let thorough = tier == "thorough";
    // (a) exhaustive small scope: <= 2 shards, <= 2 candidates, every interleaving
    let small = if thorough { 3 * n } else { n };
    for si in 0..small {
        let shards = 1 + (si % 2);
        let ncand = 1 + ((si / 2) % 2);
        let owned = si % 3 == 2;
        let nst = 2 + rng.below(3) as usize;
        let store = gen_store(&mut rng, nst, 6);
        let cls = if rng.chance(3, 4) { 0 } else { rng.below(3) };
        let ob = rng.chance(1, 2);
        let mut case = Case { kind: "foreign".into(), shards, cls, ob, store: store.clone(), cands: vec![], ids: vec![], sched: vec![], recv: 0, gated: true };
        let ccount;
        if owned {
            case.kind = "owned".into();
            let mut ids: Vec<u64> = store.iter().map(|t| t.id).collect();
            rng.shuffle(&mut ids);
            ids.truncate(ncand);
            if rng.chance(1, 6) {
                ids.push(99); // an id that is not stored
            }
            ccount = owned_cand_count(&store, &ids);
            case.ids = ids;
        } else {
            for j in 0..ncand {
                // a foreign candidate; now and then it carries the id of a stored track
                let id = if rng.chance(1, 4) { store[rng.below(store.len() as u64) as usize].id } else { 20 + j as u64 };
                case.cands.push(gen_track(&mut rng, id, true));
            }
            ccount = ncand;
        }
        let scheds = all_schedules(shards, ccount);
        for (j, s) in scheds.iter().enumerate() {
            case.sched = s.clone();
            case.recv = ((j + si) % 3) as u8;
            run_case(&case);
        }
    }
    // (b) larger, randomised: 1..4 shards, up to 4 candidates, random interleavings
    let big = if thorough { 40 * n } else { 6 * n };
    for bi in 0..big {
        let shards = 1 + rng.below(4) as usize;
        let nst = rng.below(8) as usize;
        let store = gen_store(&mut rng, nst, 12);
        let cls = if rng.chance(3, 4) { 0 } else { rng.below(3) };
        let ob = rng.chance(1, 2);
        let mut case = Case { kind: "foreign".into(), shards, cls, ob, store: store.clone(), cands: vec![], ids: vec![], sched: vec![], recv: (bi % 3) as u8, gated: true };
        let ccount;
        if bi % 2 == 1 && !store.is_empty() {
            case.kind = "owned".into();
            let mut ids: Vec<u64> = store.iter().map(|t| t.id).collect();
            rng.shuffle(&mut ids);
            ids.truncate(1 + rng.below(4) as usize);
            if rng.chance(1, 5) {
                let d = ids[0];
                ids.push(d); // the same id twice
            }
            ccount = owned_cand_count(&store, &ids);
            case.ids = ids;
        } else {
            let nc = rng.below(5) as usize;
            for j in 0..nc {
                let id = if !store.is_empty() && rng.chance(1, 4) { store[rng.below(store.len() as u64) as usize].id } else { 20 + j as u64 };
                case.cands.push(gen_track(&mut rng, id, true));
            }
            ccount = nc;
        }
        case.sched = random_schedule(&mut rng, shards, ccount);
        run_case(&case);
    }
    // (c) free running (no gates): large owned batches - every queried track must meet every other one
    let free = if thorough { 4 * n } else { n };
    for _ in 0..free {
        let shards = 1 + rng.below(4) as usize;
        let nt = 16 + rng.below(9) as usize;
        let store: Vec<TrackSpec> = (1..=nt as u64)
            .map(|id| TrackSpec { id, grp: 0, status: 1, obs: vec![(0, vec![1 + (id % 2), 2])] })
            .collect();
        let mut ids: Vec<u64> = store.iter().map(|t| t.id).collect();
        rng.shuffle(&mut ids);
        ids.truncate(12);
        let case = Case { kind: "owned".into(), shards, cls: 0, ob: rng.chance(1, 2), store, cands: vec![], ids, sched: vec![], recv: 0, gated: false };
        run_case(&case);
    }
}

fn replay_c10(path: &str) {
    let txt = std::fs::read_to_string(path).unwrap();
    for line in txt.lines() {
        if line.trim().is_empty() {
            continue;
        }
        let mut m = std::collections::HashMap::new();
        for tok in line.split_whitespace() {
            if let Some((k, v)) = tok.split_once('=') {
                m.insert(k.to_string(), v.to_string());
            }
        }
        let kind = m.get("kind").cloned().unwrap_or("foreign".into());
        let store = dec_tracks(m.get("store").map(|s| s.as_str()).unwrap_or(""));
        let cs = m.get("cands").cloned().unwrap_or_default();
        let case = Case {
            kind: kind.clone(),
            shards: m.get("S").map(|x| x.parse().unwrap()).unwrap_or(1),
            cls: m.get("cls").map(|x| x.parse().unwrap()).unwrap_or(0),
            ob: m.get("ob").map(|x| x == "1").unwrap_or(false),
            store,
            cands: if kind == "foreign" { dec_tracks(&cs) } else { vec![] },
            ids: if kind == "owned" { cs.split(',').filter(|x| !x.is_empty()).map(|x| x.parse().unwrap()).collect() } else { vec![] },
            sched: m.get("sched").map(|s| s.split('.').filter(|x| !x.is_empty()).map(|x| x.to_string()).collect()).unwrap_or_default(),
            recv: m.get("recv").map(|x| x.parse().unwrap()).unwrap_or(0),
            gated: m.get("mode").map(|x| x == "gated").unwrap_or(true),
        };
        run_case(&case);
    }
}

fn main() {
    quiet_panics();
    let a = parse_args();
    install_hook();
    match a.cmd.as_str() {
        "c10" => gen_c10(a.seed, a.n, &a.tier),
        "c10replay" => replay_c10(a.file.as_deref().expect("--file")),
        "count" => {
            for (s, c) in [(1, 1), (1, 2), (2, 1), (2, 2)] {
                println!("S={} C={} schedules={}", s, c, all_schedules(s, c).len());
            }
        }
        _ => {
            eprintln!("usage: sched c10|c10replay|c05|c05replay [--seed S] [--n N] [--tier T] [--file F]");
            std::process::exit(2);
        }
    }
}
