//! C17 / C02: the three voting engines and positional association, run on the REAL code.
//!
//! Sub-commands
//!   gen --seed S --n N --tier quick|thorough     random + boundary + permutation families + exhaustive SortVoting family
//!   e2e --seed S --n N                            histories through the real Sort::predict (IoU and Mahalanobis)
//!   replay --file F                               re-run stored inputs (same record syntax as printed, without results)
//!
//! One record per line, `kind key=value ...` (no blanks inside a value):
//!   topn    n=<N> maxd=<f32 bits> minv=<m> s=<from:to:feat,...>            r=<q/t:w,t:w;q/...>   (w = f64 bits; `-` = empty)
//!   bestfit maxd= minv= s=                                                  r=
//!   sortv   thr=<f32 bits> n=<candidates_num> cols=<tracks_num> s=<from:to:attr,...>  z=<i64,...> thrz=<i64> r=<from:to;...>|PANIC
//!   perm    kind=<topn|bestfit|sortv> <params> s=<base stream> r=<base result> nperm=<k> alt=<stream>@<result>|...
//!           (all permutations of the base stream were run; `alt` lists every result different from the base one with a witness)
//!   exh     shape=<nd>x<nt> grid=<k> total=<count> fail=<count>          exhaustive SortVoting family checked by the in-harness oracle
//!   e2ehist / e2e                                                           see fn run_history
//! feat/attr are f32 bit patterns or `-` for None.
use similari::prelude::{PositionalMetricType, Sort, Universal2DBox};
use similari::track::{ObservationAttributes, ObservationMetricOk};
use similari::trackers::sort::batch_api::{BatchSort, SortPredictionBatchRequest};
use similari::trackers::sort::voting::SortVoting;
use similari::trackers::sort::VotingType;
use similari::trackers::visual_sort::observation_attributes::VisualObservationAttributes;
use similari::trackers::visual_sort::voting::VisualVoting;
use similari::utils::kalman::kalman_2d_box::Universal2DBoxKalmanFilter;
use similari::utils::kalman::KalmanState;
use similari::voting::best::BestFitVoting;
use similari::voting::topn::{TopNVoting, TopNVotingElt};
use similari::voting::Voting;
use similari_verif_harness::*;
use std::collections::HashMap;

const F32_U64_MULT: f32 = 1_000_000.0;

#[derive(Clone, Debug)]
struct Ent {
    from: u64,
    to: u64,
    v: Option<f32>,
}

fn fmt_stream(s: &[Ent]) -> String {
    if s.is_empty() {
        return "-".into();
    }
    s.iter()
        .map(|e| format!("{}:{}:{}", e.from, e.to, e.v.map(f32b).unwrap_or_else(|| "-".into())))
        .collect::<Vec<_>>()
        .join(",")
}

fn parse_stream(s: &str) -> Vec<Ent> {
    if s == "-" || s.is_empty() {
        return vec![];
    }
    s.split(',')
        .map(|e| {
            let p: Vec<&str> = e.split(':').collect();
            Ent {
                from: p[0].parse().unwrap(),
                to: p[1].parse().unwrap(),
                v: if p[2] == "-" { None } else { Some(f32::from_bits(p[2].parse::<u32>().unwrap())) },
            }
        })
        .collect()
}

fn fmt_votes(r: Option<HashMap<u64, Vec<TopNVotingElt>>>) -> String {
    match r {
        None => "PANIC".into(),
        Some(m) => {
            if m.is_empty() {
                return "-".into();
            }
            let mut keys: Vec<_> = m.keys().copied().collect();
            keys.sort();
            keys.iter()
                .map(|q| {
                    let l = &m[q];
                    format!(
                        "{}/{}",
                        q,
                        l.iter()
                            .map(|e| {
                                // query_track must echo the key; encode a mismatch so that it is seen
                                if e.query_track != *q {
                                    format!("{}:{}:BADQ{}", e.winner_track, f64b(e.weight), e.query_track)
                                } else {
                                    format!("{}:{}", e.winner_track, f64b(e.weight))
                                }
                            })
                            .collect::<Vec<_>>()
                            .join(",")
                    )
                })
                .collect::<Vec<_>>()
                .join(";")
        }
    }
}

fn feat_stream(s: &[Ent]) -> Vec<ObservationMetricOk<f32>> {
    s.iter().map(|e| ObservationMetricOk::new(e.from, e.to, None, e.v)).collect()
}

fn run_topn(n: usize, maxd: f32, minv: usize, s: &[Ent]) -> String {
    let st = feat_stream(s);
    fmt_votes(guarded(|| {
        let v: TopNVoting<f32> = TopNVoting::new(n, maxd, minv);
        v.winners(st)
    }))
}

fn run_bestfit(maxd: f32, minv: usize, s: &[Ent]) -> String {
    let st = feat_stream(s);
    fmt_votes(guarded(|| {
        let v: BestFitVoting<f32> = BestFitVoting::new(maxd, minv);
        v.winners(st)
    }))
}

fn run_sortv(thr: f32, n: usize, cols: usize, s: &[Ent]) -> String {
    let st: Vec<ObservationMetricOk<Universal2DBox>> =
        s.iter().map(|e| ObservationMetricOk::new(e.from, e.to, e.v, None)).collect();
    match guarded(|| SortVoting::new(thr, n, cols).winners(st)) {
        None => "PANIC".into(),
        Some(m) => {
            if m.is_empty() {
                return "-".into();
            }
            let mut keys: Vec<_> = m.keys().copied().collect();
            keys.sort();
            keys.iter()
                .map(|k| {
                    let v = &m[k];
                    if v.len() == 1 {
                        format!("{}:{}", k, v[0])
                    } else {
                        format!("{}:BADLEN{}", k, v.len())
                    }
                })
                .collect::<Vec<_>>()
                .join(";")
        }
    }
}

// ---- VisualVoting: entries carry both the positional metric and the feature distance
#[derive(Clone, Debug)]
struct Ent4 {
    from: u64,
    to: u64,
    a: Option<f32>,
    e: Option<f32>,
}

fn fmt_stream4(s: &[Ent4]) -> String {
    if s.is_empty() {
        return "-".into();
    }
    let o = |x: Option<f32>| x.map(f32b).unwrap_or_else(|| "-".into());
    s.iter().map(|x| format!("{}:{}:{}:{}", x.from, x.to, o(x.a), o(x.e))).collect::<Vec<_>>().join(",")
}

fn parse_stream4(s: &str) -> Vec<Ent4> {
    if s == "-" || s.is_empty() {
        return vec![];
    }
    let o = |x: &str| if x == "-" { None } else { Some(f32::from_bits(x.parse::<u32>().unwrap())) };
    s.split(',')
        .map(|e| {
            let p: Vec<&str> = e.split(':').collect();
            Ent4 { from: p[0].parse().unwrap(), to: p[1].parse().unwrap(), a: o(p[2]), e: o(p[3]) }
        })
        .collect()
}

fn run_visual(thr: f32, maxd: f32, minv: usize, s: &[Ent4]) -> String {
    let st: Vec<ObservationMetricOk<VisualObservationAttributes>> =
        s.iter().map(|x| ObservationMetricOk::new(x.from, x.to, x.a, x.e)).collect();
    match guarded(|| VisualVoting::new(thr, maxd, minv).winners(st)) {
        None => "PANIC".into(),
        Some(m) => {
            if m.is_empty() {
                return "-".into();
            }
            let mut keys: Vec<_> = m.keys().copied().collect();
            keys.sort();
            keys.iter()
                .map(|k| {
                    let v = &m[k];
                    if v.len() == 1 {
                        format!("{}:{}:{}", k, v[0].0, match v[0].1 { VotingType::Visual => "V", VotingType::Positional => "P" })
                    } else {
                        format!("{}:BADLEN{}", k, v.len())
                    }
                })
                .collect::<Vec<_>>()
                .join(";")
        }
    }
}

fn emit_visual(thr: f32, maxd: f32, minv: usize, s: &[Ent4]) {
    println!("visual thr={} maxd={} minv={} s={} r={}", f32b(thr), f32b(maxd), minv, fmt_stream4(s), run_visual(thr, maxd, minv, s));
}

/// nq queries x nt tracks; per pair at most one entry with a positional metric (plus feature-only entries), so that the
/// positional stage never sees a repeated pair
fn gen_visual_stream(rng: &mut Rng, nq: u64, nt: u64, thrz: i64, fine: bool) -> Vec<Ent4> {
    let mut s = vec![];
    let grid = [0, thrz - 1, thrz, thrz + 1, 2 * thrz, 2 * thrz + 1];
    for q in 0..nq {
        for t in 0..nt {
            if !rng.chance(3, 4) {
                continue;
            }
            let feat = |rng: &mut Rng| {
                if rng.chance(1, 10) {
                    None
                } else if fine {
                    Some(rng.dyadic(0, 512, 8))
                } else {
                    Some(rng.dyadic(0, 24, 4))
                }
            };
            let a = if rng.chance(1, 6) {
                None
            } else {
                let z = if rng.chance(1, 3) { *rng.pick(&grid) } else { rng.range(0, 3 * thrz) };
                Some(w_for_z(z.max(0)))
            };
            let e = if rng.chance(1, 4) { None } else { feat(rng) };
            s.push(Ent4 { from: 1000 + q, to: 1 + t, a, e });
            for _ in 0..rng.below(3) {
                let e = feat(rng);
                s.push(Ent4 { from: 1000 + q, to: 1 + t, a: None, e });
            }
        }
    }
    rng.shuffle(&mut s);
    s
}

fn zs(s: &[Ent]) -> String {
    if s.is_empty() {
        return "-".into();
    }
    s.iter().map(|e| format!("{}", (e.v.unwrap_or(0.0) * F32_U64_MULT) as i64)).collect::<Vec<_>>().join(",")
}

fn emit_topn(n: usize, maxd: f32, minv: usize, s: &[Ent]) {
    println!("topn n={} maxd={} minv={} s={} r={}", n, f32b(maxd), minv, fmt_stream(s), run_topn(n, maxd, minv, s));
}
fn emit_bestfit(maxd: f32, minv: usize, s: &[Ent]) {
    println!("bestfit maxd={} minv={} s={} r={}", f32b(maxd), minv, fmt_stream(s), run_bestfit(maxd, minv, s));
}
fn emit_sortv(thr: f32, n: usize, cols: usize, s: &[Ent]) {
    println!(
        "sortv thr={} n={} cols={} s={} z={} thrz={} r={}",
        f32b(thr),
        n,
        cols,
        fmt_stream(s),
        zs(s),
        (thr * F32_U64_MULT) as i64,
        run_sortv(thr, n, cols, s)
    );
}

/// an f32 w with (w * 1e6) as i64 == z, robustly (the product sits near z + 1/2)
fn w_for_z(z: i64) -> f32 {
    if z == 0 {
        return 0.0;
    }
    let w = ((z as f64 + 0.5) / 1e6) as f32;
    assert_eq!((w * F32_U64_MULT) as i64, z);
    w
}

// ---------------------------------------------------------------------------------------------
// generators

fn gen_vote_stream(rng: &mut Rng, fine: bool, overlap_ids: bool) -> Vec<Ent> {
    let nq = rng.range(1, 6) as usize;
    let nt = rng.range(1, 6) as usize;
    let qbase = if overlap_ids { 1 } else { 100 };
    let density = rng.range(1, 4);
    let mut s = vec![];
    for q in 0..nq {
        for t in 0..nt {
            let cnt = if rng.chance(density as u64, 4) { rng.range(0, 5) } else { 0 };
            for _ in 0..cnt {
                let v = if rng.chance(1, 12) {
                    None
                } else if fine {
                    Some(rng.dyadic(0, 512, 8))
                } else {
                    Some(rng.dyadic(0, 24, 4))
                };
                s.push(Ent { from: qbase + q as u64, to: 1 + t as u64, v });
            }
        }
    }
    rng.shuffle(&mut s);
    s
}

/// query ids and track ids from the SAME small range 1..k (matching the tracks of one store against another): query b
/// loses its best track T to the better fitting query a and falls back to itself; then a lighter claim (by c) on the
/// track whose id equals b. Plus random extra claims on a fine grid. Tie-free by construction of the core.
fn gen_overlap_bestfit(rng: &mut Rng) -> (f32, usize, Vec<Ent>) {
    let k = 3 + rng.below(3);
    let b = 1 + rng.below(k);
    let mut a = 1 + rng.below(k);
    if a == b {
        a = 1 + (a % k);
    }
    let mut t = 1 + rng.below(k);
    if t == b {
        t = 1 + (t % k);
    }
    let mut c = 1 + rng.below(k);
    if c == b && rng.chance(1, 2) {
        c = 1 + (c % k);
    }
    let mut s = vec![
        Ent { from: a, to: t, v: Some(rng.dyadic(1, 8, 6)) },
        Ent { from: b, to: t, v: Some(rng.dyadic(17, 24, 6)) },
        Ent { from: c, to: b, v: Some(rng.dyadic(33, 44, 6)) },
        // the largest distance of the stream, above max_distance
        Ent { from: 1 + rng.below(k), to: 1 + rng.below(k), v: Some(1.0) },
    ];
    for _ in 0..rng.below(4) {
        s.push(Ent { from: 1 + rng.below(k), to: 1 + rng.below(k), v: Some(rng.dyadic(1, 230, 8)) });
    }
    rng.shuffle(&mut s);
    (0.875, 1, s)
}

fn gen_maxd(rng: &mut Rng, fine: bool) -> f32 {
    match rng.below(10) {
        0 => 100.0,
        1 => -0.5,
        2 => 0.0,
        _ => {
            if fine {
                rng.dyadic(0, 512, 8)
            } else if rng.chance(1, 2) {
                rng.dyadic(0, 24, 4)
            } else {
                rng.dyadic(0, 48, 5)
            }
        }
    }
}

fn gen_sort_stream(rng: &mut Rng, thrz: i64) -> (usize, usize, Vec<Ent>) {
    let nd = rng.range(0, 8) as usize;
    let nt = rng.range(1, 8) as usize;
    let grid = [0, 1, thrz - 1, thrz, thrz + 1, 2 * thrz - 1, 2 * thrz, 2 * thrz + 1, 3 * thrz];
    let dense = rng.range(1, 4);
    let gridded = rng.chance(2, 3);
    let mut s = vec![];
    for d in 0..nd {
        for t in 0..nt {
            if !rng.chance(dense as u64, 4) {
                continue;
            }
            let reps = if rng.chance(1, 10) { 2 } else { 1 };
            for _ in 0..reps {
                let v = if rng.chance(1, 15) {
                    None
                } else {
                    let z = if gridded { *rng.pick(&grid) } else { rng.range(0, 3 * thrz) };
                    Some(w_for_z(z.max(0)))
                };
                s.push(Ent { from: 1000 + d as u64, to: 1 + t as u64, v });
            }
        }
    }
    rng.shuffle(&mut s);
    let mut froms: Vec<u64> = s.iter().map(|e| e.from).collect();
    froms.sort();
    froms.dedup();
    let mut tos: Vec<u64> = s.iter().map(|e| e.to).collect();
    tos.sort();
    tos.dedup();
    // declared sizes: usually exact or larger (detections without any pair; tracks nobody reached), rarely too small
    let n = match rng.below(20) {
        0 if !froms.is_empty() => froms.len() - 1,
        1..=8 => froms.len() + rng.range(1, 3) as usize,
        _ => froms.len(),
    };
    let cols = match rng.below(20) {
        0 if tos.len() > 1 => tos.len() - 1,
        1..=8 => tos.len() + rng.range(1, 3) as usize,
        _ => tos.len().max(1),
    };
    (n, cols, s)
}

fn permutations<T: Clone>(xs: &[T]) -> Vec<Vec<T>> {
    if xs.len() <= 1 {
        return vec![xs.to_vec()];
    }
    let mut out = vec![];
    for i in 0..xs.len() {
        let mut rest = xs.to_vec();
        let x = rest.remove(i);
        for mut p in permutations(&rest) {
            p.insert(0, x.clone());
            out.push(p);
        }
    }
    out
}

fn perm_family(kind: &str, params: &str, s: &[Ent], f: &dyn Fn(&[Ent]) -> String) {
    let base = f(s);
    let mut alts: Vec<(String, String)> = vec![];
    let perms = permutations(s);
    for p in &perms {
        let r = f(p);
        if r != base && !alts.iter().any(|(_, rr)| *rr == r) {
            alts.push((fmt_stream(p), r));
        }
    }
    let alt = if alts.is_empty() {
        "-".to_string()
    } else {
        alts.iter().map(|(p, r)| format!("{}@{}", p, r)).collect::<Vec<_>>().join("|")
    };
    println!("perm kind={} {} s={} r={} nperm={} alt={}", kind, params, fmt_stream(s), base, perms.len(), alt);
}

fn perm_family4(params: &str, s: &[Ent4], f: &dyn Fn(&[Ent4]) -> String) {
    let base = f(s);
    let mut alts: Vec<(String, String)> = vec![];
    let perms = permutations(s);
    for p in &perms {
        let r = f(p);
        if r != base && !alts.iter().any(|(_, rr)| *rr == r) {
            alts.push((fmt_stream4(p), r));
        }
    }
    let alt = if alts.is_empty() { "-".to_string() } else { alts.iter().map(|(p, r)| format!("{}@{}", p, r)).collect::<Vec<_>>().join("|") };
    println!("perm kind=visual {} s={} r={} nperm={} alt={}", params, fmt_stream4(s), base, perms.len(), alt);
}

fn small_vote_stream(rng: &mut Rng, len: usize) -> Vec<Ent> {
    // few queries/tracks so that entries share pairs, queries and tracks; fine grid so that most are tie-free
    let nq = rng.range(1, 3) as u64;
    let nt = rng.range(1, 3) as u64;
    (0..len)
        .map(|_| Ent {
            from: 100 + rng.below(nq),
            to: 1 + rng.below(nt),
            v: if rng.chance(1, 15) { None } else if rng.chance(1, 4) { Some(rng.dyadic(0, 8, 2)) } else { Some(rng.dyadic(0, 512, 8)) },
        })
        .collect()
}

// ---------------------------------------------------------------------------------------------
// in-harness oracle for the exhaustive SortVoting family (independent of kuhn_munkres): brute force

fn brute(w: &[Vec<Option<i64>>], thr: i64, d: usize, used: u32) -> i64 {
    if d == w.len() {
        return 0;
    }
    let mut best = thr + brute(w, thr, d + 1, used);
    for (t, x) in w[d].iter().enumerate() {
        if let Some(x) = x {
            if used & (1 << t) == 0 {
                let v = *x + brute(w, thr, d + 1, used | (1 << t));
                if v > best {
                    best = v;
                }
            }
        }
    }
    best
}

/// returns None if the answer is a gated one-to-one matching of maximum value, else a description
fn sort_oracle(thrz: i64, nd: usize, nt: usize, w: &[Vec<Option<i64>>], res: &str) -> Option<String> {
    if res == "PANIC" {
        return Some("panic".into());
    }
    let mut seen_from = vec![false; nd];
    let mut used = vec![false; nt];
    let mut value = 0i64;
    if res != "-" {
        for e in res.split(';') {
            let p: Vec<&str> = e.split(':').collect();
            let f: u64 = p[0].parse().unwrap();
            let t: u64 = match p[1].parse() {
                Ok(t) => t,
                Err(_) => return Some("bad entry".into()),
            };
            if f < 1000 || (f - 1000) as usize >= nd {
                return Some("unknown query".into());
            }
            let d = (f - 1000) as usize;
            if seen_from[d] {
                return Some("query twice".into());
            }
            seen_from[d] = true;
            if t == f {
                value += thrz;
            } else {
                if t < 1 || (t - 1) as usize >= nt {
                    return Some("unknown track".into());
                }
                let ti = (t - 1) as usize;
                if used[ti] {
                    return Some("track twice".into());
                }
                used[ti] = true;
                match w[d][ti] {
                    Some(x) if x >= thrz => value += x,
                    _ => return Some("ungated pair continued".into()),
                }
            }
        }
    }
    for (d, s) in seen_from.iter().enumerate() {
        // a detection that has at least one stream entry must get an answer
        if !*s && w[d].iter().any(|x| x.is_some()) {
            return Some("query without entry".into());
        }
    }
    let live: Vec<Vec<Option<i64>>> = (0..nd).filter(|d| w[*d].iter().any(|x| x.is_some())).map(|d| w[d].clone()).collect();
    let best = brute(&live, thrz, 0, 0);
    if value != best {
        return Some(format!("value {} but optimum {}", value, best));
    }
    None
}

fn exhaustive(nd: usize, nt: usize, grid: &[Option<i64>], thr: f32, sample_every: usize, rng: &mut Rng) {
    let thrz = (thr * F32_U64_MULT) as i64;
    let cells = nd * nt;
    let g = grid.len();
    let total = g.pow(cells as u32);
    let mut fail = 0usize;
    let mut printed = 0usize;
    let offset = rng.below(sample_every as u64) as usize;
    for code in 0..total {
        let mut c = code;
        let mut w = vec![vec![None; nt]; nd];
        let mut s = vec![];
        for d in 0..nd {
            for t in 0..nt {
                let x = grid[c % g];
                c /= g;
                w[d][t] = x;
                if let Some(z) = x {
                    s.push(Ent { from: 1000 + d as u64, to: 1 + t as u64, v: Some(w_for_z(z)) });
                }
            }
        }
        // deterministic pseudo-shuffle of the stream order (order must not matter)
        if code % 3 == 1 {
            s.reverse();
        } else if code % 3 == 2 && s.len() > 2 {
            let k = code % s.len();
            s.rotate_left(k);
        }
        let res = run_sortv(thr, nd, nt, &s);
        let bad = sort_oracle(thrz, nd, nt, &w, &res);
        if bad.is_some() {
            fail += 1;
        }
        if (bad.is_some() && printed < 20) || code % sample_every == offset {
            if bad.is_some() {
                printed += 1;
            }
            println!(
                "sortv thr={} n={} cols={} s={} z={} thrz={} r={}",
                f32b(thr),
                nd,
                nt,
                fmt_stream(&s),
                zs(&s),
                thrz,
                res
            );
        }
    }
    println!("exh shape={}x{} grid={} total={} fail={}", nd, nt, g, total, fail);
}

// ---------------------------------------------------------------------------------------------
// end to end: Sort::predict

#[derive(Clone)]
struct Known {
    last: Universal2DBox,
    epoch: usize,
    state: KalmanState<10>,
}

/// a detection: left, top, width, height, confidence, angle (None = axis aligned)
type Det = (f32, f32, f32, f32, f32, Option<f32>);

fn box_s(b: &Det) -> String {
    match b.5 {
        None => format!("{}/{}/{}/{}/{}", f32b(b.0), f32b(b.1), f32b(b.2), f32b(b.3), f32b(b.4)),
        Some(a) => format!("{}/{}/{}/{}/{}/{}", f32b(b.0), f32b(b.1), f32b(b.2), f32b(b.3), f32b(b.4), f32b(a)),
    }
}

fn det_box(b: &Det) -> Universal2DBox {
    match b.5 {
        None => Universal2DBox::ltwh_with_confidence(b.0, b.1, b.2, b.3, b.4),
        Some(a) => Universal2DBox::new_with_confidence(b.0 + b.2 / 2.0, b.1 + b.3 / 2.0, Some(a), b.2 / b.3, b.3, b.4),
    }
}

enum Trk {
    S(Sort),
    B(BatchSort),
}

impl Trk {
    /// one predict call for scene 0; the batch tracker is driven with a one-scene batch and its result is awaited
    fn predict(&mut self, boxes: &[(Universal2DBox, Option<i64>)]) -> Vec<similari::prelude::SortTrack> {
        match self {
            Trk::S(t) => t.predict(boxes),
            Trk::B(t) => {
                let mut req = SortPredictionBatchRequest::new();
                for (b, c) in boxes {
                    req.add(0, b.clone(), *c);
                }
                let res = req.result.take().unwrap();
                t.predict(req.batch);
                res.get().1
            }
        }
    }
}

fn run_history(mode: &str, thr: f32, min_conf: f32, max_idle: usize, pw: f32, vw: f32, calls: &[Vec<(f32, f32, f32, f32, f32)>]) {
    let c6: Vec<Vec<Det>> = calls.iter().map(|c| c.iter().map(|b| (b.0, b.1, b.2, b.3, b.4, None)).collect()).collect();
    run_history_x(mode, thr, min_conf, max_idle, pw, vw, "sort", 1, &c6);
}

/// history: calls of (left, top, width, height, confidence) boxes, scene 0.
/// Prints `e2ehist ...` and one `e2e` line per call:
///   e2e call=<c> mode= thrz= nd=<detections> elig=<ids of tracks that may be continued> pairs=<d:tid:z,...>
///       chosen=<d:tid|d:-,...> anomalies=<text|->
/// pairs = every (detection, eligible track) the gate lets through, with the integer weight the voting engine sees,
/// recomputed here from public functions only (Kalman filter API, too_far, calculate_metric_object, calculate_cost).
/// api = "sort" (Sort::predict) | "batch" (BatchSort::predict, one-scene batches); bbox_history is the tracker's history
/// length (it must not influence which tracks may be continued). Epochs are counted HERE: one per predict call that
/// reaches the scene (the batch tracker is not called for an empty detection list).
#[allow(clippy::too_many_arguments)]
fn run_history_x(mode: &str, thr: f32, min_conf: f32, max_idle: usize, pw: f32, vw: f32, api: &str, bbox_history: usize, calls: &[Vec<Det>]) {
    let hist = calls
        .iter()
        .map(|c| if c.is_empty() { "-".to_string() } else { c.iter().map(box_s).collect::<Vec<_>>().join(";") })
        .collect::<Vec<_>>()
        .join("|");
    println!(
        "e2ehist mode={} thr={} minconf={} maxidle={} pw={} vw={} api={} hist={} calls={}",
        mode,
        f32b(thr),
        f32b(min_conf),
        max_idle,
        f32b(pw),
        f32b(vw),
        api,
        bbox_history,
        hist
    );
    let method = if mode == "iou" { PositionalMetricType::IoU(thr) } else { PositionalMetricType::Mahalanobis };
    let thr_used: f32 = if mode == "iou" { thr } else { 1.0 };
    let thrz = (thr_used * F32_U64_MULT) as i64;
    let res = guarded(|| {
        let mut sort = if api == "batch" {
            Trk::B(BatchSort::new(1, 1, bbox_history, max_idle, method, min_conf, None, pw, vw))
        } else {
            Trk::S(Sort::new(1, bbox_history, max_idle, method, min_conf, None, pw, vw))
        };
        let mut epoch = 0usize;
        let f = Universal2DBoxKalmanFilter::new(pw, vw);
        let mut known: HashMap<u64, Known> = HashMap::new();
        for (ci, dets) in calls.iter().enumerate() {
            if api == "batch" && dets.is_empty() {
                println!("e2e call={} mode={} thrz={} nd=0 elig=- pairs=- farok=- chosen=- shadow_bad=0 anomalies=- tb=- d2=-", ci, mode, thrz);
                continue;
            }
            epoch += 1;
            let boxes: Vec<(Universal2DBox, Option<i64>)> = dets.iter().map(|b| (det_box(b), Some(0))).collect();
            // candidates as the tracker will see them: one Kalman initiate+predict+update on the detection
            let mut cands: Vec<(Universal2DBox, KalmanState<10>)> = vec![];
            for (b, _) in &boxes {
                let st0 = f.initiate(b);
                let st = f.update(&f.predict(&st0), b);
                let mut cb = Universal2DBox::try_from(st).unwrap();
                cb.confidence = b.confidence;
                cands.push((cb, st));
            }
            let mut elig: Vec<u64> = known.iter().filter(|(_, k)| epoch - k.epoch <= max_idle).map(|(id, _)| *id).collect();
            elig.sort();
            let mut pairs = vec![];
            // pairs OUT of bounding-circle reach (too_far) which the chi-square gate alone would admit: they must not be
            // continued ("within bounding-circle reach of the track's last box"); listed so that the oracle can name them
            let mut farok = vec![];
            // raw material for the INDEPENDENT gate oracle of the driver: the last predicted box of every eligible track
            // (as reported by the tracker itself) and, in Mahalanobis mode, the squared distance of every pair from the
            // public Kalman API on the shadow state (not through calculate_cost)
            let tb: Vec<String> = elig
                .iter()
                .map(|id| {
                    let b = &known[id].last;
                    format!("{}:{}/{}/{}/{}/{}", id, f32b(b.xc), f32b(b.yc), b.angle.map(f32b).unwrap_or_else(|| "-".into()), f32b(b.aspect), f32b(b.height))
                })
                .collect();
            let mut d2 = vec![];
            for (d, (cb, _)) in cands.iter().enumerate() {
                let conf = if cb.confidence < min_conf { min_conf } else { cb.confidence };
                for id in &elig {
                    let k = &known[id];
                    if mode != "iou" {
                        d2.push(format!("{}:{}:{}", d, id, f32b(f.distance(k.state, cb))));
                    }
                    if Universal2DBox::too_far(cb, &k.last) {
                        if mode != "iou" {
                            let dist = f.distance(k.state, cb);
                            let w = Universal2DBoxKalmanFilter::calculate_cost(dist, true) / conf;
                            if (w * F32_U64_MULT) as i64 >= thrz {
                                farok.push(format!("{}:{}", d, id));
                            }
                        }
                        continue;
                    }
                    let w: Option<f32> = if mode == "iou" {
                        Universal2DBox::calculate_metric_object(&Some(cb), &Some(&k.last)).map(|e| e * conf).filter(|e| *e >= thr)
                    } else {
                        let dist = f.distance(k.state, cb);
                        Some(Universal2DBoxKalmanFilter::calculate_cost(dist, true) / conf)
                    };
                    if let Some(w) = w {
                        pairs.push(format!("{}:{}:{}", d, id, (w * F32_U64_MULT) as i64));
                    }
                }
            }
            let recs = sort.predict(&boxes);
            let mut anomalies = vec![];
            if recs.len() != boxes.len() {
                anomalies.push(format!("records{}!=dets{}", recs.len(), boxes.len()));
            }
            let mut chosen = vec![];
            let mut updates = vec![];
            for (d, r) in recs.iter().enumerate() {
                if r.epoch != epoch {
                    anomalies.push(format!("epoch{}!={}", r.epoch, epoch));
                }
                if d >= cands.len() {
                    break;
                }
                if let Some(k) = known.get(&r.id) {
                    chosen.push(format!("{}:{}", d, r.id));
                    let st = f.update(&f.predict(&k.state), &cands[d].0);
                    updates.push((r.id, r.predicted_bbox.clone(), st));
                } else {
                    chosen.push(format!("{}:-", d));
                    updates.push((r.id, r.predicted_bbox.clone(), cands[d].1));
                }
            }
            let mut shadow_bad = 0;
            for (id, pb, st) in updates {
                // the shadow Kalman state must reproduce the record's predicted box (else the weights above are not the tracker's)
                let sb = Universal2DBox::try_from(st).unwrap();
                if (sb.xc - pb.xc).abs() > 1e-3 || (sb.yc - pb.yc).abs() > 1e-3 || (sb.height - pb.height).abs() > 1e-3 {
                    shadow_bad += 1;
                }
                known.insert(id, Known { last: pb, epoch, state: st });
            }
            println!(
                "e2e call={} mode={} thrz={} nd={} elig={} pairs={} farok={} chosen={} shadow_bad={} anomalies={} tb={} d2={}",
                ci,
                mode,
                thrz,
                boxes.len(),
                if elig.is_empty() { "-".to_string() } else { elig.iter().map(|x| x.to_string()).collect::<Vec<_>>().join(",") },
                if pairs.is_empty() { "-".to_string() } else { pairs.join(",") },
                if farok.is_empty() { "-".to_string() } else { farok.join(",") },
                if chosen.is_empty() { "-".to_string() } else { chosen.join(",") },
                shadow_bad,
                if anomalies.is_empty() { "-".to_string() } else { anomalies.join("+") },
                if tb.is_empty() { "-".to_string() } else { tb.join(";") },
                if d2.is_empty() { "-".to_string() } else { d2.join(",") }
            );
        }
    });
    if res.is_none() {
        println!("e2e call=-1 mode={} thrz={} nd=0 elig=- pairs=- farok=- chosen=- shadow_bad=0 anomalies=PANIC tb=- d2=-", mode, thrz);
    }
    println!("e2eend");
}

fn gen_history(rng: &mut Rng) -> Vec<Vec<(f32, f32, f32, f32, f32)>> {
    // objects on straight lines; kinds: crossing pair, convoy (closely spaced, moving by about the spacing per frame),
    // overlapping parallel pair, random walkers; boxes on a 1/4-pixel grid
    let kind = rng.below(4);
    let nobj = match kind {
        0 => 2 + rng.below(2) as usize,
        1 => 3 + rng.below(3) as usize,
        _ => 2 + rng.below(4) as usize,
    };
    let frames = 6 + rng.below(10) as usize;
    let size = 30.0 + rng.below(5) as f32 * 10.0;
    let mut objs: Vec<(f32, f32, f32, f32, f32, f32)> = vec![]; // x, y, vx, vy, w, h
    for i in 0..nobj {
        let (x, y, vx, vy) = match kind {
            0 => {
                // approach, cross, separate along x with a small vertical offset
                let dir = if i % 2 == 0 { 1.0 } else { -1.0 };
                let speed = 4.0 + rng.below(12) as f32;
                (100.0 - dir * speed * (frames as f32) / 2.0, 100.0 + (i as f32) * rng.below(12) as f32, dir * speed, 0.0)
            }
            1 => {
                // convoy: spacing ~ size/2 .. size, speed ~ spacing
                let spacing = size * (0.5 + rng.below(3) as f32 * 0.25);
                let speed = spacing * (0.5 + rng.below(4) as f32 * 0.25);
                (50.0 + i as f32 * spacing, 100.0, speed, 0.0)
            }
            2 => (100.0 + i as f32 * size * 0.4, 100.0 + (i % 2) as f32 * size * 0.3, 3.0 + i as f32, 1.0),
            _ => (
                60.0 + rng.below(120) as f32,
                60.0 + rng.below(60) as f32,
                rng.range(-12, 12) as f32,
                rng.range(-6, 6) as f32,
            ),
        };
        let w = size * (0.75 + rng.below(3) as f32 * 0.25);
        objs.push((x, y, vx, vy, w, size));
    }
    let confs = [1.0f32, 1.0, 0.9, 0.75, 0.5, 0.03];
    let mut calls = vec![];
    for fr in 0..frames {
        let mut dets = vec![];
        for o in &objs {
            if rng.chance(1, 12) {
                continue; // missed detection
            }
            let jx = rng.range(-8, 8) as f32 * 0.25;
            let jy = rng.range(-8, 8) as f32 * 0.25;
            dets.push((o.0 + o.2 * fr as f32 + jx, o.1 + o.3 * fr as f32 + jy, o.4, o.5, *rng.pick(&confs)));
        }
        if rng.chance(1, 10) {
            dets.push((rng.below(200) as f32, rng.below(150) as f32, size, size, 1.0)); // spurious
        }
        if rng.chance(1, 15) {
            if let Some(d) = dets.first().cloned() {
                dets.push(d); // exact duplicate
            }
        }
        rng.shuffle(&mut dets);
        calls.push(dets);
    }
    calls
}

/// truncated / merged detections: an object that hardly moves is reported with its width (sometimes its height) scaled by
/// 0.2 .. 4, inside or around the previous box, so that the two boxes' ASPECT ratios differ markedly and the IoU
/// (area ratio for nested boxes) lands around the usual thresholds
fn gen_aspect_history(rng: &mut Rng) -> Vec<Vec<(f32, f32, f32, f32, f32)>> {
    let nobj = 1 + rng.below(2) as usize;
    let frames = 3 + rng.below(6) as usize;
    let factors = [0.2f32, 0.24, 0.27, 0.33, 0.45, 0.55, 0.8, 1.0, 1.0, 1.5, 2.2, 3.0, 3.6, 4.0];
    let mut objs: Vec<(f32, f32, f32, f32)> = vec![]; // xc, yc, w, h
    for i in 0..nobj {
        let h = 10.0 + rng.below(4) as f32 * 10.0;
        let w = h * *rng.pick(&[0.5f32, 1.0, 2.0]);
        objs.push((200.0 + 500.0 * i as f32, 200.0, w, h));
    }
    let mut calls = vec![];
    for fr in 0..frames {
        let mut dets = vec![];
        for o in &objs {
            let (mut w, mut h) = (o.2, o.3);
            let (mut xc, yc) = (o.0, o.1);
            if fr > 0 {
                let k = *rng.pick(&factors);
                if rng.chance(1, 5) {
                    h = ((h * k) * 4.0).round() / 4.0;
                } else {
                    w = ((w * k) * 4.0).round() / 4.0;
                    // a truncated detection may sit at the left/right end of the object instead of its middle
                    if k < 1.0 && rng.chance(1, 2) {
                        xc += (o.2 - w) / 2.0 * if rng.chance(1, 2) { 1.0 } else { -1.0 };
                    }
                }
            }
            let conf = if rng.chance(1, 6) { 0.9 } else { 1.0 };
            dets.push((xc - w / 2.0, yc - h / 2.0, w.max(0.5), h.max(0.5), conf));
        }
        calls.push(dets);
    }
    calls
}

/// a still object for a few frames, then ONE probe displaced so that its squared Mahalanobis distance to the track's
/// filter state lands near `target` (bisection on a private copy of the filter, as the tracker runs it)
fn gen_probe_history(rng: &mut Rng, pw: f32, vw: f32, target: f32) -> Vec<Vec<(f32, f32, f32, f32, f32)>> {
    let f = Universal2DBoxKalmanFilter::new(pw, vw);
    let w = 8.0 + rng.below(5) as f32 * 4.0;
    let h = 8.0 + rng.below(5) as f32 * 6.0;
    let still = 2 + rng.below(4) as usize;
    let (l, t) = (100.0f32, 100.0f32);
    let mk = |dx: f32, dy: f32| Universal2DBox::ltwh(l + dx, t + dy, w, h);
    let b0 = mk(0.0, 0.0);
    let smooth = |b: &Universal2DBox| {
        let st = f.update(&f.predict(&f.initiate(b)), b);
        (Universal2DBox::try_from(st).unwrap(), st)
    };
    let mut state = smooth(&b0).1;
    for _ in 1..still {
        state = f.update(&f.predict(&state), &smooth(&b0).0);
    }
    let diag = rng.chance(1, 3);
    let dist_at = |x: f32| f.distance(state, &smooth(&mk(x, if diag { x / 2.0 } else { 0.0 })).0);
    let (mut lo, mut hi) = (0.0f32, 4.0 * (w + h));
    for _ in 0..50 {
        let mid = (lo + hi) / 2.0;
        if dist_at(mid) < target {
            lo = mid;
        } else {
            hi = mid;
        }
    }
    let dx = hi;
    let mut calls: Vec<Vec<(f32, f32, f32, f32, f32)>> = (0..still).map(|_| vec![(l, t, w, h, 1.0)]).collect();
    calls.push(vec![(l + dx, t + if diag { dx / 2.0 } else { 0.0 }, w, h, 1.0)]);
    calls
}

/// ORIENTED boxes: elongated bars that all share one constant non-zero tilt (detections and hence tracks). The first
/// frames repeat the same box, so the track's predicted angle is the detections' angle; then the bar is displaced along
/// its own axis, across it, or along x by fractions of its length / height, which puts the true IoU on both sides of
/// the usual thresholds (and makes it very different from the IoU of the un-rotated rectangles).
fn gen_tilt_history(rng: &mut Rng) -> Vec<Vec<Det>> {
    let theta = *rng.pick(&[0.3f32, 0.5, 0.8, 1.2]);
    let h = *rng.pick(&[8.0f32, 10.0, 12.0]);
    let w = h * *rng.pick(&[3.0f32, 4.0, 6.0]);
    let nobj = 1 + rng.below(2) as usize;
    let still = 2 + rng.below(2) as usize;
    let moves = 3 + rng.below(4) as usize;
    let (c, s) = (theta.cos(), theta.sin());
    let along = [0.1f32, 0.2, 0.25, 0.3, 0.4, 0.6, 1.2];
    let across = [0.2f32, 0.4, 0.6, 0.9, 1.5];
    let mut pos: Vec<(f32, f32)> = (0..nobj).map(|i| (300.0 + 700.0 * i as f32, 300.0)).collect();
    let mut calls = vec![];
    for fr in 0..(still + moves) {
        let mut dets: Vec<Det> = vec![];
        for o in pos.iter_mut() {
            if fr >= still {
                let sign = if rng.chance(1, 2) { 1.0 } else { -1.0 };
                let (dx, dy) = match rng.below(3) {
                    0 => {
                        let k = *rng.pick(&along) * w * sign;
                        (k * c, k * s)
                    }
                    1 => {
                        let k = *rng.pick(&across) * h * sign;
                        (-k * s, k * c)
                    }
                    _ => (*rng.pick(&along) * w * sign, 0.0),
                };
                o.0 += (dx * 4.0).round() / 4.0;
                o.1 += (dy * 4.0).round() / 4.0;
            }
            dets.push((o.0 - w / 2.0, o.1 - h / 2.0, w, h, 1.0, Some(theta)));
        }
        calls.push(dets);
    }
    calls
}

/// slowly moving objects (high IoU with their tracks) whose detection confidences are mixed within a frame and mostly
/// BELOW the configured minimal confidence: the gate uses max(confidence, min_confidence)
fn gen_conf_history(rng: &mut Rng) -> Vec<Vec<Det>> {
    let nobj = 2 + rng.below(3) as usize;
    let frames = 4 + rng.below(5) as usize;
    let confs = [0.05f32, 0.1, 0.2, 0.4, 1.0];
    let mut objs: Vec<(f32, f32, f32, f32, f32)> = vec![]; // x, y, vx, vy, size
    for i in 0..nobj {
        let size = 30.0 + rng.below(3) as f32 * 10.0;
        objs.push((100.0 + 200.0 * i as f32, 100.0 + 40.0 * (i % 2) as f32, rng.range(-12, 12) as f32 * 0.25, rng.range(-8, 8) as f32 * 0.25, size));
    }
    let mut calls = vec![];
    for fr in 0..frames {
        let mut dets: Vec<Det> = vec![];
        for o in &objs {
            dets.push((o.0 + o.2 * fr as f32, o.1 + o.3 * fr as f32, o.4, o.4, *rng.pick(&confs), None));
        }
        rng.shuffle(&mut dets);
        calls.push(dets);
    }
    calls
}

/// two or three still objects far apart; object 0 is not detected for `gap` consecutive frames while the others keep
/// the scene's epoch advancing, then it is detected again at the same place: it must continue its track iff
/// gap <= max_idle (whatever the history length is)
fn gen_gap_history(rng: &mut Rng, gap: usize) -> Vec<Vec<Det>> {
    let nobj = 2 + rng.below(2) as usize;
    let before = 2 + rng.below(2) as usize;
    let after = 2 + rng.below(2) as usize;
    let size = 20.0 + rng.below(3) as f32 * 10.0;
    let mut calls = vec![];
    for fr in 0..(before + gap + after) {
        let mut dets: Vec<Det> = vec![];
        for i in 0..nobj {
            if i == 0 && fr >= before && fr < before + gap {
                continue;
            }
            let j = rng.range(-1, 1) as f32 * 0.25;
            dets.push((100.0 + 300.0 * i as f32 + j, 100.0 + j, size, size, 1.0, None));
        }
        rng.shuffle(&mut dets);
        calls.push(dets);
    }
    calls
}

/// objects that jump between frames by 1/4 .. 6 times (r_det + r_track) (equal sizes: 2r per unit), small boxes,
/// objects far apart from one another; positions on a 1/4-pixel grid
fn gen_jump_history(rng: &mut Rng) -> Vec<Vec<(f32, f32, f32, f32, f32)>> {
    let nobj = 1 + rng.below(3) as usize;
    let frames = 4 + rng.below(7) as usize;
    let sizes = [4.0f32, 6.0, 10.0, 10.0, 20.0];
    let factors = [0.25f32, 0.5, 0.9, 1.1, 1.5, 2.0, 3.0, 6.0];
    let dirs = [(1.0f32, 0.0f32), (0.0, 1.0), (0.75, 0.75), (-1.0, 0.0), (0.75, -0.75)];
    let mut objs: Vec<(f32, f32, f32, f32)> = vec![]; // x, y, w, h
    for i in 0..nobj {
        let w = *rng.pick(&sizes);
        let h = if rng.chance(1, 3) { *rng.pick(&sizes) } else { w };
        objs.push((300.0 + 400.0 * i as f32, 300.0 + 150.0 * (i % 2) as f32, w, h));
    }
    let mut calls = vec![];
    for fr in 0..frames {
        let mut dets = vec![];
        for o in objs.iter_mut() {
            if fr > 0 {
                let reach = (o.2 * o.2 + o.3 * o.3).sqrt(); // r_det + r_track for equal boxes
                // the first steps are small so that a track with some history exists, then the jumps vary
                let k = if fr == 1 { 0.25 } else { *rng.pick(&factors) };
                let (dx, dy) = *rng.pick(&dirs);
                o.0 += ((dx * k * reach) * 4.0).round() / 4.0;
                o.1 += ((dy * k * reach) * 4.0).round() / 4.0;
            }
            if fr > 0 && rng.chance(1, 15) {
                continue;
            }
            dets.push((o.0, o.1, o.2, o.3, *rng.pick(&[1.0f32, 1.0, 0.9, 0.5])));
        }
        rng.shuffle(&mut dets);
        calls.push(dets);
    }
    calls
}

// ---------------------------------------------------------------------------------------------

fn kv(line: &str) -> HashMap<String, String> {
    line.split_whitespace()
        .skip(1)
        .filter_map(|t| t.split_once('=').map(|(a, b)| (a.to_string(), b.to_string())))
        .collect()
}

fn fbits(s: &str) -> f32 {
    f32::from_bits(s.parse::<u32>().unwrap())
}

fn replay_line(line: &str) {
    let kind = line.split_whitespace().next().unwrap_or("");
    let m = kv(line);
    match kind {
        "topn" => emit_topn(m["n"].parse().unwrap(), fbits(&m["maxd"]), m["minv"].parse().unwrap(), &parse_stream(&m["s"])),
        "bestfit" => emit_bestfit(fbits(&m["maxd"]), m["minv"].parse().unwrap(), &parse_stream(&m["s"])),
        "sortv" => emit_sortv(fbits(&m["thr"]), m["n"].parse().unwrap(), m["cols"].parse().unwrap(), &parse_stream(&m["s"])),
        "visual" => emit_visual(fbits(&m["thr"]), fbits(&m["maxd"]), m["minv"].parse().unwrap(), &parse_stream4(&m["s"])),
        "e2ehist" => {
            let calls: Vec<Vec<Det>> = m["calls"]
                .split('|')
                .map(|c| {
                    if c == "-" {
                        vec![]
                    } else {
                        c.split(';')
                            .map(|b| {
                                let p: Vec<f32> = b.split('/').map(fbits).collect();
                                (p[0], p[1], p[2], p[3], p[4], if p.len() > 5 { Some(p[5]) } else { None })
                            })
                            .collect()
                    }
                })
                .collect();
            let pw = m.get("pw").map(|x| fbits(x)).unwrap_or(1.0 / 20.0);
            let vw = m.get("vw").map(|x| fbits(x)).unwrap_or(1.0 / 160.0);
            let api = m.get("api").cloned().unwrap_or_else(|| "sort".to_string());
            let bh: usize = m.get("hist").map(|x| x.parse().unwrap()).unwrap_or(1);
            run_history_x(&m["mode"], fbits(&m["thr"]), fbits(&m["minconf"]), m["maxidle"].parse().unwrap(), pw, vw, &api, bh, &calls);
        }
        _ => {}
    }
}

fn main() {
    quiet_panics();
    let a = parse_args();
    let mut rng = Rng::new(a.seed);
    let thorough = a.tier == "thorough";
    match a.cmd.as_str() {
        "gen" => {
            // ---- corpus: the repository's own unit-test inputs
            let ut = |v: &[(u64, u64, f32)]| v.iter().map(|(f, t, d)| Ent { from: *f, to: *t, v: Some(*d) }).collect::<Vec<_>>();
            // (distances moved to the dyadic grid so that the f32 subtraction is exact)
            emit_topn(5, 0.3125, 1, &ut(&[(0, 1, 0.25), (0, 1, 0.375)]));
            emit_topn(
                5,
                0.3125,
                1,
                &ut(&[(0, 1, 0.25), (0, 1, 0.28125), (0, 2, 0.265625), (0, 2, 0.25), (0, 3, 0.28125), (0, 3, 0.25), (7, 4, 0.296875), (7, 4, 0.3125), (7, 5, 0.3046875), (7, 5, 0.3125), (7, 6, 0.30859375), (7, 6, 0.5)]),
            );
            emit_sortv(
                0.3,
                3,
                3,
                &ut(&[(10, 20, 0.6), (10, 25, 0.4), (10, 30, 0.4), (11, 20, 0.5), (11, 25, 0.69), (11, 30, 0.4), (12, 20, 0.2), (12, 25, 0.27), (12, 30, 0.28)]),
            );
            // ---- random voting streams
            for k in 0..a.n {
                let fine = k % 2 == 0;
                let overlap = k % 10 == 9;
                let s = gen_vote_stream(&mut rng, fine, overlap);
                let maxd = gen_maxd(&mut rng, fine);
                let minv = rng.range(0, 4) as usize;
                let n = rng.range(0, 5) as usize;
                emit_topn(n, maxd, minv, &s);
                emit_bestfit(maxd, minv, &s);
            }
            // ---- best fit with numerically overlapping id spaces (deliberate family)
            for _ in 0..(a.n / 8 + 5) {
                let (maxd, minv, s) = gen_overlap_bestfit(&mut rng);
                emit_bestfit(maxd, minv, &s);
                emit_topn(2, maxd, minv, &s);
            }
            // ---- SortVoting: random up to 8x8
            let thrs = [0.25f32, 0.3, 0.5, 0.7, 1.0];
            for _ in 0..a.n {
                let thr = *rng.pick(&thrs);
                let thrz = (thr * F32_U64_MULT) as i64;
                let (n, cols, s) = gen_sort_stream(&mut rng, thrz);
                emit_sortv(thr, n, cols, &s);
            }
            // ---- VisualVoting: the repository's unit-test shapes on dyadic values, then random streams
            {
                let e4 = |f: u64, t: u64, a: Option<f32>, e: Option<f32>| Ent4 { from: f, to: t, a, e };
                emit_visual(0.25, 0.75, 1, &[e4(1, 2, Some(0.75), Some(0.75))]);
                emit_visual(0.25, 0.75, 2, &[e4(1, 2, Some(0.75), Some(0.75))]);
                emit_visual(
                    0.25,
                    0.75,
                    2,
                    &[
                        e4(1, 2, Some(0.75), Some(0.75)),
                        e4(1, 2, None, Some(0.6875)),
                        e4(1, 2, None, Some(0.65625)),
                        e4(1, 3, Some(0.75), Some(0.75)),
                        e4(1, 3, None, Some(0.640625)),
                        e4(11, 2, Some(0.875), Some(0.75)),
                        e4(11, 3, Some(0.625), Some(0.640625)),
                    ],
                );
            }
            for k in 0..a.n {
                let thr = *rng.pick(&[0.25f32, 0.3, 0.5]);
                let thrz = (thr * F32_U64_MULT) as i64;
                let nq = rng.range(1, 5) as u64;
                let nt = rng.range(1, 5) as u64;
                let fine = k % 2 == 0;
                let s = gen_visual_stream(&mut rng, nq, nt, thrz, fine);
                let maxd = gen_maxd(&mut rng, fine);
                let minv = rng.range(0, 3) as usize;
                emit_visual(thr, maxd, minv, &s);
            }
            // zero tracks declared: early return
            emit_sortv(0.3, 2, 0, &[]);
            emit_sortv(0.3, 0, 3, &[]);
            // ---- permutation families (order independence): every permutation of small streams
            let (fams, maxlen) = if thorough { (a.n / 4 + 10, 6) } else { (a.n / 20 + 6, 5) };
            for k in 0..fams {
                let len = 2 + (k % (maxlen - 1));
                let s = small_vote_stream(&mut rng, len);
                let maxd = if rng.chance(1, 3) { 100.0 } else { rng.dyadic(128, 512, 8) };
                let minv = rng.range(0, 2) as usize;
                let n = rng.range(1, 3) as usize;
                perm_family("topn", &format!("n={} maxd={} minv={}", n, f32b(maxd), minv), &s, &|p| run_topn(n, maxd, minv, p));
                perm_family("bestfit", &format!("maxd={} minv={}", f32b(maxd), minv), &s, &|p| run_bestfit(maxd, minv, p));
                // SortVoting: 2-3 detections x 2-3 tracks, distinct random weights so that the optimum is mostly unique
                let thr = 0.25f32;
                let nd = 2 + rng.below(2);
                let nt = 2 + rng.below(2);
                // (one entry per pair, as the positional metric produces them: a repeated pair is overwritten by its
                //  last occurrence, which is order dependent by construction and not part of the claim)
                let mut cells: Vec<(u64, u64)> = (0..nd).flat_map(|d| (0..nt).map(move |t| (d, t))).collect();
                rng.shuffle(&mut cells);
                cells.truncate(len);
                let ss: Vec<Ent> = cells
                    .iter()
                    .map(|(d, t)| Ent { from: 1000 + d, to: 1 + t, v: Some(w_for_z(rng.range(1, 900_000))) })
                    .collect();
                perm_family("sortv", &format!("thr={} n={} cols={}", f32b(thr), nd, nt), &ss, &|p| run_sortv(thr, nd as usize, nt as usize, p));
                // VisualVoting: 2-3 queries x 2-3 tracks, one positional entry per pair at most, distinct random weights
                let mut cells: Vec<(u64, u64)> = (0..nd).flat_map(|d| (0..nt).map(move |t| (d, t))).collect();
                rng.shuffle(&mut cells);
                let mut vs: Vec<Ent4> = vec![];
                for (d, t) in cells.iter() {
                    if vs.len() >= len {
                        break;
                    }
                    let a = if rng.chance(1, 5) { None } else { Some(w_for_z(rng.range(1, 900_000))) };
                    let e = if rng.chance(1, 3) { None } else { Some(rng.dyadic(0, 512, 8)) };
                    vs.push(Ent4 { from: 1000 + d, to: 1 + t, a, e });
                    if vs.len() < len && rng.chance(1, 3) {
                        vs.push(Ent4 { from: 1000 + d, to: 1 + t, a: None, e: Some(rng.dyadic(0, 512, 8)) });
                    }
                }
                let vmaxd = if rng.chance(1, 3) { 100.0 } else { rng.dyadic(128, 512, 8) };
                let vminv = rng.range(0, 2) as usize;
                perm_family4(&format!("thr={} maxd={} minv={}", f32b(thr), f32b(vmaxd), vminv), &vs, &|p| run_visual(thr, vmaxd, vminv, p));
            }
            // ---- exhaustive SortVoting family over a grid straddling the threshold
            let thr = 0.25f32;
            let t = 250_000i64;
            let g5: Vec<Option<i64>> = vec![None, Some(t - 1), Some(t), Some(t + 1), Some(2 * t)];
            let g7: Vec<Option<i64>> = vec![None, Some(0), Some(t - 1), Some(t), Some(t + 1), Some(2 * t), Some(2 * t + 1)];
            if a.rest.iter().any(|x| x == "noexh") {
                // (the exhaustive family belongs to C02)
            } else if thorough {
                exhaustive(1, 1, &g7, thr, 1, &mut rng);
                exhaustive(1, 2, &g7, thr, 1, &mut rng);
                exhaustive(2, 1, &g7, thr, 1, &mut rng);
                exhaustive(2, 2, &g7, thr, 3, &mut rng);
                exhaustive(2, 3, &g7, thr, 300, &mut rng);
                exhaustive(3, 2, &g7, thr, 300, &mut rng);
                exhaustive(3, 3, &g5, thr, 4000, &mut rng);
                exhaustive(3, 3, &g7, thr, 200_000, &mut rng);
            } else {
                exhaustive(1, 2, &g7, thr, 1, &mut rng);
                exhaustive(2, 2, &g5, thr, 4, &mut rng);
                exhaustive(2, 3, &g5, thr, 150, &mut rng);
                exhaustive(3, 2, &g5, thr, 150, &mut rng);
                exhaustive(3, 3, &g5, thr, 20_000, &mut rng);
            }
        }
        "e2e" => {
            let pws = [1.0f32 / 20.0, 0.3, 1.0];
            let vws = [1.0f32 / 160.0, 0.1, 1.0];
            for k in 0..a.n {
                let max_idle = if rng.chance(1, 12) { 0 } else { rng.range(1, 3) as usize };
                let min_conf = 0.05f32;
                if k % 3 == 2 {
                    // Mahalanobis: default and LOOSE filters (the chi-square gate of a loose filter reaches beyond the
                    // bounding circles, so that the circle-reach clause of the gate is the one that decides), histories with
                    // far jumps and small boxes every other time
                    let (pw, vw) = if (k / 3) % 4 == 0 { (pws[0], vws[0]) } else { (*rng.pick(&pws), *rng.pick(&vws)) };
                    if (k / 3) % 3 == 2 {
                        // chi-square boundary sweep: probes with d^2 around the 95% quantile for 5 degrees of freedom
                        let (pw, vw) = if rng.chance(2, 3) { (pws[0], vws[0]) } else { (pws[1], vws[0]) };
                        let target = 10.0 + (rng.below(41) as f32) * 0.1;
                        let calls = gen_probe_history(&mut rng, pw, vw, target);
                        run_history("maha", 1.0, min_conf, max_idle.max(1), pw, vw, &calls);
                        continue;
                    }
                    let calls = if (k / 3) % 2 == 1 { gen_jump_history(&mut rng) } else { gen_history(&mut rng) };
                    run_history("maha", 1.0, min_conf, max_idle, pw, vw, &calls);
                } else {
                    let calls = if k % 3 == 1 && (k / 3) % 2 == 0 { gen_aspect_history(&mut rng) } else { gen_history(&mut rng) };
                    let thr = *rng.pick(&[0.3f32, 0.3, 0.25, 0.5, 0.1]);
                    run_history("iou", thr, min_conf, max_idle, 1.0 / 20.0, 1.0 / 160.0, &calls);
                }
            }
            // ---- oriented bars sharing a constant tilt (IoU mode), through Sort and BatchSort
            for k in 0..(a.n / 6 + 4) {
                let calls = gen_tilt_history(&mut rng);
                let thr = *rng.pick(&[0.3f32, 0.25, 0.5]);
                let api = if k % 3 == 2 { "batch" } else { "sort" };
                run_history_x("iou", thr, 0.05, 2, 1.0 / 20.0, 1.0 / 160.0, api, 1 + k % 3, &calls);
            }
            // ---- minimal confidence: IoU x max(confidence, min_confidence) >= threshold with min_confidence well above the
            //      detections' confidences (the default 0.05 can never lift a pair over the gate)
            for k in 0..(a.n / 6 + 6) {
                let calls = gen_conf_history(&mut rng);
                let min_conf = *rng.pick(&[0.3f32, 0.5, 0.6]);
                let thr = *rng.pick(&[0.2f32, 0.25, 0.3, 0.4]);
                let api = if k % 3 == 1 { "batch" } else { "sort" };
                run_history_x("iou", thr, min_conf, 2, 1.0 / 20.0, 1.0 / 160.0, api, 1, &calls);
            }
            // ---- expiry: only tracks idle for <= max_idle epochs may be continued, independently of the history length;
            //      both entry points, bbox_history != max_idle in both orders, gaps below / between / above the two values
            let combos = [(1usize, 3usize), (4, 1), (2, 4), (5, 2), (3, 3)];
            for k in 0..(a.n / 4 + 10) {
                let (bh, idle) = combos[k % combos.len()];
                let gap = 1 + (k / combos.len()) % 5;
                let calls = gen_gap_history(&mut rng, gap);
                let api = if k % 2 == 0 { "batch" } else { "sort" };
                if (k / 2) % 3 == 2 {
                    run_history_x("maha", 1.0, 0.05, idle, 1.0 / 20.0, 1.0 / 160.0, api, bh, &calls);
                } else {
                    run_history_x("iou", 0.3, 0.05, idle, 1.0 / 20.0, 1.0 / 160.0, api, bh, &calls);
                }
            }
        }
        "replay" => {
            let txt = std::fs::read_to_string(a.file.expect("--file")).unwrap();
            for line in txt.lines() {
                replay_line(line);
            }
        }
        _ => {
            eprintln!("usage: voting gen|e2e|replay --seed S --n N --tier T --file F");
            std::process::exit(2);
        }
    }
}
