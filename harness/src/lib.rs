//! Shared helpers for the correspondence harness binaries (DESIGN.md section 3.2).
//! Every random choice derives from one SplitMix64 state seeded from the command line.

use std::panic::{catch_unwind, AssertUnwindSafe};

pub struct Rng(pub u64);

impl Rng {
    pub fn new(seed: u64) -> Self {
        Rng(seed.wrapping_mul(0x9E3779B97F4A7C15) ^ 0xD1B54A32D192ED03)
    }
    pub fn next(&mut self) -> u64 {
        self.0 = self.0.wrapping_add(0x9E3779B97F4A7C15);
        let mut z = self.0;
        z = (z ^ (z >> 30)).wrapping_mul(0xBF58476D1CE4E5B9);
        z = (z ^ (z >> 27)).wrapping_mul(0x94D049BB133111EB);
        z ^ (z >> 31)
    }
    /// uniform in 0..n (n > 0)
    pub fn below(&mut self, n: u64) -> u64 {
        self.next() % n
    }
    pub fn range(&mut self, lo: i64, hi: i64) -> i64 {
        lo + (self.next() % ((hi - lo + 1) as u64)) as i64
    }
    pub fn chance(&mut self, num: u64, den: u64) -> bool {
        self.below(den) < num
    }
    pub fn pick<'a, T>(&mut self, xs: &'a [T]) -> &'a T {
        &xs[self.below(xs.len() as u64) as usize]
    }
    /// dyadic value k / 2^bits with k in lo..=hi
    pub fn dyadic(&mut self, lo: i64, hi: i64, bits: u32) -> f32 {
        self.range(lo, hi) as f32 / (1u64 << bits) as f32
    }
    pub fn unit_f64(&mut self) -> f64 {
        (self.next() >> 11) as f64 / (1u64 << 53) as f64
    }
    pub fn shuffle<T>(&mut self, xs: &mut [T]) {
        for i in (1..xs.len()).rev() {
            let j = self.below(i as u64 + 1) as usize;
            xs.swap(i, j);
        }
    }
}

/// Runs f, turning a panic into None. The default panic hook is silenced by `quiet_panics()`.
pub fn guarded<R>(f: impl FnOnce() -> R) -> Option<R> {
    catch_unwind(AssertUnwindSafe(f)).ok()
}

pub fn quiet_panics() {
    std::panic::set_hook(Box::new(|_| {}));
}

pub fn f32b(x: f32) -> String {
    format!("{}", x.to_bits())
}

pub fn f64b(x: f64) -> String {
    format!("{}", x.to_bits())
}

pub struct Args {
    pub cmd: String,
    pub seed: u64,
    pub n: usize,
    pub tier: String,
    pub file: Option<String>,
    pub rest: Vec<String>,
}

pub fn parse_args() -> Args {
    let mut a = Args { cmd: String::new(), seed: 1, n: 100, tier: "quick".into(), file: None, rest: vec![] };
    let mut it = std::env::args().skip(1);
    if let Some(c) = it.next() {
        a.cmd = c;
    }
    while let Some(x) = it.next() {
        match x.as_str() {
            "--seed" => a.seed = it.next().unwrap().parse().unwrap(),
            "--n" => a.n = it.next().unwrap().parse().unwrap(),
            "--tier" => a.tier = it.next().unwrap(),
            "--file" => a.file = it.next(),
            _ => a.rest.push(x),
        }
    }
    a
}
