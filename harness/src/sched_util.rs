//! Schedule forcing through `similari::verif_hooks` (shared by the `sched` and `batch` binaries).
//!
//! The hook callback runs on the calling library thread. `Gates` offers: an event log with small stable
//! thread indices, counters that can be awaited, and gates on which a library thread parks until the
//! scheduler grants it a permit. Every wait has a timeout, so that a deviation of the implementation from
//! the expected protocol turns into a reported result and never into a hanging check.
#![allow(dead_code)]

use std::collections::HashMap;
use std::sync::{Arc, Condvar, Mutex};
use std::thread::ThreadId;
use std::time::{Duration, Instant};

pub type Key = (&'static str, u64);

#[derive(Clone, Debug)]
pub struct Ev {
    pub thread: usize,
    pub site: &'static str,
    pub arg: u64,
}

#[derive(Default)]
pub struct GState {
    pub log: Vec<Ev>,
    pub threads: HashMap<ThreadId, usize>,
    pub gating: bool,
    pub parked: HashMap<Key, usize>,
    pub permits: HashMap<Key, usize>,
    pub counts: HashMap<Key, usize>,
    pub progress: u64,
    pub error: Option<String>,
}

pub struct Gates {
    pub m: Mutex<GState>,
    pub cv: Condvar,
}

impl Gates {
    pub fn new() -> Arc<Gates> {
        Arc::new(Gates { m: Mutex::new(GState::default()), cv: Condvar::new() })
    }

    /// forget everything (log, counters, thread names); gates closed or open as requested
    pub fn reset(&self, gating: bool) {
        let mut g = self.m.lock().unwrap();
        *g = GState::default();
        g.gating = gating;
        self.cv.notify_all();
    }

    fn thread_index(g: &mut GState) -> usize {
        let id = std::thread::current().id();
        let n = g.threads.len();
        *g.threads.entry(id).or_insert(n)
    }

    pub fn log(&self, site: &'static str, arg: u64) {
        let mut g = self.m.lock().unwrap();
        let t = Self::thread_index(&mut g);
        g.log.push(Ev { thread: t, site, arg });
        g.progress += 1;
    }

    /// counts[key] += 1 (and wakes the waiters); returns the new value
    pub fn signal(&self, key: Key) -> usize {
        let mut g = self.m.lock().unwrap();
        let c = g.counts.entry(key).or_insert(0);
        *c += 1;
        let v = *c;
        g.progress += 1;
        self.cv.notify_all();
        v
    }

    pub fn count(&self, key: Key) -> usize {
        *self.m.lock().unwrap().counts.get(&key).unwrap_or(&0)
    }

    /// A library thread parks here until a permit for `key` is granted (or the gates are opened).
    /// `passed` is logged when it continues.
    pub fn arrive_and_wait(&self, key: Key, passed: &'static str) {
        let mut g = self.m.lock().unwrap();
        *g.parked.entry(key).or_insert(0) += 1;
        g.progress += 1;
        self.cv.notify_all();
        loop {
            if !g.gating {
                break;
            }
            let p = g.permits.entry(key).or_insert(0);
            if *p > 0 {
                *p -= 1;
                break;
            }
            g = self.cv.wait(g).unwrap();
        }
        *g.parked.get_mut(&key).unwrap() -= 1;
        let t = Self::thread_index(&mut g);
        g.log.push(Ev { thread: t, site: passed, arg: key.1 });
        g.progress += 1;
        self.cv.notify_all();
    }

    pub fn grant(&self, key: Key) {
        let mut g = self.m.lock().unwrap();
        *g.permits.entry(key).or_insert(0) += 1;
        self.cv.notify_all();
    }

    pub fn open(&self) {
        let mut g = self.m.lock().unwrap();
        g.gating = false;
        self.cv.notify_all();
    }

    pub fn wait_parked(&self, key: Key, timeout: Duration) -> bool {
        let deadline = Instant::now() + timeout;
        let mut g = self.m.lock().unwrap();
        loop {
            if *g.parked.get(&key).unwrap_or(&0) > 0 {
                return true;
            }
            let now = Instant::now();
            if now >= deadline {
                return false;
            }
            let (g2, _) = self.cv.wait_timeout(g, deadline - now).unwrap();
            g = g2;
        }
    }

    pub fn wait_count(&self, key: Key, at_least: usize, timeout: Duration) -> bool {
        let deadline = Instant::now() + timeout;
        let mut g = self.m.lock().unwrap();
        loop {
            if *g.counts.get(&key).unwrap_or(&0) >= at_least {
                return true;
            }
            let now = Instant::now();
            if now >= deadline {
                return false;
            }
            let (g2, _) = self.cv.wait_timeout(g, deadline - now).unwrap();
            g = g2;
        }
    }

    pub fn set_error(&self, e: String) {
        let mut g = self.m.lock().unwrap();
        if g.error.is_none() {
            g.error = Some(e);
        }
        g.gating = false;
        self.cv.notify_all();
    }

    pub fn take_error(&self) -> Option<String> {
        self.m.lock().unwrap().error.clone()
    }

    pub fn take_log(&self) -> Vec<Ev> {
        self.m.lock().unwrap().log.clone()
    }

    pub fn progress(&self) -> u64 {
        self.m.lock().unwrap().progress
    }
}

// ---------------------------------------------------------------------------------------------------------
// canonical text for tracker records (shared by `sched c05` and `batch`)

pub fn opt_bits(x: Option<f32>) -> String {
    x.map(|v| v.to_bits().to_string()).unwrap_or("n".into())
}

pub fn enc_ubox(b: &similari::prelude::Universal2DBox) -> String {
    format!(
        "{}.{}.{}.{}.{}.{}",
        b.xc.to_bits(),
        b.yc.to_bits(),
        opt_bits(b.angle),
        b.aspect.to_bits(),
        b.height.to_bits(),
        b.confidence.to_bits()
    )
}

pub fn enc_sort_track(t: &similari::prelude::SortTrack) -> String {
    format!(
        "{},{},{},{},{},{:?},{},{}",
        t.id,
        t.epoch,
        t.length,
        t.custom_object_id.map(|c| c.to_string()).unwrap_or("n".into()),
        t.scene_id,
        t.voting_type,
        enc_ubox(&t.observed_bbox),
        enc_ubox(&t.predicted_bbox)
    )
}
