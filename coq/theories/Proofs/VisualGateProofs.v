(* Lemmas about the TRANSLATED decisions of the visual tracker's metric (gen/ScalarVisual.v, from
   /repo/src/trackers/visual_sort/metric.rs), over exact rationals. All proofs are case analyses on the comparisons that
   occur in the translated text: flipping a comparison, swapping the arguments or changing a constant in the Rust code
   breaks a Qed here. Used by the visual tracker development (C12) and the gallery bound (C13). *)
From Coq Require Import ZArith NArith QArith Bool List Lqa Lia.
From Similari Require Import Base.Num Proofs.CostProofs Base.QExtra.
From SimilariGen Require Import Consts Scalar ScalarBox ScalarCost ScalarGate ScalarVisual.
Import ListNotations.
Open Scope Q_scope.

(* ---- VisualSortMetricType::is_ok / distance_to_weight ------------------------------------------------------------ *)
Lemma is_ok_spec (t d : Q) :
  (visual_is_ok Qops (VisualSortMetricType_Euclidean Qops t) d = true <-> d <= t) /\
  (visual_is_ok Qops (VisualSortMetricType_Cosine Qops t) d = true <-> t <= d).
Proof. unfold visual_is_ok. qops. split; b2p; split; intro H; lra. Qed.

Lemma distance_to_weight_spec (t d : Q) :
  visual_distance_to_weight Qops (VisualSortMetricType_Euclidean Qops t) d == d /\
  visual_distance_to_weight Qops (VisualSortMetricType_Cosine Qops t) d == 1 - d.
Proof. unfold visual_distance_to_weight. qops. split; rewrite ?Qred_correct; lra. Qed.

(* the distance that the kind selects *)
Definition visual_kind_distance (kind : VisualSortMetricType Qops) (d_euclidean d_cosine : Q) : Q :=
  match kind with VisualSortMetricType_Euclidean _ _ => d_euclidean | VisualSortMetricType_Cosine _ _ => d_cosine end.

(* ---- feature_can_be_used -------------------------------------------------------------------------------------------- *)
(* parameters: bbox_opt feature_quality visual_minimal_quality visual_own_area_percentage visual_minimal_area_percentage
   visual_minimal_area.  The Rust code panics (unreachable!) without a box: that is the translated precondition. *)
Lemma feature_can_be_used_pre_spec bbox_opt (q minq : Q) (share : option Q) (minshare minarea : Q) :
  visual_feature_can_be_used_pre Qops bbox_opt q minq share minshare minarea = true <-> exists b, bbox_opt = Some b.
Proof.
  unfold visual_feature_can_be_used_pre. qops. destruct bbox_opt as [b|]; split; intro H.
  - exists b. reflexivity.
  - reflexivity.
  - discriminate H.
  - destruct H as [b H]. discriminate H.
Qed.

Lemma feature_can_be_used_spec b (q minq : Q) (share : option Q) (minshare minarea : Q) :
  visual_feature_can_be_used Qops (Some b) q minq share minshare minarea = true <->
  minarea <= ubox_area Qops b /\ minq <= q /\ (share = None \/ exists p, share = Some p /\ minshare <= p).
Proof.
  unfold visual_feature_can_be_used. qops. destruct share as [p|]; b2p; split; intro H.
  - decompose [and] H; clear H. repeat split; try lra; try (right; exists p; split; [reflexivity | lra]).
  - destruct H as [H1 [H2 [H3|[p' [H3 H4]]]]]; [discriminate H3|]. injection H3 as <-. repeat split; lra.
  - decompose [and] H; clear H. repeat split; try lra; try (left; reflexivity).
  - destruct H as [H1 [H2 _]]. repeat split; try lra; reflexivity.
Qed.

(* ---- visual_metric: decision skeleton ------------------------------------------------------------------------------------ *)
(* parameters: collected (visual_features_collected_count) min_len (visual_minimal_track_length) kind d_euclidean d_cosine *)
Lemma visual_metric_some_iff (collected min_len : N) kind (de dc w : Q) :
  visual_metric Qops collected min_len kind de dc = Some w <->
  (min_len <= collected)%N /\ visual_is_ok Qops kind (visual_kind_distance kind de dc) = true /\
  w = visual_distance_to_weight Qops kind (visual_kind_distance kind de dc).
Proof.
  unfold visual_metric, visual_kind_distance. qops. split.
  - intro H. cases_if_in H; try discriminate H; injection H as <-; repeat split; first [assumption | reflexivity].
  - intros [H1 [H2 H3]]. apply N.leb_le in H1. rewrite H1, H2, H3. reflexivity.
Qed.

Lemma visual_metric_none_iff (collected min_len : N) kind (de dc : Q) :
  visual_metric Qops collected min_len kind de dc = None <->
  (collected < min_len)%N \/ visual_is_ok Qops kind (visual_kind_distance kind de dc) = false.
Proof.
  unfold visual_metric, visual_kind_distance. qops. split.
  - intro H. cases_if_in H; try discriminate H; first [right; assumption | right; reflexivity | left; assumption].
  - intros [H|H].
    + apply N.leb_gt in H. rewrite H. reflexivity.
    + rewrite H. destruct (N.leb min_len collected); reflexivity.
Qed.

(* in terms of the thresholds: Euclidean accepts d <= t with weight d, cosine accepts d >= t with weight 1 - d *)
Lemma visual_metric_euclidean (collected min_len : N) (t de dc w : Q) :
  visual_metric Qops collected min_len (VisualSortMetricType_Euclidean Qops t) de dc = Some w ->
  (min_len <= collected)%N /\ de <= t /\ w == de.
Proof.
  intro H. apply visual_metric_some_iff in H. destruct H as [H1 [H2 H3]]. cbn [visual_kind_distance] in *.
  split; [exact H1|]. split; [apply (is_ok_spec t de); exact H2 | rewrite H3; apply (distance_to_weight_spec t de)].
Qed.
Lemma visual_metric_cosine (collected min_len : N) (t de dc w : Q) :
  visual_metric Qops collected min_len (VisualSortMetricType_Cosine Qops t) de dc = Some w ->
  (min_len <= collected)%N /\ t <= dc /\ w == 1 - dc.
Proof.
  intro H. apply visual_metric_some_iff in H. destruct H as [H1 [H2 H3]]. cbn [visual_kind_distance] in *.
  split; [exact H1|]. split; [apply (is_ok_spec t dc); exact H2 | rewrite H3; apply (distance_to_weight_spec t dc)].
Qed.

(* ---- positional_metric: the same gate as SortMetric::metric ---------------------------------------------------------------------- *)
(* parameters: candidate_opt track_opt min_confidence method far dist iou *)
Definition visual_conf (mc : Q) (cand : Universal2DBox Qops) : Q :=
  if Qltb (Universal2DBox_confidence Qops cand) mc then mc else Universal2DBox_confidence Qops cand.

Lemma visual_conf_is_max mc cand :
  mc <= visual_conf mc cand /\ Universal2DBox_confidence Qops cand <= visual_conf mc cand /\
  (visual_conf mc cand == mc \/ visual_conf mc cand == Universal2DBox_confidence Qops cand).
Proof.
  unfold visual_conf. destruct (Qltb _ mc) eqn:E.
  - apply Qltb_iff in E. split; [lra | split; [lra | left; reflexivity]].
  - apply Qltb_false_iff in E. split; [lra | split; [lra | right; reflexivity]].
Qed.

Lemma visual_positional_needs_boxes co to (mc : Q) m far (d : Q) (iou : option Q) :
  co = None \/ to = None -> visual_positional_metric Qops co to mc m far d iou = None.
Proof. unfold visual_positional_metric. intros [->| ->]; [reflexivity | destruct co; reflexivity]. Qed.

Lemma visual_positional_far co to (mc : Q) m (d : Q) (iou : option Q) :
  visual_positional_metric Qops co to mc m true d iou = None.
Proof. unfold visual_positional_metric. destruct co, to; reflexivity. Qed.

Lemma visual_positional_some_inv co to (mc : Q) m far (d : Q) (iou : option Q) (w : Q) :
  visual_positional_metric Qops co to mc m far d iou = Some w ->
  far = false /\ exists c t, co = Some c /\ to = Some t.
Proof.
  intro H. destruct co as [c|]; [|rewrite visual_positional_needs_boxes in H by (left; reflexivity); discriminate H].
  destruct to as [t|]; [|rewrite visual_positional_needs_boxes in H by (right; reflexivity); discriminate H].
  destruct far; [rewrite visual_positional_far in H; discriminate H|].
  split; [reflexivity|]. exists c, t. split; reflexivity.
Qed.

Lemma visual_gate_iou c t (mc thr : Q) far (d : Q) (iou : option Q) (w : Q) :
  visual_positional_metric Qops (Some c) (Some t) mc (PositionalMetricType_IoU Qops thr) far d iou = Some w ->
  far = false /\ exists i, iou = Some i /\ w == i * visual_conf mc c /\ thr <= w.
Proof.
  intro H. destruct (visual_positional_some_inv _ _ _ _ _ _ _ _ H) as [Hf _]. subst far. split; [reflexivity|].
  unfold visual_positional_metric in H. qops. unfold visual_conf.
  destruct iou as [i|]; [|cases_if_in H; discriminate H].
  name_red. cases_if_in H; try discriminate H;
  (injection H as Hw; subst; exists i; split; [reflexivity|]; split; lra).
Qed.

Lemma visual_gate_iou_rejected c t (mc thr : Q) (d : Q) (iou : option Q) :
  visual_positional_metric Qops (Some c) (Some t) mc (PositionalMetricType_IoU Qops thr) false d iou = None ->
  iou = None \/ exists i, iou = Some i /\ i * visual_conf mc c <= thr.
Proof.
  intro H. unfold visual_positional_metric in H. qops. unfold visual_conf.
  destruct iou as [i|]; [|left; reflexivity]. right. exists i. split; [reflexivity|].
  name_red. cases_if_in H; try discriminate H; lra.
Qed.

Lemma visual_gate_maha c t (mc : Q) far (d : Q) (iou : option Q) (w : Q) :
  visual_positional_metric Qops (Some c) (Some t) mc (PositionalMetricType_Mahalanobis Qops) far d iou = Some w ->
  far = false /\ w == box_calculate_cost Qops d true / visual_conf mc c /\
  (0 < mc -> (0 < w <-> d <= box_gate) /\ (box_gate < d -> w == 0)).
Proof.
  intro H. destruct (visual_positional_some_inv _ _ _ _ _ _ _ _ H) as [Hf _]. subst far. split; [reflexivity|].
  assert (Ew : w == box_calculate_cost Qops d true / visual_conf mc c).
  { unfold visual_positional_metric in H. qops. unfold visual_conf. name_red.
    cases_if_in H; injection H as Hw; subst; lra. }
  split; [exact Ew|]. intro Hmc.
  destruct (visual_conf_is_max mc c) as [Hc _].
  assert (Hc0 : 0 < visual_conf mc c) by lra.
  destruct (div_pos_facts (box_calculate_cost Qops d true) (visual_conf mc c) Hc0) as [D1 D2].
  split.
  - rewrite Ew, D1. apply box_cost_inverted_pos_iff.
  - intro G. rewrite Ew. apply D2. apply (box_cost_inverted_out_of_gate d G).
Qed.

Lemma visual_gate_maha_total c t (mc : Q) (d : Q) (iou : option Q) :
  exists w, visual_positional_metric Qops (Some c) (Some t) mc (PositionalMetricType_Mahalanobis Qops) false d iou = Some w.
Proof. unfold visual_positional_metric. qops. eexists. reflexivity. Qed.

(* ---- optimize_observations: when the gallery is full, one observation (the worst after sorting) is dropped ---------------------------- *)
Lemma visual_truncate_cmp_spec (len max_obs : N) : visual_truncate_cmp Qops len max_obs = true <-> (max_obs <= len)%N.
Proof. unfold visual_truncate_cmp. b2p. reflexivity. Qed.
Lemma visual_truncate_len_spec (len : N) : visual_truncate_len Qops len = (len - 1)%N.
Proof. unfold visual_truncate_len. reflexivity. Qed.
(* consequence used for the gallery bound: after the step the length is < max_obs whenever it was <= max_obs before and max_obs > 0 *)
Lemma visual_truncate_bound (len max_obs : N) : (0 < max_obs)%N -> (len <= max_obs)%N ->
  ((if visual_truncate_cmp Qops len max_obs then visual_truncate_len Qops len else len) < max_obs)%N.
Proof.
  intros H0 H. destruct (visual_truncate_cmp Qops len max_obs) eqn:E.
  - apply visual_truncate_cmp_spec in E. rewrite visual_truncate_len_spec. lia.
  - assert (~ (max_obs <= len)%N) by (intro G; apply visual_truncate_cmp_spec in G; congruence). lia.
Qed.
