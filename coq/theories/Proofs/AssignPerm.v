(* Hungarian voting (SortVoting) does not depend on the order of the stream when the optimum is unique (C17, used by C05).
   Built on Proofs/AssignProofs.v: every answer is an optimal gated partial matching of the stream's pair SET
   (sort_winners_gated); the value and the set of valid partial matchings depend only on that set. *)
From Coq Require Import List NArith ZArith Bool Arith Lia Permutation Sorted.
From Similari Require Import Model.Assign Proofs.AssignProofs.
Import ListNotations.

Definition p_key (p : pair3) : N * N := (p_from p, p_to p).
(* no repeated (from, to) pair: what a positional metric produces (one metric per candidate/track pair) *)
Definition pairs_nodup (s : pairs) : Prop := NoDup (map p_key s).
Definition ids_pos (s : pairs) : Prop := forall p, In p s -> p_from p <> 0%N /\ p_to p <> 0%N.

(* ---------------------------------------------------------------------------------------------- *)
(* lastw only depends on the set of pairs *)
Lemma lastw_In s f t w : lastw s f t = Some w -> In (f, t, w) s.
Proof.
  induction s as [|p r IH]; cbn [lastw]; [discriminate|].
  destruct (lastw r f t) as [w'|] eqn:E.
  - intro H. inversion H; subst. right. apply IH. reflexivity.
  - destruct (N.eqb_spec (p_from p) f); cbn [andb]; [|discriminate].
    destruct (N.eqb_spec (p_to p) t); [|discriminate]. intro H. inversion H. left.
    destruct p as [[a b] c]. unfold p_from, p_to, p_w in *. cbn [fst snd] in *. subst. reflexivity.
Qed.

Lemma In_lastw s f t w : pairs_nodup s -> In (f, t, w) s -> lastw s f t = Some w.
Proof.
  unfold pairs_nodup. induction s as [|p r IH]; intros Hnd Hin; [contradiction|].
  cbn [map] in Hnd. inversion Hnd as [|? ? Hn Hd]; subst. cbn [lastw]. destruct Hin as [Hin|Hin].
  - subst p. destruct (lastw r f t) as [w'|] eqn:E.
    + exfalso. apply Hn. apply lastw_In in E. apply in_map_iff. exists (f, t, w'). split; [reflexivity | exact E].
    + unfold p_from, p_to, p_w. cbn [fst snd]. rewrite !N.eqb_refl. reflexivity.
  - rewrite (IH Hd Hin). reflexivity.
Qed.

Lemma pairs_nodup_perm s s' : Permutation s s' -> pairs_nodup s -> pairs_nodup s'.
Proof. intros Hp H. unfold pairs_nodup in *. eapply Permutation_NoDup; [apply Permutation_map, Hp | exact H]. Qed.

Lemma lastw_perm s s' f t : Permutation s s' -> pairs_nodup s -> lastw s f t = lastw s' f t.
Proof.
  intros Hp Hnd. pose proof (pairs_nodup_perm _ _ Hp Hnd) as Hnd'.
  destruct (lastw s f t) as [w|] eqn:E.
  - symmetry. apply In_lastw; [exact Hnd'|]. eapply Permutation_in; [exact Hp | apply lastw_In, E].
  - destruct (lastw s' f t) as [w'|] eqn:E'; [|reflexivity].
    apply lastw_In in E'. apply (Permutation_in _ (Permutation_sym Hp)) in E'. apply (In_lastw _ _ _ _ Hnd) in E'. congruence.
Qed.

Lemma froms_perm s s' x : Permutation s s' -> (In x (froms s) <-> In x (froms s')).
Proof.
  intro Hp. rewrite !froms_In. split; intros [p [H E]]; exists p; (split; [|exact E]); eapply Permutation_in; try eassumption.
  apply Permutation_sym, Hp.
Qed.
Lemma tos_perm s s' x : Permutation s s' -> (In x (tos s) <-> In x (tos s')).
Proof.
  intro Hp. rewrite !tos_In. split; intros [p [H E]]; exists p; (split; [|exact E]); eapply Permutation_in; try eassumption.
  apply Permutation_sym, Hp.
Qed.

Lemma froms_length_perm s s' : Permutation s s' -> length (froms s) = length (froms s').
Proof.
  intro Hp. apply Permutation_length. apply NoDup_Permutation; [apply froms_NoDup | apply froms_NoDup|].
  intro x. apply froms_perm, Hp.
Qed.
Lemma tos_length_perm s s' : Permutation s s' -> length (tos s) = length (tos s').
Proof.
  intro Hp. apply Permutation_length. apply NoDup_Permutation; [apply tos_NoDup | apply tos_NoDup|].
  intro x. apply tos_perm, Hp.
Qed.

Lemma ids_disj_perm s s' : Permutation s s' -> ids_disj s -> ids_disj s'.
Proof. intros Hp H p p' Hi Hi'. apply H; eapply Permutation_in; try apply Permutation_sym; eassumption. Qed.
Lemma ids_pos_perm s s' : Permutation s s' -> ids_pos s -> ids_pos s'.
Proof. intros Hp H p Hi. apply H. eapply Permutation_in; [apply Permutation_sym, Hp | exact Hi]. Qed.

(* ---------------------------------------------------------------------------------------------- *)
(* winners lists as finite maps: reordering to a given key order *)
Definition lookup_w (f : N) (W : list (N * N)) : N :=
  match find (fun e => (fst e =? f)%N) W with Some e => snd e | None => f end.
Definition reorder (F : list N) (W : list (N * N)) : list (N * N) := map (fun f => (f, lookup_w f W)) F.

Lemma lookup_w_In f t W : NoDup (map fst W) -> In (f, t) W -> lookup_w f W = t.
Proof.
  intros Hnd Hin. unfold lookup_w. destruct (find (fun e => (fst e =? f)%N) W) as [[f' t']|] eqn:E.
  - apply find_some in E. destruct E as [Hin' Ef]. cbn [fst] in Ef. apply N.eqb_eq in Ef. subst f'. cbn [snd].
    eapply NoDup_map_fst_unique; eassumption.
  - exfalso. apply (find_none _ _ E) in Hin. cbn [fst] in Hin. rewrite N.eqb_refl in Hin. discriminate.
Qed.

Lemma reorder_In F W e :
  NoDup (map fst W) -> (forall f, In f F <-> In f (map fst W)) -> (In e (reorder F W) <-> In e W).
Proof.
  intros Hnd Hset. unfold reorder. rewrite in_map_iff. split.
  - intros [f [E Hf]]. subst e. apply Hset in Hf. apply in_map_iff in Hf. destruct Hf as [[f' t] [Ef Hin]].
    cbn [fst] in Ef. subst f'. rewrite (lookup_w_In f t W Hnd Hin). exact Hin.
  - intro Hin. destruct e as [f t]. exists f. split.
    + rewrite (lookup_w_In f t W Hnd Hin). reflexivity.
    + apply Hset. apply in_map_iff. exists (f, t). split; [reflexivity | exact Hin].
Qed.

Lemma reorder_fst F W : map fst (reorder F W) = F.
Proof. unfold reorder. rewrite map_map. cbn [fst]. apply map_id. Qed.

Lemma reorder_perm F W :
  NoDup F -> NoDup (map fst W) -> (forall f, In f F <-> In f (map fst W)) -> Permutation (reorder F W) W.
Proof.
  intros HF Hnd Hset. apply NoDup_Permutation.
  - apply NoDup_map_inv with (f := @fst N N). rewrite reorder_fst. exact HF.
  - eapply NoDup_map_inv, Hnd.
  - intro e. apply reorder_In; assumption.
Qed.

Local Open Scope Z_scope.

Lemma w_value_perm s thr W W' : Permutation W W' -> w_value s thr W = w_value s thr W'.
Proof.
  unfold w_value. induction 1 as [|x l l' _ IH|x y l|l l' l'' _ IH1 _ IH2]; cbn [fold_right].
  - reflexivity.
  - rewrite IH. reflexivity.
  - lia.
  - congruence.
Qed.

Lemma w_value_ext s s' thr W : (forall f t, lastw s f t = lastw s' f t) -> w_value s thr W = w_value s' thr W.
Proof.
  intro H. unfold w_value. induction W as [|e W IH]; [reflexivity|]. cbn [fold_right]. rewrite IH, H. reflexivity.
Qed.

(* a gated winners list is a valid partial matching of the same value *)
Lemma gated_valid thr s W :
  gated_winners thr s W ->
  valid_pm (lastw s) (froms s) (tos s) (pm_of W) /\ pm_value (lastw s) thr (pm_of W) = w_value s thr W.
Proof.
  intros [H1 [H2 H3]]. split; [|apply pm_of_value]. unfold valid_pm. split; [|split].
  - unfold pm_of. rewrite map_map. cbn [fst]. exact H1.
  - apply pm_of_matched_NoDup, H2.
  - intros d t Hin. unfold pm_of in Hin. apply in_map_iff in Hin. destruct Hin as [[f t'] [E He]]. cbn [fst snd] in E.
    destruct (N.eqb_spec f t') as [Eq|Ne]; [discriminate|]. inversion E; subst.
    destruct (H3 _ _ He) as [Eq|[w [Hw _]]]; [congruence|].
    split; [|congruence]. destruct (lastw_Some_In _ _ _ _ Hw) as [p [Hp [_ Ep]]]. apply tos_In. exists p. tauto.
Qed.

(* transporting an answer for s' to the detection order of s *)
Lemma gated_reorder thr s s' W :
  Permutation s s' -> pairs_nodup s -> gated_winners thr s' W ->
  gated_winners thr s (reorder (froms s) W) /\ w_value s thr (reorder (froms s) W) = w_value s' thr W.
Proof.
  intros Hp Hnd [H1 [H2 H3]].
  assert (NoDup (map fst W)) as HndW by (rewrite H1; apply froms_NoDup).
  assert (forall f, In f (froms s) <-> In f (map fst W)) as Hset by (intro f; rewrite H1; apply froms_perm, Hp).
  pose proof (reorder_perm (froms s) W (froms_NoDup s) HndW Hset) as HP.
  split.
  - unfold gated_winners. split; [apply reorder_fst|]. split.
    + eapply Permutation_NoDup; [apply Permutation_map, Permutation_sym, HP | exact H2].
    + intros f t Hin. apply (reorder_In _ _ _ HndW Hset) in Hin.
      rewrite (lastw_perm s s' f t Hp Hnd). apply H3, Hin.
  - rewrite (w_value_perm s thr _ _ HP). apply w_value_ext. intros f t. apply lastw_perm; assumption.
Qed.

(* ---------------------------------------------------------------------------------------------- *)
(* uniqueness of the optimum, declaratively: any two gated answers that reach the exhaustive optimum are equal *)
Definition unique_opt (thr : Z) (s : pairs) : Prop :=
  forall W W', gated_winners thr s W -> gated_winners thr s W' ->
    w_value s thr W = fst (fst (best_partial thr s)) -> w_value s thr W' = fst (fst (best_partial thr s)) -> W = W'.

Definition km_ok_on (km : matrix -> list nat) (thr : Z) (n cols : nat) (s : pairs) : Prop :=
  forall m idx, pad_matrix thr n cols s = Some (m, idx) ->
                is_assignment (length m) (ncols m) (km m) /\ optimal m (km m).

Lemma hungarian_perm_invariant_lemma km1 km2 thr n1 c1 n2 c2 s1 s2 W1 W2 :
  0 < thr -> Permutation s1 s2 -> pairs_nodup s1 -> ids_disj s1 ->
  (length (tos s1) <= c1)%nat -> (length (tos s1) <= c2)%nat -> unique_opt thr s1 ->
  km_ok_on km1 thr n1 c1 s1 -> km_ok_on km2 thr n2 c2 s2 ->
  sort_winners km1 thr n1 c1 s1 = Some W1 -> sort_winners km2 thr n2 c2 s2 = Some W2 ->
  Permutation W1 W2 /\ (forall e, In e W1 <-> In e W2) /\ W1 = reorder (froms s1) W2.
Proof.
  intros Hthr Hp Hnd Hdisj HT1 HT2 Huniq Hk1 Hk2 R1 R2.
  destruct (sort_winners_gated km1 thr n1 c1 s1 W1 Hthr Hdisj HT1 Hk1 R1) as [G1 [B1 V1]].
  rewrite (tos_length_perm _ _ Hp) in HT2.
  destruct (sort_winners_gated km2 thr n2 c2 s2 W2 Hthr (ids_disj_perm _ _ Hp Hdisj) HT2 Hk2 R2) as [G2 [B2 V2]].
  destruct (gated_reorder thr s1 s2 W2 Hp Hnd G2) as [G2' E2'].
  destruct (gated_reorder thr s2 s1 W1 (Permutation_sym Hp) (pairs_nodup_perm _ _ Hp Hnd) G1) as [G1' E1'].
  (* both answers have the same value *)
  assert (w_value s1 thr (reorder (froms s1) W2) = w_value s1 thr W1) as Ev.
  { apply Z.le_antisymm.
    - destruct (gated_valid thr s1 _ G2') as [Hv Hval]. rewrite <- Hval. apply B1, Hv.
    - rewrite E2', <- E1'. destruct (gated_valid thr s2 _ G1') as [Hv Hval]. rewrite <- Hval. apply B2, Hv. }
  assert (W1 = reorder (froms s1) W2) as E.
  { apply Huniq; [exact G1 | exact G2' | exact V1 | rewrite Ev; exact V1]. }
  destruct G2 as [H21 [H22 H23]].
  assert (NoDup (map fst W2)) as HndW by (rewrite H21; apply froms_NoDup).
  assert (forall f, In f (froms s1) <-> In f (map fst W2)) as Hset by (intro f; rewrite H21; apply froms_perm, Hp).
  split; [|split].
  - rewrite E. apply reorder_perm; [apply froms_NoDup | exact HndW | exact Hset].
  - intro e. rewrite E. apply reorder_In; assumption.
  - exact E.
Qed.

(* ---------------------------------------------------------------------------------------------- *)
(* no panic on well-formed streams: the condition depends only on the set of pairs *)
Local Open Scope nat_scope.

Lemma length_add_id_le acc x : length acc <= length (add_id acc x).
Proof. destruct (add_id_cases acc x) as [[_ E]|[_ E]]; rewrite E; [lia | rewrite app_length; cbn; lia]. Qed.

Lemma length_addl_le xs acc : length acc <= length (addl xs acc).
Proof. destruct (addl_prefix xs acc) as [ext E]. rewrite E, app_length. lia. Qed.

Lemma pad_step_succeeds n cols st p :
  p_from p <> 0%N -> p_to p <> 0%N -> ~ In (p_from p) (ps_T st) -> ~ In (p_to p) (add_id (ps_F st) (p_from p)) ->
  length (add_id (ps_F st) (p_from p)) <= n -> length (add_id (ps_T st) (p_to p)) <= cols ->
  exists st', pad_step n cols st p = Some st'.
Proof.
  intros Hf Ht HfT HtF HlF HlT. unfold pad_step.
  destruct (N.eqb_spec (p_from p) 0); [contradiction|]. destruct (N.eqb_spec (p_to p) 0); [contradiction|]. cbn [orb].
  set (f := p_from p) in *. set (t := p_to p) in *. set (F := ps_F st) in *. set (T := ps_T st) in *.
  assert (index_of f T = None) as EfT by (apply index_of_None; exact HfT).
  assert (exists row F', (match r_index n F T f with
                          | Some r => Some (r, F)
                          | None => if length F <? n then Some (length F, F ++ [f]) else None
                          end) = Some (row, F') /\ row < n /\ F' = add_id F f) as [row [F' [E1 [Hrow EF']]]].
  { unfold r_index. rewrite EfT. cbn [option_map].
    destruct (add_id_cases F f) as [[Hin EA]|[Hnin EA]]; rewrite EA in *.
    - destruct (index_of_In _ _ Hin) as [r Er]. rewrite Er. exists r, F. split; [reflexivity|]. split; [|reflexivity].
      assert (r < length F) by (apply nth_error_Some; rewrite (index_of_Some _ _ _ Er); discriminate). lia.
    - assert (index_of f F = None) as Er by (apply index_of_None; exact Hnin). rewrite Er.
      rewrite app_length in HlF. cbn [length] in HlF.
      replace (length F <? n) with true by (symmetry; apply Nat.ltb_lt; lia).
      exists (length F), (F ++ [f]). split; [reflexivity|]. split; [lia | reflexivity]. }
  rewrite E1. subst F'.
  assert (index_of t (add_id F f) = None) as EtF by (apply index_of_None; exact HtF).
  unfold r_index. rewrite EtF.
  destruct (add_id_cases T t) as [[Hin EB]|[Hnin EB]]; rewrite EB in HlT.
  - destruct (index_of_In _ _ Hin) as [c Ec]. rewrite Ec. cbn [option_map].
    assert (c < length T) by (apply nth_error_Some; rewrite (index_of_Some _ _ _ Ec); discriminate).
    replace (row <? n) with true by (symmetry; apply Nat.ltb_lt; lia).
    replace (n + c <? n + cols) with true by (symmetry; apply Nat.ltb_lt; lia). cbn [andb]. eexists. reflexivity.
  - assert (index_of t T = None) as Ec by (apply index_of_None; exact Hnin). rewrite Ec. cbn [option_map].
    rewrite app_length in HlT. cbn [length] in HlT.
    replace (row <? n) with true by (symmetry; apply Nat.ltb_lt; lia).
    replace (n + length T <? n + cols) with true by (symmetry; apply Nat.ltb_lt; lia). cbn [andb]. eexists. reflexivity.
Qed.

Lemma pad_run_succeeds n cols s : forall st,
  (forall p, In p s -> p_from p <> 0%N /\ p_to p <> 0%N) ->
  (forall p, In p s -> ~ In (p_from p) (addl (map p_to s) (ps_T st))) ->
  (forall p, In p s -> ~ In (p_to p) (addl (map p_from s) (ps_F st))) ->
  length (addl (map p_from s) (ps_F st)) <= n -> length (addl (map p_to s) (ps_T st)) <= cols ->
  exists st', pad_run n cols st s = Some st'.
Proof.
  induction s as [|p r IH]; intros st Hnz HfT HtF HlF HlT; [eexists; reflexivity|].
  cbn [pad_run]. rewrite !map_cons, !addl_cons in *.
  assert (~ In (p_to p) (add_id (ps_F st) (p_from p))) as Hnt.
  { intro H. apply (HtF p (or_introl eq_refl)). apply addl_In. left. exact H. }
  destruct (pad_step_succeeds n cols st p) as [st1 E1].
  - apply Hnz. left. reflexivity.
  - apply Hnz. left. reflexivity.
  - intro H. apply (HfT p (or_introl eq_refl)). apply addl_In. left. apply add_id_In. left. exact H.
  - exact Hnt.
  - pose proof (length_addl_le (map p_from r) (add_id (ps_F st) (p_from p))). lia.
  - pose proof (length_addl_le (map p_to r) (add_id (ps_T st) (p_to p))). lia.
  - rewrite E1. destruct (pad_step_spec _ _ _ _ _ E1 Hnt) as [EF1 [ET1 _]].
    apply IH.
    + intros p' Hp'. apply Hnz. right. exact Hp'.
    + intros p' Hp'. rewrite ET1. apply HfT. right. exact Hp'.
    + intros p' Hp'. rewrite EF1. apply HtF. right. exact Hp'.
    + rewrite EF1. exact HlF.
    + rewrite ET1. exact HlT.
Qed.

Lemma pad_matrix_succeeds thr n cols s :
  ids_pos s -> ids_disj s -> length (froms s) <= n -> length (tos s) <= cols ->
  exists m idx, pad_matrix thr n cols s = Some (m, idx).
Proof.
  intros Hpos Hdisj HF HT. unfold pad_matrix.
  destruct (pad_run_succeeds n cols s {| ps_F := []; ps_T := []; ps_m := mzero n (n + cols) |}) as [st E]; cbn [ps_F ps_T].
  - exact Hpos.
  - intros p Hp Hin. apply (tos_In s) in Hin. destruct Hin as [p' [Hp' E]]. apply (Hdisj p p' Hp Hp'). congruence.
  - intros p Hp Hin. apply (froms_In s) in Hin. destruct Hin as [p' [Hp' E]]. apply (Hdisj p' p Hp' Hp). exact E.
  - exact HF.
  - exact HT.
  - rewrite E. eexists. eexists. reflexivity.
Qed.

Lemma sort_winners_succeeds km thr n cols s :
  (0 < thr)%Z -> ids_pos s -> ids_disj s -> length (froms s) <= n -> length (tos s) <= cols ->
  km_ok_on km thr n cols s -> exists W, sort_winners km thr n cols s = Some W.
Proof.
  intros Hthr Hpos Hdisj HF HT Hkm. unfold sort_winners. destruct (cols =? 0); [eexists; reflexivity|].
  destruct (pad_matrix_succeeds thr n cols s Hpos Hdisj HF HT) as [m [idx E]]. rewrite E.
  destruct (Hkm m idx E) as [Ha Hopt].
  destruct (pad_matrix_spec _ _ _ _ _ _ E Hdisj) as [_ [_ [_ [Hd _]]]].
  destruct (pad_opt_lemma thr n cols s m idx (km m) Hthr Hdisj E (is_assignment_of_m _ _ _ _ Hd Ha) Hopt) as [W [Hdec _]].
  exists W. exact Hdec.
Qed.

(* ---------------------------------------------------------------------------------------------- *)
(* canonical form of a winners map: sorted by query id *)
Fixpoint insert_w (e : N * N) (l : list (N * N)) : list (N * N) :=
  match l with
  | [] => [e]
  | x :: r => if (fst e <=? fst x)%N then e :: l else x :: insert_w e r
  end.
Definition canon_w (W : list (N * N)) : list (N * N) := fold_right insert_w [] W.

Lemma insert_w_perm e l : Permutation (insert_w e l) (e :: l).
Proof.
  induction l as [|x l IH]; cbn [insert_w]; [reflexivity|]. destruct (fst e <=? fst x)%N; [reflexivity|].
  eapply perm_trans; [apply perm_skip, IH | apply perm_swap].
Qed.

Lemma canon_w_perm W : Permutation (canon_w W) W.
Proof.
  induction W as [|e W IH]; cbn [canon_w fold_right]; [constructor|]. fold (canon_w W).
  eapply perm_trans; [apply insert_w_perm | apply perm_skip, IH].
Qed.

Definition le_fst (a b : N * N) : Prop := (fst a <= fst b)%N.

Lemma insert_w_sorted e l : StronglySorted le_fst l -> StronglySorted le_fst (insert_w e l).
Proof.
  induction l as [|x l IH]; cbn [insert_w]; intro Hs; [repeat constructor|].
  apply StronglySorted_inv in Hs. destruct Hs as [Hs Hx]. destruct (N.leb_spec (fst e) (fst x)) as [Hle|Hgt].
  - constructor; [constructor; assumption|]. constructor; [exact Hle|].
    rewrite Forall_forall in *. intros y Hy. unfold le_fst in *. specialize (Hx y Hy). lia.
  - constructor; [apply IH, Hs|]. apply Forall_forall. intros y Hy.
    apply (Permutation_in _ (insert_w_perm e l)) in Hy. destruct Hy as [Hy|Hy]; [subst; unfold le_fst; lia|].
    rewrite Forall_forall in Hx. apply Hx, Hy.
Qed.

Lemma canon_w_sorted W : StronglySorted le_fst (canon_w W).
Proof. induction W as [|e W IH]; cbn [canon_w fold_right]; [constructor | apply insert_w_sorted, IH]. Qed.

Lemma sorted_fst_unique l1 : forall l2,
  Permutation l1 l2 -> StronglySorted le_fst l1 -> StronglySorted le_fst l2 -> NoDup (map fst l1) -> l1 = l2.
Proof.
  induction l1 as [|a r1 IH]; intros l2 Hp H1 H2 Hnd.
  - apply Permutation_nil in Hp. subst. reflexivity.
  - destruct l2 as [|b r2]; [apply Permutation_sym, Permutation_nil in Hp; discriminate|].
    apply StronglySorted_inv in H1. destruct H1 as [H1 Ha]. apply StronglySorted_inv in H2. destruct H2 as [H2 Hb].
    rewrite Forall_forall in Ha, Hb.
    assert (a = b) as Eab.
    { assert (In a (b :: r2)) as Ia by (apply (Permutation_in _ Hp); left; reflexivity).
      assert (In b (a :: r1)) as Ib by (apply (Permutation_in _ (Permutation_sym Hp)); left; reflexivity).
      destruct Ia as [Ia|Ia]; [congruence|]. destruct Ib as [Ib|Ib]; [congruence|].
      specialize (Hb _ Ia). specialize (Ha _ Ib). unfold le_fst in *.
      assert (fst a = fst b) as Ef by lia.
      destruct a as [a1 a2], b as [b1 b2]. cbn [fst] in Ef. subst b1. f_equal.
      eapply (NoDup_map_fst_unique ((a1, a2) :: r1)); [exact Hnd | left; reflexivity | right; exact Ib]. }
    subst b. f_equal. apply IH; try assumption.
    + eapply Permutation_cons_inv, Hp.
    + cbn [map] in Hnd. inversion Hnd; assumption.
Qed.

Lemma canon_w_unique W W' : NoDup (map fst W) -> Permutation W W' -> canon_w W = canon_w W'.
Proof.
  intros Hnd Hp. apply sorted_fst_unique.
  - eapply perm_trans; [apply canon_w_perm|]. eapply perm_trans; [exact Hp | apply Permutation_sym, canon_w_perm].
  - apply canon_w_sorted.
  - apply canon_w_sorted.
  - eapply Permutation_NoDup; [apply Permutation_map, Permutation_sym, canon_w_perm | exact Hnd].
Qed.

(* ---------------------------------------------------------------------------------------------- *)
(* packaged: a total winners function with Leibniz-equal results *)
Definition hung_tie_free (thr : Z) (s : pairs) : Prop :=
  ids_pos s /\ ids_disj s /\ pairs_nodup s /\ unique_opt thr s.

(* declared sizes taken from the stream itself (any adequate sizes give the same answer: hungarian_perm_invariant) *)
Definition hung_winners (km : matrix -> list nat) (thr : Z) (s : pairs) : option (list (N * N)) :=
  option_map canon_w (sort_winners km thr (length (froms s)) (length (tos s)) s).

Definition km_ok (km : matrix -> list nat) : Prop :=
  forall thr n cols s m idx, pad_matrix thr n cols s = Some (m, idx) ->
    is_assignment (length m) (ncols m) (km m) /\ optimal m (km m).

Lemma hung_winners_perm_invariant_lemma km thr :
  (0 < thr)%Z -> km_ok km ->
  forall s1 s2, Permutation s1 s2 -> hung_tie_free thr s1 -> hung_winners km thr s1 = hung_winners km thr s2.
Proof.
  intros Hthr Hkm s1 s2 Hp [Hpos [Hdisj [Hnd Huniq]]]. unfold hung_winners.
  assert (km_ok_on km thr (length (froms s1)) (length (tos s1)) s1) as K1 by (intros m idx; apply Hkm).
  assert (km_ok_on km thr (length (froms s2)) (length (tos s2)) s2) as K2 by (intros m idx; apply Hkm).
  destruct (sort_winners_succeeds km thr _ _ s1 Hthr Hpos Hdisj (le_n _) (le_n _) K1) as [W1 R1].
  destruct (sort_winners_succeeds km thr _ _ s2 Hthr (ids_pos_perm _ _ Hp Hpos) (ids_disj_perm _ _ Hp Hdisj) (le_n _) (le_n _) K2) as [W2 R2].
  rewrite R1, R2. cbn [option_map]. f_equal.
  destruct (hungarian_perm_invariant_lemma km km thr _ _ _ _ s1 s2 W1 W2 Hthr Hp Hnd Hdisj (le_n _)
              ltac:(rewrite (tos_length_perm _ _ Hp); apply le_n) Huniq K1 K2 R1 R2) as [HP _].
  apply canon_w_unique; [|exact HP].
  destruct (sort_winners_gated km thr _ _ s1 W1 Hthr Hdisj (le_n _) K1 R1) as [[H1 _] _]. rewrite H1. apply froms_NoDup.
Qed.

(* the answer does not depend on the declared sizes either, as long as they are adequate *)
Lemma hung_winners_any_sizes_lemma km thr n cols s W :
  (0 < thr)%Z -> km_ok km -> hung_tie_free thr s -> (length (tos s) <= cols)%nat ->
  sort_winners km thr n cols s = Some W -> hung_winners km thr s = Some (canon_w W).
Proof.
  intros Hthr Hkm [Hpos [Hdisj [Hnd Huniq]]] HT R. unfold hung_winners.
  assert (km_ok_on km thr (length (froms s)) (length (tos s)) s) as K1 by (intros m idx; apply Hkm).
  assert (km_ok_on km thr n cols s) as K2 by (intros m idx; apply Hkm).
  destruct (sort_winners_succeeds km thr _ _ s Hthr Hpos Hdisj (le_n _) (le_n _) K1) as [W1 R1].
  rewrite R1. cbn [option_map]. f_equal.
  destruct (hungarian_perm_invariant_lemma km km thr _ _ n cols s s W1 W Hthr (Permutation_refl s) Hnd Hdisj (le_n _) HT Huniq K1 K2 R1 R)
    as [HP _].
  apply canon_w_unique; [|exact HP].
  destruct (sort_winners_gated km thr _ _ s W1 Hthr Hdisj (le_n _) K1 R1) as [[H1 _] _]. rewrite H1. apply froms_NoDup.
Qed.
