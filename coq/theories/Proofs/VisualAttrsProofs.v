(* Lemmas about Model/VisualAttrs.v (C13). *)
From Coq Require Import List NArith QArith Bool Arith Lia Sorted Permutation.
From Similari Require Import Model.VisualAttrs.
From Similari Require Base.Num Proofs.VisualGateProofs.
From SimilariGen Require Scalar ScalarBox ScalarVisual.
Import ListNotations.
Local Open Scope nat_scope.

(* ================================================================================================ *)
(* histories                                                                                        *)

Lemma tl_skipn {A} k (l : list A) : tl (skipn k l) = skipn (S k) l.
Proof.
  revert l. induction k as [|k IH]; intros [|x l]; try reflexivity.
  cbn [skipn]. rewrite IH. destruct l; reflexivity.
Qed.

Definition hist_of {A} (h : nat) (ds : list A) : list A := if 0 <? h then lastn h ds else ds.

Lemma lastn_length {A} k (l : list A) : length (lastn k l) = Nat.min (length l) k.
Proof. unfold lastn. rewrite skipn_length. lia. Qed.

Lemma hist_of_length {A} h (ds : list A) : length (hist_of h ds) = kept h (length ds).
Proof. unfold hist_of, kept. destruct (0 <? h); [apply lastn_length | reflexivity]. Qed.

Lemma hist_push {A} h (ds : list A) d :
  push_hist h (S (length (hist_of h ds))) (hist_of h ds) d = hist_of h (ds ++ [d]).
Proof.
  unfold push_hist, hist_of.
  destruct (Nat.ltb_spec 0 h) as [Hh|Hh]; cbn [andb]; [|reflexivity].
  rewrite lastn_length. unfold lastn. rewrite app_length. cbn [length].
  destruct (Nat.ltb_spec h (S (Nat.min (length ds) h))) as [Hc|Hc].
  - assert (Hle : h <= length ds) by lia.
    replace (length ds + 1 - h) with (S (length ds - h)) by lia.
    rewrite <- tl_skipn. rewrite skipn_app.
    replace (length ds - h - length ds) with 0 by lia. reflexivity.
  - replace (length ds - h) with 0 by lia. replace (length ds + 1 - h) with 0 by lia. reflexivity.
Qed.

Lemma push_hist_map {A B} (f : A -> B) h n l x : push_hist h n (map f l) (f x) = map f (push_hist h n l x).
Proof.
  unfold push_hist. destruct ((0 <? h) && (h <? n)).
  - change [f x] with (map f [x]). rewrite <- map_app. destruct (l ++ [x]); reflexivity.
  - rewrite map_app. reflexivity.
Qed.

(* the newest entry is the last one of a non-empty kept history *)
Lemma hist_of_snoc {A} h (ds : list A) d : exists pre, hist_of h (ds ++ [d]) = pre ++ [d].
Proof.
  rewrite <- hist_push. unfold push_hist.
  destruct ((0 <? h) && (h <? S (length (hist_of h ds)))) eqn:E.
  - destruct (hist_of h ds) as [|x l] eqn:El.
    + apply andb_prop in E. destruct E as [E1 E2].
      apply Nat.ltb_lt in E1. apply Nat.ltb_lt in E2. cbn in E2. lia.
    + exists l. reflexivity.
  - eexists. reflexivity.
Qed.

Definition feat_pair (d : det) : N * bool := (d_uid d, d_feat d).

Definition hist_inv (h : nat) (ds : list det) (a : vattrs) : Prop :=
  a_obs a = map d_uid (hist_of h ds) /\ a_pred a = map d_uid (hist_of h ds) /\
  a_feat a = map feat_pair (hist_of h ds) /\ a_len a = length ds.

Lemma update_history_inv h ds a d : hist_inv h ds a -> hist_inv h (ds ++ [d]) (update_history h a d).
Proof.
  intros (Ho & Hp & Hf & Hl). unfold update_history, hist_inv. cbn [a_obs a_pred a_feat a_len].
  rewrite Ho, Hp, Hf, Hl, map_length.
  change (d_uid d, d_feat d) with (feat_pair d).
  rewrite !push_hist_map, hist_push, app_length. cbn [length]. repeat split; lia.
Qed.

Lemma optimize_attrs o m a g d :
  let a1 := update_history (o_hist o) a d in
  a_obs (fst (optimize o m a g d)) = a_obs a1 /\ a_pred (fst (optimize o m a g d)) = a_pred a1 /\
  a_feat (fst (optimize o m a g d)) = a_feat a1 /\ a_len (fst (optimize o m a g d)) = a_len a1.
Proof. cbn. repeat split. Qed.

Lemma track_run_snoc o steps s : track_run o (steps ++ [s]) = track_step o (track_run o steps) s.
Proof. unfold track_run. rewrite fold_left_app. reflexivity. Qed.

Lemma track_step_attrs o t s :
  t_attrs (track_step o t s) = fst (optimize o (fst s) (t_attrs t) (t_gal t) (snd s)) /\
  t_gal (track_step o t s) = snd (optimize o (fst s) (t_attrs t) (t_gal t) (snd s)).
Proof. unfold track_step. destruct (optimize o (fst s) (t_attrs t) (t_gal t) (snd s)); split; reflexivity. Qed.

Lemma history_inv_run o steps : hist_inv (o_hist o) (map snd steps) (t_attrs (track_run o steps)).
Proof.
  induction steps as [|s steps IH] using rev_ind.
  - cbv [track_run fold_left track0 t_attrs attrs0 hist_inv a_obs a_pred a_feat a_len map hist_of lastn].
    destruct (0 <? o_hist o); repeat split.
  - rewrite track_run_snoc, map_app. cbn [map].
    destruct (track_step_attrs o (track_run o steps) s) as [Ha _]. rewrite Ha.
    pose proof (update_history_inv (o_hist o) (map snd steps) (t_attrs (track_run o steps)) (snd s) IH) as H.
    destruct H as (Ho & Hp & Hf & Hl).
    destruct (optimize_attrs o (fst s) (t_attrs (track_run o steps)) (t_gal (track_run o steps)) (snd s)) as (E1 & E2 & E3 & E4).
    unfold hist_inv. rewrite E1, E2, E3, E4. auto.
Qed.

Lemma history_is_last_k_lemma o steps :
  let a := t_attrs (track_run o steps) in
  let ds := map snd steps in
  a_obs a = map d_uid (hist_of (o_hist o) ds) /\
  a_pred a = map d_uid (hist_of (o_hist o) ds) /\
  a_feat a = map feat_pair (hist_of (o_hist o) ds) /\
  a_len a = length steps /\
  length (hist_of (o_hist o) ds) = kept (o_hist o) (length steps).
Proof.
  cbn zeta. destruct (history_inv_run o steps) as (Ho & Hp & Hf & Hl).
  rewrite map_length in Hl. rewrite hist_of_length, map_length. auto.
Qed.

Lemma last_map_snoc {A B} (f : A -> B) pre d : last (map Some (map f (pre ++ [d]))) None = Some (f d).
Proof. rewrite !map_app. cbn [map]. apply last_last. Qed.

Lemma record_echoes_last_lemma o steps m d :
  record_of (t_attrs (track_run o (steps ++ [(m, d)]))) =
  mkRec (Some (d_uid d)) (Some (d_uid d)) (S (length steps)).
Proof.
  destruct (history_is_last_k_lemma o (steps ++ [(m, d)])) as (Ho & Hp & _ & Hl & _).
  unfold record_of. rewrite Ho, Hp, Hl. rewrite map_app. cbn [map snd].
  destruct (hist_of_snoc (o_hist o) (map snd steps) d) as [pre Hpre]. rewrite Hpre.
  rewrite !last_map_snoc, app_length. cbn [length]. f_equal. lia.
Qed.

(* SORT: the two queues *)
Definition shist_inv (h : nat) (us : list N) (a : sattrs) : Prop :=
  sa_obs a = hist_of h us /\ sa_pred a = hist_of h us /\ sa_len a = length us.

Lemma sort_run_snoc h us u : sort_run h (us ++ [u]) = sort_update_history h (sort_run h us) u.
Proof. unfold sort_run. rewrite fold_left_app. reflexivity. Qed.

Lemma sort_history_lemma h us :
  sa_obs (sort_run h us) = hist_of h us /\ sa_pred (sort_run h us) = hist_of h us /\
  sa_len (sort_run h us) = length us /\ length (hist_of h us) = kept h (length us).
Proof.
  assert (H : shist_inv h us (sort_run h us)).
  { induction us as [|u us IH] using rev_ind.
    - cbv [sort_run fold_left sattrs0 shist_inv sa_obs sa_pred sa_len hist_of lastn]. destruct (0 <? h); repeat split.
    - rewrite sort_run_snoc. destruct IH as (Ho & Hp & Hl).
      unfold sort_update_history, shist_inv. cbn [sa_obs sa_pred sa_len]. rewrite Ho, Hp, Hl, hist_push, app_length.
      cbn [length]. repeat split; lia. }
  destruct H as (Ho & Hp & Hl). rewrite hist_of_length. auto.
Qed.

Lemma sort_last_lemma h us u :
  last (map Some (sa_obs (sort_run h (us ++ [u])))) None = Some u /\
  last (map Some (sa_pred (sort_run h (us ++ [u])))) None = Some u.
Proof.
  destruct (sort_history_lemma h (us ++ [u])) as (Ho & Hp & _). rewrite Ho, Hp.
  destruct (hist_of_snoc h us u) as [pre Hpre]. rewrite Hpre, map_app. cbn [map]. split; apply last_last.
Qed.

(* ================================================================================================ *)
(* the gallery                                                                                      *)

Definition qge (a b : gentry) : Prop := (g_q b <= g_q a)%Q.

Lemma insert_desc_perm e l : Permutation (insert_desc e l) (e :: l).
Proof.
  induction l as [|x l IH]; cbn [insert_desc]; [reflexivity|].
  destruct (Qle_bool (g_q x) (g_q e)); [reflexivity|].
  rewrite IH. apply perm_swap.
Qed.

Lemma sort_desc_perm l : Permutation (sort_desc l) l.
Proof.
  induction l as [|x l IH]; [reflexivity|].
  cbn [sort_desc fold_right]. fold (sort_desc l). rewrite insert_desc_perm. constructor. exact IH.
Qed.

Lemma sort_desc_length l : length (sort_desc l) = length l.
Proof. apply Permutation_length, sort_desc_perm. Qed.

Lemma insert_desc_sorted e l : StronglySorted qge l -> StronglySorted qge (insert_desc e l).
Proof.
  induction 1 as [|x l Hs IH Hx]; cbn [insert_desc].
  - repeat constructor.
  - destruct (Qle_bool (g_q x) (g_q e)) eqn:E.
    + apply Qle_bool_iff in E. constructor; [constructor; assumption|].
      constructor; [exact E|]. rewrite Forall_forall in *. intros y Hy. unfold qge in *.
      eapply Qle_trans; [apply Hx, Hy | exact E].
    + constructor; [exact IH|].
      rewrite Forall_forall in *. intros y Hy.
      apply (Permutation_in _ (insert_desc_perm e l)) in Hy. destruct Hy as [<-|Hy]; [|apply Hx, Hy].
      unfold qge. destruct (Qlt_le_dec (g_q e) (g_q x)) as [Hlt|Hle]; [apply Qlt_le_weak, Hlt|].
      apply Qle_bool_iff in Hle. congruence.
Qed.

Lemma sort_desc_sorted l : StronglySorted qge (sort_desc l).
Proof.
  induction l as [|x l IH]; [constructor|].
  cbn [sort_desc fold_right]. fold (sort_desc l). apply insert_desc_sorted, IH.
Qed.

(* in a descending list the last element is a minimum *)
Lemma sorted_last_min l d : StronglySorted qge l -> l <> [] -> forall y, In y l -> (g_q (last l d) <= g_q y)%Q.
Proof.
  induction 1 as [|x l Hs IH Hx]; [congruence|]. intros _ y Hy.
  destruct l as [|x' l'].
  - destruct Hy as [<-|[]]. cbn. apply Qle_refl.
  - change (last (x :: x' :: l') d) with (last (x' :: l') d).
    destruct Hy as [<-|Hy].
    + rewrite Forall_forall in Hx. apply Hx.
      destruct (@exists_last _ (x' :: l')) as (pre & z & E); [congruence|]. rewrite E, last_last. apply in_or_app. right. left. reflexivity.
    + apply IH; [congruence | exact Hy].
Qed.

Lemma removelast_length {A} (l : list A) : length (removelast l) = pred (length l).
Proof.
  induction l as [|x l IH]; [reflexivity|]. destruct l as [|y l]; [reflexivity|].
  change (removelast (x :: y :: l)) with (x :: removelast (y :: l)). cbn [length] in *. rewrite IH. reflexivity.
Qed.

(* the translated truncation step is "drop the last one when the list is at least max_obs long" *)
Lemma optimize_observations_eq max_obs g :
  optimize_observations max_obs g =
  if max_obs <=? length (sort_desc (filter g_feat g)) then removelast (sort_desc (filter g_feat g)) else sort_desc (filter g_feat g).
Proof.
  unfold optimize_observations. cbv zeta.
  destruct (ScalarVisual.visual_truncate_cmp Num.Qops (N.of_nat (length (sort_desc (filter g_feat g)))) (N.of_nat max_obs)) eqn:E.
  - apply VisualGateProofs.visual_truncate_cmp_spec in E.
    destruct (Nat.leb_spec max_obs (length (sort_desc (filter g_feat g)))) as [H|H]; [|lia].
    rewrite VisualGateProofs.visual_truncate_len_spec, removelast_firstn_len. f_equal. lia.
  - destruct (Nat.leb_spec max_obs (length (sort_desc (filter g_feat g)))) as [H|H]; [|reflexivity].
    assert (T : ScalarVisual.visual_truncate_cmp Num.Qops (N.of_nat (length (sort_desc (filter g_feat g)))) (N.of_nat max_obs) = true)
      by (apply VisualGateProofs.visual_truncate_cmp_spec; lia).
    congruence.
Qed.

(* the collect / use gate, in terms of the facts the oracle supplies *)
Lemma box_of_area_area a : (ScalarBox.ubox_area Num.Qops (box_of_area a) == a)%Q.
Proof.
  unfold ScalarBox.ubox_area, box_of_area. cbn [Scalar.Universal2DBox_height Scalar.Universal2DBox_aspect Num.mul Num.Qops].
  rewrite !Qred_correct. ring.
Qed.

Lemma feature_can_be_used_iff min_area area q min_q own min_own :
  feature_can_be_used min_area area q min_q own min_own = true <->
  (min_area <= area)%Q /\ (min_q <= q)%Q /\ (forall p, own = Some p -> (min_own <= p)%Q).
Proof.
  unfold feature_can_be_used. rewrite VisualGateProofs.feature_can_be_used_spec, box_of_area_area. split.
  - intros (A & B & C). repeat split; auto. intros p E. destruct C as [C|(p' & C & D)]; [congruence|]. rewrite C in E. injection E as <-. exact D.
  - intros (A & B & C). repeat split; auto. destruct own as [p|]; [right; exists p; split; [reflexivity | apply C; reflexivity] | left; reflexivity].
Qed.

Lemma optimize_observations_length max_obs g :
  1 <= max_obs -> length (filter g_feat g) <= max_obs -> S (length (optimize_observations max_obs g)) <= max_obs.
Proof.
  intros Hm Hl. rewrite optimize_observations_eq. rewrite sort_desc_length.
  destruct (Nat.leb_spec max_obs (length (filter g_feat g))) as [Hc|Hc].
  - rewrite removelast_length, sort_desc_length. lia.
  - rewrite sort_desc_length. lia.
Qed.

Lemma push_swap_length g e : length (push_swap g e) = S (length g).
Proof. destruct g; cbn [push_swap length]; [reflexivity|]. rewrite app_length. cbn. lia. Qed.

Lemma push_swap_hd g e : hd_error (push_swap g e) = Some e.
Proof. destruct g; reflexivity. Qed.

Lemma push_swap_tl_perm g e : Permutation (tl (push_swap g e)) g.
Proof.
  destruct g as [|x xs]; cbn [push_swap tl]; [reflexivity|].
  rewrite Permutation_app_comm. reflexivity.
Qed.

Lemma filter_length_le {A} (f : A -> bool) l : length (filter f l) <= length l.
Proof. induction l as [|x l IH]; cbn; [lia|]. destruct (f x); cbn; lia. Qed.

(* what optimize_observations keeps / evicts *)
Lemma optimize_observations_spec max_obs g :
  1 <= max_obs ->
  exists ev, Permutation (filter g_feat g) (ev ++ optimize_observations max_obs g) /\
    (length (filter g_feat g) < max_obs -> ev = []) /\
    (max_obs <= length (filter g_feat g) ->
       exists x, ev = [x] /\ forall y, In y (filter g_feat g) -> (g_q x <= g_q y)%Q).
Proof.
  intros Hm. rewrite optimize_observations_eq. rewrite sort_desc_length.
  set (f := filter g_feat g).
  destruct (Nat.leb_spec max_obs (length f)) as [Hc|Hc].
  - assert (Hne : sort_desc f <> []).
    { intro E. apply (f_equal (@length _)) in E. rewrite sort_desc_length in E. cbn in E. lia. }
    set (x := last (sort_desc f) (mkG 0 false 0%N)).
    exists [x]. split; [|split].
    + rewrite Permutation_app_comm. subst x. rewrite <- (app_removelast_last (mkG 0 false 0%N) Hne).
      symmetry. apply sort_desc_perm.
    + lia.
    + intros _. exists x. split; [reflexivity|]. intros y Hy.
      apply sorted_last_min; [apply sort_desc_sorted | exact Hne |].
      apply (Permutation_in _ (Permutation_sym (sort_desc_perm f))), Hy.
  - exists []. split; [|split].
    + cbn [app]. symmetry. apply sort_desc_perm.
    + reflexivity.
    + lia.
Qed.

(* ---- invariants of a life -------------------------------------------------------------------------- *)
Definition gal_inv (o : gopts) (t : vtrack) : Prop :=
  length (t_gal t) <= o_max_obs o /\ a_collected (t_attrs t) = count_feat (t_gal t) /\
  Forall (fun e => g_feat e = true) (tl (t_gal t)).

Lemma optimize_gal o m a g d :
  snd (optimize o m a g d) =
  push_swap (optimize_observations (o_max_obs o) g)
            (mkG (d_q d) (d_feat d && negb (m && negb (can_collect o d))) (d_uid d)) /\
  a_collected (fst (optimize o m a g d)) = count_feat (snd (optimize o m a g d)).
Proof. split; reflexivity. Qed.

Lemma optimize_observations_featured max_obs g : Forall (fun e => g_feat e = true) (optimize_observations max_obs g).
Proof.
  assert (H : Forall (fun e => g_feat e = true) (sort_desc (filter g_feat g))).
  { rewrite Forall_forall. intros e He. apply (Permutation_in _ (sort_desc_perm _)) in He.
    apply filter_In in He. tauto. }
  rewrite optimize_observations_eq. destruct (Nat.leb max_obs (length (sort_desc (filter g_feat g)))); [|exact H].
  rewrite Forall_forall in *. intros e He. apply H.
  destruct (sort_desc (filter g_feat g)) as [|x l] eqn:E; [destruct He|].
  assert (Hne : x :: l <> []) by congruence.
  rewrite (app_removelast_last x Hne). apply in_or_app. left. exact He.
Qed.

Lemma track_step_inv o t s : 1 <= o_max_obs o -> gal_inv o t -> gal_inv o (track_step o t s).
Proof.
  intros Hm (Hlen & _ & _). destruct (track_step_attrs o t s) as [Ha Hg].
  destruct (optimize_gal o (fst s) (t_attrs t) (t_gal t) (snd s)) as [Eg Ec].
  unfold gal_inv. rewrite Ha, Hg, Ec. split; [|split; [reflexivity|]].
  - rewrite Eg, push_swap_length. apply optimize_observations_length; [exact Hm|].
    pose proof (filter_length_le g_feat (t_gal t)). lia.
  - rewrite Eg. rewrite Forall_forall. intros e He.
    apply (Permutation_in _ (push_swap_tl_perm _ _)) in He.
    pose proof (optimize_observations_featured (o_max_obs o) (t_gal t)) as F. rewrite Forall_forall in F. apply F, He.
Qed.

Lemma gal_inv_run o steps : 1 <= o_max_obs o -> gal_inv o (track_run o steps).
Proof.
  intros Hm. induction steps as [|s steps IH] using rev_ind.
  - unfold gal_inv. cbn. repeat split; [lia | constructor].
  - rewrite track_run_snoc. apply track_step_inv; assumption.
Qed.

Lemma count_feat_le g : count_feat g <= length g.
Proof. apply filter_length_le. Qed.

(* ================================================================================================ *)
(* statements in the vocabulary of the model file (lastn / kept), as used by Props/C13.v            *)

Lemma hist_of_lastn {A} h (ds : list A) : hist_of h ds = lastn (kept h (length ds)) ds.
Proof.
  unfold hist_of, kept, lastn. destruct (0 <? h).
  - f_equal. lia.
  - replace (length ds - length ds) with 0 by lia. reflexivity.
Qed.

Lemma history_is_last_k_stmt o steps :
  let a := t_attrs (track_run o steps) in
  let ds := map snd steps in
  let k := kept (o_hist o) (length steps) in
  a_obs a = map d_uid (lastn k ds) /\
  a_pred a = map d_uid (lastn k ds) /\
  a_feat a = map (fun d => (d_uid d, d_feat d)) (lastn k ds) /\
  a_len a = length steps /\
  length (a_obs a) = k /\ length (a_pred a) = k /\ length (a_feat a) = k.
Proof.
  cbn zeta. destruct (history_is_last_k_lemma o steps) as (Ho & Hp & Hf & Hl & Hk).
  rewrite hist_of_lastn in Ho, Hp, Hf, Hk. rewrite map_length in Ho, Hp, Hf, Hk.
  rewrite Ho, Hp, Hf, !map_length, Hk. repeat split; auto.
Qed.

Lemma sort_history_stmt h us :
  let a := sort_run h us in
  let k := kept h (length us) in
  sa_obs a = lastn k us /\ sa_pred a = lastn k us /\ sa_len a = length us /\ length (sa_obs a) = k.
Proof.
  cbn zeta. destruct (sort_history_lemma h us) as (Ho & Hp & Hl & Hk).
  rewrite hist_of_lastn in Ho, Hp, Hk. rewrite Ho, Hp, Hk. auto.
Qed.

Lemma collected_run o steps : a_collected (t_attrs (track_run o steps)) = count_feat (t_gal (track_run o steps)).
Proof.
  destruct steps as [|s steps] using rev_ind; [reflexivity|].
  rewrite track_run_snoc. destruct (track_step_attrs o (track_run o steps) s) as [Ha Hg]. rewrite Ha, Hg.
  apply optimize_gal.
Qed.

Lemma gallery_bounded_lemma o steps : 1 <= o_max_obs o ->
  length (t_gal (track_run o steps)) <= o_max_obs o /\ count_feat (t_gal (track_run o steps)) <= o_max_obs o.
Proof.
  intros Hm. destruct (gal_inv_run o steps Hm) as (H & _ & _). split; [exact H|].
  pose proof (count_feat_le (t_gal (track_run o steps))). lia.
Qed.

Lemma only_newest_may_lack_feature_lemma o steps : 1 <= o_max_obs o ->
  Forall (fun e => g_feat e = true) (tl (t_gal (track_run o steps))).
Proof. intros Hm. apply (gal_inv_run o steps Hm). Qed.

Lemma step_gallery o steps m d :
  t_gal (track_run o (steps ++ [(m, d)])) =
  push_swap (optimize_observations (o_max_obs o) (t_gal (track_run o steps)))
            (mkG (d_q d) (d_feat d && negb (m && negb (can_collect o d))) (d_uid d)).
Proof.
  rewrite track_run_snoc. destruct (track_step_attrs o (track_run o steps) (m, d)) as [_ Hg]. rewrite Hg.
  apply optimize_gal.
Qed.

Lemma collect_gate_lemma o steps m d :
  exists e, hd_error (t_gal (track_run o (steps ++ [(m, d)]))) = Some e /\
            g_uid e = d_uid d /\ g_q e = d_q d /\
            (g_feat e = true <-> d_feat d = true /\ (m = true -> can_collect o d = true)).
Proof.
  rewrite step_gallery. eexists. split; [apply push_swap_hd|]. cbn [g_uid g_q g_feat]. repeat split.
  - destruct (d_feat d); [reflexivity | discriminate].
  - intros ->. destruct (d_feat d); [|discriminate]. cbn in H. destruct (can_collect o d); [reflexivity|discriminate].
  - intros [-> Hc]. destruct m; [rewrite Hc by reflexivity|]; reflexivity.
Qed.

Lemma evicts_minimum_lemma o steps m d : 1 <= o_max_obs o ->
  let g := t_gal (track_run o steps) in
  let g' := t_gal (track_run o (steps ++ [(m, d)])) in
  exists ev, Permutation (filter g_feat g) (ev ++ tl g') /\
    (count_feat g < o_max_obs o -> ev = []) /\
    (o_max_obs o <= count_feat g ->
       exists x, ev = [x] /\ In x g /\ g_feat x = true /\
                 forall y, In y g -> g_feat y = true -> (g_q x <= g_q y)%Q).
Proof.
  intros Hm. cbn zeta. rewrite step_gallery.
  destruct (optimize_observations_spec (o_max_obs o) (t_gal (track_run o steps)) Hm) as (ev & Hp & Hlt & Hge).
  exists ev. split; [|split].
  - rewrite Hp. apply Permutation_app_head. symmetry. apply push_swap_tl_perm.
  - exact Hlt.
  - intros Hc. destruct (Hge Hc) as (x & -> & Hmin). exists x. split; [reflexivity|].
    assert (Hx : In x (filter g_feat (t_gal (track_run o steps)))).
    { apply (Permutation_in _ (Permutation_sym Hp)). left. reflexivity. }
    apply filter_In in Hx. destruct Hx as [Hx1 Hx2]. repeat split; try assumption.
    intros y Hy Hf. apply Hmin, filter_In. split; assumption.
Qed.
