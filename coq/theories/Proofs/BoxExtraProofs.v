(* Lemmas about the TRANSLATED pre-filter / distance / axis-aligned intersection functions of /repo/src/utils/bbox.rs
   (gen/ScalarBox.v: ubox_too_far_r, ubox_dist_in_2r_sq_r, bbox_intersection), over exact rationals. Kept apart from
   Proofs/BoxProofs.v so that the C19 cone does not depend on functions that property C19 does not speak about.
   Used by the geometry development (C08) and by the correspondence driver tools/props/c19.py. *)
From Coq Require Import ZArith NArith QArith Qabs Bool List Lqa.
From Similari Require Import Base.Num Base.QExtra.
From SimilariGen Require Import Consts Scalar ScalarBox.
Import ListNotations.
Open Scope Q_scope.

Lemma EPS_pos : 0 < EPS.
Proof. reflexivity. Qed.

(* ---- too_far: the sqrt-free decision --------------------------------------------------------------------------------- *)
(* The Rust code compares x^2 + y^2 with (r_l + r_r)^2 where r = sqrt(radius_sq). The translated function takes the
   two radii as parameters; [ubox_too_far_sq] decides the same thing from the squared radii only, hence is
   executable over Q. *)
Definition ubox_too_far_sq (num : NumOps) (l r : Universal2DBox num) : bool :=
  let x := sub num (Universal2DBox_xc num l) (Universal2DBox_xc num r) in
  let y := sub num (Universal2DBox_yc num l) (Universal2DBox_yc num r) in
  let d2 := add num (mul num x x) (mul num y y) in
  let rl2 := ubox_radius_sq num l in
  let rr2 := ubox_radius_sq num r in
  let m := sub num (sub num d2 rl2) rr2 in
  andb (ltb num (zero num) m) (ltb num (mul num (mul num (of_Q num 4) rl2) rr2) (mul num m m)).

Lemma sq_cmp_lemma (d2 rl rr : Q) : 0 <= rl -> 0 <= rr ->
  ((rl + rr) * (rl + rr) < d2 <->
   0 < d2 - rl * rl - rr * rr /\ 4 * (rl * rl) * (rr * rr) < (d2 - rl * rl - rr * rr) * (d2 - rl * rl - rr * rr)).
Proof.
  intros Hl Hr. set (m := d2 - rl * rl - rr * rr). set (t := 2 * rl * rr).
  assert (Ht : 0 <= t) by (unfold t; nra).
  assert (E1 : (rl + rr) * (rl + rr) < d2 <-> t < m) by (unfold m, t; split; intro; nra).
  assert (E2 : 4 * (rl * rl) * (rr * rr) == t * t) by (unfold t; ring).
  rewrite E1, E2. split.
  - intro H. split; [lra | nra].
  - intros [H1 H2]. destruct (Qlt_le_dec t m) as [G|G]; [exact G|]. exfalso. nra.
Qed.

Lemma too_far_sq_correct_lemma l r rl rr :
  0 <= rl -> 0 <= rr -> rl * rl == ubox_radius_sq Qops l -> rr * rr == ubox_radius_sq Qops r ->
  ubox_too_far_r Qops l r rl rr = ubox_too_far_sq Qops l r.
Proof.
  intros Hl Hr El Er. apply bool_eq_iff. unfold ubox_too_far_r, ubox_too_far_sq. qops. b2p.
  rewrite !Qred_correct. rewrite <- El, <- Er.
  set (x := Universal2DBox_xc Qops l - Universal2DBox_xc Qops r).
  set (y := Universal2DBox_yc Qops l - Universal2DBox_yc Qops r).
  apply sq_cmp_lemma; assumption.
Qed.

(* the squared normalised distance is what the text of dist_in_2r says (square roots dropped) *)
Lemma dist_in_2r_sq_spec l r rl rr :
  ubox_dist_in_2r_sq_r Qops l r rl rr ==
  ((Universal2DBox_xc Qops l - Universal2DBox_xc Qops r) ^ 2 + (Universal2DBox_yc Qops l - Universal2DBox_yc Qops r) ^ 2)
  / ((rl + rr) * (rl + rr) + EPS).
Proof.
  unfold ubox_dist_in_2r_sq_r. qops. rewrite !Qred_correct.
  assert (H : ~ (rl + rr) * (rl + rr) + EPS == 0). { pose proof EPS_pos. pose proof (Qsqr_nonneg_mul (rl + rr)). lra. }
  field. exact H.
Qed.

(* ---- axis-aligned intersection: basic facts (symmetry, range) used by C08 --------------------------------------------- *)
Lemma bbox_intersection_sym_lemma a b : bbox_intersection Qops a b == bbox_intersection Qops b a.
Proof.
  unfold bbox_intersection. qops.
  set (w1 := Qred (Qminb _ _ - Qmaxb _ _)). set (h1 := Qred (Qminb _ _ - Qmaxb _ _)).
  set (w2 := Qred (Qminb _ _ - Qmaxb _ _)). set (h2 := Qred (Qminb _ _ - Qmaxb _ _)).
  assert (Ew : w1 == w2) by (unfold w1, w2; qlin).
  assert (Eh : h1 == h2) by (unfold h1, h2; qlin).
  destruct (Qltb 0 w1) eqn:A1; destruct (Qltb 0 h1) eqn:B1; destruct (Qltb 0 w2) eqn:A2; destruct (Qltb 0 h2) eqn:B2;
  cbn [andb]; b2p_in A1; b2p_in A2; b2p_in B1; b2p_in B2; try lra; try reflexivity.
  rewrite !Qred_correct, Ew, Eh. reflexivity.
Qed.
