(* The visual trackers inside the L0 model: their translated prologues coincide with SORT's (spec lemma), so their
   step function IS [tstep]; an association supplied from outside and filtered by the executable interface check
   ([given_solver]) satisfies [solver_sound].  Hence every C01/C03/C04 theorem applies to them (Props files). *)
From Coq Require Import List NArith ZArith QArith Bool Lia.
From Similari Require Import Base.Num Model.Constraints Model.Tracker Proofs.TrackerScalarProofs
     Proofs.TrackerBase Proofs.TrackerPredict Proofs.TrackerInv.
Import ListNotations.
Open Scope N_scope.

Lemma prologue_visual_eq c st : prologue_visual c st = prologue c st.
Proof.
  unfold prologue, prologue_visual, prologue_with.
  destruct (auto_waste_prologue_spec (aw_cnt st) (aw_per st)) as [H1 [_ [H3 _]]]. rewrite H1, H3. reflexivity.
Qed.

Lemma prologue_batch_visual_eq c st : prologue_batch_visual c st = prologue c st.
Proof.
  unfold prologue, prologue_batch_visual, prologue_with.
  destruct (auto_waste_prologue_spec (aw_cnt st) (aw_per st)) as [H1 [_ [_ H4]]]. rewrite H1, H4. reflexivity.
Qed.

Lemma tstep_visual_eq G D2R solve c st op : tstep_visual G D2R solve c st op = tstep G D2R solve c st op.
Proof.
  unfold tstep_visual, tstep_with. destruct op; [rewrite prologue_visual_eq; reflexivity|reflexivity..].
Qed.

Lemma trun_visual_eq G D2R solve c ops : trun_visual G D2R solve c ops = trun G D2R solve c ops.
Proof.
  unfold trun_visual, trun_with, trun, trun_from. generalize (@nil tout, init).
  induction ops as [|op ops IH]; intro acc; cbn [fold_left]; [reflexivity|].
  fold (tstep_visual G D2R solve c (snd acc) op). rewrite tstep_visual_eq. apply IH.
Qed.

Lemma batch_step_visual_eq G D2R solve c st b :
  batch_step_with prologue_batch_visual G D2R solve c st b = batch_step G D2R solve c st b.
Proof. unfold batch_step_with, batch_step. rewrite prologue_batch_visual_eq, <- prologue_batch_eq. reflexivity. Qed.

(* the states reachable by the visual step function are the reachable states *)
Inductive reach_visual G D2R solve c : tstate -> Prop :=
| reach_visual_init : reach_visual G D2R solve c init
| reach_visual_step st op : reach_visual G D2R solve c st -> ok_op st op ->
                            reach_visual G D2R solve c (snd (tstep_visual G D2R solve c st op)).

Lemma reach_visual_iff G D2R solve c st : reach_visual G D2R solve c st <-> reach G D2R solve c st.
Proof.
  split; induction 1.
  - apply reach_init.
  - rewrite tstep_visual_eq. apply reach_step; assumption.
  - apply reach_visual_init.
  - rewrite <- tstep_visual_eq. apply reach_visual_step; assumption.
Qed.

(* ------------------------------------------------------------------------------------------------ *)
Lemma weight_in_In i j ps w : weight_in i j ps = Some w -> In (i, j, w) ps.
Proof.
  induction ps as [|[[i' j'] w'] r IH]; cbn [weight_in]; [discriminate|].
  destruct (Nat.eqb i i' && Nat.eqb j j') eqn:E.
  - intro H. inversion H; subst. apply andb_prop in E. destruct E as [E1 E2].
    apply Nat.eqb_eq in E1, E2. subst. left; reflexivity.
  - intro H. right. apply IH; exact H.
Qed.

Lemma sound_from_facts ps a : forall i used,
  sound_from ps i used a = true ->
  (forall k j, nth_error a k = Some (Some j) -> ~ In j used /\ exists w, In ((i + k)%nat, j, w) ps)
  /\ (forall k k' j, nth_error a k = Some (Some j) -> nth_error a k' = Some (Some j) -> k = k').
Proof.
  induction a as [|o r IH]; intros i used H.
  - split; intros k; destruct k; discriminate.
  - destruct o as [j0|]; cbn [sound_from] in H.
    + apply andb_prop in H. destruct H as [H H3]. apply andb_prop in H. destruct H as [H1 H2].
      apply negb_true_iff in H1.
      assert (Hnot : ~ In j0 used).
      { intro Hin. assert (existsb (Nat.eqb j0) used = true); [|congruence].
        apply existsb_exists. exists j0. split; [exact Hin|apply Nat.eqb_refl]. }
      destruct (weight_in i j0 ps) as [w|] eqn:Ew; [|discriminate]. apply weight_in_In in Ew.
      destruct (IH (S i) (j0 :: used) H3) as [A B]. split.
      * intros [|k] j Hk; cbn [nth_error] in Hk.
        -- inversion Hk; subst. split; [exact Hnot|]. exists w. rewrite Nat.add_0_r. exact Ew.
        -- destruct (A k j Hk) as [A1 [w' A2]]. split; [intro Hu; apply A1; right; exact Hu|].
           exists w'. replace (i + S k)%nat with (S i + k)%nat by lia. exact A2.
      * intros [|k] [|k'] j Hk Hk'; cbn [nth_error] in *; try reflexivity.
        -- inversion Hk; subst. destruct (A k' j Hk') as [A1 _]. exfalso; apply A1; left; reflexivity.
        -- inversion Hk'; subst. destruct (A k j Hk) as [A1 _]. exfalso; apply A1; left; reflexivity.
        -- f_equal. eapply B; eassumption.
    + destruct (IH (S i) used H) as [A B]. split.
      * intros [|k] j Hk; cbn [nth_error] in Hk; [discriminate|].
        destruct (A k j Hk) as [A1 [w' A2]]. split; [exact A1|]. exists w'. replace (i + S k)%nat with (S i + k)%nat by lia. exact A2.
      * intros [|k] [|k'] j Hk Hk'; cbn [nth_error] in *; try discriminate. f_equal. eapply B; eassumption.
Qed.

Lemma nth_error_repeat_none {A} n i (x : option (option A)) :
  nth_error (repeat (@None A) n) i = x -> x = None \/ x = Some None.
Proof.
  revert i. induction n as [|n IH]; intros [|i] H; cbn in H; subst; auto. apply (IH i). reflexivity.
Qed.

Theorem given_solver_sound_lemma f : solver_sound (given_solver f).
Proof.
  intros tag thr n cols ps. cbn zeta. unfold given_solver.
  destruct (sound_assignmentb n ps (f tag cols)) eqn:E.
  - unfold sound_assignmentb in E. apply andb_prop in E. destruct E as [E1 E2]. apply Nat.eqb_eq in E1.
    destruct (sound_from_facts ps _ 0%nat [] E2) as [A B]. split; [exact E1|]. split.
    + intros i j H. destruct (A i j H) as [_ [w Hw]]. exists w. exact Hw.
    + exact B.
  - split; [apply repeat_length|]. split.
    + intros i j H. destruct (nth_error_repeat_none _ _ _ H); discriminate.
    + intros i i' j H. destruct (nth_error_repeat_none _ _ _ H); discriminate.
Qed.
