(* The per-call specification of predict (used by C01, C03, C04, C20T) and preservation of the invariant
   by every operation. *)
From Coq Require Import List NArith ZArith QArith Bool Lia Permutation.
From Similari Require Import Base.Num Model.Constraints Model.Tracker Proofs.TrackerBase.
Import ListNotations.
Open Scope N_scope.

Lemma Forall2_impl_in {A B} (P Q : A -> B -> Prop) l1 l2 :
  (forall a b, In a l1 -> In b l2 -> P a b -> Q a b) -> Forall2 P l1 l2 -> Forall2 Q l1 l2.
Proof.
  intros H HF. induction HF as [|a b r1 r2 Hab HF IH]; constructor.
  - apply H; [left; reflexivity|left; reflexivity|exact Hab].
  - apply IH. intros x y Hx Hy. apply H; right; assumption.
Qed.

Lemma Forall2_len {A B} (P : A -> B -> Prop) l1 l2 : Forall2 P l1 l2 -> length l1 = length l2.
Proof. induction 1; cbn [length]; congruence. Qed.

Lemma Forall2_In_r' {A B} (P : A -> B -> Prop) l1 l2 b :
  Forall2 P l1 l2 -> In b l2 -> exists a, In a l1 /\ P a b.
Proof.
  intro HF. induction HF as [|x y r1 r2 Hxy HF IH]; cbn [In]; intro H; [contradiction|].
  destruct H as [H|H]; [subst; exists x; auto|]. destruct (IH H) as [a [Ha Hp]]. exists a; auto.
Qed.

Lemma ForallOrdPairs_impl_in {A} (R R' : A -> A -> Prop) l :
  (forall a b, In a l -> In b l -> R a b -> R' a b) -> ForallOrdPairs R l -> ForallOrdPairs R' l.
Proof.
  intros H HF. induction HF as [|a l Ha HF IH]; constructor.
  - apply Forall_forall. intros b Hb. rewrite Forall_forall in Ha. apply H; [left; reflexivity|right; exact Hb|apply Ha; exact Hb].
  - apply IH. intros x y Hx Hy. apply H; right; assumption.
Qed.

(* positional injectivity of the Some entries of a list *)
Definition inj_some {A} (l : list (option A)) : Prop :=
  forall i i' x, nth_error l i = Some (Some x) -> nth_error l i' = Some (Some x) -> i = i'.

Lemma inj_some_cons {A} (w : option A) r :
  inj_some (w :: r) -> inj_some r /\ (forall x, w = Some x -> ~ In (Some x) r).
Proof.
  intro H. split.
  - intros i i' x H1 H2. specialize (H (S i) (S i') x H1 H2). lia.
  - intros x E Hin. apply In_nth_error in Hin. destruct Hin as [k Hk]. subst w.
    specialize (H O (S k) x eq_refl Hk). discriminate.
Qed.

Lemma map_snd_combine {A B} (l1 : list A) (l2 : list B) : length l1 = length l2 -> map snd (combine l1 l2) = l2.
Proof.
  revert l2. induction l1 as [|a r IH]; intros [|b r2] H; cbn in *; try discriminate; [reflexivity|].
  f_equal. apply IH. lia.
Qed.

Lemma map_fst_combine {A B} (l1 : list A) (l2 : list B) : length l1 = length l2 -> map fst (combine l1 l2) = l1.
Proof.
  revert l2. induction l1 as [|a r IH]; intros [|b r2] H; cbn in *; try discriminate; [reflexivity|].
  f_equal. apply IH. lia.
Qed.

(* ------------------------------------------------------------------------------------------------ *)
(* find_track / upd_track *)

Lemma find_track_In id l t : find_track id l = Some t -> In t l /\ t_id t = id.
Proof.
  unfold find_track. intro H. apply find_some in H. destruct H as [H1 H2]. apply N.eqb_eq in H2. auto.
Qed.

Lemma In_find_track id l : In id (map t_id l) -> exists t, find_track id l = Some t.
Proof.
  unfold find_track. induction l as [|x r IH]; cbn [map In find]; intro H; [contradiction|].
  destruct (t_id x =? id) eqn:E; [eexists; reflexivity|].
  destruct H as [H|H]; [apply N.eqb_neq in E; contradiction|apply IH; exact H].
Qed.

Lemma find_track_upd_same id f l t :
  (forall x, t_id (f x) = t_id x) ->
  find_track id l = Some t -> find_track id (upd_track id f l) = Some (f t).
Proof.
  intro Hf. unfold find_track, upd_track. induction l as [|x r IH]; cbn [map find]; intro H; [discriminate|].
  destruct (t_id x =? id) eqn:E.
  - inversion H; subst. rewrite Hf, E. reflexivity.
  - rewrite E. apply IH; exact H.
Qed.

Lemma find_track_app_fresh id l tn :
  (forall t, In t l -> t_id t <> id) -> t_id tn = id -> find_track id (l ++ [tn]) = Some tn.
Proof.
  intros H Hn. unfold find_track. induction l as [|x r IH]; cbn [app find].
  - rewrite Hn, N.eqb_refl. reflexivity.
  - rewrite (proj2 (N.eqb_neq _ _) (H x (or_introl eq_refl))). apply IH. intros; apply H; right; assumption.
Qed.

Lemma In_upd_track_other id f l t : In t l -> t_id t <> id -> In t (upd_track id f l).
Proof.
  intros H Hne. unfold upd_track. apply in_map_iff. exists t. split; [|exact H].
  rewrite (proj2 (N.eqb_neq _ _) Hne). reflexivity.
Qed.

Lemma In_upd_track_back id f l t :
  (forall x, t_id (f x) = t_id x) -> In t (upd_track id f l) -> t_id t <> id -> In t l.
Proof.
  intros Hf H Hne. unfold upd_track in H. apply in_map_iff in H. destruct H as [x [Hx Hin]].
  destruct (t_id x =? id) eqn:E.
  - apply N.eqb_eq in E. subst t. rewrite Hf in Hne. contradiction.
  - subst; exact Hin.
Qed.

Lemma In_upd_track_cases id f l t :
  In t (upd_track id f l) -> (In t l /\ t_id t <> id) \/ (exists x, In x l /\ t_id x = id /\ t = f x).
Proof.
  unfold upd_track. intro H. apply in_map_iff in H. destruct H as [x [Hx Hin]].
  destruct (t_id x =? id) eqn:E.
  - apply N.eqb_eq in E. right. exists x. auto.
  - apply N.eqb_neq in E. left. subst. auto.
Qed.

(* ------------------------------------------------------------------------------------------------ *)
(* the loop over the candidates *)

Section Loop.
  Variable c : cfg.
  Variables scene epoch : N.

  Notation apply_one := (apply_one c scene epoch).
  Notation apply_all := (apply_all c scene epoch).

  Lemma apply_all_cons st dw rest :
    apply_all st (dw :: rest) =
    (fst (apply_all (fst (apply_one st dw)) rest),
     snd (apply_one st dw) ++ snd (apply_all (fst (apply_one st dw)) rest)).
  Proof.
    cbn [Tracker.apply_all]. destruct (apply_one st dw) as [st1 r1]. cbn [fst snd].
    destruct (apply_all st1 rest) as [st2 r2]. reflexivity.
  Qed.

  Lemma apply_one_fst st d w :
    fst (apply_one st (d, w)) =
    match w with
    | Some dest => set_live (set_submitted st (g_submitted st ++ [d_uid d]))
                            (upd_track dest (absorb c epoch d) (live st))
    | None => set_next_id (set_live (set_submitted st (g_submitted st ++ [d_uid d]))
                                    (live st ++ [fresh_track c (next_id st + 1) scene epoch d])) (next_id st + 1)
    end.
  Proof. destruct w; [apply apply_one_fst_some|apply apply_one_fst_none]. Qed.

  (* fields that the loop does not touch / only grows *)
  Lemma apply_one_frame st dw :
    let st1 := fst (apply_one st dw) in
    epochs st1 = epochs st /\ wasted st1 = wasted st /\ aw_cnt st1 = aw_cnt st /\ aw_per st1 = aw_per st
    /\ g_delivered st1 = g_delivered st /\ g_cleared st1 = g_cleared st
    /\ g_submitted st1 = g_submitted st ++ [d_uid (fst dw)]
    /\ next_id st <= next_id st1
    /\ incl (map t_id (live st)) (map t_id (live st1)).
  Proof.
    destruct dw as [d w]. cbn zeta. rewrite apply_one_fst. destruct w as [dest|];
      cbn [epochs wasted aw_cnt aw_per g_delivered g_cleared g_submitted next_id live fst
           set_live set_submitted set_next_id]; repeat split; try reflexivity; try lia.
    - rewrite map_id_upd_track by reflexivity. apply incl_refl.
    - rewrite map_app. apply incl_appl, incl_refl.
  Qed.

  Lemma apply_all_frame dws : forall st,
    let st' := fst (apply_all st dws) in
    epochs st' = epochs st /\ wasted st' = wasted st /\ aw_cnt st' = aw_cnt st /\ aw_per st' = aw_per st
    /\ g_delivered st' = g_delivered st /\ g_cleared st' = g_cleared st
    /\ g_submitted st' = g_submitted st ++ map (fun dw => d_uid (fst dw)) dws
    /\ next_id st <= next_id st'
    /\ incl (map t_id (live st)) (map t_id (live st')).
  Proof.
    induction dws as [|dw rest IH]; intro st; cbn zeta.
    - cbn [Tracker.apply_all fst map]. rewrite app_nil_r. repeat split; try reflexivity; try lia. apply incl_refl.
    - rewrite apply_all_cons. cbn [fst].
      destruct (apply_one_frame st dw) as [A1 [A2 [A3 [A4 [A5 [A6 [A7 [A8 A9]]]]]]]].
      destruct (IH (fst (apply_one st dw))) as [B1 [B2 [B3 [B4 [B5 [B6 [B7 [B8 B9]]]]]]]].
      repeat split; try congruence; try lia.
      + rewrite B7, A7. cbn [map]. rewrite <- app_assoc. reflexivity.
      + eapply incl_tran; eassumption.
  Qed.

  (* the invariant is kept by the loop, for ANY winners that name live tracks *)
  Lemma Inv_apply_all dws : forall st,
    Inv c st ->
    NoDup (map (fun dw => d_uid (fst dw)) dws) ->
    (forall dw, In dw dws -> ~ In (d_uid (fst dw)) (g_submitted st)) ->
    (forall dw id, In dw dws -> snd dw = Some id -> In id (map t_id (live st))) ->
    Inv c (fst (apply_all st dws)).
  Proof.
    induction dws as [|[d w] rest IH]; intros st HI Hnd Hfr Hw.
    - exact HI.
    - rewrite apply_all_cons. cbn [fst]. cbn [map fst] in Hnd. inversion Hnd as [|? ? Hd Hrest]; subst.
      destruct (apply_one_frame st (d, w)) as [A1 [A2 [A3 [A4 [A5 [A6 [A7 [A8 A9]]]]]]]].
      apply IH.
      + apply Inv_apply_one; [exact HI|apply (Hfr (d, w)); left; reflexivity|].
        destruct w as [dest|]; [|exact I]. apply (Hw (d, Some dest)); [left; reflexivity|reflexivity].
      + exact Hrest.
      + intros dw Hin. rewrite A7. cbn [fst]. intro H. apply in_app_or in H. destruct H as [H|H].
        * apply (Hfr dw); [right; exact Hin|exact H].
        * destruct H as [H|[]]. apply Hd. rewrite H. apply (in_map (fun dw => d_uid (fst dw))). exact Hin.
      + intros dw id Hin Hs. apply A9. eapply Hw; [right; exact Hin|exact Hs].
  Qed.

  (* a track that no remaining candidate continues stays as it is *)
  Lemma apply_one_keeps st d w t :
    In t (live st) -> w <> Some (t_id t) -> In t (live (fst (apply_one st (d, w)))).
  Proof.
    intros Hin Hw. rewrite apply_one_fst. destruct w as [dest|]; cbn [live set_live set_next_id].
    - apply In_upd_track_other; [exact Hin|]. intro E. apply Hw. rewrite E. reflexivity.
    - apply in_or_app; left; exact Hin.
  Qed.

  Lemma apply_all_keeps dws : forall st t,
    In t (live st) -> ~ In (Some (t_id t)) (map snd dws) -> In t (live (fst (apply_all st dws))).
  Proof.
    induction dws as [|[d w] rest IH]; intros st t Hin Hw.
    - exact Hin.
    - rewrite apply_all_cons. cbn [fst]. cbn [map snd In] in Hw. apply IH.
      + apply apply_one_keeps; [exact Hin|]. intro E. apply Hw. left. exact E.
      + intro H. apply Hw. right. exact H.
  Qed.

  (* what one candidate produces *)
  Definition cand_spec (st st' : tstate) (dw : detection * option N) (r : rec) : Prop :=
    exists t, In t (live st') /\ r = rec_of t /\
      match snd dw with
      | Some dest => exists t0, In t0 (live st) /\ t_id t0 = dest /\ t = absorb c epoch (fst dw) t0
      | None => next_id st < t_id t <= next_id st' /\ t = fresh_track c (t_id t) scene epoch (fst dw)
      end.

  Lemma apply_one_spec st d w :
    (forall t, In t (live st) -> t_id t <= next_id st) ->
    match w with Some dest => In dest (map t_id (live st)) | None => True end ->
    exists t, snd (apply_one st (d, w)) = [rec_of t] /\ In t (live (fst (apply_one st (d, w)))) /\
      match w with
      | Some dest => exists t0, In t0 (live st) /\ t_id t0 = dest /\ t = absorb c epoch d t0
      | None => t_id t = next_id st + 1 /\ t = fresh_track c (t_id t) scene epoch d
      end.
  Proof.
    intros Hb Hw. destruct w as [dest|].
    - destruct (In_find_track _ _ Hw) as [t0 Ht0].
      pose proof (find_track_upd_same dest (absorb c epoch d) _ _ (absorb_id c epoch d) Ht0) as Hf.
      exists (absorb c epoch d t0). unfold Tracker.apply_one. cbn [fst snd set_submitted set_live live].
      rewrite Hf. cbn [fst snd live set_live]. split; [reflexivity|]. split.
      + apply find_track_In in Hf. apply Hf.
      + exists t0. apply find_track_In in Ht0. destruct Ht0; auto.
    - set (tn := fresh_track c (next_id st + 1) scene epoch d).
      assert (Hf : find_track (next_id st + 1) (live st ++ [tn]) = Some tn).
      { apply find_track_app_fresh; [|reflexivity]. intros t Ht E. specialize (Hb t Ht). lia. }
      exists tn. unfold Tracker.apply_one. cbn [fst snd set_submitted set_live set_next_id live next_id]. fold tn.
      rewrite Hf. cbn [fst snd live set_live set_next_id]. split; [reflexivity|]. split.
      + apply in_or_app; right; left; reflexivity.
      + split; reflexivity.
  Qed.

  Lemma apply_all_spec dws : forall st,
    NoDup (map t_id (live st)) ->
    (forall t, In t (live st) -> t_id t <= next_id st) ->
    (forall id, In (Some id) (map snd dws) -> In id (map t_id (live st))) ->
    inj_some (map snd dws) ->
    Forall2 (cand_spec st (fst (apply_all st dws))) dws (snd (apply_all st dws)).
  Proof.
    induction dws as [|[d w] rest IH]; intros st Hnd Hb Hw Hnw.
    - constructor.
    - rewrite apply_all_cons. cbn [fst snd].
      set (st1 := fst (apply_one st (d, w))).
      cbn [map snd] in Hnw, Hw. destruct (inj_some_cons _ _ Hnw) as [Hnw_rest Hhead].
      assert (Hw1 : match w with Some dest => In dest (map t_id (live st)) | None => True end).
      { destruct w as [dest|]; [|exact I]. apply Hw. left. reflexivity. }
      destruct (apply_one_spec st d w Hb Hw1) as [t [Er [Hin Hsp]]].
      destruct (apply_one_frame st (d, w)) as [_ [_ [_ [_ [_ [_ [_ [A8 A9]]]]]]]]. fold st1 in A8, A9, Hin.
      destruct (apply_all_frame rest st1) as [_ [_ [_ [_ [_ [_ [_ [B8 B9]]]]]]]]. cbn zeta in B8, B9.
      (* facts for the rest *)
      assert (Hnd1 : NoDup (map t_id (live st1))).
      { unfold st1. rewrite apply_one_fst. destruct w as [dest|]; cbn [live set_live set_next_id].
        - rewrite map_id_upd_track by reflexivity. exact Hnd.
        - rewrite map_app. cbn [map fresh_track t_id].
          apply (Permutation_NoDup (Permutation_cons_append _ _)). constructor; [|exact Hnd].
          intro H. apply in_map_iff in H. destruct H as [x [Hx Hxin]]. specialize (Hb x Hxin). lia. }
      assert (Hb1 : forall x, In x (live st1) -> t_id x <= next_id st1).
      { unfold st1. rewrite apply_one_fst. destruct w as [dest|]; cbn [live next_id set_live set_next_id set_submitted].
        - intros x Hx. destruct (In_upd_track_cases _ _ _ _ Hx) as [[Hx1 _]|[x0 [Hx0 [_ E]]]].
          + apply Hb; exact Hx1.
          + subst x. cbn [absorb t_id]. apply Hb; exact Hx0.
        - intros x Hx. apply in_app_or in Hx. destruct Hx as [Hx|[Hx|[]]].
          + specialize (Hb x Hx). lia.
          + subst x. cbn [fresh_track t_id]. lia. }
      assert (Hw_rest : forall id, In (Some id) (map snd rest) -> In id (map t_id (live st))).
      { intros id Hid. apply Hw. right; exact Hid. }
      specialize (IH st1 Hnd1 Hb1 (fun id Hid => A9 _ (Hw_rest id Hid)) Hnw_rest).
      rewrite Er. cbn [app]. constructor.
      + (* the head: its track is not touched by the rest *)
        exists t. split; [|split; [reflexivity|]].
        * apply apply_all_keeps; [exact Hin|]. intro H.
          destruct w as [dest|].
          -- destruct Hsp as [t0 [_ [E1 E2]]]. subst t. cbn [absorb t_id] in H. rewrite E1 in H.
             exact (Hhead dest eq_refl H).
          -- destruct Hsp as [E1 _]. specialize (Hw_rest _ H). apply in_map_iff in Hw_rest.
             destruct Hw_rest as [x [Hx Hxin]]. specialize (Hb x Hxin). lia.
        * cbn [snd fst]. destruct w as [dest|]; [exact Hsp|].
          destruct Hsp as [E1 E2]. split; [|exact E2].
          assert (next_id st1 = next_id st + 1).
          { unfold st1. rewrite apply_one_fst. reflexivity. }
          lia.
      + (* the rest: transport the IH back to st *)
        eapply Forall2_impl_in; [|exact IH]. intros [d' w'] r' Hin' _ [t' [Ht' [Er' Hsp']]].
        exists t'. split; [exact Ht'|split; [exact Er'|]]. cbn [snd fst] in *.
        destruct w' as [dest'|].
        * destruct Hsp' as [t0 [Ht0 [E1 E2]]]. exists t0. split; [|split; assumption].
          assert (Hd' : In (Some dest') (map snd rest)).
          { apply in_map_iff. exists (d', Some dest'). split; [reflexivity|exact Hin']. }
          unfold st1 in Ht0. rewrite apply_one_fst in Ht0. destruct w as [dest|]; cbn [live set_live set_next_id] in Ht0.
          -- eapply In_upd_track_back; [apply absorb_id|exact Ht0|]. rewrite E1. intro E. rewrite E in Hd'.
             exact (Hhead dest eq_refl Hd').
          -- apply in_app_or in Ht0. destruct Ht0 as [Ht0|[Ht0|[]]]; [exact Ht0|].
             exfalso. subst t0. cbn [fresh_track t_id] in E1. specialize (Hw_rest _ Hd').
             apply in_map_iff in Hw_rest. destruct Hw_rest as [x [Hx Hxin]]. specialize (Hb x Hxin). lia.
        * destruct Hsp' as [E1 E2]. split; [lia|exact E2].
  Qed.


  (* ids of the records: a continued track has an id of a track that was live before the loop, a new one an
     id above the counter; new ids increase in input order *)
  Lemma apply_all_new_increasing dws : forall st,
    NoDup (map t_id (live st)) ->
    (forall t, In t (live st) -> t_id t <= next_id st) ->
    (forall id, In (Some id) (map snd dws) -> In id (map t_id (live st))) ->
    inj_some (map snd dws) ->
    ForallOrdPairs (fun a b => next_id st < r_id a -> next_id st < r_id b -> r_id a < r_id b)
                   (snd (apply_all st dws)).
  Proof.
    induction dws as [|[d w] rest IH]; intros st Hnd Hb Hw Hnw.
    - constructor.
    - rewrite apply_all_cons. cbn [fst snd].
      set (st1 := fst (apply_one st (d, w))).
      cbn [map snd] in Hnw, Hw. destruct (inj_some_cons _ _ Hnw) as [Hnw_rest Hhead].
      assert (Hw1 : match w with Some dest => In dest (map t_id (live st)) | None => True end).
      { destruct w as [dest|]; [|exact I]. apply Hw. left. reflexivity. }
      destruct (apply_one_spec st d w Hb Hw1) as [t [Er [Hin Hsp]]].
      destruct (apply_one_frame st (d, w)) as [_ [_ [_ [_ [_ [_ [_ [A8 A9]]]]]]]]. fold st1 in A8, A9, Hin.
      assert (Hnd1 : NoDup (map t_id (live st1))).
      { unfold st1. rewrite apply_one_fst. destruct w as [dest|]; cbn [live set_live set_next_id].
        - rewrite map_id_upd_track by reflexivity. exact Hnd.
        - rewrite map_app. cbn [map fresh_track t_id].
          apply (Permutation_NoDup (Permutation_cons_append _ _)). constructor; [|exact Hnd].
          intro H. apply in_map_iff in H. destruct H as [x [Hx Hxin]]. specialize (Hb x Hxin). lia. }
      assert (Hb1 : forall x, In x (live st1) -> t_id x <= next_id st1).
      { unfold st1. rewrite apply_one_fst. destruct w as [dest|]; cbn [live next_id set_live set_next_id set_submitted].
        - intros x Hx. destruct (In_upd_track_cases _ _ _ _ Hx) as [[Hx1 _]|[x0 [Hx0 [_ E]]]].
          + apply Hb; exact Hx1.
          + subst x. cbn [absorb t_id]. apply Hb; exact Hx0.
        - intros x Hx. apply in_app_or in Hx. destruct Hx as [Hx|[Hx|[]]].
          + specialize (Hb x Hx). lia.
          + subst x. cbn [fresh_track t_id]. lia. }
      assert (Hw_rest : forall id, In (Some id) (map snd rest) -> In id (map t_id (live st))).
      { intros id Hid. apply Hw. right; exact Hid. }
      assert (Hw_rest1 : forall id, In (Some id) (map snd rest) -> In id (map t_id (live st1))).
      { intros id Hid. apply A9, Hw_rest, Hid. }
      (* every later record is old w.r.t. st or new w.r.t. st1 *)
      assert (Hdich : forall b, In b (snd (apply_all st1 rest)) -> r_id b <= next_id st \/ next_id st1 < r_id b).
      { intros b Hb'.
        destruct (Forall2_In_r' _ _ _ _ (apply_all_spec rest st1 Hnd1 Hb1 Hw_rest1 Hnw_rest) Hb')
          as [[d' w'] [Hdw [t' [_ [Er' Hsp']]]]].
        subst b. cbn [rec_of r_id]. cbn [snd fst] in Hsp'. destruct w' as [dest'|].
        - left. destruct Hsp' as [t0 [_ [E1 E2]]]. subst t'. cbn [absorb t_id]. rewrite E1.
          assert (Hd' : In (Some dest') (map snd rest)).
          { apply in_map_iff. exists (d', Some dest'). auto. }
          specialize (Hw_rest _ Hd'). apply in_map_iff in Hw_rest. destruct Hw_rest as [x [Hx Hxin]].
          specialize (Hb x Hxin). lia.
        - right. apply Hsp'. }
      rewrite Er. cbn [app]. constructor.
      + apply Forall_forall. intros b Hb' Ha Hbb. destruct (Hdich b Hb') as [Hd|Hd]; [lia|].
        cbn [rec_of r_id] in *. destruct w as [dest|].
        * destruct Hsp as [t0 [Ht0 [E1 E2]]]. subst t. cbn [absorb t_id] in Ha. specialize (Hb t0 Ht0). lia.
        * destruct Hsp as [E1 _]. assert (next_id st1 = next_id st + 1) by (unfold st1; rewrite apply_one_fst; reflexivity). lia.
      + eapply ForallOrdPairs_impl_in; [|exact (IH st1 Hnd1 Hb1 Hw_rest1 Hnw_rest)].
        intros a b Ha' Hb' HR H1 H2. apply HR.
        * destruct (Hdich a Ha'); lia.
        * destruct (Hdich b Hb'); lia.
  Qed.

  Lemma apply_one_nodup_bound st dw :
    NoDup (map t_id (live st)) -> (forall t, In t (live st) -> t_id t <= next_id st) ->
    NoDup (map t_id (live (fst (apply_one st dw))))
    /\ (forall t, In t (live (fst (apply_one st dw))) -> t_id t <= next_id (fst (apply_one st dw))).
  Proof.
    intros Hnd Hb. destruct dw as [d w]. rewrite apply_one_fst.
    destruct w as [dest|]; cbn [live next_id set_live set_next_id set_submitted]; split.
    - rewrite map_id_upd_track by reflexivity. exact Hnd.
    - intros x Hx. destruct (In_upd_track_cases _ _ _ _ Hx) as [[Hx1 _]|[x0 [Hx0 [_ E]]]].
      + apply Hb; exact Hx1.
      + subst x. cbn [absorb t_id]. apply Hb; exact Hx0.
    - rewrite map_app. cbn [map fresh_track t_id].
      apply (Permutation_NoDup (Permutation_cons_append _ _)). constructor; [|exact Hnd].
      intro H. apply in_map_iff in H. destruct H as [x [Hx Hxin]]. specialize (Hb x Hxin). lia.
    - intros x Hx. apply in_app_or in Hx. destruct Hx as [Hx|[Hx|[]]].
      + specialize (Hb x Hx). lia.
      + subst x. cbn [fresh_track t_id]. lia.
  Qed.

  Lemma apply_all_nodup_bound dws : forall st,
    NoDup (map t_id (live st)) -> (forall t, In t (live st) -> t_id t <= next_id st) ->
    NoDup (map t_id (live (fst (apply_all st dws))))
    /\ (forall t, In t (live (fst (apply_all st dws))) -> t_id t <= next_id (fst (apply_all st dws))).
  Proof.
    induction dws as [|dw rest IH]; intros st Hnd Hb; [split; assumption|].
    rewrite apply_all_cons. cbn [fst]. destruct (apply_one_nodup_bound st dw Hnd Hb) as [H1 H2]. apply IH; assumption.
  Qed.

End Loop.
