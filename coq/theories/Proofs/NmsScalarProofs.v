(* Lemmas about the TRANSLATED decisions of utils/nms.rs (gen/ScalarNms.v), over exact rationals; proofs by case analysis
   on the translated text. Used by the NMS development (C14). *)
From Coq Require Import ZArith NArith QArith Bool List Lqa.
From Similari Require Import Base.Num Base.QExtra.
From SimilariGen Require Import Consts Scalar ScalarBox ScalarNms.
Open Scope Q_scope.

(* f32::MAX / f32::MIN as the translator writes them *)
Definition F32_MAX : Q := 340282346638528859811704183484516925440 # 1.

(* coverage of the lower-ranked box ob by the higher-ranked box cb: intersection(cb, ob) / area(ob) *)
Lemma nms_metric_spec ob (inter : Q) : nms_metric Qops ob inter == inter / ubox_area Qops ob.
Proof. unfold nms_metric. qops. rewrite ?Qred_correct. reflexivity. Qed.

(* ob is suppressed exactly when the metric is STRICTLY above the threshold *)
Lemma nms_covers_spec (metric thr : Q) : nms_covers_cmp Qops metric thr = true <-> thr < metric.
Proof. unfold nms_covers_cmp. qops. b2p. split; intro H; lra. Qed.

(* division-free form, for boxes of positive area *)
Lemma nms_covers_iff ob (inter thr : Q) : 0 < ubox_area Qops ob ->
  (nms_covers_cmp Qops (nms_metric Qops ob inter) thr = true <-> thr * ubox_area Qops ob < inter).
Proof.
  intro Ha. rewrite nms_covers_spec, nms_metric_spec. set (a := ubox_area Qops ob) in *. split; intro H.
  - apply (Qmult_lt_r _ _ a Ha) in H. assert (E : inter / a * a == inter) by (field; lra). rewrite E in H. exact H.
  - apply Qlt_shift_div_l; assumption.
Qed.

(* a detection takes part iff its score (f32::MAX if absent) is strictly above the score threshold and it has positive size *)
Lemma nms_score_filter_spec e (score : option Q) (thr : Q) :
  nms_score_filter Qops e score thr = true <->
  thr < (match score with Some s => s | None => F32_MAX end) /\ 0 < Universal2DBox_height Qops e /\ 0 < Universal2DBox_aspect Qops e.
Proof.
  unfold nms_score_filter, F32_MAX. qops. destruct score; b2p; split; intro H; decompose [and] H; clear H; repeat split; lra.
Qed.

(* no score threshold given: every score passes (f32::MIN) *)
Lemma nms_score_threshold_default_spec (o : option Q) :
  nms_score_threshold_default Qops o == match o with Some t => t | None => - F32_MAX end.
Proof. unfold nms_score_threshold_default, F32_MAX. qops. destruct o; reflexivity. Qed.

(* rank = the score, or the box height when there is none *)
Lemma nms_rank_spec b (o : option Q) :
  nms_rank Qops b o = match o with Some r => r | None => Universal2DBox_height Qops b end.
Proof. unfold nms_rank. destruct o; reflexivity. Qed.
