(* C07 - whole histories: every reachable state of the code-shaped filter is [state_of] of the scalar run
   (hence block diagonal and symmetric), the scalar blocks stay positive definite, the code-shaped run equals
   the textbook run, and a stationary object stays where it is. *)
From Coq Require Import List Arith Bool ZArith QArith Qreals Reals Lra Lia Psatz.
From Similari Require Import Base.Num Model.Kalman Proofs.KalmanBase Proofs.KalmanEntries Proofs.KalmanUpdate
     Proofs.KalmanScalar Proofs.KalmanScalarUpd.
Import ListNotations.
Local Open Scope R_scope.

(* ---- the scalar invariant: each 2x2 block [[a,b],[b,c]] is positive definite ---- *)
Definition spd (c : coord Rops) : Prop :=
  0 < c_a c /\ 0 < c_c c /\ 0 < c_a c * c_c c - c_b c * c_b c.

Lemma sc_init_spd : forall z sp sv, sp <> 0 -> sv <> 0 -> spd (sc_init Rops z sp sv).
Proof.
  intros z sp sv Hp Hv. unfold spd, sc_init, sq. cbn [c_a c_b c_c]. simplR.
  assert (0 < sp * sp) by nra. assert (0 < sv * sv) by nra. repeat split; nra.
Qed.

Lemma spd_sum_pos : forall a b c, 0 < a -> 0 < c -> 0 < a * c - b * b -> 0 < a + b + (b + c).
Proof.
  intros a b c Ha Hc Hd.
  assert (H : 0 < a * (a + b + (b + c))).
  { replace (a * (a + b + (b + c))) with ((a + b) * (a + b) + (a * c - b * b)) by ring.
    pose proof (Rle_0_sqr (a + b)) as Hq. unfold Rsqr in Hq. lra. }
  destruct (Rlt_le_dec 0 (a + b + (b + c))) as [|Hn]; [assumption|]. exfalso. nra.
Qed.

(* predict preserves positive definiteness for ANY process noise (even zero) *)
Lemma sc_predict_spd : forall sp sv c, spd c -> spd (sc_predict Rops sp sv c).
Proof.
  intros sp sv [m v a b c] (Ha & Hc & Hd). unfold spd, sc_predict, sq in *. cbn [c_a c_b c_c] in *. simplR.
  pose proof (spd_sum_pos a b c Ha Hc Hd) as Hs.
  assert (0 <= sp * sp) by nra. assert (0 <= sv * sv) by nra.
  repeat split; nra.
Qed.

(* update preserves it exactly when the measurement noise is non-degenerate *)
Lemma sc_update_spd : forall sr z c, sr <> 0 -> spd c -> spd (sc_update Rops sr z c).
Proof.
  intros sr z [m v a b c] Hr (Ha & Hc & Hd). unfold spd, sc_update, sq in *. cbn [c_a c_b c_c] in *. simplR.
  set (r := sr * sr). assert (Hrp : 0 < r) by (unfold r; nra).
  set (s := a + r). assert (Hs : 0 < s) by (unfold s; lra).
  assert (Hsn : s <> 0) by lra.
  assert (E1 : a - a * a / s = a * r / s) by (unfold s; field; fold s; assumption).
  assert (E2 : c - b * b / s = (a * c - b * b + c * r) / s) by (unfold s; field; fold s; assumption).
  assert (E3 : (a - a * a / s) * (c - b * b / s) - (b - a * b / s) * (b - a * b / s)
               = r * (a * c - b * b) / s) by (unfold s; field; fold s; assumption).
  repeat split.
  - rewrite E1. apply Rdiv_lt_0_compat; nra.
  - rewrite E2. apply Rdiv_lt_0_compat; nra.
  - rewrite E3. apply Rdiv_lt_0_compat; nra.
Qed.

Section Run.
  Variable F : kfilter Rops.
  Local Notation n := (kdim Rops F).
  Local Notation N := (2 * kdim Rops F)%nat.

  Definition all_spd (cs : list (coord Rops)) : Prop := forall k, (k < n)%nat -> spd (nth k cs dflt).

  (* the side condition: at every update the measurement-noise standard deviations are non-zero
     (box filter: position weight and the current height estimate are non-zero; point filter: the weight is) *)
  Fixpoint sf_ok (cs : list (coord Rops)) (ops : list (kop Rops)) : Prop :=
    match ops with
    | [] => True
    | Predict :: r => sf_ok (sf_predict Rops F cs) r
    | Update z :: r => (forall k, (k < n)%nat -> rstd F cs k <> 0) /\ sf_ok (sf_update Rops F cs z) r
    end.

  Definition init_ok (z : Rvec) : Prop := forall k, (k < N)%nat -> vgetR (init_std Rops F z) k <> 0.

  Lemma init_spd : forall z, init_ok z -> all_spd (sf_initiate Rops F z).
  Proof.
    intros z H k Hk. rewrite nth_sf_initiate by assumption. apply sc_init_spd; apply H; lia.
  Qed.

  Lemma predict_spd : forall cs, all_spd cs -> all_spd (sf_predict Rops F cs).
  Proof. intros cs H k Hk. rewrite nth_sf_predict by assumption. apply sc_predict_spd. apply H. assumption. Qed.

  Lemma update_spd : forall cs z, (forall k, (k < n)%nat -> rstd F cs k <> 0) -> all_spd cs ->
                                  all_spd (sf_update Rops F cs z).
  Proof.
    intros cs z Hr H k Hk. rewrite nth_sf_update by assumption. apply sc_update_spd; [apply Hr|apply H]; assumption.
  Qed.

  Lemma spd_svar : forall cs, all_spd cs -> forall k, (k < n)%nat -> 0 < svar F cs k.
  Proof.
    intros cs H k Hk. destruct (H k Hk) as (Ha & _). unfold svar.
    assert (0 <= rstd F cs k * rstd F cs k) by nra. lra.
  Qed.

  (* run_eq_scalar *)
  Theorem run_scalar : forall ops cs, all_spd cs -> sf_ok cs ops ->
      g_run Rops F (state_of Rops F cs) ops = state_of Rops F (sf_run Rops F cs ops)
      /\ all_spd (sf_run Rops F cs ops).
  Proof.
    induction ops as [|op r IH]; intros cs Hspd Hok.
    - split; [reflexivity|assumption].
    - destruct op as [|z]; cbn [sf_ok] in Hok.
      + unfold g_run, sf_run. cbn [fold_left g_step sf_step]. rewrite predict_scalar.
        apply IH; [apply predict_spd|]; assumption.
      + destruct Hok as [Hr Hok]. unfold g_run, sf_run. cbn [fold_left g_step sf_step].
        rewrite update_scalar.
        * apply IH; [apply update_spd|]; assumption.
        * intros k Hk. pose proof (spd_svar cs Hspd k Hk). lra.
  Qed.

  Corollary run_from_init : forall z ops, init_ok z -> sf_ok (sf_initiate Rops F z) ops ->
      g_run Rops F (g_initiate Rops F z) ops = state_of Rops F (sf_run Rops F (sf_initiate Rops F z) ops)
      /\ all_spd (sf_run Rops F (sf_initiate Rops F z) ops).
  Proof.
    intros z ops Hi Hok. rewrite initiate_scalar. apply run_scalar; [apply init_spd|]; assumption.
  Qed.

  (* ---- the textbook run: the same predict, the update with a true inverse supplied by [minv] ---- *)
  Section TextbookRun.
    Variable minv : Rmat -> Rmat.
    Hypothesis minv_ok : forall S, (exists Si, right_inverse F S Si) -> right_inverse F S (minv S).

    Definition tb_step (st : kstate Rops) (op : kop Rops) : kstate Rops :=
      match op with
      | Predict => g_predict Rops F st
      | Update z => tb_update Rops F (minv (Sm F st)) st z
      end.
    Definition tb_run (st : kstate Rops) (ops : list (kop Rops)) : kstate Rops := fold_left tb_step ops st.

    (* a diagonal matrix with non-zero diagonal has a (right) inverse *)
    Lemma diag_invertible : forall st, Sdiag F st -> (forall i, (i < n)%nat -> mgetR (Sm F st) i i <> 0) ->
        exists Si, right_inverse F (Sm F st) Si.
    Proof.
      intros st HS Hnz.
      exists (mtab Rops n n (fun i j => if Nat.eqb i j then / mgetR (Sm F st) i i else 0)).
      intros i j Hi Hj. rewrite (Rsum_single n _ i); try assumption.
      - rewrite mget_mtab by assumption. simplR. destruct (Nat.eqb i j).
        + apply Rinv_r. apply Hnz. assumption.
        + lra.
      - intros l Hl Hne. rewrite (HS i l) by (try assumption; lia). simplR. lra.
    Qed.

    Lemma step_eq_textbook : forall cs op, all_spd cs ->
        g_step Rops F (state_of Rops F cs) op = tb_step (state_of Rops F cs) op.
    Proof.
      intros cs [|z] Hspd; [reflexivity|]. cbn [g_step tb_step].
      assert (Hnz : forall i, (i < n)%nat -> mgetR (Sm F (state_of Rops F cs)) i i <> 0).
      { intros i Hi. rewrite Sm_state_of by assumption. rewrite Nat.eqb_refl.
        pose proof (spd_svar cs Hspd i Hi). lra. }
      apply update_eq_textbook_diag.
      - apply Sdiag_state_of.
      - apply Psym_state_of.
      - exact Hnz.
      - apply minv_ok. apply diag_invertible; [apply Sdiag_state_of|exact Hnz].
    Qed.

    Theorem run_textbook : forall ops cs, all_spd cs -> sf_ok cs ops ->
        g_run Rops F (state_of Rops F cs) ops = tb_run (state_of Rops F cs) ops.
    Proof.
      induction ops as [|op r IH]; intros cs Hspd Hok; [reflexivity|].
      unfold g_run, tb_run. cbn [fold_left]. rewrite <- step_eq_textbook by assumption.
      destruct op as [|z]; cbn [sf_ok] in Hok; cbn [g_step].
      - rewrite predict_scalar. apply IH; [apply predict_spd|]; assumption.
      - destruct Hok as [Hr Hok]. rewrite update_scalar.
        + apply IH; [apply update_spd|]; assumption.
        + intros k Hk. pose proof (spd_svar cs Hspd k Hk). lra.
    Qed.
  End TextbookRun.

  (* ---- a stationary object: if every measurement equals the first one, the mean never moves.
          No side condition at all: the innovation is exactly zero, whatever the gain is. ---- *)
  Definition at_rest (z : Rvec) (st : kstate Rops) : Prop :=
    forall i, (i < N)%nat -> vgetR (mean st) i = if Nat.ltb i n then vgetR z i else 0.

  Lemma at_rest_initiate : forall z, at_rest z (g_initiate Rops F z).
  Proof. intros z i Hi. unfold g_initiate. cbn [mean]. rewrite vget_vtab by assumption. reflexivity. Qed.

  Lemma at_rest_predict : forall z st, at_rest z st -> at_rest z (g_predict Rops F st).
  Proof.
    intros z st H i Hi. rewrite predict_mean_entry by assumption. rewrite H by assumption.
    destruct (Nat.ltb_spec i n) as [Hlt|Hge].
    - rewrite H by lia. destruct (Nat.ltb_spec (n + i) n); [lia|]. lra.
    - lra.
  Qed.

  Lemma at_rest_update : forall z st, at_rest z st -> at_rest z (g_update Rops F st z).
  Proof.
    intros z st H i Hi. rewrite g_update_unfold. cbn [mean]. unfold vadd.
    rewrite vget_vtab by assumption. rewrite vget_vtab by assumption.
    rewrite Rsum_zero.
    - rewrite H by assumption. simplR. lra.
    - intros k Hk. rewrite innovation_entry by assumption. rewrite (H k) by lia.
      destruct (Nat.ltb_spec k n); [|lia]. simplR. lra.
  Qed.

  Definition all_meas (z : Rvec) (ops : list (kop Rops)) : Prop :=
    forall op, In op ops -> op = Predict \/ op = Update z.

  Theorem stationary_run : forall z ops st, at_rest z st -> all_meas z ops -> at_rest z (g_run Rops F st ops).
  Proof.
    intros z. induction ops as [|op r IH]; intros st Hst Hall; [assumption|].
    unfold g_run. cbn [fold_left]. apply IH.
    - destruct (Hall op (or_introl eq_refl)) as [->| ->]; cbn [g_step];
        [apply at_rest_predict|apply at_rest_update]; assumption.
    - intros o Ho. apply Hall. right. assumption.
  Qed.
End Run.
