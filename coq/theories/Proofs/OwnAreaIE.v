(* C15: the inclusion-exclusion specification agrees with the grid specification on integer axis-aligned boxes.
   Per-cell algebra on the compressed grid; no measure theory. *)
From Coq Require Import List Bool ZArith QArith Lia.
From Similari Require Import Base.Num Model.Geom Model.OwnArea Proofs.OwnAreaProofs.
Import ListNotations.
Open Scope Z_scope.

(* one-dimensional measure of [lo,hi] for ANY two members of the axis: max 0 (hi - lo) *)
Lemma len1_empty s lo hi : ssorted s -> hi <= lo -> len1 s lo hi = 0.
Proof.
  intros S H. unfold len1. apply zsum_map_zero. intros c Hc.
  destruct (adj_facts s S c Hc) as [L _]. unfold in1.
  destruct (lo <=? fst c) eqn:A, (snd c <=? hi) eqn:B; cbn [andb]; try reflexivity.
  apply Z.leb_le in A. apply Z.leb_le in B. lia.
Qed.

Lemma len1_max s lo hi : ssorted s -> In lo s -> In hi s -> len1 s lo hi = Z.max 0 (hi - lo).
Proof.
  intros S Hl Hh. destruct (Z_le_gt_dec lo hi).
  - rewrite len1_exact by assumption. lia.
  - rewrite len1_empty by (try assumption; lia). lia.
Qed.

(* a box whose four coordinates are members of the grid (empty / degenerate boxes included) *)
Definition aligned (xs ys : list Z) (r : ibox) : Prop :=
  In (ix0 r) xs /\ In (ix1 r) xs /\ In (iy0 r) ys /\ In (iy1 r) ys.

Lemma cells_sum_aligned xs ys r : ssorted xs -> ssorted ys -> aligned xs ys r ->
  cells_sum xs ys (cell_in r) = ibox_area0 r.
Proof.
  intros Sx Sy (A & B & C & D). rewrite cells_sum_box. unfold ibox_area0.
  rewrite !len1_max by assumption. reflexivity.
Qed.

(* intersections stay on the grid, and a cell lies in the intersection iff it lies in both *)
Lemma aligned_inter xs ys r o : aligned xs ys r -> aligned xs ys o -> aligned xs ys (ibox_inter r o).
Proof.
  intros (A & B & C & D) (A' & B' & C' & D'). unfold aligned, ibox_inter. cbn [ix0 ix1 iy0 iy1].
  repeat split.
  - destruct (Z.max_spec (ix0 r) (ix0 o)) as [[_ ->]|[_ ->]]; assumption.
  - destruct (Z.min_spec (ix1 r) (ix1 o)) as [[_ ->]|[_ ->]]; assumption.
  - destruct (Z.max_spec (iy0 r) (iy0 o)) as [[_ ->]|[_ ->]]; assumption.
  - destruct (Z.min_spec (iy1 r) (iy1 o)) as [[_ ->]|[_ ->]]; assumption.
Qed.

Lemma cell_in_inter r o cx cy : cell_in (ibox_inter r o) cx cy = cell_in r cx cy && cell_in o cx cy.
Proof.
  unfold cell_in, ibox_inter. cbn [ix0 ix1 iy0 iy1].
  apply eq_true_iff_eq. rewrite !andb_true_iff, !Z.leb_le. lia.
Qed.

(* the grid sum for a running rectangle r and a list of covering boxes *)
Definition grid_unc (xs ys : list Z) (r : ibox) (os : list ibox) : Z :=
  cells_sum xs ys (fun cx cy => cell_in r cx cy && negb (covered os cx cy)).

Lemma grid_unc_cons xs ys r o os :
  grid_unc xs ys r (o :: os) = grid_unc xs ys r os - grid_unc xs ys (ibox_inter r o) os.
Proof.
  unfold grid_unc.
  rewrite (cells_sum_split xs ys (fun cx cy => cell_in r cx cy && negb (covered os cx cy)) (fun cx cy => cell_in o cx cy)).
  assert (E1 : cells_sum xs ys (fun cx cy => cell_in r cx cy && negb (covered os cx cy) && cell_in o cx cy) =
               cells_sum xs ys (fun cx cy => cell_in (ibox_inter r o) cx cy && negb (covered os cx cy))).
  { apply cells_sum_ext. intros cx cy _ _. rewrite cell_in_inter.
    destruct (cell_in r cx cy), (cell_in o cx cy), (covered os cx cy); reflexivity. }
  assert (E2 : cells_sum xs ys (fun cx cy => cell_in r cx cy && negb (covered os cx cy) && negb (cell_in o cx cy)) =
               cells_sum xs ys (fun cx cy => cell_in r cx cy && negb (covered (o :: os) cx cy))).
  { apply cells_sum_ext. intros cx cy _ _. unfold covered. cbn [existsb].
    destruct (cell_in r cx cy), (cell_in o cx cy), (existsb (fun o0 => cell_in o0 cx cy) os); reflexivity. }
  rewrite E1, E2. lia.
Qed.

Lemma grid_unc_eq_rect xs ys : ssorted xs -> ssorted ys ->
  forall os r, aligned xs ys r -> (forall o, In o os -> aligned xs ys o) ->
  grid_unc xs ys r os = uncovered_rect r os.
Proof.
  intros Sx Sy. induction os as [|o os IH]; intros r Ar Ao.
  - cbn [uncovered_rect]. unfold grid_unc.
    rewrite <- (cells_sum_aligned xs ys r Sx Sy Ar). apply cells_sum_ext. intros cx cy _ _.
    unfold covered. cbn [existsb negb]. apply andb_true_r.
  - rewrite grid_unc_cons. cbn [uncovered_rect].
    assert (Ao' : forall o', In o' os -> aligned xs ys o') by (intros; apply Ao; now right).
    rewrite (IH r Ar Ao'), (IH (ibox_inter r o)); [reflexivity | | exact Ao'].
    apply aligned_inter; [exact Ar | apply Ao; now left].
Qed.

Lemma aligned_member bs b : In b bs -> aligned (xs_of bs) (ys_of bs) b.
Proof.
  intros H. unfold aligned. rewrite !xs_of_in, !ys_of_in. repeat split; exists b; auto.
Qed.

(* THE statement: for ANY integer boxes (no validity hypothesis is needed: an empty box has area 0 on both sides) the
   grid specification is the inclusion-exclusion recursion on rectangles *)
Lemma own_area_grid_eq_rect b others : own_area_grid b others = uncovered_rect b others.
Proof.
  unfold own_area_grid.
  change (cells_sum (xs_of (b :: others)) (ys_of (b :: others))
            (fun cx cy => cell_in b cx cy && negb (covered others cx cy)))
    with (grid_unc (xs_of (b :: others)) (ys_of (b :: others)) b others).
  apply grid_unc_eq_rect; try apply sset_sorted.
  - apply aligned_member. now left.
  - intros o Ho. apply aligned_member. now right.
Qed.

Open Scope Q_scope.
Lemma grid_eq_ie_rect_lemma b others :
  own_share_grid b others = Qmake (uncovered_rect b others) (Z.to_pos (ibox_area b)).
Proof. unfold own_share_grid. now rewrite own_area_grid_eq_rect. Qed.
Close Scope Q_scope.

(* ========================================================================================== *)
(* Part 2: the inclusion-exclusion specification [uncovered] at Qops (iterated Sutherland-Hodgman clips + shoelace)
   evaluates, on integer axis-aligned rectangles, to the rectangle recursion [uncovered_rect].
   Polygons are compared up to == on coordinates and up to cyclic rotation of the vertex list (the last clipping pass
   returns the rectangle rotated by one place). *)
From Coq Require Import Qminmax Lqa Psatz.
From Similari Require Import Proofs.GeomProofs.
Open Scope Q_scope.

Definition rotl (l l' : list qpt) : Prop := exists a b, l = a ++ b /\ l' = b ++ a.

Inductive peqv : list qpt -> list qpt -> Prop :=
| pe_leq l l' : leq l l' -> peqv l l'
| pe_rot l l' : rotl l l' -> peqv l l'
| pe_trans a b c : peqv a b -> peqv b c -> peqv a c.

Lemma rotl_refl l : rotl l l.
Proof. exists [], l. split; [reflexivity | now rewrite app_nil_r]. Qed.

Lemma leq_length l l' : leq l l' -> length l = length l'.
Proof. intros H. induction H; cbn [length]; congruence. Qed.

Lemma peqv_length l l' : peqv l l' -> length l = length l'.
Proof.
  induction 1 as [l l' H|l l' [a [b [-> ->]]]|a b c _ IH1 _ IH2].
  - exact (leq_length _ _ H).
  - rewrite !app_length. apply Nat.add_comm.
  - congruence.
Qed.

Lemma last_indep {A} (l : list A) d d' : l <> [] -> last l d = last l d'.
Proof. destruct l as [|x l]; [congruence|]. intros _. now rewrite !last_cons. Qed.

Lemma last_app_ne {A} (a b : list A) d : b <> [] -> last (a ++ b) d = last b d.
Proof.
  intros Hb. revert d. induction a as [|x a IH]; intros d; [reflexivity|].
  change ((x :: a) ++ b) with (x :: (a ++ b)). rewrite last_cons, IH. now apply last_indep.
Qed.

(* --- clipping a rotated subject gives the rotated result --- *)
Lemma clip_walk_app cs ce : forall l1 prev l2,
  clip_walk Qops cs ce prev (l1 ++ l2) = clip_walk Qops cs ce prev l1 ++ clip_walk Qops cs ce (last l1 prev) l2.
Proof.
  induction l1 as [|x l1 IH]; intros prev l2; [reflexivity|].
  cbn [app clip_walk]. rewrite IH, last_cons, app_assoc. reflexivity.
Qed.

Lemma clip_pass_ne cs ce l : l <> [] -> clip_pass Qops cs ce l = clip_walk Qops cs ce (last l (zero Qops, zero Qops)) l.
Proof. destruct l; [congruence | reflexivity]. Qed.

Lemma app_ne_l {A} (a b : list A) : a <> [] -> a ++ b <> [].
Proof. destruct a; [congruence | discriminate]. Qed.

Lemma clip_pass_app cs ce (A B : list qpt) : A <> [] -> B <> [] ->
  clip_pass Qops cs ce (A ++ B) =
  clip_walk Qops cs ce (last B (zero Qops, zero Qops)) A ++ clip_walk Qops cs ce (last A (zero Qops, zero Qops)) B.
Proof.
  intros NA NB. rewrite clip_pass_ne by (now apply app_ne_l). rewrite clip_walk_app.
  rewrite (last_app_ne A B _ NB). f_equal. f_equal. now apply last_indep.
Qed.

Lemma clip_pass_rot cs ce l l' : rotl l l' -> rotl (clip_pass Qops cs ce l) (clip_pass Qops cs ce l').
Proof.
  intros [a [b [-> ->]]].
  destruct a as [|x a]; [rewrite app_nil_r; apply rotl_refl|].
  destruct b as [|y b]; [rewrite app_nil_r; apply rotl_refl|].
  rewrite (clip_pass_app cs ce (x :: a) (y :: b)) by discriminate.
  rewrite (clip_pass_app cs ce (y :: b) (x :: a)) by discriminate.
  eexists. eexists. split; reflexivity.
Qed.

Lemma clip_edges_rot : forall cl prev l l', rotl l l' ->
  rotl (clip_edges Qops prev cl l) (clip_edges Qops prev cl l').
Proof.
  induction cl as [|c cl IH]; intros prev l l' H; cbn [clip_edges]; [exact H|].
  apply IH. now apply clip_pass_rot.
Qed.

Lemma sh_clip_rot l l' c : rotl l l' -> rotl (sh_clip Qops l c) (sh_clip Qops l' c).
Proof. intros H. unfold sh_clip. destruct c; [exact H | now apply clip_edges_rot]. Qed.

Lemma sh_clip_peqv p p' c : peqv p p' -> peqv (sh_clip Qops p c) (sh_clip Qops p' c).
Proof.
  induction 1 as [l l' H|l l' H|a b c' _ IH1 _ IH2].
  - apply pe_leq. apply sh_clip_leq; [exact H | apply leq_refl].
  - apply pe_rot. now apply sh_clip_rot.
  - eapply pe_trans; eassumption.
Qed.

(* --- the shoelace sum is cyclic --- *)
Lemma det_walk_app : forall l1 prev l2,
  det_walk Qops prev (l1 ++ l2) == det_walk Qops prev l1 + det_walk Qops (last l1 prev) l2.
Proof.
  induction l1 as [|x l1 IH]; intros prev l2.
  - cbn [app det_walk last]. rewrite qzero. ring.
  - cbn [app det_walk]. rewrite !qadd, IH, last_cons. ring.
Qed.

Lemma twice_ne l : l <> [] -> twice_signed_area Qops l = det_walk Qops (last l (zero Qops, zero Qops)) l.
Proof. destruct l; [congruence | reflexivity]. Qed.

Lemma twice_app (A B : list qpt) : A <> [] -> B <> [] ->
  twice_signed_area Qops (A ++ B) ==
  det_walk Qops (last B (zero Qops, zero Qops)) A + det_walk Qops (last A (zero Qops, zero Qops)) B.
Proof.
  intros NA NB. rewrite twice_ne by (now apply app_ne_l). rewrite det_walk_app.
  rewrite (last_app_ne A B _ NB).
  match goal with |- _ + det_walk Qops ?u B == _ + det_walk Qops ?v B =>
    assert (E : u = v) by (now apply last_indep); rewrite E end.
  reflexivity.
Qed.

Lemma twice_rot l l' : rotl l l' -> twice_signed_area Qops l == twice_signed_area Qops l'.
Proof.
  intros [a [b [-> ->]]].
  destruct a as [|x a]; [rewrite app_nil_r; reflexivity|].
  destruct b as [|y b]; [rewrite app_nil_r; reflexivity|].
  rewrite (twice_app (x :: a) (y :: b)) by discriminate.
  rewrite (twice_app (y :: b) (x :: a)) by discriminate. ring.
Qed.

Lemma shoelace_rot l l' : rotl l l' -> shoelace Qops l == shoelace Qops l'.
Proof. intros H. unfold shoelace. rewrite !qdiv, !Qabsb_abs, (twice_rot _ _ H). reflexivity. Qed.

Lemma shoelace_peqv l l' : peqv l l' -> shoelace Qops l == shoelace Qops l'.
Proof.
  induction 1 as [l l' H|l l' H|a b c _ IH1 _ IH2].
  - symmetry. now apply shoelace_leq.
  - now apply shoelace_rot.
  - now rewrite IH1.
Qed.

(* --- the inclusion-exclusion sum does not see rotations / == (of the subject and of the covering polygons) --- *)
Lemma uncovered_peqv : forall os os', Forall2 leq os os' ->
  forall p p', peqv p p' -> uncovered Qops p os == uncovered Qops p' os'.
Proof.
  intros os os' HF. induction HF as [|o o' os os' Ho Hos IH]; intros p p' H; cbn [uncovered].
  - now apply shoelace_peqv.
  - rewrite !qsub. rewrite (IH p p' H).
    assert (H2 : peqv (sh_clip Qops p o) (sh_clip Qops p' o')).
    { eapply pe_trans; [apply sh_clip_peqv; exact H|]. apply pe_leq. apply sh_clip_leq; [apply leq_refl | exact Ho]. }
    pose proof (peqv_length _ _ H2) as HL.
    destruct (sh_clip Qops p o) as [|u l] eqn:E1, (sh_clip Qops p' o') as [|u' l'] eqn:E2; try discriminate HL.
    + reflexivity.
    + rewrite (IH _ _ H2). reflexivity.
Qed.

(* --- one axis-aligned rectangle clipped by another: the rectangle of the intersection (up to rotation) or nothing --- *)
Lemma clip_canon_peqv x0 x1 y0 y1 bx0 bx1 by0 by1 :
  x0 <= x1 -> y0 <= y1 -> bx0 < bx1 -> by0 < by1 ->
  let X0 := Qmax x0 bx0 in let X1 := Qmin x1 bx1 in let Y0 := Qmax y0 by0 in let Y1 := Qmin y1 by1 in
  ((X1 < X0 \/ Y1 < Y0) /\ sh_clip Qops (canon x0 x1 y0 y1) (canon bx0 bx1 by0 by1) = []) \/
  (X0 <= X1 /\ Y0 <= Y1 /\ peqv (sh_clip Qops (canon x0 x1 y0 y1) (canon bx0 bx1 by0 by1)) (canon X0 X1 Y0 Y1)).
Proof.
  intros Hx Hy HbX HbY X0 X1 Y0 Y1.
  assert (EQ : sh_clip Qops (canon x0 x1 y0 y1) (canon bx0 bx1 by0 by1) =
               clip_pass Qops (bx1, by0) (bx0, by0) (clip_pass Qops (bx1, by1) (bx1, by0)
                 (clip_pass Qops (bx0, by1) (bx1, by1) (clip_pass Qops (bx0, by0) (bx0, by1) (canon x0 x1 y0 y1)))))
    by reflexivity.
  rewrite EQ. clear EQ.
  set (S0 := canon x0 x1 y0 y1).
  set (S1 := clip_pass Qops (bx0, by0) (bx0, by1) S0).
  set (S2 := clip_pass Qops (bx0, by1) (bx1, by1) S1).
  set (S3 := clip_pass Qops (bx1, by1) (bx1, by0) S2).
  set (S4 := clip_pass Qops (bx1, by0) (bx0, by0) S3).
  pose proof (Q.le_max_l x0 bx0) as M1. pose proof (Q.le_max_r x0 bx0) as M2.
  pose proof (Q.le_min_l x1 bx1) as M3. pose proof (Q.le_min_r x1 bx1) as M4.
  pose proof (Q.le_max_l y0 by0) as M5. pose proof (Q.le_max_r y0 by0) as M6.
  pose proof (Q.le_min_l y1 by1) as M7. pose proof (Q.le_min_r y1 by1) as M8.
  fold X0 in M1, M2. fold X1 in M3, M4. fold Y0 in M5, M6. fold Y1 in M7, M8.
  (* pass 0 *)
  destruct (pass_left bx0 by0 by1 HbY x0 x1 y0 y1 Hx Hy) as [[C E]|[C E]]; fold S0 in E; fold S1 in E.
  { left. split; [left; lra|]. unfold S4, S3, S2. rewrite E. reflexivity. }
  fold X0 in E.
  assert (HX0 : X0 <= x1) by (unfold X0; apply Q.max_lub; assumption).
  (* pass 1 *)
  pose proof (clip_pass_leq (bx0, by1) (bx1, by1) _ _ _ _ (peq_refl _) (peq_refl _) E) as E1. fold S2 in E1.
  destruct (pass_top bx0 bx1 by1 HbX X0 x1 y0 y1 HX0 Hy) as [[C' F]|[C' F]].
  { rewrite F in E1. apply leq_nil_r in E1. left. split; [right; lra|].
    unfold S4, S3. rewrite E1. reflexivity. }
  pose proof (leq_trans _ _ _ E1 F) as E2. clear E1 F. fold Y1 in E2.
  assert (HY1 : y0 <= Y1) by (unfold Y1; apply Q.min_glb; assumption).
  (* pass 2 *)
  pose proof (clip_pass_leq (bx1, by1) (bx1, by0) _ _ _ _ (peq_refl _) (peq_refl _) E2) as E3. fold S3 in E3.
  destruct (pass_right bx1 by0 by1 HbY X0 x1 y0 Y1 HX0 HY1) as [[C'' F]|[C'' F]].
  { rewrite F in E3. apply leq_nil_r in E3. left. split; [left; lra|].
    unfold S4. rewrite E3. reflexivity. }
  pose proof (leq_trans _ _ _ E3 F) as E4. clear E3 F. fold X1 in E4.
  assert (HX1 : X0 <= X1) by (unfold X1; apply Q.min_glb; assumption).
  (* pass 3 *)
  pose proof (clip_pass_leq (bx1, by0) (bx0, by0) _ _ _ _ (peq_refl _) (peq_refl _) E4) as E5. fold S4 in E5.
  destruct (pass_bottom_list bx0 bx1 by0 HbX X0 X1 y0 Y1 HX1 HY1) as [[C3 F]|[C3 [F|F]]].
  { rewrite F in E5. apply leq_nil_r in E5. left. split; [right; lra | exact E5]. }
  - right. fold Y0 in F. split; [exact HX1|]. split; [unfold Y0; apply Q.max_lub; assumption|].
    apply pe_leq. exact (leq_trans _ _ _ E5 F).
  - right. fold Y0 in F. split; [exact HX1|]. split; [unfold Y0; apply Q.max_lub; assumption|].
    eapply pe_trans; [apply pe_leq; exact (leq_trans _ _ _ E5 F)|].
    apply pe_rot. exists [(X0, Y0)], [(X0, Y1); (X1, Y1); (X1, Y0)]. split; reflexivity.
Qed.

(* --- integer rectangles as rational polygons --- *)
Definition canonz (r : ibox) : list qpt :=
  canon (inject_Z (ix0 r)) (inject_Z (ix1 r)) (inject_Z (iy0 r)) (inject_Z (iy1 r)).

Definition weak (r : ibox) : Prop := (ix0 r <= ix1 r /\ iy0 r <= iy1 r)%Z.
Definition null (r : ibox) : Prop := (ix1 r <= ix0 r \/ iy1 r <= iy0 r)%Z.

Lemma Qmax_inj a b : Qmax (inject_Z a) (inject_Z b) == inject_Z (Z.max a b).
Proof.
  destruct (Z.max_spec a b) as [[H ->]|[H ->]]; [apply Q.max_r | apply Q.max_l]; rewrite <- Zle_Qle; lia.
Qed.

Lemma Qmin_inj a b : Qmin (inject_Z a) (inject_Z b) == inject_Z (Z.min a b).
Proof.
  destruct (Z.min_spec a b) as [[H ->]|[H ->]]; [apply Q.min_l | apply Q.min_r]; rewrite <- Zle_Qle; lia.
Qed.

Lemma inject_Z_sub a b : inject_Z (a - b) == inject_Z a - inject_Z b.
Proof. unfold Z.sub, Qminus. rewrite inject_Z_plus, inject_Z_opp. reflexivity. Qed.

Lemma uncovered_rect_null : forall os r, null r -> uncovered_rect r os = 0%Z.
Proof.
  induction os as [|o os IH]; intros r N; cbn [uncovered_rect].
  - unfold ibox_area0. destruct N as [N|N]; [rewrite (Z.max_l 0 (ix1 r - ix0 r)) by lia | rewrite (Z.max_l 0 (iy1 r - iy0 r)) by lia]; lia.
  - rewrite (IH r N), (IH (ibox_inter r o)); [reflexivity|].
    unfold null, ibox_inter in *. cbn [ix0 ix1 iy0 iy1]. lia.
Qed.

Lemma shoelace_canonz r : weak r -> shoelace Qops (canonz r) == inject_Z (ibox_area0 r).
Proof.
  intros [Wx Wy]. unfold canonz. rewrite canon_area by (rewrite <- Zle_Qle; assumption).
  rewrite <- !inject_Z_sub, <- inject_Z_mult. unfold ibox_area0.
  rewrite (Z.max_r 0 (ix1 r - ix0 r)), (Z.max_r 0 (iy1 r - iy0 r)) by lia. reflexivity.
Qed.

Lemma clip_canonz r o : weak r -> ibox_ok o ->
  (((ix1 (ibox_inter r o) < ix0 (ibox_inter r o))%Z \/ (iy1 (ibox_inter r o) < iy0 (ibox_inter r o))%Z) /\
   sh_clip Qops (canonz r) (canonz o) = []) \/
  (weak (ibox_inter r o) /\ peqv (sh_clip Qops (canonz r) (canonz o)) (canonz (ibox_inter r o))).
Proof.
  intros [Wx Wy] [Ox Oy]. unfold canonz at 1 2 3 4.
  destruct (clip_canon_peqv (inject_Z (ix0 r)) (inject_Z (ix1 r)) (inject_Z (iy0 r)) (inject_Z (iy1 r))
              (inject_Z (ix0 o)) (inject_Z (ix1 o)) (inject_Z (iy0 o)) (inject_Z (iy1 o)))
    as [[D E]|(A & B & P)]; try (rewrite <- Zle_Qle; assumption); try (rewrite <- Zlt_Qlt; assumption);
    cbv zeta in *; rewrite ?Qmax_inj, ?Qmin_inj in *.
  - left. split; [|exact E]. cbn [ibox_inter ix0 ix1 iy0 iy1]. rewrite <- !Zlt_Qlt in D. exact D.
  - right. rewrite <- !Zle_Qle in A, B. split; [split; cbn [ibox_inter ix0 ix1 iy0 iy1]; assumption|].
    eapply pe_trans; [exact P|]. apply pe_leq. unfold canonz. cbn [ibox_inter ix0 ix1 iy0 iy1].
    apply canon_leq; first [apply Qmax_inj | apply Qmin_inj].
Qed.

(* --- the inclusion-exclusion sum of the polygons IS the rectangle recursion --- *)
Lemma uncovered_canonz : forall os, Forall ibox_ok os -> forall p r, weak r -> peqv p (canonz r) ->
  uncovered Qops p (map canonz os) == inject_Z (uncovered_rect r os).
Proof.
  induction os as [|o os IH]; intros HF p r W P; cbn [map uncovered uncovered_rect].
  - rewrite (shoelace_peqv _ _ P). now apply shoelace_canonz.
  - inversion HF as [|o' os' Ho Hos]; subst. rewrite qsub, inject_Z_sub. rewrite (IH Hos p r W P).
    pose proof (sh_clip_peqv p (canonz r) (canonz o) P) as P2.
    destruct (clip_canonz r o W Ho) as [[D E]|[W' P3]].
    + rewrite E in P2. pose proof (peqv_length _ _ P2) as HL.
      destruct (sh_clip Qops p (canonz o)) as [|u l]; [|discriminate HL].
      rewrite (uncovered_rect_null os (ibox_inter r o)); [rewrite qzero; reflexivity|]. unfold null. lia.
    + pose proof (pe_trans _ _ _ P2 P3) as P4. pose proof (peqv_length _ _ P4) as HL.
      destruct (sh_clip Qops p (canonz o)) as [|u l] eqn:E; [discriminate HL|].
      rewrite (IH Hos (u :: l) (ibox_inter r o) W' P4). reflexivity.
Qed.

(* --- the statement --- *)
Lemma Forall2_map_same {A B} (R : B -> B -> Prop) (f g : A -> B) (l : list A) :
  (forall x, In x l -> R (f x) (g x)) -> Forall2 R (map f l) (map g l).
Proof.
  induction l as [|a l IH]; intros H; cbn [map]; constructor.
  - apply H. now left.
  - apply IH. intros x Hx. apply H. now right.
Qed.

Lemma grid_eq_ie_canon_lemma b others : ibox_ok b -> Forall ibox_ok others ->
  own_share_grid b others == uncovered Qops (canonz b) (map canonz others) / inject_Z (ibox_area b).
Proof.
  intros Ok HF. pose proof (ibox_area_pos b Ok) as PA.
  assert (W : weak b) by (destruct Ok; unfold weak; lia).
  rewrite (uncovered_canonz others HF (canonz b) b W (pe_leq _ _ (leq_refl _))).
  rewrite <- own_area_grid_eq_rect. unfold own_share_grid. rewrite Qmake_Qdiv, Z2Pos.id by assumption. reflexivity.
Qed.

(* the box record of an integer rectangle (unrotated: cos 1, sin 0), as own_shares_ie takes it *)
Definition qbox_of_ibox (r : ibox) : qbox :=
  mkbox (num:=Qops) ((inject_Z (ix0 r) + inject_Z (ix1 r)) / 2) ((inject_Z (iy0 r) + inject_Z (iy1 r)) / 2) 1 0
        (inject_Z (ix1 r - ix0 r) / inject_Z (iy1 r - iy0 r)) (inject_Z (iy1 r - iy0 r)).

Lemma rect_of_ibox r : ibox_ok r -> leq (rect_vertices Qops (qbox_of_ibox r)) (canonz r).
Proof.
  intros [Ox Oy].
  assert (U : unrotated (qbox_of_ibox r)) by (split; reflexivity).
  eapply leq_trans; [apply (rect_unrotated _ U)|].
  assert (H : ~ inject_Z (iy1 r - iy0 r) == 0).
  { intro Z. assert (inject_Z 0 < inject_Z (iy1 r - iy0 r)) by (rewrite <- Zlt_Qlt; lia). change (inject_Z 0) with 0 in *. lra. }
  unfold canonz. apply canon_leq; unfold box_x0, box_x1, box_y0, box_y1, qbox_of_ibox; cbn [bxc byc bh basp];
    rewrite ?inject_Z_sub in *; field; exact H.
Qed.

Lemma box_area_of_ibox r : ibox_ok r -> box_area Qops (qbox_of_ibox r) == inject_Z (ibox_area r).
Proof.
  intros [Ox Oy]. rewrite box_area_q. unfold qbox_of_ibox, ibox_area. cbn [bh basp].
  assert (H : ~ inject_Z (iy1 r - iy0 r) == 0).
  { intro Z. assert (inject_Z 0 < inject_Z (iy1 r - iy0 r)) by (rewrite <- Zlt_Qlt; lia). change (inject_Z 0) with 0 in *. lra. }
  rewrite inject_Z_mult. field. exact H.
Qed.

Lemma grid_eq_ie_axis_aligned_lemma b others : ibox_ok b -> Forall ibox_ok others ->
  own_share_grid b others ==
  uncovered Qops (rect_vertices Qops (qbox_of_ibox b)) (map (fun o => rect_vertices Qops (qbox_of_ibox o)) others)
  / box_area Qops (qbox_of_ibox b).
Proof.
  intros Ok HF. rewrite (grid_eq_ie_canon_lemma b others Ok HF), (box_area_of_ibox b Ok).
  assert (E : uncovered Qops (rect_vertices Qops (qbox_of_ibox b)) (map (fun o => rect_vertices Qops (qbox_of_ibox o)) others)
              == uncovered Qops (canonz b) (map canonz others)).
  { apply uncovered_peqv.
    - apply Forall2_map_same. intros o Ho. apply rect_of_ibox. rewrite Forall_forall in HF. now apply HF.
    - apply pe_leq. now apply rect_of_ibox. }
  rewrite E. reflexivity.
Qed.

(* ========================================================================================== *)
(* Part 3: the too_far pre-filter of own_shares_ie. Boxes that are too_far from b cannot meet b (C08 too_far_sound),
   and dropping boxes that do not meet b changes nothing - for the rectangle recursion and hence for [uncovered]. *)

Lemma null_inter_mono r o o' : null (ibox_inter r o') -> null (ibox_inter (ibox_inter r o) o').
Proof. unfold null, ibox_inter. cbn [ix0 ix1 iy0 iy1]. lia. Qed.

Lemma uncovered_rect_drop (keep : ibox -> bool) : forall os r,
  (forall o, In o os -> keep o = false -> null (ibox_inter r o)) ->
  uncovered_rect r (filter keep os) = uncovered_rect r os.
Proof.
  induction os as [|o os IH]; intros r H; [reflexivity|].
  assert (H' : forall o', In o' os -> keep o' = false -> null (ibox_inter r o')) by (intros; apply H; [now right | assumption]).
  cbn [filter]. destruct (keep o) eqn:K; cbn [uncovered_rect].
  - rewrite (IH r H'), (IH (ibox_inter r o)); [reflexivity|].
    intros o' Ho' K'. apply null_inter_mono. now apply H'.
  - rewrite (IH r H'). rewrite (uncovered_rect_null os (ibox_inter r o)); [lia|]. apply H; [now left | exact K].
Qed.

Lemma qbox_of_ibox_valid r : ibox_ok r -> valid_box (qbox_of_ibox r).
Proof.
  intros [Ox Oy]. unfold valid_box, qbox_of_ibox. cbn [basp bh].
  assert (A : inject_Z 0 < inject_Z (ix1 r - ix0 r)) by (rewrite <- Zlt_Qlt; lia).
  assert (B : inject_Z 0 < inject_Z (iy1 r - iy0 r)) by (rewrite <- Zlt_Qlt; lia).
  change (inject_Z 0) with 0 in *. split; [|exact B]. apply Qlt_shift_div_l; [exact B | lra].
Qed.

Lemma qbox_of_ibox_coords r : ibox_ok r ->
  box_x0 (qbox_of_ibox r) == inject_Z (ix0 r) /\ box_x1 (qbox_of_ibox r) == inject_Z (ix1 r) /\
  box_y0 (qbox_of_ibox r) == inject_Z (iy0 r) /\ box_y1 (qbox_of_ibox r) == inject_Z (iy1 r).
Proof.
  intros [Ox Oy].
  assert (H : ~ inject_Z (iy1 r - iy0 r) == 0).
  { intro Z. assert (inject_Z 0 < inject_Z (iy1 r - iy0 r)) by (rewrite <- Zlt_Qlt; lia). change (inject_Z 0) with 0 in *. lra. }
  unfold box_x0, box_x1, box_y0, box_y1, qbox_of_ibox; cbn [bxc byc bh basp]. rewrite ?inject_Z_sub in *.
  repeat split; field; exact H.
Qed.

(* too_far boxes have no common interior: their integer intersection is empty *)
Lemma too_far_null l r : ibox_ok l -> ibox_ok r ->
  too_far Qops (qbox_of_ibox l) (qbox_of_ibox r) = true -> null (ibox_inter l r).
Proof.
  intros Ol Or T.
  assert (Ul : unrotated (qbox_of_ibox l)) by (split; reflexivity).
  assert (Ur : unrotated (qbox_of_ibox r)) by (split; reflexivity).
  pose proof (qbox_of_ibox_valid l Ol) as Vl. pose proof (qbox_of_ibox_valid r Or) as Vr.
  pose proof (too_far_aa_zero _ _ Vl Vr Ul Ur T) as Z.
  apply (aa_inter_zero_iff_lemma _ _ (to_ltwh_valid _ Vl) (to_ltwh_valid _ Vr)) in Z.
  destruct (Z_lt_le_dec (ix0 (ibox_inter l r)) (ix1 (ibox_inter l r))) as [DX|DX]; [|left; exact DX].
  destruct (Z_lt_le_dec (iy0 (ibox_inter l r)) (iy1 (ibox_inter l r))) as [DY|DY]; [|right; exact DY].
  exfalso. apply Z. cbn [ibox_inter ix0 ix1 iy0 iy1] in DX, DY.
  destruct (to_ltwh_q (qbox_of_ibox l)) as (L1 & L2 & L3 & L4). destruct (to_ltwh_q (qbox_of_ibox r)) as (R1 & R2 & R3 & R4).
  destruct (qbox_of_ibox_coords l Ol) as (A1 & A2 & A3 & A4). destruct (qbox_of_ibox_coords r Or) as (B1 & B2 & B3 & B4).
  exists ((inject_Z (Z.max (ix0 l) (ix0 r)) + inject_Z (Z.min (ix1 l) (ix1 r))) * (1 # 2)),
         ((inject_Z (Z.max (iy0 l) (iy0 r)) + inject_Z (Z.min (iy1 l) (iy1 r))) * (1 # 2)).
  unfold in_open. rewrite L3, L4, R3, R4, L1, L2, R1, R2, A1, A2, A3, A4, B1, B2, B3, B4.
  assert (X : inject_Z (Z.max (ix0 l) (ix0 r)) < inject_Z (Z.min (ix1 l) (ix1 r))) by (rewrite <- Zlt_Qlt; exact DX).
  assert (Y : inject_Z (Z.max (iy0 l) (iy0 r)) < inject_Z (Z.min (iy1 l) (iy1 r))) by (rewrite <- Zlt_Qlt; exact DY).
  assert (X1 : inject_Z (ix0 l) <= inject_Z (Z.max (ix0 l) (ix0 r))) by (rewrite <- Zle_Qle; lia).
  assert (X2 : inject_Z (ix0 r) <= inject_Z (Z.max (ix0 l) (ix0 r))) by (rewrite <- Zle_Qle; lia).
  assert (X3 : inject_Z (Z.min (ix1 l) (ix1 r)) <= inject_Z (ix1 l)) by (rewrite <- Zle_Qle; lia).
  assert (X4 : inject_Z (Z.min (ix1 l) (ix1 r)) <= inject_Z (ix1 r)) by (rewrite <- Zle_Qle; lia).
  assert (Y1 : inject_Z (iy0 l) <= inject_Z (Z.max (iy0 l) (iy0 r))) by (rewrite <- Zle_Qle; lia).
  assert (Y2 : inject_Z (iy0 r) <= inject_Z (Z.max (iy0 l) (iy0 r))) by (rewrite <- Zle_Qle; lia).
  assert (Y3 : inject_Z (Z.min (iy1 l) (iy1 r)) <= inject_Z (iy1 l)) by (rewrite <- Zle_Qle; lia).
  assert (Y4 : inject_Z (Z.min (iy1 l) (iy1 r)) <= inject_Z (iy1 r)) by (rewrite <- Zle_Qle; lia).
  repeat split; lra.
Qed.

Lemma ibox_inter_comm_null l r : null (ibox_inter r l) -> null (ibox_inter l r).
Proof. unfold null, ibox_inter. cbn [ix0 ix1 iy0 iy1]. lia. Qed.

(* the pre-filtered inclusion-exclusion value: dropping any boxes that are too_far from b (in either argument order,
   as near_pair tests them) leaves the grid share *)
Lemma grid_eq_ie_prefiltered_lemma b others (keep : ibox -> bool) : ibox_ok b -> Forall ibox_ok others ->
  (forall o, In o others -> keep o = false ->
     too_far Qops (qbox_of_ibox b) (qbox_of_ibox o) = true \/ too_far Qops (qbox_of_ibox o) (qbox_of_ibox b) = true) ->
  own_share_grid b others ==
  uncovered Qops (rect_vertices Qops (qbox_of_ibox b))
            (map (fun o => rect_vertices Qops (qbox_of_ibox o)) (filter keep others))
  / box_area Qops (qbox_of_ibox b).
Proof.
  intros Ok HF HK.
  assert (HF' : Forall ibox_ok (filter keep others)).
  { rewrite Forall_forall in *. intros o Ho. apply filter_In in Ho. apply HF. tauto. }
  rewrite <- (grid_eq_ie_axis_aligned_lemma b (filter keep others) Ok HF').
  unfold own_share_grid. rewrite !own_area_grid_eq_rect.
  rewrite (uncovered_rect_drop keep others b); [reflexivity|].
  intros o Ho K. rewrite Forall_forall in HF. destruct (HK o Ho K) as [T|T].
  - apply too_far_null; auto.
  - apply ibox_inter_comm_null. apply too_far_null; auto.
Qed.

(* ========================================================================================== *)
(* Part 4: the whole vector.  own_shares_ie on the records of valid integer boxes equals, entry by entry up to ==,
   the normalised grid shares; [others_at i bs] = all boxes of bs except the one at position i. *)

Definition others_at (i : nat) (bs : list ibox) : list ibox :=
  map snd (filter (fun jb => negb (Nat.eqb (fst jb) i)) (combine (seq 0 (length bs)) bs)).

Lemma combine_map_r {A B C} (f : B -> C) : forall (l : list A) (l' : list B),
  combine l (map f l') = map (fun p => (fst p, f (snd p))) (combine l l').
Proof.
  induction l as [|a l IH]; intros [|b l']; cbn [combine map]; try reflexivity. now rewrite IH.
Qed.

Lemma filter_map_swap {A B} (f : A -> B) (p : B -> bool) (l : list A) :
  filter p (map f l) = map f (filter (fun x => p (f x)) l).
Proof.
  induction l as [|a l IH]; cbn [map filter]; [reflexivity|]. destruct (p (f a)); cbn [map]; now rewrite IH.
Qed.

Lemma filter_andb {A} (f g : A -> bool) (l : list A) :
  filter (fun x => f x && g x) l = filter g (filter f l).
Proof.
  induction l as [|a l IH]; cbn [filter]; [reflexivity|].
  destruct (f a); cbn [andb filter]; [destruct (g a); now rewrite IH | exact IH].
Qed.

Lemma filter_ext_in' {A} (f g : A -> bool) (l : list A) : (forall x, In x l -> f x = g x) -> filter f l = filter g l.
Proof.
  induction l as [|a l IH]; intros H; cbn [filter]; [reflexivity|].
  rewrite (H a) by now left. rewrite IH; [reflexivity|]. intros; apply H; now right.
Qed.

Lemma combine_seq_nth {A B} (f : A -> B) : forall (l : list A) s j x d,
  In (j, x) (combine (seq s (length l)) l) -> (s <= j)%nat /\ nth (j - s) (map f l) d = f x.
Proof.
  induction l as [|a l IH]; intros s j x d H; [contradiction|].
  cbn [length seq combine In] in H. destruct H as [E|H].
  - injection E as <- <-. rewrite Nat.sub_diag. split; [lia | reflexivity].
  - destruct (IH (S s) j x d H) as [L N]. split; [lia|].
    replace (j - s)%nat with (S (j - S s)) by lia. exact N.
Qed.

Lemma combine_seq_in_r {A} : forall (l : list A) s j x, In (j, x) (combine (seq s (length l)) l) -> In x l.
Proof. intros l s j x H. exact (in_combine_r _ _ _ _ H). Qed.

(* share_normalise respects == *)
Lemma share_normalise_comp own own' area area' : own == own' -> area == area' ->
  share_normalise Qops own area == share_normalise Qops own' area'.
Proof.
  intros E1 E2. unfold share_normalise.
  assert (E : div Qops own (add Qops area (of_Q Qops SimilariGen.Consts.EPS)) ==
              div Qops own' (add Qops area' (of_Q Qops SimilariGen.Consts.EPS))).
  { rewrite !qdiv, !qadd, E1, E2. reflexivity. }
  set (e := div Qops own (add Qops area (of_Q Qops SimilariGen.Consts.EPS))) in *.
  set (e' := div Qops own' (add Qops area' (of_Q Qops SimilariGen.Consts.EPS))) in *.
  assert (B : leb Qops (one Qops) e = leb Qops (one Qops) e') by (rewrite !qleb, E; reflexivity).
  rewrite B. destruct (leb Qops (one Qops) e'); [reflexivity | exact E].
Qed.

(* the own area the inclusion-exclusion specification computes after ANY admissible pre-filter *)
Lemma uncovered_prefiltered_area b others (keep : ibox -> bool) : ibox_ok b -> Forall ibox_ok others ->
  (forall o, In o others -> keep o = false ->
     too_far Qops (qbox_of_ibox b) (qbox_of_ibox o) = true \/ too_far Qops (qbox_of_ibox o) (qbox_of_ibox b) = true) ->
  uncovered Qops (rect_vertices Qops (qbox_of_ibox b))
            (map (fun o => rect_vertices Qops (qbox_of_ibox o)) (filter keep others))
  == inject_Z (own_area_grid b others).
Proof.
  intros Ok HF HK.
  assert (HF' : Forall ibox_ok (filter keep others)).
  { rewrite Forall_forall in *. intros o Ho. apply filter_In in Ho. apply HF. tauto. }
  assert (W : weak b) by (destruct Ok; unfold weak; lia).
  assert (E : uncovered Qops (rect_vertices Qops (qbox_of_ibox b))
                (map (fun o => rect_vertices Qops (qbox_of_ibox o)) (filter keep others))
              == uncovered Qops (canonz b) (map canonz (filter keep others))).
  { apply uncovered_peqv.
    - apply Forall2_map_same. intros o Ho. apply rect_of_ibox. rewrite Forall_forall in HF'. now apply HF'.
    - apply pe_leq. now apply rect_of_ibox. }
  rewrite E, (uncovered_canonz (filter keep others) HF' (canonz b) b W (pe_leq _ _ (leq_refl _))).
  rewrite (uncovered_rect_drop keep others b), own_area_grid_eq_rect; [reflexivity|].
  intros o Ho K. rewrite Forall_forall in HF. destruct (HK o Ho K) as [T|T].
  - apply too_far_null; auto.
  - apply ibox_inter_comm_null. apply too_far_null; auto.
Qed.

(* near_others, on the records of integer boxes, is a too_far-filter of the other boxes *)
Lemma near_others_of_ibox bs i b : In (i, b) (combine (seq 0 (length bs)) bs) ->
  near_others Qops (map qbox_of_ibox bs) i =
  map qbox_of_ibox (filter (fun o => negb (too_far Qops (qbox_of_ibox b) (qbox_of_ibox o))) (others_at i bs)).
Proof.
  intros Hi. unfold near_others, others_at. rewrite map_length, combine_map_r, filter_map_swap, map_map.
  cbn [fst snd]. rewrite (filter_map_swap snd), map_map.
  rewrite <- filter_andb. f_equal. apply filter_ext_in'. intros [j x] Hj. cbn [fst snd].
  destruct (combine_seq_nth qbox_of_ibox bs 0 i b (mkbox (zero Qops) (zero Qops) (one Qops) (zero Qops) (one Qops) (one Qops)) Hi) as [_ Ni].
  destruct (combine_seq_nth qbox_of_ibox bs 0 j x (mkbox (zero Qops) (zero Qops) (one Qops) (zero Qops) (one Qops) (one Qops)) Hj) as [_ Nj].
  rewrite Nat.sub_0_r in Ni, Nj. unfold near_pair.
  repeat match goal with |- context [@nth ?T i ?l ?d] => replace (@nth T i l d) with (qbox_of_ibox b) by (symmetry; exact Ni) end.
  repeat match goal with |- context [@nth ?T j ?l ?d] => replace (@nth T j l d) with (qbox_of_ibox x) by (symmetry; exact Nj) end.
  destruct (Nat.ltb i j) eqn:A.
  - apply Nat.ltb_lt in A. assert (E : Nat.eqb j i = false) by (apply Nat.eqb_neq; lia). rewrite E. reflexivity.
  - destruct (Nat.ltb j i) eqn:B.
    + apply Nat.ltb_lt in B. assert (E : Nat.eqb j i = false) by (apply Nat.eqb_neq; lia). rewrite E.
      cbn [negb andb]. now rewrite too_far_sym_lemma.
    + apply Nat.ltb_ge in A. apply Nat.ltb_ge in B. assert (E : Nat.eqb j i = true) by (apply Nat.eqb_eq; lia).
      rewrite E. reflexivity.
Qed.

Lemma others_at_ok bs i : Forall ibox_ok bs -> Forall ibox_ok (others_at i bs).
Proof.
  intros H. rewrite Forall_forall in *. intros o Ho. unfold others_at in Ho.
  apply in_map_iff in Ho. destruct Ho as [[j x] [<- Hx]]. apply filter_In in Hx. destruct Hx as [Hx _].
  apply H. exact (in_combine_r _ _ _ _ Hx).
Qed.

Lemma ubox_area_of_ibox r : ibox_ok r ->
  ScalarBox.ubox_area Qops (to_ubox Qops (qbox_of_ibox r)) == inject_Z (ibox_area r).
Proof. intros Ok. rewrite <- box_area_is_translation_lemma. now apply box_area_of_ibox. Qed.

Lemma own_shares_ie_eq_grid_lemma (bs : list ibox) : Forall ibox_ok bs ->
  Forall2 Qeq
    (own_shares_ie Qops (map qbox_of_ibox bs))
    (map (fun ib => share_normalise Qops (inject_Z (own_area_grid (snd ib) (others_at (fst ib) bs)))
                                    (inject_Z (ibox_area (snd ib))))
         (combine (seq 0 (length bs)) bs)).
Proof.
  intros HF. rewrite own_shares_ie_uses_translation, map_length, combine_map_r, map_map.
  apply Forall2_map_same. intros [i b] Hib. cbn [fst snd].
  assert (Ok : ibox_ok b) by (rewrite Forall_forall in HF; apply HF; exact (in_combine_r _ _ _ _ Hib)).
  apply share_normalise_comp; [|now apply ubox_area_of_ibox].
  unfold own_area_ie. rewrite (near_others_of_ibox bs i b Hib), map_map.
  apply uncovered_prefiltered_area; [exact Ok | now apply others_at_ok|].
  intros o _ K. left. now apply negb_false_iff in K.
Qed.

(* [others_at] is the list own_shares_grid pairs each box with (everything before it ++ everything after it) *)
Lemma filter_neq_combine_seq : forall (l : list ibox) s i, (i < s)%nat ->
  filter (fun jb => negb (Nat.eqb (fst jb) i)) (combine (seq s (length l)) l) = combine (seq s (length l)) l.
Proof.
  induction l as [|a l IH]; intros s i H; [reflexivity|].
  cbn [length seq combine filter fst]. assert (E : Nat.eqb s i = false) by (apply Nat.eqb_neq; lia).
  rewrite E. cbn [negb]. rewrite IH by lia. reflexivity.
Qed.

Lemma map_snd_combine_seq : forall (l : list ibox) s, map snd (combine (seq s (length l)) l) = l.
Proof. induction l as [|a l IH]; intros s; [reflexivity|]. cbn [length seq combine map snd]. now rewrite IH. Qed.

Lemma others_at_split : forall (before : list ibox) s b tl,
  map snd (filter (fun jb => negb (Nat.eqb (fst jb) (s + length before)))
             (combine (seq s (length (before ++ b :: tl))) (before ++ b :: tl))) = before ++ tl.
Proof.
  induction before as [|a before IH]; intros s b tl.
  - cbn [app length seq combine filter fst]. rewrite Nat.add_0_r, Nat.eqb_refl. cbn [negb].
    rewrite filter_neq_combine_seq by lia. apply map_snd_combine_seq.
  - cbn [app length seq combine filter fst].
    assert (E : Nat.eqb s (s + S (length before)) = false) by (apply Nat.eqb_neq; lia).
    rewrite E. cbn [negb map snd]. f_equal.
    replace (s + S (length before))%nat with (S s + length before)%nat by lia. apply IH.
Qed.

Lemma own_shares_grid_from_others : forall after before,
  own_shares_grid_from before after =
  map (fun ib => own_share_grid (snd ib) (others_at (fst ib) (before ++ after)))
      (combine (seq (length before) (length after)) after).
Proof.
  induction after as [|b tl IH]; intros before; [reflexivity|].
  cbn [own_shares_grid_from length seq combine map fst snd]. f_equal.
  - unfold others_at. f_equal. symmetry. exact (others_at_split before 0 b tl).
  - rewrite (IH (before ++ [b])). rewrite app_length. cbn [length]. rewrite Nat.add_1_r.
    rewrite <- app_assoc. reflexivity.
Qed.

Lemma own_shares_grid_others bs :
  own_shares_grid bs = map (fun ib => own_share_grid (snd ib) (others_at (fst ib) bs)) (combine (seq 0 (length bs)) bs).
Proof. unfold own_shares_grid. exact (own_shares_grid_from_others bs []). Qed.
