(* Lemmas about Model/VisualTracker.v (C12). *)
From Coq Require Import List NArith ZArith QArith Bool Arith Lia Sorted Permutation.
From Similari Require Import Model.VisualAttrs Model.VisualTracker Proofs.VisualAttrsProofs.
From Similari Require Base.Num Proofs.VisualGateProofs.
From SimilariGen Require Scalar ScalarGate ScalarVisual.
Import ListNotations.
Local Open Scope nat_scope.

Definition ids (ts : list ttrack) : list N := map tt_id ts.

Lemma memN_In x l : memN x l = true <-> In x l.
Proof.
  unfold memN. rewrite existsb_exists. split.
  - intros (y & Hy & E). apply N.eqb_eq in E. subst. exact Hy.
  - intros H. exists x. split; [exact H | apply N.eqb_refl].
Qed.

Lemma memN_false x l : memN x l = false <-> ~ In x l.
Proof. rewrite <- memN_In. destruct (memN x l); split; congruence. Qed.

Lemma NoDup_app_snoc {A} (l : list A) x : NoDup l -> ~ In x l -> NoDup (l ++ [x]).
Proof.
  intros ND Hx. induction ND as [|y l Hy ND IH]; cbn.
  - constructor; [intros [] | constructor].
  - constructor.
    + intros H. apply in_app_or in H. destruct H as [H|[H|[]]]; [exact (Hy H)|]. subst. apply Hx. left. reflexivity.
    + apply IH. intros H. apply Hx. right. exact H.
Qed.

Lemma ss_app_r {A} (R : A -> A -> Prop) l1 l2 : StronglySorted R (l1 ++ l2) -> StronglySorted R l2.
Proof. induction l1 as [|x l1 IH]; cbn; [auto|]. intros H. apply StronglySorted_inv in H. apply IH, H. Qed.

Section P.
Variable o : topts.

(* ================================================================================================ *)
(* Layer A: records <-> decisions                                                                   *)

Lemma update_track_spec ts id f : (forall t, tt_id (f t) = tt_id t) ->
  match update_track ts id f with
  | Some (ts', t') => In id (ids ts) /\ ids ts' = ids ts /\ exists t0, In t0 ts /\ tt_id t0 = id /\ t' = f t0
  | None => ~ In id (ids ts)
  end.
Proof.
  intros Hf. induction ts as [|t r IH]; cbn [update_track]; [intros []|].
  destruct (N.eqb_spec (tt_id t) id) as [E|E].
  - split; [left; exact E|]. split; [cbn; rewrite Hf; reflexivity|]. exists t. repeat split; [left; reflexivity | exact E].
  - destruct (update_track r id f) as [[r' t']|].
    + destruct IH as (Hin & Hids & t0 & Ht0 & Hid & Ht'). split; [right; exact Hin|].
      split; [cbn; f_equal; exact Hids|]. exists t0. repeat split; [right; exact Ht0 | exact Hid | exact Ht'].
    + intros [H|H]; [congruence | exact (IH H)].
Qed.

Lemma record_new_track id scene e d :
  let r := record_of_track (new_track o id scene e d) in
  tr_id r = id /\ tr_visual r = false /\ tr_len r = 1 /\ tr_epoch r = e /\ tr_scene r = scene /\
  tr_obs r = Some (d_uid d) /\ tr_pred r = Some (d_uid d).
Proof.
  cbn zeta. unfold record_of_track, new_track. cbn [tt_id tt_vt tt_epoch tt_scene tt_body tr_id tr_visual tr_len tr_epoch tr_scene tr_obs tr_pred].
  change (track_step (to_g o) track0 (false, d)) with (track_run (to_g o) ([] ++ [(false, d)])).
  rewrite record_echoes_last_lemma. cbn. repeat split.
Qed.

Lemma record_merge_into t e v d :
  let r := record_of_track (merge_into o t e v d) in
  tr_id r = tt_id t /\ tr_visual r = v /\ tr_epoch r = e /\ tr_scene r = tt_scene t.
Proof. cbn zeta. unfold record_of_track, merge_into. cbn. destruct v; repeat split. Qed.

Lemma apply_one_spec scene e ts next d dec ts' next' r :
  apply_one o scene e (ts, next) (d, dec) = ((ts', next'), r) ->
  tr_epoch r = e /\
  ( (next' = (next + 1)%N /\ ids ts' = ids ts ++ [(next + 1)%N] /\ tr_id r = (next + 1)%N /\ tr_visual r = false /\
     tr_len r = 1 /\ (dec = NewTrack \/ exists t v, dec = Attach t v /\ ~ In t (ids ts)))
    \/ (exists t v, dec = Attach t v /\ In t (ids ts) /\ next' = next /\ ids ts' = ids ts /\ tr_id r = t /\ tr_visual r = v) ).
Proof.
  unfold apply_one.
  assert (Fresh : forall (why : dec = NewTrack \/ exists t v, dec = Attach t v /\ ~ In t (ids ts)),
             (ts ++ [new_track o (next + 1) scene e d], (next + 1)%N, record_of_track (new_track o (next + 1) scene e d)) = (ts', next', r) ->
             tr_epoch r = e /\
             ((next' = (next + 1)%N /\ ids ts' = ids ts ++ [(next + 1)%N] /\ tr_id r = (next + 1)%N /\ tr_visual r = false /\
               tr_len r = 1 /\ (dec = NewTrack \/ exists t v, dec = Attach t v /\ ~ In t (ids ts)))
              \/ (exists t v, dec = Attach t v /\ In t (ids ts) /\ next' = next /\ ids ts' = ids ts /\ tr_id r = t /\ tr_visual r = v))).
  { intros why H. injection H as <- <- <-.
    destruct (record_new_track (next + 1)%N scene e d) as (H1 & H2 & H3 & H4 & _).
    split; [exact H4|]. left. repeat split; try assumption.
    unfold ids. rewrite map_app. reflexivity. }
  destruct dec as [|tid v].
  - apply Fresh. left. reflexivity.
  - pose proof (update_track_spec ts tid (fun t => merge_into o t e v d) (fun t => eq_refl)) as U.
    destruct (update_track ts tid (fun t => merge_into o t e v d)) as [[ts1 t1]|].
    + destruct U as (Hin & Hids & t0 & Ht0 & Hid & Ht1). intros H. injection H as <- <- <-.
      subst t1. destruct (record_merge_into t0 e v d) as (R1 & R2 & R3 & _).
      split; [exact R3|]. right. exists tid, v. repeat split; try assumption; try (rewrite R1; exact Hid).
    + apply Fresh. right. exists tid, v. split; [reflexivity | exact U].
Qed.

Lemma apply_all_spec scene e : forall dds ts next ts' next' recs,
  apply_all o scene e (ts, next) dds = ((ts', next'), recs) ->
  length recs = length dds /\ (next <= next')%N /\ incl (ids ts) (ids ts') /\
  (Forall (fun id => (id <= next)%N) (ids ts) -> Forall (fun id => (id <= next')%N) (ids ts')) /\
  (NoDup (ids ts) -> Forall (fun id => (id <= next)%N) (ids ts) -> NoDup (ids ts')) /\
  forall i d dec r, nth_error dds i = Some (d, dec) -> nth_error recs i = Some r ->
     tr_epoch r = e /\
     (tr_visual r = true -> exists t, dec = Attach t true /\ tr_id r = t) /\
     (forall t v, dec = Attach t v -> In t (ids ts) -> tr_id r = t /\ tr_visual r = v) /\
     (dec = NewTrack -> (next < tr_id r)%N /\ tr_visual r = false /\ tr_len r = 1).
Proof.
  induction dds as [|[d0 dec0] dds IH]; intros ts next ts' next' recs H.
  - cbn in H. injection H as <- <- <-.
    split; [reflexivity|]. split; [lia|]. split; [apply incl_refl|]. split; [auto|]. split; [auto|].
    intros [|i] d dec r H1; discriminate.
  - cbn [apply_all] in H.
    destruct (apply_one o scene e (ts, next) (d0, dec0)) as [[ts1 next1] r0] eqn:E1.
    destruct (apply_all o scene e (ts1, next1) dds) as [[ts2 next2] recs2] eqn:E2.
    injection H as <- <- <-.
    destruct (apply_one_spec _ _ _ _ _ _ _ _ _ E1) as (Hep & Hcase).
    destruct (IH _ _ _ _ _ E2) as (Hlen & Hnext & Hincl & Hbound & Hnodup & Hrec).
    assert (Hn1 : (next <= next1)%N) by (destruct Hcase as [(-> & _)|(t & v & _ & _ & -> & _)]; lia).
    assert (Hi1 : incl (ids ts) (ids ts1)).
    { destruct Hcase as [(_ & -> & _)|(t & v & _ & _ & _ & -> & _)]; [apply incl_appl|]; apply incl_refl. }
    assert (Hb1 : Forall (fun id => (id <= next)%N) (ids ts) -> Forall (fun id => (id <= next1)%N) (ids ts1)).
    { intros F. destruct Hcase as [(-> & -> & _)|(t & v & _ & _ & -> & -> & _)]; [|exact F].
      apply Forall_app. split; [|repeat constructor; lia].
      eapply Forall_impl; [|exact F]. cbn. intros; lia. }
    assert (Hd1 : NoDup (ids ts) -> Forall (fun id => (id <= next)%N) (ids ts) -> NoDup (ids ts1)).
    { intros ND F. destruct Hcase as [(_ & -> & _)|(t & v & _ & _ & _ & -> & _)]; [|exact ND].
      apply NoDup_app_snoc; [exact ND|]. intros Hin. rewrite Forall_forall in F. specialize (F _ Hin). lia. }
    split; [cbn; lia|]. split; [lia|]. split; [eapply incl_tran; eassumption|].
    split; [intros F; apply Hbound, Hb1, F|].
    split; [intros ND F; apply Hnodup; [apply Hd1; assumption | apply Hb1, F]|].
    intros [|i] d dec r Hd Hr.
    + cbn in Hd, Hr. injection Hd as <- <-. injection Hr as <-. split; [exact Hep|].
      destruct Hcase as [(_ & _ & Hid & Hv & Hl & Hwhy)|(t & v & -> & Hin & _ & _ & Hid & Hv)].
      * split; [congruence|]. split.
        -- intros t v -> Hin. destruct Hwhy as [?|(t' & v' & E' & Hn)]; [discriminate|]. injection E' as <- <-. contradiction.
        -- intros _. repeat split; try assumption. lia.
      * split; [intros Ht; exists t; rewrite <- Hv, Ht; auto|].
        split; [|discriminate]. intros t' v' E' _. injection E' as <- <-. auto.
    + cbn in Hd, Hr. destruct (Hrec i d dec r Hd Hr) as (R1 & R2 & R3 & R4).
      split; [exact R1|]. split; [exact R2|]. split.
      * intros t v E' Hin. apply (R3 t v E'), Hi1, Hin.
      * intros E'. destruct (R4 E') as (Q1 & Q2 & Q3). repeat split; try assumption. lia.
Qed.


(* ---- the translated gates, in terms of the thresholds ------------------------------------------------------------ *)
Lemma is_ok_iff (t d : Q) :
  (is_ok (Euclid t) d = true <-> (d <= t)%Q) /\ (is_ok (Cosine t) d = true <-> (t <= d)%Q).
Proof. exact (VisualGateProofs.is_ok_spec t d). Qed.

Lemma distance_to_weight_eq (t d : Q) :
  (distance_to_weight (Euclid t) d == d)%Q /\ (distance_to_weight (Cosine t) d == 1 - d)%Q.
Proof. exact (VisualGateProofs.distance_to_weight_spec t d). Qed.

(* the translated positional_metric on (value, confidence 1, minimal confidence 0): only the IoU threshold filter is left *)
Lemma unit_gate thr w0 :
  ScalarVisual.visual_positional_metric Num.Qops (Some unit_box) (Some unit_box) 0%Q
    (ScalarGate.PositionalMetricType_IoU Num.Qops thr) false 0%Q (Some w0)
  = if Qle_bool thr (Qred (w0 * 1)) then Some (Qred (w0 * 1)) else None.
Proof. reflexivity. Qed.

Lemma pos_gate_spec p w z : pos_gate o p = Some (w, z) <->
  p = Some (w, z) /\ (to_pos o = Maha \/ exists thr, to_pos o = IoU thr /\ (thr <= w)%Q).
Proof.
  unfold pos_gate. destruct (to_pos o) as [|thr] eqn:K.
  - split; [intros ->; split; [reflexivity | left; reflexivity] | intros [-> _]; reflexivity].
  - destruct p as [[w0 z0]|]; [|split; [discriminate | intros [H _]; discriminate]].
    rewrite unit_gate. destruct (Qle_bool thr (Qred (w0 * 1))) eqn:L.
    + apply Qle_bool_iff in L. rewrite Qred_correct, Qmult_1_r in L. split.
      * intros H. injection H as <- <-. split; [reflexivity|]. right. exists thr. split; [reflexivity | exact L].
      * intros [H _]. exact H.
    + split; [discriminate|]. intros [H [Hm|(thr' & Ht & Hle)]]; [discriminate|].
      injection H as <- <-. injection Ht as <-.
      assert (T : Qle_bool thr (Qred (w0 * 1)) = true) by (apply Qle_bool_iff; rewrite Qred_correct, Qmult_1_r; exact Hle).
      congruence.
Qed.

(* ================================================================================================ *)
(* Layer B: best-fit voting                                                                         *)

Definition wge (a b : claim) : Prop := (cl_w b <= cl_w a)%Q.

Lemma insert_claim_perm c l : Permutation (insert_claim c l) (c :: l).
Proof.
  induction l as [|x l IH]; cbn [insert_claim]; [reflexivity|].
  destruct (Qle_bool (cl_w x) (cl_w c)); [reflexivity|]. rewrite IH. apply perm_swap.
Qed.

Lemma sort_claims_perm l : Permutation (sort_claims l) l.
Proof.
  induction l as [|x l IH]; [reflexivity|].
  cbn [sort_claims fold_right]. fold (sort_claims l). rewrite insert_claim_perm. constructor. exact IH.
Qed.

Lemma insert_claim_sorted c l : StronglySorted wge l -> StronglySorted wge (insert_claim c l).
Proof.
  induction 1 as [|x l Hs IH Hx]; cbn [insert_claim].
  - repeat constructor.
  - destruct (Qle_bool (cl_w x) (cl_w c)) eqn:E.
    + apply Qle_bool_iff in E. constructor; [constructor; assumption|].
      constructor; [exact E|]. rewrite Forall_forall in *. intros y Hy. unfold wge in *.
      eapply Qle_trans; [apply Hx, Hy | exact E].
    + constructor; [exact IH|].
      rewrite Forall_forall in *. intros y Hy.
      apply (Permutation_in _ (insert_claim_perm c l)) in Hy. destruct Hy as [<-|Hy]; [|apply Hx, Hy].
      unfold wge. destruct (Qlt_le_dec (cl_w c) (cl_w x)) as [Hlt|Hle]; [apply Qlt_le_weak, Hlt|].
      apply Qle_bool_iff in Hle. congruence.
Qed.

Lemma sort_claims_sorted l : StronglySorted wge (sort_claims l).
Proof.
  induction l as [|x l IH]; [constructor|].
  cbn [sort_claims fold_right]. fold (sort_claims l). apply insert_claim_sorted, IH.
Qed.

Lemma greedy_fst l : forall taken, map fst (greedy taken l) = l.
Proof.
  induction l as [|x l IH]; intros taken; [reflexivity|]. cbn [greedy].
  destruct (memN (cl_to x) taken); cbn [map fst]; rewrite IH; reflexivity.
Qed.

Lemma greedy_won l : forall taken c, In (c, true) (greedy taken l) ->
  ~ In (cl_to c) taken /\ exists l1 l2, l = l1 ++ c :: l2 /\ forall c', In c' l1 -> cl_to c' <> cl_to c.
Proof.
  induction l as [|x l IH]; intros taken c H; [destruct H|]. cbn [greedy] in H.
  destruct (memN (cl_to x) taken) eqn:E.
  - destruct H as [H|H]; [discriminate|]. destruct (IH _ _ H) as (Hn & l1 & l2 & -> & Hl1).
    split; [exact Hn|]. exists (x :: l1), l2. split; [reflexivity|].
    intros c' [<-|Hc']; [|apply Hl1, Hc']. intros Heq. apply Hn. rewrite <- Heq. apply memN_In, E.
  - apply memN_false in E. destruct H as [H|H].
    + injection H as <-. split; [exact E|]. exists [], l. split; [reflexivity | intros c' []].
    + destruct (IH _ _ H) as (Hn & l1 & l2 & -> & Hl1).
      split; [intros Hin; apply Hn; right; exact Hin|]. exists (x :: l1), l2. split; [reflexivity|].
      intros c' [<-|Hc']; [|apply Hl1, Hc']. intros Heq. apply Hn. left. exact Heq.
Qed.

Lemma greedy_won_unique l : forall taken c1 c2,
  In (c1, true) (greedy taken l) -> In (c2, true) (greedy taken l) -> cl_to c1 = cl_to c2 -> c1 = c2.
Proof.
  induction l as [|x l IH]; intros taken c1 c2 H1 H2 Heq; [destruct H1|]. cbn [greedy] in H1, H2.
  destruct (memN (cl_to x) taken).
  - destruct H1 as [H1|H1]; [discriminate|]. destruct H2 as [H2|H2]; [discriminate|]. eapply IH; eassumption.
  - destruct H1 as [H1|H1]; destruct H2 as [H2|H2].
    + congruence.
    + injection H1 as <-. destruct (greedy_won _ _ _ H2) as (Hn & _). exfalso. apply Hn. left. exact Heq.
    + injection H2 as <-. destruct (greedy_won _ _ _ H1) as (Hn & _). exfalso. apply Hn. left. symmetry. exact Heq.
    + eapply IH; eassumption.
Qed.

Lemma bestfit_in_claims ds c b : In (c, b) (bestfit o ds) -> In c (claims o ds).
Proof.
  intros H. unfold bestfit in H. apply (in_map fst) in H. rewrite greedy_fst in H. cbn in H.
  apply (Permutation_in _ (sort_claims_perm _)), H.
Qed.

Lemma bestfit_heaviest ds c : In (c, true) (bestfit o ds) ->
  forall c', In c' (claims o ds) -> cl_to c' = cl_to c -> (cl_w c' <= cl_w c)%Q.
Proof.
  intros H c' Hc' Hto. unfold bestfit in H.
  destruct (greedy_won _ _ _ H) as (_ & l1 & l2 & E & Hl1).
  pose proof (sort_claims_sorted (claims o ds)) as S. rewrite E in S.
  apply (Permutation_in _ (Permutation_sym (sort_claims_perm _))) in Hc'. rewrite E in Hc'.
  apply in_app_or in Hc'. destruct Hc' as [Hc'|[<-|Hc']].
  - exfalso. exact (Hl1 _ Hc' Hto).
  - apply Qle_refl.
  - apply ss_app_r in S. apply StronglySorted_inv in S. destruct S as [_ F].
    rewrite Forall_forall in F. apply F, Hc'.
Qed.

Lemma visual_decision_win bf c t : visual_decision bf c = VWin t ->
  exists cl, In (cl, true) bf /\ cl_from cl = c /\ cl_to cl = t.
Proof.
  unfold visual_decision. destruct (find (fun p => (cl_from (fst p) =? c)%N) bf) as [[cl b]|] eqn:E; [|discriminate].
  apply find_some in E. destruct E as [Hin Hc]. cbn in Hc. apply N.eqb_eq in Hc.
  destruct b; intros H; [|discriminate]. injection H as <-. exists cl. auto.
Qed.

Lemma visual_decision_lost bf c t : visual_decision bf c = VLost t ->
  exists cl, In (cl, false) bf /\ cl_from cl = c /\ cl_to cl = t.
Proof.
  unfold visual_decision. destruct (find (fun p => (cl_from (fst p) =? c)%N) bf) as [[cl b]|] eqn:E; [|discriminate].
  apply find_some in E. destruct E as [Hin Hc]. cbn in Hc. apply N.eqb_eq in Hc.
  destruct b; intros H; [discriminate|]. injection H as <-. exists cl. auto.
Qed.

Lemma visual_decision_none bf c : visual_decision bf c = VNone <-> ~ In c (claimants bf).
Proof.
  unfold visual_decision, claimants. split.
  - destruct (find (fun p => (cl_from (fst p) =? c)%N) bf) as [[cl b]|] eqn:E; [destruct b; discriminate|].
    intros _ Hin. apply in_map_iff in Hin. destruct Hin as (p & Hp & Hin).
    pose proof (find_none _ _ E _ Hin) as F. cbn in F. rewrite Hp, N.eqb_refl in F. discriminate.
  - intros Hn. destruct (find (fun p => (cl_from (fst p) =? c)%N) bf) as [[cl b]|] eqn:E; [|reflexivity].
    apply find_some in E. destruct E as [Hin Hc]. cbn in Hc. apply N.eqb_eq in Hc.
    exfalso. apply Hn. apply in_map_iff. exists (cl, b). auto.
Qed.

(* a candidate with a claim is a claimant *)
Lemma claim_is_claimant ds c : In c (claims o ds) -> In (cl_from c) (claimants (bestfit o ds)).
Proof.
  intros H. unfold claimants, bestfit.
  apply (Permutation_in _ (Permutation_sym (sort_claims_perm _))) in H.
  rewrite <- (greedy_fst (sort_claims (claims o ds)) []) in H.
  apply in_map_iff in H. destruct H as (p & Hp & Hin). apply in_map_iff. exists p. split; [rewrite Hp; reflexivity | exact Hin].
Qed.


(* ================================================================================================ *)
(* Layer C: claims <-> distances <-> oracle facts                                                   *)

Lemma claims_spec ds c : In c (claims o ds) ->
  In (cl_from c, cl_to c) (keys_from o [] ds) /\
  cl_votes c = length (votes_for o ds (cl_from c) (cl_to c)) /\ to_min_votes o <= cl_votes c /\
  cl_w c = Qsum (map (fun e => (max_dist ds - e)%Q) (votes_for o ds (cl_from c) (cl_to c))).
Proof.
  unfold claims. intros H. apply in_flat_map in H. destruct H as ([a b] & Hk & Hc). cbn [fst snd] in Hc.
  destruct (Nat.leb_spec (to_min_votes o) (length (votes_for o ds a b))) as [Hle|Hgt]; [|destruct Hc].
  destruct Hc as [<-|[]]. cbn [cl_from cl_to cl_votes cl_w]. auto.
Qed.

Lemma keys_from_in ds : forall seen k, In k (keys_from o seen ds) ->
  exists x, In x ds /\ (di_from x, di_to x) = k /\ vote_of o x <> None.
Proof.
  induction ds as [|x ds IH]; intros seen k H; [destruct H|]. cbn [keys_from] in H.
  destruct (vote_of o x) eqn:V.
  - destruct (existsb (key_eqb (di_from x, di_to x)) seen).
    + destruct (IH _ _ H) as (y & Hy & E & N0). exists y. auto using in_cons.
    + destruct H as [<-|H].
      * exists x. split; [left; reflexivity|]. split; [reflexivity | congruence].
      * destruct (IH _ _ H) as (y & Hy & E & N0). exists y. auto using in_cons.
  - destruct (IH _ _ H) as (y & Hy & E & N0). exists y. auto using in_cons.
Qed.

Lemma all_dists_in cl e tracks x : In x (all_dists o cl e tracks) ->
  exists d t, In d (c_dets cl) /\ In t tracks /\ compatible o (c_scene cl) e t = true /\ In x (dists_pair o cl d t).
Proof.
  unfold all_dists. intros H. apply in_flat_map in H. destruct H as (d & Hd & H).
  apply in_flat_map in H. destruct H as (t & Ht & H).
  destruct (compatible o (c_scene cl) e t) eqn:C; [|destruct H]. exists d, t. auto.
Qed.

Definition dist_from_obs cl d t (g : gallery) (x : dist) : Prop :=
  di_from x = d_uid d /\ di_to x = tt_id t /\
  (exists gx, In gx g /\ di_fd x = visual_metric o cl d t gx) /\
  (di_pos x = None \/ di_pos x = pos_gate o (c_pos cl (d_uid d) (tt_id t))).

Lemma dists_obs_in cl d t : forall g first x, In x (dists_obs o cl d t first g) -> dist_from_obs cl d t g x.
Proof.
  induction g as [|gx g IH]; intros first x H; [destruct H|]. cbn [dists_obs] in H.
  assert (Rest : In x (dists_obs o cl d t false g) -> dist_from_obs cl d t (gx :: g) x).
  { intros Hr. destruct (IH _ _ Hr) as (A & B & (g0 & Hg0 & C) & D). repeat split; auto. exists g0. auto using in_cons. }
  assert (Head : x = mkDist (d_uid d) (tt_id t) (if first then pos_gate o (c_pos cl (d_uid d) (tt_id t)) else None) (visual_metric o cl d t gx) ->
                 dist_from_obs cl d t (gx :: g) x).
  { intros ->. unfold dist_from_obs. cbn [di_from di_to di_fd di_pos]. split; [reflexivity|]. split; [reflexivity|]. split.
    - exists gx. split; [left|]; reflexivity.
    - destruct first; auto. }
  destruct (if first then pos_gate o (c_pos cl (d_uid d) (tt_id t)) else None) eqn:P;
    destruct (visual_metric o cl d t gx) eqn:V; try (destruct H as [H|H]; [apply Head; rewrite <- H; reflexivity | apply Rest, H]).
  apply Rest, H.
Qed.

Lemma visual_metric_some cl d t gx e : visual_metric o cl d t gx = Some e ->
  can_use o d = true /\ d_feat d = true /\ g_feat gx = true /\ to_min_len o <= collected t /\
  is_ok (to_vis o) (c_fd cl (d_uid d) (g_uid gx)) = true /\
  e = distance_to_weight (to_vis o) (c_fd cl (d_uid d) (g_uid gx)).
Proof.
  unfold visual_metric. destruct (can_use o d); [|discriminate].
  destruct (d_feat d); [|discriminate]. destruct (g_feat gx); cbn [andb]; [|discriminate].
  intros Hw. apply VisualGateProofs.visual_metric_some_iff in Hw. destruct Hw as (Hlen & Hok & He).
  assert (K : VisualGateProofs.visual_kind_distance (to_vis o) (c_fd cl (d_uid d) (g_uid gx)) (c_fd cl (d_uid d) (g_uid gx))
              = c_fd cl (d_uid d) (g_uid gx)) by (destruct (to_vis o); reflexivity).
  rewrite K in Hok, He. repeat split; auto. lia.
Qed.

Definition vm_ok cl d t gx : bool := match visual_metric o cl d t gx with Some _ => true | None => false end.

Lemma votes_for_app a b u t : votes_for o (a ++ b) u t = votes_for o a u t ++ votes_for o b u t.
Proof. unfold votes_for. apply flat_map_app. Qed.

Lemma votes_for_cons x ds u t :
  votes_for o (x :: ds) u t =
  (if (di_from x =? u)%N && (di_to x =? t)%N then match vote_of o x with Some e => [e] | None => [] end else [])
  ++ votes_for o ds u t.
Proof. reflexivity. Qed.

Lemma votes_for_other ds u t : (forall x, In x ds -> di_from x <> u \/ di_to x <> t) -> votes_for o ds u t = [].
Proof.
  induction ds as [|x ds IH]; intros H; [reflexivity|]. rewrite votes_for_cons.
  rewrite IH by (intros; apply H; right; assumption).
  destruct (H x (or_introl eq_refl)) as [N0|N0].
  - apply N.eqb_neq in N0. rewrite N0. reflexivity.
  - apply N.eqb_neq in N0. rewrite N0, andb_false_r. reflexivity.
Qed.

Lemma votes_for_flat_map_nil {A} (f : A -> list dist) l u t :
  (forall x, In x l -> votes_for o (f x) u t = []) -> votes_for o (flat_map f l) u t = [].
Proof.
  induction l as [|x l IH]; intros H; [reflexivity|]. cbn [flat_map]. rewrite votes_for_app, H, IH; auto using in_eq, in_cons.
Qed.

Lemma votes_for_collapse {A} (key : A -> N) (f : A -> list dist) l a u t :
  NoDup (map key l) -> In a l ->
  (forall x, key x <> key a -> votes_for o (f x) u t = []) ->
  votes_for o (flat_map f l) u t = votes_for o (f a) u t.
Proof.
  intros ND Hin Hother. induction l as [|x l IH]; [destruct Hin|].
  cbn [map] in ND. apply NoDup_cons_iff in ND. destruct ND as [Hx ND]. cbn [flat_map]. rewrite votes_for_app.
  destruct Hin as [->|Hin].
  - rewrite votes_for_flat_map_nil, app_nil_r; [reflexivity|].
    intros y Hy. apply Hother. intros E. apply Hx. rewrite <- E. apply in_map, Hy.
  - rewrite Hother, IH; auto. intros E. apply Hx. rewrite E. apply in_map, Hin.
Qed.

Lemma votes_for_dists_obs_len cl d t : forall g first,
  length (votes_for o (dists_obs o cl d t first g) (d_uid d) (tt_id t)) <= length (filter (vm_ok cl d t) g).
Proof.
  induction g as [|gx g IH]; intros first; [cbn; lia|]. cbn [dists_obs filter]. unfold vm_ok at 1.
  specialize (IH false).
  destruct (visual_metric o cl d t gx) eqn:V.
  - destruct (if first then pos_gate o (c_pos cl (d_uid d) (tt_id t)) else None);
      rewrite votes_for_cons, app_length; cbn [di_from di_to]; rewrite !N.eqb_refl; cbn [andb];
      (destruct (vote_of o _); cbn [length]; lia).
  - destruct (if first then pos_gate o (c_pos cl (d_uid d) (tt_id t)) else None).
    + rewrite votes_for_cons. cbn [di_from di_to]. rewrite !N.eqb_refl. cbn [andb]. unfold vote_of. cbn [di_fd app]. exact IH.
    + exact IH.
Qed.

Lemma filter_length_mono {A} (f g : A -> bool) l : (forall x, f x = true -> g x = true) ->
  length (filter f l) <= length (filter g l).
Proof.
  intros H. induction l as [|x l IH]; [cbn; lia|]. cbn [filter].
  destruct (f x) eqn:F; [rewrite (H _ F); cbn; lia|]. destruct (g x); cbn; lia.
Qed.

Lemma key_eqb_eq a b : key_eqb a b = true <-> a = b.
Proof.
  unfold key_eqb. destruct a as [a1 a2], b as [b1 b2]. cbn [fst snd]. rewrite andb_true_iff, !N.eqb_eq.
  split; [intros [-> ->]; reflexivity | intros H; injection H; auto].
Qed.

Lemma existsb_key_false k seen : existsb (key_eqb k) seen = false <-> ~ In k seen.
Proof.
  split.
  - intros H Hin. assert (E : existsb (key_eqb k) seen = true) by (apply existsb_exists; exists k; split; [exact Hin | apply key_eqb_eq; reflexivity]). congruence.
  - intros H. destruct (existsb (key_eqb k) seen) eqn:E; [|reflexivity].
    apply existsb_exists in E. destruct E as (y & Hy & E). apply key_eqb_eq in E. subst. contradiction.
Qed.

Lemma keys_from_complete ds : forall seen k,
  (exists x, In x ds /\ (di_from x, di_to x) = k /\ vote_of o x <> None) -> ~ In k seen -> In k (keys_from o seen ds).
Proof.
  induction ds as [|x0 ds IH]; intros seen k (x & Hx & Ek & Hv) Hs; [destruct Hx|]. cbn [keys_from].
  destruct (vote_of o x0) eqn:V.
  - destruct (existsb (key_eqb (di_from x0, di_to x0)) seen) eqn:E.
    + apply IH; [|exact Hs]. destruct Hx as [->|Hx]; [|eauto].
      exfalso. apply existsb_exists in E. destruct E as (y & Hy & E). apply key_eqb_eq in E. subst. contradiction.
    + destruct Hx as [->|Hx]; [left; exact Ek|].
      destruct (key_eqb (di_from x0, di_to x0) k) eqn:K.
      * apply key_eqb_eq in K. left. exact K.
      * right. apply IH; [eauto|]. intros [H|H]; [|contradiction]. rewrite H in K.
        assert (T : key_eqb k k = true) by (apply key_eqb_eq; reflexivity). congruence.
  - apply IH; [|exact Hs]. destruct Hx as [->|Hx]; [congruence | eauto].
Qed.

Lemma votes_for_nonempty ds u t : votes_for o ds u t <> [] ->
  exists x, In x ds /\ (di_from x, di_to x) = (u, t) /\ vote_of o x <> None.
Proof.
  induction ds as [|x ds IH]; intros H; [exfalso; apply H; reflexivity|]. rewrite votes_for_cons in H.
  destruct ((di_from x =? u)%N && (di_to x =? t)%N) eqn:K.
  - destruct (vote_of o x) eqn:V.
    + apply andb_true_iff in K. destruct K as [K1 K2]. apply N.eqb_eq in K1. apply N.eqb_eq in K2.
      exists x. split; [left; reflexivity|]. split; [congruence | congruence].
    + cbn [app] in H. destruct (IH H) as (y & Hy & E & Hv). exists y. auto using in_cons.
  - cbn [app] in H. destruct (IH H) as (y & Hy & E & Hv). exists y. auto using in_cons.
Qed.

(* a claim exists exactly when enough stored features vote *)
Lemma claim_exists_iff ds a b :
  (exists c, In c (claims o ds) /\ cl_from c = a /\ cl_to c = b) <->
  (votes_for o ds a b <> [] /\ to_min_votes o <= length (votes_for o ds a b)).
Proof.
  split.
  - intros (c & Hc & <- & <-). destruct (claims_spec _ _ Hc) as (Hk & Hv & Hmin & _).
    split; [|rewrite <- Hv; exact Hmin].
    destruct (keys_from_in _ _ _ Hk) as (x & Hx & Ek & Hvote). injection Ek as E1 E2.
    intros Hnil. clear Hv Hmin Hk Hc.
    induction ds as [|y ds IH]; [destruct Hx|]. rewrite votes_for_cons in Hnil. apply app_eq_nil in Hnil. destruct Hnil as [N1 N2].
    destruct Hx as [->|Hx]; [|exact (IH Hx N2)].
    rewrite E1, E2, !N.eqb_refl in N1. cbn [andb] in N1. destruct (vote_of o x); congruence.
  - intros [Hne Hmin].
    assert (Hk : In (a, b) (keys_from o [] ds)).
    { apply keys_from_complete; [apply votes_for_nonempty, Hne | intros []]. }
    exists (mkClaim a b (Qsum (map (fun e => (max_dist ds - e)%Q) (votes_for o ds a b))) (length (votes_for o ds a b))).
    split; [|split; reflexivity].
    unfold claims. apply in_flat_map. exists (a, b). split; [exact Hk|]. cbn [fst snd].
    destruct (Nat.leb_spec (to_min_votes o) (length (votes_for o ds a b))); [left; reflexivity | lia].
Qed.

Definition vote_ok (cl : call) (u : N) (gx : gentry) : bool := g_feat gx && is_ok (to_vis o) (c_fd cl u (g_uid gx)).

(* the facts behind a claim *)
Lemma claim_sound cl e tracks c :
  NoDup (map d_uid (c_dets cl)) -> NoDup (ids tracks) ->
  In c (claims o (all_dists o cl e tracks)) ->
  exists d t, In d (c_dets cl) /\ In t tracks /\ d_uid d = cl_from c /\ tt_id t = cl_to c /\
              compatible o (c_scene cl) e t = true /\
              can_use o d = true /\ d_feat d = true /\ to_min_len o <= collected t /\
              to_min_votes o <= cl_votes c /\
              cl_votes c <= length (filter (vote_ok cl (d_uid d)) (t_gal (tt_body t))).
Proof.
  intros NDd NDt Hc. destruct (claims_spec _ _ Hc) as (Hk & Hv & Hmin & _).
  destruct (keys_from_in _ _ _ Hk) as (x & Hx & Ekey & Hvote). injection Ekey as Ef Et.
  destruct (all_dists_in _ _ _ _ Hx) as (d & t & Hd & Ht & Hcomp & Hxp).
  destruct (dists_obs_in _ _ _ _ _ _ Hxp) as (Hfrom & Hto & (gx & Hgx & Hfd) & _).
  exists d, t. split; [exact Hd|]. split; [exact Ht|]. split; [congruence|]. split; [congruence|]. split; [exact Hcomp|].
  assert (Hsome : exists w, visual_metric o cl d t gx = Some w).
  { unfold vote_of in Hvote. rewrite Hfd in Hvote. destruct (visual_metric o cl d t gx); [eauto | congruence]. }
  destruct Hsome as (w & Hw). destruct (visual_metric_some _ _ _ _ _ Hw) as (U1 & U2 & _ & U4 & _).
  split; [exact U1|]. split; [exact U2|]. split; [exact U4|]. split; [exact Hmin|].
  rewrite Hv, <- Ef, <- Et, Hfrom, Hto.
  (* collapse the double flat_map to the (d, t) block *)
  unfold all_dists.
  rewrite (votes_for_collapse d_uid _ (c_dets cl) d); [|exact NDd | exact Hd |].
  - rewrite (votes_for_collapse tt_id _ tracks t); [|exact NDt | exact Ht |].
    + rewrite Hcomp. unfold dists_pair. etransitivity; [apply votes_for_dists_obs_len|].
      apply filter_length_mono. intros g0 Hg0. unfold vm_ok in Hg0. unfold vote_ok.
      destruct (visual_metric o cl d t g0) eqn:V; [|discriminate].
      destruct (visual_metric_some _ _ _ _ _ V) as (_ & _ & G & _ & I & _). rewrite G, I. reflexivity.
    + intros t' Hne. destruct (compatible o (c_scene cl) e t'); [|reflexivity].
      apply votes_for_other. intros y Hy. destruct (dists_obs_in _ _ _ _ _ _ Hy) as (_ & B & _). right. congruence.
  - intros d' Hne. apply votes_for_flat_map_nil. intros t' _.
    destruct (compatible o (c_scene cl) e t'); [|reflexivity].
    apply votes_for_other. intros y Hy. destruct (dists_obs_in _ _ _ _ _ _ Hy) as (A & _). left. congruence.
Qed.

End P.

(* ================================================================================================ *)
(* Top level: one call from an arbitrary state                                                      *)

Lemma NoDup_map_inj {A} (f : A -> N) l a b : NoDup (map f l) -> In a l -> In b l -> f a = f b -> a = b.
Proof.
  induction l as [|x l IH]; intros ND Ha Hb E; [destruct Ha|].
  cbn [map] in ND. apply NoDup_cons_iff in ND. destruct ND as [Hx ND].
  destruct Ha as [->|Ha]; destruct Hb as [->|Hb]; auto.
  - exfalso. apply Hx. rewrite E. apply in_map, Hb.
  - exfalso. apply Hx. rewrite <- E. apply in_map, Ha.
Qed.

Lemma track_step_collected g t s : a_collected (t_attrs (track_step g t s)) = count_feat (t_gal (track_step g t s)).
Proof. destruct (track_step_attrs g t s) as [Ha Hg]. rewrite Ha, Hg. apply optimize_gal. Qed.

Section Top.
Variable o : topts.

Definition plan_of (st : tstate) (cl : call) : plan := make_plan o st cl.

Lemma step_unfold st cl st' recs : step o st cl = (st', recs) ->
  apply_all o (c_scene cl) (p_epoch (plan_of st cl)) (s_tracks st, s_next st) (p_decisions (plan_of st cl))
  = ((s_tracks st', s_next st'), recs) /\
  s_epochs st' = set_epoch (s_epochs st) (c_scene cl) (p_epoch (plan_of st cl)).
Proof.
  unfold step, step_plan, plan_of.
  destruct (apply_all o (c_scene cl) (p_epoch (make_plan o st cl)) (s_tracks st, s_next st) (p_decisions (make_plan o st cl)))
    as [[ts next] rs] eqn:E.
  intros H. injection H as <- <-. cbn. auto.
Qed.

Lemma decisions_nth st cl i d :
  nth_error (c_dets cl) i = Some d ->
  nth_error (p_decisions (plan_of st cl)) i = Some (d, decide (p_bf (plan_of st cl)) (p_sol (plan_of st cl)) (d_uid d)).
Proof.
  intros H. unfold plan_of, make_plan. cbn [p_decisions p_bf p_sol]. rewrite nth_error_map, H. reflexivity.
Qed.

Lemma decide_visual bf sol c t : decide bf sol c = Attach t true <-> visual_decision bf c = VWin t.
Proof.
  unfold decide. destruct (visual_decision bf c) as [t'| |] eqn:E.
  - split; intros H; injection H as <-; reflexivity.
  - split; discriminate.
  - destruct (find (fun p => (fst p =? c)%N) sol); split; discriminate.
Qed.

Lemma decide_new bf sol c : decide bf sol c = NewTrack <->
  (exists t, visual_decision bf c = VLost t) \/ (visual_decision bf c = VNone /\ find (fun p => (fst p =? c)%N) sol = None).
Proof.
  unfold decide. destruct (visual_decision bf c) as [t'|t'|] eqn:E.
  - split; [discriminate|]. intros [[t H]|[H _]]; discriminate.
  - split; [eauto|reflexivity].
  - destruct (find (fun p => (fst p =? c)%N) sol).
    + split; [discriminate|]. intros [[t H]|[_ H]]; discriminate.
    + split; [intros _; right; split; reflexivity | reflexivity].
Qed.

Lemma decide_positional bf sol c t : decide bf sol c = Attach t false <->
  visual_decision bf c = VNone /\ exists p, find (fun p => (fst p =? c)%N) sol = Some p /\ snd p = t.
Proof.
  unfold decide. destruct (visual_decision bf c) as [t'|t'|] eqn:E.
  - split; [discriminate|]. intros [H _]; discriminate.
  - split; [discriminate|]. intros [H _]; discriminate.
  - destruct (find (fun p => (fst p =? c)%N) sol) as [p|].
    + split.
      * intros H. injection H as <-. eauto.
      * intros [_ (p' & Hp & <-)]. injection Hp as <-. reflexivity.
    + split; [discriminate|]. intros [_ (p' & Hp & _)]. discriminate.
Qed.

(* a claim's track is a stored, compatible track *)
Lemma claim_track_stored st cl c : In c (claims o (p_dists (plan_of st cl))) ->
  exists t, In t (s_tracks st) /\ tt_id t = cl_to c /\ compatible o (c_scene cl) (p_epoch (plan_of st cl)) t = true.
Proof.
  intros Hc. destruct (claims_spec o _ _ Hc) as (Hk & _).
  destruct (keys_from_in o _ _ _ Hk) as (x & Hx & Ekey & _). injection Ekey as _ Et.
  unfold plan_of, make_plan in Hx. cbn [p_dists] in Hx.
  destruct (all_dists_in o _ _ _ _ Hx) as (d & t & _ & Ht & Hcomp & Hxp).
  destruct (dists_obs_in o _ _ _ _ _ _ Hxp) as (_ & Hto & _).
  exists t. split; [exact Ht|]. split; [congruence | exact Hcomp].
Qed.

Lemma win_track_stored st cl c t : visual_decision (p_bf (plan_of st cl)) c = VWin t -> In t (ids (s_tracks st)).
Proof.
  intros H. destruct (visual_decision_win _ _ _ H) as (cm & Hin & _ & Hto).
  assert (Hc : In cm (claims o (p_dists (plan_of st cl)))) by (eapply bestfit_in_claims; exact Hin).
  destruct (claim_track_stored _ _ _ Hc) as (t0 & Ht0 & Hid & _).
  unfold ids. rewrite <- Hto, <- Hid. apply in_map, Ht0.
Qed.

(* ---- the record of one detection -------------------------------------------------------------------- *)
Lemma record_facts st cl st' recs i d r :
  step o st cl = (st', recs) -> nth_error (c_dets cl) i = Some d -> nth_error recs i = Some r ->
  let p := plan_of st cl in
  let dec := decide (p_bf p) (p_sol p) (d_uid d) in
  tr_epoch r = p_epoch p /\
  (tr_visual r = true -> exists t, dec = Attach t true /\ tr_id r = t) /\
  (forall t v, dec = Attach t v -> In t (ids (s_tracks st)) -> tr_id r = t /\ tr_visual r = v) /\
  (dec = NewTrack -> (s_next st < tr_id r)%N /\ tr_visual r = false /\ tr_len r = 1).
Proof.
  intros Hs Hd Hr. cbn zeta. destruct (step_unfold _ _ _ _ Hs) as [Ha _].
  destruct (apply_all_spec o _ _ _ _ _ _ _ _ Ha) as (_ & _ & _ & _ & _ & Hrec).
  exact (Hrec i d _ r (decisions_nth st cl i d Hd) Hr).
Qed.

Lemma records_length st cl st' recs : step o st cl = (st', recs) -> length recs = length (c_dets cl).
Proof.
  intros Hs. destruct (step_unfold _ _ _ _ Hs) as [Ha _].
  destruct (apply_all_spec o _ _ _ _ _ _ _ _ Ha) as (Hl & _). rewrite Hl.
  unfold plan_of, make_plan. cbn [p_decisions]. apply map_length.
Qed.

(* ---- voting type ------------------------------------------------------------------------------------- *)
Lemma voting_type_truthful_lemma st cl st' recs i d r :
  step o st cl = (st', recs) -> nth_error (c_dets cl) i = Some d -> nth_error recs i = Some r ->
  (tr_visual r = true <-> exists t, visual_decision (p_bf (plan_of st cl)) (d_uid d) = VWin t /\ tr_id r = t).
Proof.
  intros Hs Hd Hr. destruct (record_facts _ _ _ _ _ _ _ Hs Hd Hr) as (_ & Hv & Ha & _). split.
  - intros H. destruct (Hv H) as (t & Hdec & Hid). exists t. split; [apply decide_visual in Hdec; exact Hdec | exact Hid].
  - intros (t & Hw & _). pose proof (proj2 (decide_visual _ (p_sol (plan_of st cl)) _ _) Hw) as Hdec.
    destruct (Ha t true Hdec (win_track_stored _ _ _ _ Hw)) as [_ Hvis]. exact Hvis.
Qed.

(* ---- appearance attachments are sound and go to the heaviest claimant ----------------------------------- *)
Lemma visual_attach_lemma st cl st' recs i d r :
  NoDup (map d_uid (c_dets cl)) -> NoDup (ids (s_tracks st)) ->
  step o st cl = (st', recs) -> nth_error (c_dets cl) i = Some d -> nth_error recs i = Some r ->
  tr_visual r = true ->
  exists t c, In t (s_tracks st) /\ tt_id t = tr_id r /\
     In (c, true) (p_bf (plan_of st cl)) /\ cl_from c = d_uid d /\ cl_to c = tr_id r /\
     compatible o (c_scene cl) (p_epoch (plan_of st cl)) t = true /\
     can_use o d = true /\ d_feat d = true /\ to_min_len o <= collected t /\
     to_min_votes o <= cl_votes c /\
     cl_votes c <= length (filter (vote_ok o cl (d_uid d)) (t_gal (tt_body t))) /\
     (forall c', In c' (claims o (p_dists (plan_of st cl))) -> cl_to c' = tr_id r -> (cl_w c' <= cl_w c)%Q).
Proof.
  intros NDd NDt Hs Hd Hr Hv.
  destruct (proj1 (voting_type_truthful_lemma _ _ _ _ _ _ _ Hs Hd Hr) Hv) as (tid & Hw & Hid).
  destruct (visual_decision_win _ _ _ Hw) as (c & Hin & Hfrom & Hto).
  assert (Hc : In c (claims o (p_dists (plan_of st cl)))) by (eapply bestfit_in_claims; exact Hin).
  unfold plan_of, make_plan in Hc. cbn [p_dists] in Hc.
  destruct (claim_sound o _ _ _ _ NDd NDt Hc) as (d' & t & Hd' & Ht & Eu & Et & Hcomp & U1 & U2 & U3 & U4 & U5).
  assert (Edd : d' = d).
  { apply (NoDup_map_inj d_uid (c_dets cl)); auto. eapply nth_error_In; exact Hd. congruence. }
  subst d'. exists t, c. subst tid.
  split; [exact Ht|]. split; [congruence|]. split; [exact Hin|]. split; [exact Hfrom|]. split; [exact Hto|].
  split; [exact Hcomp|]. split; [exact U1|]. split; [exact U2|]. split; [exact U3|]. split; [exact U4|]. split; [exact U5|].
  intros c' Hc' Hto'. apply (bestfit_heaviest o _ _ Hin c' Hc'). congruence.
Qed.

(* ---- positional fallback -------------------------------------------------------------------------------- *)
Lemma excluded_spec bf cands t : In t (excluded bf cands) <-> exists c, In c cands /\ visual_decision bf c = VWin t.
Proof.
  unfold excluded. rewrite in_flat_map. split.
  - intros (c & Hc & H). exists c. split; [exact Hc|]. destruct (visual_decision bf c); try destruct H as [<-|[]]; try destruct H. reflexivity.
  - intros (c & Hc & H). exists c. split; [exact Hc|]. rewrite H. left. reflexivity.
Qed.

Lemma remaining_spec ds bf cands c t z :
  In (c, t, z) (remaining ds bf cands) <->
  exists x w, In x ds /\ di_from x = c /\ di_to x = t /\ di_pos x = Some (w, z) /\
              ~ In c (claimants bf) /\ ~ In t (excluded bf cands).
Proof.
  unfold remaining. rewrite in_flat_map. split.
  - intros (x & Hx & H). destruct (di_pos x) as [[w z']|] eqn:P; [|destruct H].
    destruct (memN (di_from x) (claimants bf)) eqn:M1; [destruct H|].
    destruct (memN (di_to x) (excluded bf cands)) eqn:M2; [destruct H|].
    cbn [orb] in H. destruct H as [H|[]]. injection H as <- <- <-.
    exists x, w. apply memN_false in M1. apply memN_false in M2. auto 10.
  - intros (x & w & Hx & <- & <- & P & N1 & N2). exists x. split; [exact Hx|]. rewrite P.
    apply memN_false in N1. apply memN_false in N2. rewrite N1, N2. left. reflexivity.
Qed.

Lemma positional_fallback_lemma st cl :
  let p := plan_of st cl in
  p_sol p = c_solver cl (to_thr_z o) (p_remaining p) /\
  p_remaining p = remaining (p_dists p) (p_bf p) (map d_uid (c_dets cl)) /\
  forall st' recs i d r,
    step o st cl = (st', recs) -> nth_error (c_dets cl) i = Some d -> nth_error recs i = Some r ->
    ~ In (d_uid d) (claimants (p_bf p)) ->
    match find (fun q => (fst q =? d_uid d)%N) (p_sol p) with
    | Some q => In (snd q) (ids (s_tracks st)) -> tr_id r = snd q /\ tr_visual r = false
    | None => (s_next st < tr_id r)%N /\ tr_visual r = false /\ tr_len r = 1
    end.
Proof.
  cbn zeta. split; [reflexivity|]. split; [reflexivity|].
  intros st' recs i d r Hs Hd Hr Hn.
  destruct (record_facts _ _ _ _ _ _ _ Hs Hd Hr) as (_ & _ & Ha & Hnew).
  apply visual_decision_none in Hn.
  destruct (find (fun q => (fst q =? d_uid d)%N) (p_sol (plan_of st cl))) as [q|] eqn:F.
  - intros Hin. apply (Ha (snd q) false); [|exact Hin].
    apply decide_positional. split; [exact Hn|]. exists q. auto.
  - apply Hnew. apply decide_new. right. auto.
Qed.

(* ---- contests ---------------------------------------------------------------------------------------------- *)
Lemma contest_loser_lemma st cl st' recs i j di dj ri rj cj :
  Forall (fun id => (id <= s_next st)%N) (ids (s_tracks st)) ->
  step o st cl = (st', recs) ->
  nth_error (c_dets cl) i = Some di -> nth_error recs i = Some ri ->
  nth_error (c_dets cl) j = Some dj -> nth_error recs j = Some rj ->
  d_uid di <> d_uid dj ->
  tr_visual ri = true ->
  In cj (claims o (p_dists (plan_of st cl))) -> cl_from cj = d_uid dj -> cl_to cj = tr_id ri ->
  tr_id rj <> tr_id ri /\ (tr_visual rj = false -> (s_next st < tr_id rj)%N /\ tr_len rj = 1).
Proof.
  intros Hbound Hs Hdi Hri Hdj Hrj Hne Hvi Hcj Hfj Htj.
  destruct (proj1 (voting_type_truthful_lemma _ _ _ _ _ _ _ Hs Hdi Hri) Hvi) as (t & Hwi & Hidi).
  destruct (visual_decision_win _ _ _ Hwi) as (ci & Hini & Hfromi & Htoi).
  assert (Hti : In t (ids (s_tracks st))) by (eapply win_track_stored; exact Hwi).
  assert (Hle : (t <= s_next st)%N) by (rewrite Forall_forall in Hbound; apply Hbound, Hti).
  destruct (record_facts _ _ _ _ _ _ _ Hs Hdj Hrj) as (_ & Hvj & Haj & Hnewj).
  (* dj is a claimant: its visual decision is a win or a loss *)
  assert (Hcl : In (d_uid dj) (claimants (p_bf (plan_of st cl)))).
  { rewrite <- Hfj. unfold plan_of, make_plan. cbn [p_bf]. apply claim_is_claimant. exact Hcj. }
  destruct (visual_decision (p_bf (plan_of st cl)) (d_uid dj)) as [t'|t'|] eqn:Ej.
  - (* wins some track t' <> t *)
    pose proof (proj2 (decide_visual _ (p_sol (plan_of st cl)) _ _) Ej) as Hdec.
    destruct (Haj t' true Hdec (win_track_stored _ _ _ _ Ej)) as [Hidj Hvisj].
    split.
    + rewrite Hidj, Hidi. intros Eq. subst t'.
      destruct (visual_decision_win _ _ _ Ej) as (cj' & Hinj & Hfromj & Htoj).
      unfold plan_of, make_plan in Hini, Hinj. cbn [p_bf] in Hini, Hinj. unfold bestfit in Hini, Hinj.
      assert (E : ci = cj') by (eapply greedy_won_unique; [exact Hini | exact Hinj | congruence]).
      subst cj'. congruence.
    + rewrite Hvisj. discriminate.
  - (* lost its heaviest claim: new track *)
    assert (Hdec : decide (p_bf (plan_of st cl)) (p_sol (plan_of st cl)) (d_uid dj) = NewTrack).
    { apply decide_new. left. eauto. }
    destruct (Hnewj Hdec) as (Hfresh & _ & Hlen). split; [lia | auto].
  - exfalso. apply visual_decision_none in Ej. exact (Ej Hcl).
Qed.

(* ---- new tracks ----------------------------------------------------------------------------------------------- *)
Lemma unmatched_lemma st cl st' recs i d r :
  step o st cl = (st', recs) -> nth_error (c_dets cl) i = Some d -> nth_error recs i = Some r ->
  let p := plan_of st cl in
  ((exists t, visual_decision (p_bf p) (d_uid d) = VLost t) \/
   (~ In (d_uid d) (claimants (p_bf p)) /\ find (fun q => (fst q =? d_uid d)%N) (p_sol p) = None)) ->
  (s_next st < tr_id r)%N /\ tr_visual r = false /\ tr_len r = 1 /\ tr_epoch r = p_epoch p.
Proof.
  intros Hs Hd Hr. cbn zeta. intros Hcase.
  destruct (record_facts _ _ _ _ _ _ _ Hs Hd Hr) as (Hep & _ & _ & Hnew).
  assert (Hdec : decide (p_bf (plan_of st cl)) (p_sol (plan_of st cl)) (d_uid d) = NewTrack).
  { apply decide_new. destruct Hcase as [H|[H1 H2]]; [left; exact H | right]. split; [apply visual_decision_none, H1 | exact H2]. }
  destruct (Hnew Hdec) as (A & B & C). auto.
Qed.

(* ---- invariants of reachable states ------------------------------------------------------------------------------ *)
Definition tinv (st : tstate) : Prop :=
  NoDup (ids (s_tracks st)) /\ Forall (fun id => (id <= s_next st)%N) (ids (s_tracks st)) /\
  Forall (fun t => collected t = count_feat (t_gal (tt_body t))) (s_tracks st).

Lemma update_track_forall (P : ttrack -> Prop) ts id f ts' t' :
  (forall t, P t -> P (f t)) -> Forall P ts -> update_track ts id f = Some (ts', t') -> Forall P ts'.
Proof.
  intros Hf. revert ts' t'. induction ts as [|t r IH]; intros ts' t' F H; [discriminate|]. cbn [update_track] in H.
  apply Forall_cons_iff in F. destruct F as [Pt F].
  destruct (tt_id t =? id)%N.
  - injection H as <- <-. constructor; auto.
  - destruct (update_track r id f) as [[r' t1]|] eqn:E; [|discriminate]. injection H as <- <-.
    constructor; [exact Pt | eapply IH; eauto].
Qed.

Lemma apply_all_forall (P : ttrack -> Prop) scene e :
  (forall id d, P (new_track o id scene e d)) -> (forall t v d, P t -> P (merge_into o t e v d)) ->
  forall dds ts next ts' next' recs,
    apply_all o scene e (ts, next) dds = ((ts', next'), recs) -> Forall P ts -> Forall P ts'.
Proof.
  intros Hnew Hmerge. induction dds as [|[d dec] dds IH]; intros ts next ts' next' recs H F.
  - cbn in H. injection H as <- <- <-. exact F.
  - cbn [apply_all] in H.
    destruct (apply_one o scene e (ts, next) (d, dec)) as [[ts1 next1] r0] eqn:E1.
    destruct (apply_all o scene e (ts1, next1) dds) as [[ts2 next2] recs2] eqn:E2.
    injection H as <- <- <-. eapply IH; [exact E2|].
    unfold apply_one in E1.
    assert (Fresh : Forall P (ts ++ [new_track o (next + 1) scene e d])).
    { apply Forall_app. split; [exact F | constructor; [apply Hnew | constructor]]. }
    destruct dec as [|tid v].
    + injection E1 as <- <- <-. exact Fresh.
    + destruct (update_track ts tid (fun t => merge_into o t e v d)) as [[tsu tu]|] eqn:U.
      * injection E1 as <- <- <-. eapply update_track_forall; [|exact F | exact U]. intros t Pt. apply Hmerge, Pt.
      * injection E1 as <- <- <-. exact Fresh.
Qed.

Lemma step_inv st cl : tinv st -> tinv (fst (step o st cl)).
Proof.
  intros (ND & B & C). destruct (step o st cl) as [st' recs] eqn:Hs. cbn [fst].
  destruct (step_unfold _ _ _ _ Hs) as [Ha _].
  destruct (apply_all_spec o _ _ _ _ _ _ _ _ Ha) as (_ & _ & _ & Hb & Hnd & _).
  split; [apply Hnd; assumption|]. split; [apply Hb, B|].
  eapply (apply_all_forall (fun t => collected t = count_feat (t_gal (tt_body t)))); [| |exact Ha | exact C].
  - intros id d. unfold collected, new_track. cbn [tt_body]. apply track_step_collected.
  - intros t v d _. unfold collected, merge_into. cbn [tt_body]. apply track_step_collected.
Qed.

Lemma run_inv cls : forall st, tinv st -> tinv (run o st cls).
Proof. induction cls as [|cl cls IH]; intros st H; [exact H|]. cbn [run]. apply IH, step_inv, H. Qed.

Lemma state0_inv : tinv state0.
Proof. unfold tinv, state0. cbn. repeat split; constructor. Qed.

Lemma reachable_inv cls : tinv (run o state0 cls).
Proof. apply run_inv, state0_inv. Qed.

End Top.

(* ================================================================================================ *)
(* The positional solver's certificate: an answer accepted by [matching_ok] is a maximum-value matching *)

Local Open Scope Z_scope.

Definition cell (pairs : list (N * N * Z)) (thr : Z) (m : list (N * N)) (c : N) : Z :=
  match find (fun p => (fst p =? c)%N) m with
  | Some p => match weight_of pairs c (snd p) with Some w => w | None => 0 end
  | None => thr
  end.

Fixpoint value_rows (pairs : list (N * N * Z)) (thr : Z) (rows : list N) (m : list (N * N)) : Z :=
  match rows with [] => 0 | c :: r => cell pairs thr m c + value_rows pairs thr r m end.

Lemma matching_value_rows thr pairs m :
  matching_value thr pairs m = value_rows pairs thr (rows_of [] pairs) m.
Proof.
  unfold matching_value. generalize (rows_of [] pairs) as rows.
  assert (G : forall rows a,
             fold_left (fun acc c => match find (fun p => (fst p =? c)%N) m with
                                     | Some p => match weight_of pairs c (snd p) with Some w => acc + w | None => acc end
                                     | None => acc + thr end) rows a = a + value_rows pairs thr rows m).
  { induction rows as [|c r IH]; intros a; cbn [fold_left value_rows]; [lia|]. rewrite IH. unfold cell.
    destruct (find (fun p => (fst p =? c)%N) m) as [p|]; [destruct (weight_of pairs c (snd p))|]; lia. }
  intros rows. rewrite G. lia.
Qed.

Definition ok_m (pairs : list (N * N * Z)) (rows used : list N) (m : list (N * N)) : Prop :=
  NoDup (map fst m) /\ NoDup (map snd m) /\
  forall c t, In (c, t) m -> In c rows /\ ~ In t used /\ weight_of pairs c t <> None.

Lemma find_remove {A} (f : A -> bool) m1 x m2 : f x = false -> find f (m1 ++ x :: m2) = find f (m1 ++ m2).
Proof. intros H. induction m1 as [|y m1 IH]; cbn [app find]; [rewrite H; reflexivity|]. destruct (f y); [reflexivity | exact IH]. Qed.

Lemma value_rows_remove pairs thr rows m1 c t m2 : ~ In c rows ->
  value_rows pairs thr rows (m1 ++ (c, t) :: m2) = value_rows pairs thr rows (m1 ++ m2).
Proof.
  induction rows as [|c' r IH]; intros Hn; [reflexivity|]. cbn [value_rows]. rewrite IH by (intros H; apply Hn; right; exact H).
  f_equal. unfold cell. rewrite find_remove; [reflexivity|]. cbn [fst]. apply N.eqb_neq. intros ->. apply Hn. left. reflexivity.
Qed.

Lemma value_rows_unmatched pairs thr rows m : (forall c, In c rows -> find (fun p => (fst p =? c)%N) m = None) ->
  value_rows pairs thr rows m = thr * Z.of_nat (length rows).
Proof.
  induction rows as [|c r IH]; intros H; [cbn; lia|]. cbn [value_rows length]. unfold cell at 1. rewrite (H c (or_introl eq_refl)).
  rewrite IH by (intros; apply H; right; assumption). lia.
Qed.

Definition bf_step (thr : Z) (pairs : list (N * N * Z)) (c : N) (r used : list N) (best : Z * list (N * N)) (p : N * N * Z) : Z * list (N * N) :=
  if (fst (fst p) =? c)%N && negb (memN (snd (fst p)) used) then
    match weight_of pairs c (snd (fst p)) with
    | Some w => if w <? thr then best
                else let '(v, m) := best_from thr pairs r (snd (fst p) :: used) in
                     if fst best <? v + w then (v + w, (c, snd (fst p)) :: m) else best
    | None => best
    end
  else best.

Lemma best_from_cons thr pairs c r used :
  best_from thr pairs (c :: r) used =
  fold_left (bf_step thr pairs c r used) pairs (let '(v, m) := best_from thr pairs r used in (v + thr, m)).
Proof. reflexivity. Qed.

Lemma bf_step_mono thr pairs c r used best p : fst best <= fst (bf_step thr pairs c r used best p).
Proof.
  unfold bf_step. destruct ((fst (fst p) =? c)%N && negb (memN (snd (fst p)) used)); [|lia].
  destruct (weight_of pairs c (snd (fst p))) as [w|]; [|lia]. destruct (w <? thr); [lia|].
  destruct (best_from thr pairs r (snd (fst p) :: used)) as [v m].
  destruct (Z.ltb_spec (fst best) (v + w)); cbn [fst]; lia.
Qed.

Lemma fold_mono {A} (f : Z * list (N * N) -> A -> Z * list (N * N)) l :
  (forall b a, fst b <= fst (f b a)) -> forall init, fst init <= fst (fold_left f l init).
Proof.
  intros Hf. induction l as [|x l IH]; intros init; cbn [fold_left]; [lia|].
  etransitivity; [apply (Hf init x) | apply IH].
Qed.

Lemma fold_ge {A} (f : Z * list (N * N) -> A -> Z * list (N * N)) l K :
  (forall b a, fst b <= fst (f b a)) ->
  forall init, (exists a, In a l /\ forall b, K <= fst (f b a)) -> K <= fst (fold_left f l init).
Proof.
  intros Hf. induction l as [|x l IH]; intros init (a & Ha & HK); [destruct Ha|]. cbn [fold_left].
  destruct Ha as [->|Ha].
  - etransitivity; [apply (HK init) | apply fold_mono, Hf].
  - apply IH. eauto.
Qed.

Lemma weight_of_some pairs c t w : weight_of pairs c t = Some w ->
  exists p, In p pairs /\ fst (fst p) = c /\ snd (fst p) = t.
Proof.
  unfold weight_of. destruct (find (fun p => (fst (fst p) =? c)%N && (snd (fst p) =? t)%N) (rev pairs)) as [p|] eqn:E; [|discriminate].
  intros _. apply find_some in E. destruct E as [Hin Hc]. apply andb_true_iff in Hc. destruct Hc as [H1 H2].
  apply N.eqb_eq in H1. apply N.eqb_eq in H2. exists p. split; [apply in_rev, Hin | auto].
Qed.

Lemma best_from_upper thr pairs : forall rows used m,
  NoDup rows -> ok_m pairs rows used m -> value_rows pairs thr rows m <= fst (best_from thr pairs rows used).
Proof.
  induction rows as [|c r IH]; intros used m ND (Nf & Ns & Hm).
  - cbn. lia.
  - apply NoDup_cons_iff in ND. destruct ND as [Hc ND]. rewrite best_from_cons. cbn [value_rows]. unfold cell.
    destruct (find (fun p => (fst p =? c)%N) m) as [[c0 t]|] eqn:F.
    + (* c is matched to t *)
      apply find_some in F. destruct F as [Hin Hc0]. cbn [fst] in Hc0. apply N.eqb_eq in Hc0. subst c0. cbn [snd].
      destruct (in_split _ _ Hin) as (m1 & m2 & ->).
      destruct (Hm c t Hin) as (_ & Htu & Hw).
      destruct (weight_of pairs c t) as [w|] eqn:W; [|congruence].
      rewrite map_app in Nf, Ns. cbn [map fst snd] in Nf, Ns.
      pose proof (NoDup_remove_1 _ _ _ Nf) as Nf1. pose proof (NoDup_remove_2 _ _ _ Nf) as Nf2.
      pose proof (NoDup_remove_1 _ _ _ Ns) as Ns1. pose proof (NoDup_remove_2 _ _ _ Ns) as Ns2.
      rewrite <- map_app in Nf1, Nf2, Ns1, Ns2.
      rewrite value_rows_remove by exact Hc.
      assert (Hin' : forall c' t', In (c', t') (m1 ++ m2) -> In (c', t') (m1 ++ (c, t) :: m2)).
      { intros c' t' H. apply in_or_app. apply in_app_or in H. destruct H; [left | right; right]; assumption. }
      assert (Ok1 : forall used', (forall t', In t' used' -> t' = t \/ In t' used) -> ok_m pairs r used' (m1 ++ m2)).
      { intros used' Hu. split; [exact Nf1|]. split; [exact Ns1|]. intros c' t' H.
        destruct (Hm c' t' (Hin' _ _ H)) as (Hr & Hu' & Hw'). split; [|split; [|exact Hw']].
        - destruct Hr as [<-|Hr]; [|exact Hr]. exfalso. apply Nf2. apply (in_map fst) in H. exact H.
        - intros Hin2. destruct (Hu _ Hin2) as [->|Hold]; [|exact (Hu' Hold)]. apply Ns2. apply (in_map snd) in H. exact H. }
      destruct (Z.ltb_spec w thr) as [Hlt|Hge].
      * (* lighter than the threshold: leaving the row unmatched is at least as good *)
        pose proof (IH used (m1 ++ m2) ND (Ok1 used (fun t' H => or_intror H))) as B.
        etransitivity; [|apply fold_mono; intros; apply bf_step_mono].
        destruct (best_from thr pairs r used) as [v mm]. cbn [fst] in *. lia.
      * pose proof (IH (t :: used) (m1 ++ m2) ND (Ok1 (t :: used) (fun t' H => match H with or_introl E => or_introl (eq_sym E) | or_intror H' => or_intror H' end))) as B.
        apply fold_ge; [intros; apply bf_step_mono|].
        destruct (weight_of_some _ _ _ _ W) as (p & Hp & E1 & E2). exists p. split; [exact Hp|].
        intros b. unfold bf_step. rewrite E1, E2, N.eqb_refl. apply memN_false in Htu. rewrite Htu. cbn [negb andb]. rewrite W.
        destruct (Z.ltb_spec w thr); [lia|].
        destruct (best_from thr pairs r (t :: used)) as [v mm]. cbn [fst] in B.
        destruct (Z.ltb_spec (fst b) (v + w)); cbn [fst]; lia.
    + (* c is unmatched *)
      assert (Ok : ok_m pairs r used m).
      { split; [exact Nf|]. split; [exact Ns|]. intros c' t' H. destruct (Hm c' t' H) as (Hr & Hu & Hw). split; [|auto].
        destruct Hr as [<-|Hr]; [|exact Hr]. exfalso. pose proof (find_none _ _ F _ H) as Fn. cbn [fst] in Fn. rewrite N.eqb_refl in Fn. discriminate. }
      pose proof (IH used m ND Ok) as B.
      etransitivity; [|apply fold_mono; intros; apply bf_step_mono].
      destruct (best_from thr pairs r used) as [v mm]. cbn [fst] in *. lia.
Qed.

Lemma rows_of_spec pairs : forall seen,
  NoDup (rows_of seen pairs) /\ (forall c, In c (rows_of seen pairs) -> ~ In c seen) /\
  (forall p, In p pairs -> In (fst (fst p)) seen \/ In (fst (fst p)) (rows_of seen pairs)).
Proof.
  induction pairs as [|p pairs IH]; intros seen; cbn [rows_of].
  - split; [constructor|]. split; [intros c []| intros p []].
  - destruct (memN (fst (fst p)) seen) eqn:M.
    + destruct (IH seen) as (A & B & C). split; [exact A|]. split; [exact B|].
      intros q [<-|Hq]; [left; apply memN_In, M | apply C, Hq].
    + apply memN_false in M. destruct (IH (fst (fst p) :: seen)) as (A & B & C). split; [|split].
      * constructor; [|exact A]. intros H. apply (B _ H). left. reflexivity.
      * intros c [<-|H]; [exact M|]. intros Hs. apply (B _ H). right. exact Hs.
      * intros q [<-|Hq]; [right; left; reflexivity|]. destruct (C q Hq) as [[E|H]|H]; [right; left; exact E | left; exact H | right; right; exact H].
Qed.

Lemma nodupN_NoDup l : nodupN l = true -> NoDup l.
Proof.
  induction l as [|x l IH]; cbn [nodupN]; [constructor|]. intros H. apply andb_true_iff in H. destruct H as [H1 H2].
  constructor; [|apply IH, H2]. apply negb_true_iff in H1. apply memN_false, H1.
Qed.

Lemma matching_valid_ok pairs m : matching_valid pairs m = true -> ok_m pairs (rows_of [] pairs) [] m.
Proof.
  unfold matching_valid. intros H. apply andb_true_iff in H. destruct H as [H H3]. apply andb_true_iff in H. destruct H as [H1 H2].
  split; [apply nodupN_NoDup, H2|]. split; [apply nodupN_NoDup, H3|].
  intros c t Hin. rewrite forallb_forall in H1. specialize (H1 _ Hin). cbn [fst snd] in H1.
  destruct (weight_of pairs c t) as [w|] eqn:W; [|discriminate]. split; [|split; [intros []|congruence]].
  destruct (weight_of_some _ _ _ _ W) as (p & Hp & E1 & _).
  destruct (rows_of_spec pairs []) as (_ & _ & C). destruct (C p Hp) as [[]|Hr]. rewrite E1 in Hr. exact Hr.
Qed.

(* the certificate is sound: an accepted answer is at least as good as every valid matching *)
Lemma matching_ok_optimal thr pairs m : matching_ok thr pairs m = true ->
  matching_valid pairs m = true /\
  forall m', matching_valid pairs m' = true -> matching_value thr pairs m' <= matching_value thr pairs m.
Proof.
  unfold matching_ok. intros H. apply andb_true_iff in H. destruct H as [Hv He]. apply Z.eqb_eq in He.
  split; [exact Hv|]. intros m' Hv'. rewrite He. unfold best_value. rewrite matching_value_rows.
  apply best_from_upper; [apply rows_of_spec | apply matching_valid_ok, Hv'].
Qed.
