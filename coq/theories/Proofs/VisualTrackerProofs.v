(* Lemmas about Model/VisualTracker.v (C12). *)
From Coq Require Import List NArith ZArith QArith Bool Arith Lia Sorted Permutation.
From Similari Require Import Model.VisualAttrs Model.VisualTracker Proofs.VisualAttrsProofs.
Import ListNotations.
Local Open Scope nat_scope.

Definition ids (ts : list ttrack) : list N := map tt_id ts.

Lemma memN_In x l : memN x l = true <-> In x l.
Proof.
  unfold memN. rewrite existsb_exists. split.
  - intros (y & Hy & E). apply N.eqb_eq in E. subst. exact Hy.
  - intros H. exists x. split; [exact H | apply N.eqb_refl].
Qed.

Lemma memN_false x l : memN x l = false <-> ~ In x l.
Proof. rewrite <- memN_In. destruct (memN x l); split; congruence. Qed.

Section P.
Variable o : topts.

(* ================================================================================================ *)
(* Layer A: records <-> decisions                                                                   *)

Lemma update_track_spec ts id f : (forall t, tt_id (f t) = tt_id t) ->
  match update_track ts id f with
  | Some (ts', t') => In id (ids ts) /\ ids ts' = ids ts /\ exists t0, In t0 ts /\ tt_id t0 = id /\ t' = f t0
  | None => ~ In id (ids ts)
  end.
Proof.
  intros Hf. induction ts as [|t r IH]; cbn [update_track]; [intros []|].
  destruct (N.eqb_spec (tt_id t) id) as [E|E].
  - split; [left; exact E|]. split; [cbn; rewrite Hf; reflexivity|]. exists t. repeat split; [left; reflexivity | exact E].
  - destruct (update_track r id f) as [[r' t']|].
    + destruct IH as (Hin & Hids & t0 & Ht0 & Hid & Ht'). split; [right; exact Hin|].
      split; [cbn; f_equal; exact Hids|]. exists t0. repeat split; [right; exact Ht0 | exact Hid | exact Ht'].
    + intros [H|H]; [congruence | exact (IH H)].
Qed.

Lemma record_new_track id scene e d :
  let r := record_of_track (new_track o id scene e d) in
  tr_id r = id /\ tr_visual r = false /\ tr_len r = 1 /\ tr_epoch r = e /\ tr_scene r = scene /\
  tr_obs r = Some (d_uid d) /\ tr_pred r = Some (d_uid d).
Proof.
  cbn zeta. unfold record_of_track, new_track. cbn [tt_id tt_vt tt_epoch tt_scene tt_body tr_id tr_visual tr_len tr_epoch tr_scene tr_obs tr_pred].
  change (track_step (to_g o) track0 (false, d)) with (track_run (to_g o) ([] ++ [(false, d)])).
  rewrite record_echoes_last_lemma. cbn. repeat split.
Qed.

Lemma record_merge_into t e v d :
  let r := record_of_track (merge_into o t e v d) in
  tr_id r = tt_id t /\ tr_visual r = v /\ tr_epoch r = e /\ tr_scene r = tt_scene t.
Proof. cbn zeta. unfold record_of_track, merge_into. cbn. destruct v; repeat split. Qed.

Lemma apply_one_spec scene e ts next d dec ts' next' r :
  apply_one o scene e (ts, next) (d, dec) = ((ts', next'), r) ->
  tr_epoch r = e /\
  ( (next' = (next + 1)%N /\ ids ts' = ids ts ++ [(next + 1)%N] /\ tr_id r = (next + 1)%N /\ tr_visual r = false /\
     tr_len r = 1 /\ (dec = NewTrack \/ exists t v, dec = Attach t v /\ ~ In t (ids ts)))
    \/ (exists t v, dec = Attach t v /\ In t (ids ts) /\ next' = next /\ ids ts' = ids ts /\ tr_id r = t /\ tr_visual r = v) ).
Proof.
  unfold apply_one.
  assert (Fresh : forall (why : dec = NewTrack \/ exists t v, dec = Attach t v /\ ~ In t (ids ts)),
             (ts ++ [new_track o (next + 1) scene e d], (next + 1)%N, record_of_track (new_track o (next + 1) scene e d)) = (ts', next', r) ->
             tr_epoch r = e /\
             ((next' = (next + 1)%N /\ ids ts' = ids ts ++ [(next + 1)%N] /\ tr_id r = (next + 1)%N /\ tr_visual r = false /\
               tr_len r = 1 /\ (dec = NewTrack \/ exists t v, dec = Attach t v /\ ~ In t (ids ts)))
              \/ (exists t v, dec = Attach t v /\ In t (ids ts) /\ next' = next /\ ids ts' = ids ts /\ tr_id r = t /\ tr_visual r = v))).
  { intros why H. injection H as <- <- <-.
    destruct (record_new_track (next + 1)%N scene e d) as (H1 & H2 & H3 & H4 & _).
    split; [exact H4|]. left. repeat split; try assumption.
    unfold ids. rewrite map_app. reflexivity. }
  destruct dec as [|tid v].
  - apply Fresh. left. reflexivity.
  - pose proof (update_track_spec ts tid (fun t => merge_into o t e v d) (fun t => eq_refl)) as U.
    destruct (update_track ts tid (fun t => merge_into o t e v d)) as [[ts1 t1]|].
    + destruct U as (Hin & Hids & t0 & Ht0 & Hid & Ht1). intros H. injection H as <- <- <-.
      subst t1. destruct (record_merge_into t0 e v d) as (R1 & R2 & R3 & _).
      split; [exact R3|]. right. exists tid, v. repeat split; try assumption. rewrite R1. exact Hid.
    + apply Fresh. right. exists tid, v. split; [reflexivity | exact U].
Qed.

Lemma apply_all_spec scene e : forall dds ts next ts' next' recs,
  apply_all o scene e (ts, next) dds = ((ts', next'), recs) ->
  length recs = length dds /\ (next <= next')%N /\ incl (ids ts) (ids ts') /\
  (Forall (fun id => (id <= next)%N) (ids ts) -> Forall (fun id => (id <= next')%N) (ids ts')) /\
  (NoDup (ids ts) -> Forall (fun id => (id <= next)%N) (ids ts) -> NoDup (ids ts')) /\
  forall i d dec r, nth_error dds i = Some (d, dec) -> nth_error recs i = Some r ->
     tr_epoch r = e /\
     (tr_visual r = true -> exists t, dec = Attach t true /\ tr_id r = t) /\
     (forall t v, dec = Attach t v -> In t (ids ts) -> tr_id r = t /\ tr_visual r = v) /\
     (dec = NewTrack -> (next < tr_id r)%N /\ tr_visual r = false /\ tr_len r = 1).
Proof.
  induction dds as [|[d0 dec0] dds IH]; intros ts next ts' next' recs H.
  - cbn in H. injection H as <- <- <-. repeat split; try (apply incl_refl); auto; try lia.
    intros [|i] d dec r H1; discriminate.
  - cbn [apply_all] in H.
    destruct (apply_one o scene e (ts, next) (d0, dec0)) as [[ts1 next1] r0] eqn:E1.
    destruct (apply_all o scene e (ts1, next1) dds) as [[ts2 next2] recs2] eqn:E2.
    injection H as <- <- <-.
    destruct (apply_one_spec _ _ _ _ _ _ _ _ _ E1) as (Hep & Hcase).
    destruct (IH _ _ _ _ _ E2) as (Hlen & Hnext & Hincl & Hbound & Hnodup & Hrec).
    assert (Hn1 : (next <= next1)%N) by (destruct Hcase as [(-> & _)|(t & v & _ & _ & -> & _)]; lia).
    assert (Hi1 : incl (ids ts) (ids ts1)).
    { destruct Hcase as [(_ & -> & _)|(t & v & _ & _ & _ & -> & _)]; [apply incl_appl|]; apply incl_refl. }
    assert (Hb1 : Forall (fun id => (id <= next)%N) (ids ts) -> Forall (fun id => (id <= next1)%N) (ids ts1)).
    { intros F. destruct Hcase as [(-> & -> & _)|(t & v & _ & _ & -> & -> & _)]; [|exact F].
      apply Forall_app. split; [|repeat constructor; lia].
      eapply Forall_impl; [|exact F]. cbn. intros; lia. }
    assert (Hd1 : NoDup (ids ts) -> Forall (fun id => (id <= next)%N) (ids ts) -> NoDup (ids ts1)).
    { intros ND F. destruct Hcase as [(_ & -> & _)|(t & v & _ & _ & _ & -> & _)]; [|exact ND].
      apply NoDup_app_snoc; [exact ND|]. intros Hin. rewrite Forall_forall in F. specialize (F _ Hin). lia. }
    split; [cbn; lia|]. split; [lia|]. split; [eapply incl_tran; eassumption|].
    split; [intros F; apply Hbound, Hb1, F|].
    split; [intros ND F; apply Hnodup; [apply Hd1; assumption | apply Hb1, F]|].
    intros [|i] d dec r Hd Hr.
    + cbn in Hd, Hr. injection Hd as <- <-. injection Hr as <-. split; [exact Hep|].
      destruct Hcase as [(_ & _ & Hid & Hv & Hl & Hwhy)|(t & v & -> & Hin & _ & _ & Hid & Hv)].
      * split; [congruence|]. split.
        -- intros t v -> Hin. destruct Hwhy as [?|(t' & v' & E' & Hn)]; [discriminate|]. injection E' as <- <-. contradiction.
        -- intros _. repeat split; try assumption. lia.
      * split; [intros Ht; exists t; rewrite <- Hv, Ht; auto|].
        split; [|discriminate]. intros t' v' E' _. injection E' as <- <-. auto.
    + cbn in Hd, Hr. destruct (Hrec i d dec r Hd Hr) as (R1 & R2 & R3 & R4).
      split; [exact R1|]. split; [exact R2|]. split.
      * intros t v E' Hin. apply (R3 t v E'), Hi1, Hin.
      * intros E'. destruct (R4 E') as (Q1 & Q2 & Q3). repeat split; try assumption. lia.
Qed.

End P.
