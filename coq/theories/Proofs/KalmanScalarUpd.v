(* C07 - update on a block-diagonal state is the scalar update, coordinate by coordinate. *)
From Coq Require Import List Arith Bool ZArith QArith Qreals Reals Lra Lia.
From Similari Require Import Base.Num Model.Kalman Proofs.KalmanBase Proofs.KalmanEntries Proofs.KalmanUpdate
     Proofs.KalmanScalar.
Import ListNotations.
Local Open Scope R_scope.

Ltac fixR := match goal with |- @eq _ ?l ?r => change (@eq R l r) end.

Ltac Ecases :=
  repeat first [rewrite E_cases_pp by assumption | rewrite E_cases_pv by assumption
               | rewrite E_cases_vp by assumption | rewrite E_cases_vv by assumption].

Section ScalarUpdate.
  Variable F : kfilter Rops.
  Local Notation n := (kdim Rops F).
  Local Notation N := (2 * kdim Rops F)%nat.

  (* measurement-noise standard deviation of coordinate k in scalar state cs *)
  Definition rstd (cs : list (coord Rops)) (k : nat) : R :=
    vgetR (proj_std Rops F (sc_means Rops F cs)) k.

  (* innovation variance of coordinate k *)
  Definition svar (cs : list (coord Rops)) (k : nat) : R :=
    c_a (nth k cs dflt) + rstd cs k * rstd cs k.

  Lemma Sm_state_of : forall cs k l, (k < n)%nat -> (l < n)%nat ->
      mgetR (Sm F (state_of Rops F cs)) k l = if Nat.eqb k l then svar cs k else 0.
  Proof.
    intros cs k l Hk Hl. unfold Sm. rewrite project_cov_entry by assumption.
    rewrite sc_p by lia. rewrite E_cases_pp by assumption. unfold svar, rstd, pstd.
    change (mean (state_of Rops F cs)) with (sc_means Rops F cs).
    destruct (Nat.eqb k l); lra.
  Qed.

  Lemma Sdiag_state_of : forall cs, Sdiag F (state_of Rops F cs).
  Proof.
    intros cs k l Hk Hl Hne. rewrite Sm_state_of by assumption.
    destruct (Nat.eqb_spec k l); [contradiction|reflexivity].
  Qed.

  Lemma Psym_state_of : forall cs, Psym F (state_of Rops F cs).
  Proof. intros cs i j Hi Hj. rewrite !sc_p by assumption. apply E_symmetric. Qed.

  Lemma nth_sf_update : forall cs z k, (k < n)%nat ->
      nth k (sf_update Rops F cs z) dflt = sc_update Rops (rstd cs k) (vgetR z k) (nth k cs dflt).
  Proof. intros. unfold sf_update. rewrite nth_map_seq by assumption. reflexivity. Qed.

  Theorem update_scalar : forall cs z,
      (forall k, (k < n)%nat -> svar cs k <> 0) ->
      g_update Rops F (state_of Rops F cs) z = state_of Rops F (sf_update Rops F cs z).
  Proof.
    intros cs z Hs. eapply (kstate_eq_tab N); try reflexivity.
    - intros j Hj. rewrite code_update_mean by (try assumption; apply Sdiag_state_of).
      unfold upd_mean.
      destruct (index_split F j Hj) as [H|[k [Hk ->]]].
      + rewrite (Rsum_single n _ j); try assumption.
        * rewrite (sm_p F cs), (sm_p F (sf_update Rops F cs z)) by assumption.
          rewrite sc_p by lia. rewrite E_pp by assumption. rewrite Sm_state_of by assumption.
          rewrite Nat.eqb_refl. rewrite nth_sf_update by assumption.
          cbn [sc_update c_m]. unfold svar, sq. simplR. lra.
        * intros i Hi Hne. rewrite sc_p by lia. rewrite E_pp0 by (try assumption; lia). simplR.
          unfold Rdiv. lra.
      + rewrite (Rsum_single n _ k); try assumption.
        * rewrite (sm_v F cs), (sm_p F cs), (sm_v F (sf_update Rops F cs z)) by assumption.
          rewrite sc_p by lia. rewrite E_vp by assumption. rewrite Sm_state_of by assumption.
          rewrite Nat.eqb_refl. rewrite nth_sf_update by assumption.
          cbn [sc_update c_v]. unfold svar, sq. simplR. lra.
        * intros i Hi Hne. rewrite sc_p by lia. rewrite E_vp0 by (try assumption; lia). simplR.
          unfold Rdiv. lra.
    - intros i j Hi Hj. rewrite code_update_cov by (try assumption; first [apply Sdiag_state_of | apply Psym_state_of]).
      unfold upd_cov. rewrite (sc_p F (sf_update Rops F cs z)) by assumption.
      destruct (index_split F i Hi) as [H|[k [Hk ->]]]; destruct (index_split F j Hj) as [H'|[k' [Hk' ->]]].
      + rewrite (Rsum_single n _ i); try assumption.
        * rewrite !sc_p by lia. Ecases. rewrite Nat.eqb_refl.
          rewrite Sm_state_of by assumption. rewrite Nat.eqb_refl.
          rewrite (Nat.eqb_sym j i).
          destruct (Nat.eqb_spec i j).
          -- subst. rewrite nth_sf_update by assumption. cbn [sc_update c_a]. unfold sq. unfold svar.
             simplR. fixR. field. apply (Hs _); assumption.
          -- unfold Rdiv. lra.
        * intros l Hl Hne. rewrite (sc_p F cs i l) by lia. rewrite E_pp0 by (try assumption; lia).
          unfold Rdiv. lra.
      + rewrite (Rsum_single n _ i); try assumption.
        * rewrite !sc_p by lia. Ecases. rewrite Nat.eqb_refl.
          rewrite Sm_state_of by assumption. rewrite Nat.eqb_refl.
          rewrite (Nat.eqb_sym k' i).
          destruct (Nat.eqb_spec i k').
          -- subst. rewrite nth_sf_update by assumption. cbn [sc_update c_b]. unfold sq. unfold svar.
             simplR. fixR. field. apply (Hs _); assumption.
          -- unfold Rdiv. lra.
        * intros l Hl Hne. rewrite (sc_p F cs i l) by lia. rewrite E_pp0 by (try assumption; lia).
          unfold Rdiv. lra.
      + rewrite (Rsum_single n _ k); try assumption.
        * rewrite !sc_p by lia. Ecases. rewrite Nat.eqb_refl.
          rewrite Sm_state_of by assumption. rewrite Nat.eqb_refl.
          rewrite (Nat.eqb_sym j k).
          destruct (Nat.eqb_spec k j).
          -- subst. rewrite nth_sf_update by assumption. cbn [sc_update c_b]. unfold sq. unfold svar.
             simplR. fixR. field. apply (Hs _); assumption.
          -- unfold Rdiv. lra.
        * intros l Hl Hne. rewrite (sc_p F cs (n + k) l) by lia. rewrite E_vp0 by (try assumption; lia).
          unfold Rdiv. lra.
      + rewrite (Rsum_single n _ k); try assumption.
        * rewrite !sc_p by lia. Ecases. rewrite Nat.eqb_refl.
          rewrite Sm_state_of by assumption. rewrite Nat.eqb_refl.
          rewrite (Nat.eqb_sym k' k).
          destruct (Nat.eqb_spec k k').
          -- subst. rewrite nth_sf_update by assumption. cbn [sc_update c_c]. unfold sq. unfold svar.
             simplR. fixR. field. apply (Hs _); assumption.
          -- unfold Rdiv. lra.
        * intros l Hl Hne. rewrite (sc_p F cs (n + k) l) by lia. rewrite E_vp0 by (try assumption; lia).
          unfold Rdiv. lra.
  Qed.
End ScalarUpdate.
