(* Specification of one predict call and preservation of the invariant by every operation;
   reachable states. *)
From Coq Require Import List NArith ZArith QArith Bool Lia Permutation.
From Similari Require Import Base.Num Model.Constraints Model.Tracker Proofs.TrackerBase Proofs.TrackerPredict.
Import ListNotations.
Open Scope N_scope.

(* ------------------------------------------------------------------------------------------------ *)
(* list helpers *)

Lemma In_indexed_gen {A} (l : list A) s i x :
  In (i, x) (combine (seq s (length l)) l) <-> (s <= i)%nat /\ nth_error l (i - s) = Some x.
Proof.
  revert s. induction l as [|a r IH]; intro s; cbn [length seq combine In].
  - split; [intros []|]. intros [_ H]. destruct (i - s)%nat; discriminate.
  - split.
    + intros [H|H].
      * inversion H; subst. split; [lia|]. rewrite Nat.sub_diag. reflexivity.
      * apply IH in H. destruct H as [H1 H2]. split; [lia|].
        replace (i - s)%nat with (S (i - S s)) by lia. exact H2.
    + intros [H1 H2]. destruct (Nat.eq_dec i s) as [E|E].
      * subst. rewrite Nat.sub_diag in H2. inversion H2; subst. left; reflexivity.
      * right. apply IH. split; [lia|]. replace (i - s)%nat with (S (i - S s)) in H2 by lia. exact H2.
Qed.

Lemma In_indexed {A} (l : list A) i x : In (i, x) (indexed l) <-> nth_error l i = Some x.
Proof.
  unfold indexed. rewrite In_indexed_gen. rewrite Nat.sub_0_r. split; [intros [_ H]; exact H|intro H; split; [lia|exact H]].
Qed.

Lemma Forall2_nth_error {A B} (P : A -> B -> Prop) l1 l2 :
  length l1 = length l2 ->
  (forall i a b, nth_error l1 i = Some a -> nth_error l2 i = Some b -> P a b) -> Forall2 P l1 l2.
Proof.
  revert l2. induction l1 as [|a r IH]; intros [|b r2] Hl H; cbn in Hl; try discriminate; constructor.
  - apply (H O); reflexivity.
  - apply IH; [lia|]. intros i x y Hx Hy. apply (H (S i)); assumption.
Qed.

Lemma Forall2_combine {A B C} (Q : A -> B -> Prop) (P : A * B -> C -> Prop) l1 l2 l3 :
  Forall2 Q l1 l2 -> Forall2 P (combine l1 l2) l3 ->
  Forall2 (fun a c => exists b, Q a b /\ P (a, b) c) l1 l3.
Proof.
  intro H. revert l3. induction H as [|a b r1 r2 Hab H IH]; intros l3 HP; cbn [combine] in HP.
  - inversion HP; constructor.
  - inversion HP; subst. constructor; [exists b; auto|apply IH; assumption].
Qed.

Lemma NoDup_map_combine_fst {A B C} (f : A -> C) (l1 : list A) (l2 : list B) :
  NoDup (map f l1) -> NoDup (map (fun p => f (fst p)) (combine l1 l2)).
Proof.
  revert l2. induction l1 as [|a r IH]; intros l2 H; cbn [combine map]; [constructor|].
  destruct l2 as [|b r2]; cbn [map]; [constructor|]. cbn [map] in H. inversion H; subst. constructor; [|apply IH; assumption].
  cbn [fst]. intro Hin. apply in_map_iff in Hin. destruct Hin as [[x y] [E Hxy]]. cbn [fst] in E.
  apply in_combine_l in Hxy. apply H2. rewrite <- E. apply in_map; exact Hxy.
Qed.

Lemma NoDup_id_eq (l : list trk) a b :
  NoDup (map t_id l) -> In a l -> In b l -> t_id a = t_id b -> a = b.
Proof.
  induction l as [|x r IH]; cbn [map In]; intros Hnd Ha Hb E; [contradiction|].
  inversion Hnd; subst. destruct Ha as [Ha|Ha], Hb as [Hb|Hb]; subst.
  - reflexivity.
  - exfalso. apply H1. rewrite E. apply in_map; exact Hb.
  - exfalso. apply H1. rewrite <- E. apply in_map; exact Ha.
  - apply IH; assumption.
Qed.

Lemma perm_move_out {X} (o k w d cl : list X) :
  Permutation (o ++ k) w -> Permutation (k ++ (d ++ o) ++ cl) (w ++ d ++ cl).
Proof.
  intro H. rewrite <- (app_assoc d).
  eapply Permutation_trans; [apply Permutation_app_head, Permutation_app_swap_app|].
  eapply Permutation_trans; [apply Permutation_app_swap_app|].
  rewrite app_assoc. apply Permutation_app_tail. exact H.
Qed.

Lemma perm_clear {X} (w d cl : list X) : Permutation (d ++ cl ++ w) (w ++ d ++ cl).
Proof.
  eapply Permutation_trans; [apply Permutation_app_head, Permutation_app_comm|].
  apply Permutation_app_swap_app.
Qed.

Lemma In_firstn_in {A} n (l : list A) x : In x (firstn n l) -> In x l.
Proof.
  revert l. induction n as [|n IH]; intros [|a r]; cbn [firstn In]; try contradiction.
  intros [H|H]; [left; exact H|right; apply IH; exact H].
Qed.

Lemma last_app_single {A} (l : list A) x d : last (l ++ [x]) d = x.
Proof. apply last_last. Qed.

Lemma last_trunc_snoc h l x : last (trunc h (l ++ [x])) 0 = x.
Proof.
  unfold trunc. destruct ((0 <? h) && (h <? N.of_nat (length (l ++ [x])))) eqn:E; [|apply last_last].
  destruct l as [|a r]; cbn [app tl].
  - apply andb_prop in E. destruct E as [E1 E2]. apply N.ltb_lt in E1, E2. cbn in E2. lia.
  - apply last_last.
Qed.

Lemma last_trunc_single h x : last (trunc h [x]) 0 = x.
Proof. apply (last_trunc_snoc h [] x). Qed.

(* ------------------------------------------------------------------------------------------------ *)
Definition ok_op (st : tstate) (op : top) : Prop :=
  match op with
  | Predict _ dets => NoDup (map d_uid dets) /\ (forall d, In d dets -> ~ In (d_uid d) (g_submitted st))
  | _ => True
  end.

Section Spec.
  Variable G : N -> list N -> option Z.
  Variable D2R : N -> list N -> Q.
  Variable solve : solver.
  Variable c : cfg.

  Notation pair_weight := (pair_weight G D2R c).
  Notation all_pairs := (all_pairs G D2R c).
  Notation winners := (winners G D2R solve c).
  Notation predict_core := (predict_core G D2R solve c).
  Notation tstep := (tstep G D2R solve c).

  Lemma In_all_pairs epoch rel dets i j w :
    In (i, j, w) (all_pairs epoch rel dets) ->
    exists d t, nth_error dets i = Some d /\ nth_error rel j = Some t /\ pair_weight epoch d t = Some w.
  Proof.
    unfold Tracker.all_pairs. rewrite in_flat_map. intros [[i' d] [Hd Hin]].
    unfold pairs_for in Hin. rewrite in_flat_map in Hin. destruct Hin as [[j' t] [Ht Hin]].
    cbn [fst snd] in Hin. destruct (pair_weight epoch d t) as [w'|] eqn:E; [|contradiction].
    destruct Hin as [Hin|[]]. inversion Hin; subst. apply In_indexed in Hd, Ht. exists d, t. auto.
  Qed.

  Lemma winners_in_rel epoch rel dets id :
    In (Some id) (winners epoch rel dets) -> exists t, In t rel /\ t_id t = id.
  Proof.
    unfold Tracker.winners. rewrite in_map_iff. intros [o [Ho _]]. destruct o as [j|]; [|discriminate].
    destruct (nth_error rel j) as [t|] eqn:E; [|discriminate]. cbn [option_map] in Ho. inversion Ho.
    exists t. split; [eapply nth_error_In; eassumption|reflexivity].
  Qed.

  Section Sound.
    Hypothesis Hsound : solver_sound solve.

    Lemma winners_length epoch rel dets : length (winners epoch rel dets) = length dets.
    Proof. unfold Tracker.winners. rewrite map_length. apply Hsound. Qed.

    Lemma winners_spec epoch rel dets :
      Forall2 (fun d w => match w with
                          | Some id => exists t0 wt, In t0 rel /\ t_id t0 = id /\ pair_weight epoch d t0 = Some wt
                          | None => True
                          end) dets (winners epoch rel dets).
    Proof.
      apply Forall2_nth_error; [symmetry; apply winners_length|].
      intros i d w Hd Hw. destruct w as [id|]; [|exact I].
      unfold Tracker.winners in Hw. rewrite nth_error_map in Hw.
      destruct (nth_error (solve (call_tag dets) (thr c) (length dets) (map last_uid rel) (all_pairs epoch rel dets)) i)
        as [o|] eqn:Eo; [|discriminate]. cbn [option_map] in Hw. destruct o as [j|]; [|discriminate].
      destruct (nth_error rel j) as [t|] eqn:Et; [|discriminate]. cbn [option_map] in Hw. inversion Hw; subst id.
      destruct (Hsound (call_tag dets) (thr c) (length dets) (map last_uid rel) (all_pairs epoch rel dets)) as [_ [H2 _]].
      destruct (H2 i j Eo) as [wt Hin]. apply In_all_pairs in Hin. destruct Hin as [d' [t' [E1 [E2 E3]]]].
      rewrite Hd in E1. rewrite Et in E2. inversion E1; inversion E2; subst. exists t', wt.
      split; [eapply nth_error_In; eassumption|auto].
    Qed.

    Lemma winners_inj epoch rel dets : NoDup (map t_id rel) -> inj_some (winners epoch rel dets).
    Proof.
      intros Hnd i i' id H1 H2. unfold Tracker.winners in H1, H2. rewrite nth_error_map in H1, H2.
      set (r := solve (call_tag dets) (thr c) (length dets) (map last_uid rel) (all_pairs epoch rel dets)) in *.
      destruct (nth_error r i) as [o|] eqn:Eo; [|discriminate].
      destruct (nth_error r i') as [o'|] eqn:Eo'; [|discriminate]. cbn [option_map] in H1, H2.
      destruct o as [j|]; [|discriminate]. destruct o' as [j'|]; [|discriminate].
      destruct (nth_error rel j) as [t|] eqn:Et; [|discriminate].
      destruct (nth_error rel j') as [t'|] eqn:Et'; [|discriminate]. cbn [option_map] in H1, H2.
      inversion H1; inversion H2; subst.
      assert (j = j').
      { rewrite NoDup_nth_error in Hnd. apply Hnd.
        - rewrite map_length. apply nth_error_Some. rewrite Et. discriminate.
        - rewrite !nth_error_map, Et, Et'. cbn [option_map]. f_equal. symmetry; assumption. }
      subst j'. destruct (Hsound (call_tag dets) (thr c) (length dets) (map last_uid rel) (all_pairs epoch rel dets)) as [_ [_ Hinj3]].
      eapply Hinj3; eassumption.
    Qed.
  End Sound.

  (* ---------------------------------------------------------------------------------------------- *)
  (* preservation of the invariant: needs NO assumption on the solver (the winners are decoded through the
     list of relevant live tracks) *)

  Lemma g_submitted_prologue st : g_submitted (prologue c st) = g_submitted st.
  Proof. rewrite prologue_eq. destruct (aw_cnt st =? 0); reflexivity. Qed.

  Lemma next_id_prologue st : next_id (prologue c st) = next_id st.
  Proof. rewrite prologue_eq. destruct (aw_cnt st =? 0); reflexivity. Qed.

  Lemma epochs_prologue st : epochs (prologue c st) = epochs st.
  Proof. rewrite prologue_eq. destruct (aw_cnt st =? 0); reflexivity. Qed.

  Definition pc_epoch (st : tstate) (scene : N) : N := epoch_of (epochs st) scene + 1.
  Definition pc_st1 (st : tstate) (scene : N) : tstate :=
    set_epochs st (set_epoch (epochs st) scene (pc_epoch st scene)).
  Definition pc_rel (st : tstate) (scene : N) : list trk :=
    filter (relevant c scene (pc_epoch st scene)) (live st).

  Lemma predict_core_unfold st scene dets :
    predict_core st scene dets =
    (snd (apply_all c scene (pc_epoch st scene) (pc_st1 st scene)
                    (combine dets (winners (pc_epoch st scene) (pc_rel st scene) dets))),
     fst (apply_all c scene (pc_epoch st scene) (pc_st1 st scene)
                    (combine dets (winners (pc_epoch st scene) (pc_rel st scene) dets)))).
  Proof.
    unfold Tracker.predict_core, next_epoch, pc_rel, pc_st1, pc_epoch. cbn [live set_epochs].
    match goal with |- context [apply_all ?a ?b ?cc ?d ?e] => destruct (apply_all a b cc d e) end. reflexivity.
  Qed.

  Lemma Inv_pc_st1 st scene : Inv c st -> Inv c (pc_st1 st scene).
  Proof.
    intro H. apply Inv_set_epochs; [exact H|]. apply epochs_le_set. unfold pc_epoch. lia.
  Qed.

  Lemma Inv_predict_core st scene dets :
    Inv c st -> NoDup (map d_uid dets) -> (forall d, In d dets -> ~ In (d_uid d) (g_submitted st)) ->
    Inv c (snd (predict_core st scene dets)).
  Proof.
    intros HI Hnd Hfr. rewrite predict_core_unfold. cbn [snd].
    apply Inv_apply_all.
    - apply Inv_pc_st1; exact HI.
    - apply (NoDup_map_combine_fst d_uid). exact Hnd.
    - intros [d w] Hin. cbn [fst]. apply in_combine_l in Hin. apply Hfr; exact Hin.
    - intros [d w] id Hin Hs. cbn [snd] in Hs. subst w. apply in_combine_r in Hin.
      apply winners_in_rel in Hin. destruct Hin as [t [Ht E]]. unfold pc_rel in Ht. apply filter_In in Ht.
      cbn [live pc_st1 set_epochs]. rewrite <- E. apply in_map. apply Ht.
  Qed.

  Lemma Inv_tstep st op : Inv c st -> ok_op st op -> Inv c (snd (tstep st op)).
  Proof.
    intros HI Hok. destruct op as [scene dets|scene n| |scene| |p| | |scene]; cbn [Tracker.tstep].
    - destruct Hok as [Hnd Hfr].
      destruct (predict_core (prologue c st) scene dets) as [recs st'] eqn:E. cbn [snd].
      change st' with (snd (recs, st')). rewrite <- E.
      apply Inv_predict_core; [apply Inv_prologue; exact HI|exact Hnd|].
      rewrite g_submitted_prologue. exact Hfr.
    - cbn [snd]. apply Inv_auto_waste. apply Inv_set_epochs; [exact HI|]. apply epochs_le_set. lia.
    - cbn [snd]. pose proof (Inv_auto_waste c st HI) as H1. set (st1 := auto_waste c st) in *.
      destruct H1 as [A1 A2 A3 A4 A5].
      assert (HP : Permutation (all_tracks (set_delivered (set_wasted st1 (filter (fun t => negb (expired c (epochs st1) t)) (wasted st1)))
                                             (g_delivered st1 ++ filter (expired c (epochs st1)) (wasted st1))))
                               (all_tracks st1)).
      { unfold all_tracks. cbn [live wasted g_delivered g_cleared set_delivered set_wasted].
        apply Permutation_app_head. apply perm_move_out. apply filter_partition_perm. }
      constructor; cbn [next_id g_submitted epochs wasted set_delivered set_wasted].
      + eapply Permutation_trans; [apply Permutation_map; exact HP|exact A1].
      + eapply Permutation_trans; [exact A2|]. apply concat_map_perm, Permutation_sym, HP.
      + eapply Permutation_Forall; [apply Permutation_sym; exact HP|exact A3].
      + apply Forall_forall. intros t Ht. apply filter_In in Ht. destruct Ht as [Ht _].
        rewrite Forall_forall in A4. apply A4; exact Ht.
      + exact A5.
    - cbn [snd]. exact HI.
    - cbn [snd]. destruct HI as [A1 A2 A3 A4 A5].
      assert (HP : Permutation (all_tracks (set_cleared (set_wasted st []) (g_cleared st ++ wasted st))) (all_tracks st)).
      { unfold all_tracks. cbn [live wasted g_delivered g_cleared set_cleared set_wasted app].
        apply Permutation_app_head. apply perm_clear. }
      constructor; cbn [next_id g_submitted epochs wasted set_cleared set_wasted].
      + eapply Permutation_trans; [apply Permutation_map; exact HP|exact A1].
      + eapply Permutation_trans; [exact A2|]. apply concat_map_perm, Permutation_sym, HP.
      + eapply Permutation_Forall; [apply Permutation_sym; exact HP|exact A3].
      + constructor.
      + exact A5.
    - cbn [snd]. apply Inv_set_aw; exact HI.
    - cbn [snd]. exact HI.
    - cbn [snd]. exact HI.
    - cbn [snd]. exact HI.
  Qed.

  (* ---------------------------------------------------------------------------------------------- *)
  (* reachable states: all operation sequences whose detections carry pairwise distinct uids *)

  Inductive reach : tstate -> Prop :=
  | reach_init : reach init
  | reach_step st op : reach st -> ok_op st op -> reach (snd (tstep st op)).

  Lemma reach_Inv st : reach st -> Inv c st.
  Proof. induction 1; [apply Inv_init|apply Inv_tstep; assumption]. Qed.

  (* the fold *)
  Lemma trun_from_snoc st ops op :
    trun_from G D2R solve c st (ops ++ [op]) =
    (fst (trun_from G D2R solve c st ops) ++ [fst (tstep (snd (trun_from G D2R solve c st ops)) op)],
     snd (tstep (snd (trun_from G D2R solve c st ops)) op)).
  Proof.
    unfold trun_from. rewrite fold_left_app. cbn [fold_left].
    destruct (tstep _ op) as [o st']. reflexivity.
  Qed.

  Lemma trun_from_acc ops : forall acc st,
    fold_left (fun acc op => let '(o, st') := tstep (snd acc) op in (fst acc ++ [o], st')) ops (acc, st) =
    (acc ++ fst (trun_from G D2R solve c st ops), snd (trun_from G D2R solve c st ops)).
  Proof.
    induction ops as [|op ops IH]; intros acc st.
    - cbn [fold_left trun_from fst snd]. rewrite app_nil_r. reflexivity.
    - unfold trun_from. cbn [fold_left fst snd]. destruct (tstep st op) as [o st']. cbn [app].
      rewrite IH. rewrite (IH [o] st'). cbn [fst snd]. rewrite <- app_assoc. reflexivity.
  Qed.

  Lemma trun_from_cons st op ops :
    trun_from G D2R solve c st (op :: ops) =
    (fst (tstep st op) :: fst (trun_from G D2R solve c (snd (tstep st op)) ops),
     snd (trun_from G D2R solve c (snd (tstep st op)) ops)).
  Proof.
    unfold trun_from at 1. cbn [fold_left fst snd]. destruct (tstep st op) as [o st']. cbn [app fst snd].
    rewrite trun_from_acc. reflexivity.
  Qed.

  Definition ops_uids (ops : list top) : list N :=
    flat_map (fun op => match op with Predict _ dets => map d_uid dets | _ => [] end) ops.

  Lemma g_submitted_tstep st op :
    g_submitted (snd (tstep st op)) =
    g_submitted st ++ match op with
                      | Predict _ dets => map d_uid (firstn (length (winners (pc_epoch (prologue c st) (match op with Predict s _ => s | _ => 0 end))
                                                                            (pc_rel (prologue c st) (match op with Predict s _ => s | _ => 0 end)) dets)) dets)
                      | _ => []
                      end.
  Proof.
    destruct op as [scene dets|scene n| |scene| |p| | |scene]; cbn [Tracker.tstep]; try (cbn [snd]; rewrite app_nil_r; reflexivity).
    - destruct (predict_core (prologue c st) scene dets) as [recs st'] eqn:E. cbn [snd].
      change st' with (snd (recs, st')). rewrite <- E. rewrite predict_core_unfold. cbn [snd].
      destruct (apply_all_frame c scene (pc_epoch (prologue c st) scene)
                  (combine dets (winners (pc_epoch (prologue c st) scene) (pc_rel (prologue c st) scene) dets))
                  (pc_st1 (prologue c st) scene)) as [_ [_ [_ [_ [_ [_ [A7 _]]]]]]].
      cbn zeta in A7. rewrite A7. cbn [g_submitted pc_st1 set_epochs]. rewrite g_submitted_prologue. f_equal.
      set (ws := winners _ _ dets). clearbody ws. clear. revert ws.
      induction dets as [|d r IH]; intros [|w ws]; cbn [combine map firstn length]; try reflexivity.
      f_equal. apply IH.
  Qed.

  Lemma g_submitted_incl st op x :
    In x (g_submitted (snd (tstep st op))) -> In x (g_submitted st) \/ In x (ops_uids [op]).
  Proof.
    rewrite g_submitted_tstep. intro H. apply in_app_or in H. destruct H as [H|H]; [left; exact H|right].
    destruct op; try contradiction. unfold ops_uids. cbn [flat_map]. rewrite app_nil_r.
    apply in_map_iff in H. destruct H as [d [E Hd]]. apply in_map_iff. exists d. split; [exact E|].
    eapply In_firstn_in; exact Hd.
  Qed.

  Lemma trun_from_reach ops : forall st,
    reach st ->
    NoDup (ops_uids ops) -> (forall x, In x (ops_uids ops) -> ~ In x (g_submitted st)) ->
    reach (snd (trun_from G D2R solve c st ops))
    /\ (forall x, In x (g_submitted (snd (trun_from G D2R solve c st ops))) ->
                  In x (g_submitted st) \/ In x (ops_uids ops)).
  Proof.
    induction ops as [|op ops IH] using rev_ind; intros st Hst Hnd Hfr.
    - split; [exact Hst|]. intros x Hx. left; exact Hx.
    - unfold ops_uids in Hnd, Hfr. rewrite flat_map_app in Hnd, Hfr.
      fold (ops_uids ops) in Hnd, Hfr. fold (ops_uids [op]) in Hnd, Hfr.
      destruct (IH st Hst (NoDup_app_l _ _ Hnd) (fun x Hx => Hfr x (in_or_app _ _ _ (or_introl Hx)))) as [Hr Hs].
      rewrite trun_from_snoc. cbn [snd]. split.
      + apply reach_step; [exact Hr|]. destruct op; try exact I. split.
        * apply NoDup_app_r in Hnd. unfold ops_uids in Hnd. cbn [flat_map] in Hnd. rewrite app_nil_r in Hnd. exact Hnd.
        * intros d Hd Hin.
          assert (Hd' : In (d_uid d) (ops_uids [Predict scene dets])).
          { unfold ops_uids. cbn [flat_map]. rewrite app_nil_r. apply in_map; exact Hd. }
          apply Hs in Hin. destruct Hin as [Hin|Hin].
          -- apply (Hfr (d_uid d)); [apply in_or_app; right; exact Hd'|exact Hin].
          -- exact (NoDup_app_disj _ _ _ Hnd Hin Hd').
      + intros x Hx. apply g_submitted_incl in Hx. unfold ops_uids. rewrite flat_map_app.
        destruct Hx as [Hx|Hx].
        * apply Hs in Hx. destruct Hx as [Hx|Hx]; [left; exact Hx|right; apply in_or_app; left; exact Hx].
        * right. apply in_or_app; right; exact Hx.
  Qed.

  Lemma trun_reach ops : NoDup (ops_uids ops) -> reach (snd (trun G D2R solve c ops)).
  Proof. intro H. apply (trun_from_reach ops init reach_init H). intros x _ []. Qed.

End Spec.
