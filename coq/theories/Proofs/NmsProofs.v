(* Lemmas about Model/Nms.v (C14).  Everything here is for ALL lists, ALL rank functions, ALL coverage
   relations `covers` (the oracle) and ALL filters `passes`. *)
From Coq Require Import List NArith QArith Bool Arith Lia Permutation Sorted Lqa.
From Similari Require Import Model.Nms.
Import ListNotations.
Close Scope Q_scope.

(* ------------------------------------------------------------------------------------------------ *)
(* subsequences and "stands before" *)

Inductive subseq {X : Type} : list X -> list X -> Prop :=
| ss_nil : subseq [] []
| ss_skip : forall x k s, subseq k s -> subseq k (x :: s)
| ss_keep : forall x k s, subseq k s -> subseq (x :: k) (x :: s).

Inductive precedes {X : Type} (a c : X) : list X -> Prop :=
| pr_here : forall s, In c s -> precedes a c (a :: s)
| pr_later : forall x s, precedes a c s -> precedes a c (x :: s).

Section ListFacts.
  Context {X : Type}.

  Lemma subseq_refl : forall s : list X, subseq s s.
  Proof. induction s as [|x s IH]; constructor; exact IH. Qed.

  Lemma subseq_nil_l : forall s : list X, subseq [] s.
  Proof. induction s as [|x s IH]; constructor; exact IH. Qed.

  Lemma subseq_trans : forall a b c : list X, subseq a b -> subseq b c -> subseq a c.
  Proof.
    intros a b c Hab Hbc. revert a Hab.
    induction Hbc as [|x k s Hks IH|x k s Hks IH]; intros a Hab.
    - exact Hab.
    - apply ss_skip. apply IH. exact Hab.
    - inversion Hab as [|x' k' s' Hk's'|x' k' s' Hk's']; subst.
      + apply ss_skip. apply IH. assumption.
      + apply ss_keep. apply IH. assumption.
  Qed.

  Lemma subseq_In : forall (k s : list X) x, subseq k s -> In x k -> In x s.
  Proof.
    intros k s x H. induction H as [|y k s H IH|y k s H IH]; intros Hin.
    - exact Hin.
    - right. apply IH. exact Hin.
    - destruct Hin as [->|Hin]; [left; reflexivity|right; apply IH; exact Hin].
  Qed.

  Lemma subseq_filter : forall (f : X -> bool) (s : list X), subseq (filter f s) s.
  Proof.
    intros f s. induction s as [|x s IH]; cbn [filter].
    - constructor.
    - destruct (f x); constructor; exact IH.
  Qed.

  Lemma subseq_Forall : forall (P : X -> Prop) (k s : list X), subseq k s -> Forall P s -> Forall P k.
  Proof.
    intros P k s H. induction H as [|y k s H IH|y k s H IH]; intros HF.
    - constructor.
    - inversion HF; subst. apply IH. assumption.
    - inversion HF; subst. constructor; [assumption|apply IH; assumption].
  Qed.

  Lemma subseq_StronglySorted : forall (R : X -> X -> Prop) (k s : list X),
      subseq k s -> StronglySorted R s -> StronglySorted R k.
  Proof.
    intros R k s H. induction H as [|y k s H IH|y k s H IH]; intros HS.
    - constructor.
    - inversion HS; subst. apply IH. assumption.
    - inversion HS as [|y' s' HSs HFs]; subst. constructor.
      + apply IH. assumption.
      + eapply subseq_Forall; eassumption.
  Qed.

  Lemma subseq_NoDup : forall (k s : list X), subseq k s -> NoDup s -> NoDup k.
  Proof.
    intros k s H. induction H as [|y k s H IH|y k s H IH]; intros HN.
    - constructor.
    - inversion HN; subst. apply IH. assumption.
    - inversion HN as [|y' s' Hnotin HNs]; subst. constructor.
      + intro Hin. apply Hnotin. eapply subseq_In; eassumption.
      + apply IH. assumption.
  Qed.

  Lemma precedes_subseq : forall (a c : X) (k s : list X), subseq k s -> precedes a c k -> precedes a c s.
  Proof.
    intros a c k s H. induction H as [|y k s H IH|y k s H IH]; intros Hp.
    - inversion Hp.
    - apply pr_later. apply IH. exact Hp.
    - inversion Hp as [s' Hin|x' s' Hp']; subst.
      + apply pr_here. eapply subseq_In; eassumption.
      + apply pr_later. apply IH. exact Hp'.
  Qed.

  Lemma precedes_sorted : forall (R : X -> X -> Prop) (a c : X) (s : list X),
      StronglySorted R s -> precedes a c s -> R a c.
  Proof.
    intros R a c s HS Hp. induction Hp as [s Hin|x s Hp IH].
    - inversion HS as [|y s' HSs HFs]; subst. rewrite Forall_forall in HFs. apply HFs. exact Hin.
    - inversion HS; subst. apply IH. assumption.
  Qed.

  Lemma precedes_In : forall (a c : X) (s : list X), precedes a c s -> In a s /\ In c s.
  Proof.
    intros a c s Hp. induction Hp as [s Hin|x s Hp IH].
    - split; [left; reflexivity|right; exact Hin].
    - destruct IH; split; right; assumption.
  Qed.

  Lemma StronglySorted_impl : forall (R R' : X -> X -> Prop) (s : list X),
      (forall a b, R a b -> R' a b) -> StronglySorted R s -> StronglySorted R' s.
  Proof.
    intros R R' s Himp HS. induction HS as [|x s HS IH HF].
    - constructor.
    - constructor; [exact IH|]. eapply Forall_impl; [|exact HF]. intros b Hb. apply Himp. exact Hb.
  Qed.

  Lemma filter_filter : forall (f g : X -> bool) (s : list X),
      filter f (filter g s) = filter (fun x => g x && f x) s.
  Proof.
    intros f g s. induction s as [|x s IH]; cbn [filter]; [reflexivity|].
    destruct (g x); cbn [filter andb].
    - destruct (f x); rewrite IH; reflexivity.
    - exact IH.
  Qed.

  Lemma filter_all : forall (f : X -> bool) (s : list X), (forall x, In x s -> f x = true) -> filter f s = s.
  Proof.
    intros f s H. induction s as [|x s IH]; cbn [filter]; [reflexivity|].
    rewrite (H x (or_introl eq_refl)). f_equal. apply IH. intros y Hy. apply H. right. exact Hy.
  Qed.

  Lemma filter_length_le : forall (f : X -> bool) (s : list X), length (filter f s) <= length s.
  Proof.
    intros f s. induction s as [|x s IH]; cbn [filter length]; [lia|].
    destruct (f x); cbn [length]; lia.
  Qed.

  Lemma ForallOrdPairs_cons_inv : forall (R : X -> X -> Prop) (x : X) (s : list X),
      ForallOrdPairs R (x :: s) -> Forall (R x) s /\ ForallOrdPairs R s.
  Proof. intros R x s H. inversion H; subst. split; assumption. Qed.

  Lemma subseq_filter_intro : forall (f : X -> bool) (k s : list X),
      subseq k s -> Forall (fun x => f x = true) k -> subseq k (filter f s).
  Proof.
    intros f k s H. induction H as [|y k s H IH|y k s H IH]; intros HF; cbn [filter].
    - constructor.
    - destruct (f y); [apply ss_skip|]; apply IH; exact HF.
    - inversion HF as [|y' k' Hy Hk]; subst. rewrite Hy. apply ss_keep. apply IH. exact Hk.
  Qed.

  Lemma subseq_nil_inv : forall k : list X, subseq k [] -> k = [].
  Proof. intros k H. inversion H. reflexivity. Qed.

  Lemma precedes_filter : forall (f : X -> bool) (a c : X) (s : list X),
      precedes a c s -> f a = true -> f c = true -> precedes a c (filter f s).
  Proof.
    intros f a c s Hp Ha Hc. induction Hp as [s Hin|x s Hp IH]; cbn [filter].
    - rewrite Ha. apply pr_here. apply filter_In. split; assumption.
    - destruct (f x); [apply pr_later|]; exact IH.
  Qed.

  Lemma in_two_precedes : forall (a c : X) (s : list X),
      In a s -> In c s -> a <> c -> precedes a c s \/ precedes c a s.
  Proof.
    intros a c s. induction s as [|x s IH]; intros Ha Hc Hne; [destruct Ha|].
    destruct Ha as [Ea|Ha]; destruct Hc as [Ec|Hc].
    - exfalso. apply Hne. congruence.
    - left. subst x. apply pr_here. exact Hc.
    - right. subst x. apply pr_here. exact Ha.
    - destruct (IH Ha Hc Hne) as [H|H]; [left|right]; apply pr_later; exact H.
  Qed.

  Lemma sorted_ForallOrdPairs : forall (R P : X -> X -> Prop) (k : list X),
      StronglySorted R k -> (forall a b, In a k -> In b k -> R a b -> P a b) -> ForallOrdPairs P k.
  Proof.
    intros R P k HS. induction HS as [|x k HS IH HF]; intros H; constructor.
    - rewrite Forall_forall in *. intros y Hy. apply H; [left; reflexivity|right; exact Hy|apply HF; exact Hy].
    - apply IH. intros a b Ha Hb. apply H; right; assumption.
  Qed.
End ListFacts.

Lemma filter_map_comm : forall {X Y : Type} (f : X -> Y) (p : Y -> bool) (s : list X),
    filter p (map f s) = map f (filter (fun x => p (f x)) s).
Proof.
  intros X Y f p s. induction s as [|x s IH]; cbn [filter map]; [reflexivity|].
  destruct (p (f x)); cbn [map]; rewrite IH; reflexivity.
Qed.

(* ------------------------------------------------------------------------------------------------ *)
(* greedy suppression *)

Section GreedyFacts.
  Variable X : Type.
  Variable cov : X -> X -> bool.

  Local Notation greedy := (greedy X cov).
  Local Notation greedy_n := (greedy_n X cov).

  Definition uncovered_by (b : X) : X -> bool := fun o => negb (cov b o).

  Lemma greedy_n_enough : forall n m s, length s <= n -> length s <= m -> greedy_n n s = greedy_n m s.
  Proof.
    induction n as [|n IH]; intros m s Hn Hm.
    - destruct s; [|cbn [length] in Hn; lia]. destruct m; reflexivity.
    - destruct s as [|b r]; [destruct m; reflexivity|].
      destruct m as [|m]; [cbn [length] in Hm; lia|].
      cbn [Nms.greedy_n]. f_equal. cbn [length] in Hn, Hm.
      pose proof (filter_length_le (fun o => negb (cov b o)) r) as Hle.
      apply IH; lia.
  Qed.

  Lemma greedy_nil : greedy [] = [].
  Proof. reflexivity. Qed.

  Lemma greedy_cons : forall b r, greedy (b :: r) = b :: greedy (filter (uncovered_by b) r).
  Proof.
    intros b r. unfold Nms.greedy. cbn [length Nms.greedy_n]. f_equal.
    pose proof (filter_length_le (uncovered_by b) r) as Hle.
    apply greedy_n_enough; unfold uncovered_by in *; lia.
  Qed.

  (* strong induction on the length, the shape every lemma below uses *)
  Lemma greedy_ind : forall P : list X -> Prop,
      P [] ->
      (forall b r, P (filter (uncovered_by b) r) -> P (b :: r)) ->
      forall s, P s.
  Proof.
    intros P Hnil Hcons s.
    assert (H : forall n s, length s <= n -> P s).
    { induction n as [|n IH]; intros s' Hlen.
      - destruct s'; [exact Hnil|cbn [length] in Hlen; lia].
      - destruct s' as [|b r]; [exact Hnil|]. apply Hcons. apply IH.
        pose proof (filter_length_le (uncovered_by b) r). cbn [length] in Hlen. lia. }
    apply (H (length s)). lia.
  Qed.

  Lemma greedy_subseq : forall s, subseq (greedy s) s.
  Proof.
    apply greedy_ind.
    - rewrite greedy_nil. constructor.
    - intros b r IH. rewrite greedy_cons. apply ss_keep.
      eapply subseq_trans; [exact IH|apply subseq_filter].
  Qed.

  Lemma greedy_indep : forall s, ForallOrdPairs (fun a b => cov a b = false) (greedy s).
  Proof.
    apply greedy_ind.
    - rewrite greedy_nil. constructor.
    - intros b r IH. rewrite greedy_cons. constructor; [|exact IH].
      apply (subseq_Forall _ _ _ (greedy_subseq _)).
      rewrite Forall_forall. intros o Ho. apply filter_In in Ho. destruct Ho as [_ Ho].
      unfold uncovered_by in Ho. apply negb_true_iff in Ho. exact Ho.
  Qed.

  Lemma greedy_fixpoint : forall s, ForallOrdPairs (fun a b => cov a b = false) s -> greedy s = s.
  Proof.
    induction s as [|b r IH]; intros H; [reflexivity|].
    apply ForallOrdPairs_cons_inv in H. destruct H as [Hb Hr].
    rewrite greedy_cons. rewrite filter_all.
    - rewrite IH; [reflexivity|exact Hr].
    - intros o Ho. rewrite Forall_forall in Hb. unfold uncovered_by. rewrite (Hb o Ho). reflexivity.
  Qed.

  Lemma greedy_head : forall s, hd_error (greedy s) = hd_error s.
  Proof. intros [|b r]; [reflexivity|rewrite greedy_cons; reflexivity]. Qed.

  Lemma greedy_dropped : forall s c,
      In c s -> ~ In c (greedy s) ->
      exists a, In a (greedy s) /\ cov a c = true /\ precedes a c s.
  Proof.
    intros s. pattern s. apply greedy_ind; clear s.
    - intros c [].
    - intros b r IH c Hin Hnot. rewrite greedy_cons in *.
      destruct Hin as [->|Hin]; [exfalso; apply Hnot; left; reflexivity|].
      destruct (cov b c) eqn:Hbc.
      + exists b. split; [left; reflexivity|]. split; [exact Hbc|]. apply pr_here. exact Hin.
      + assert (Hin' : In c (filter (uncovered_by b) r)).
        { apply filter_In. split; [exact Hin|]. unfold uncovered_by. rewrite Hbc. reflexivity. }
        destruct (IH c Hin') as [a [Ha [Hac Hp]]].
        { intro Hc. apply Hnot. right. exact Hc. }
        exists a. split; [right; exact Ha|]. split; [exact Hac|].
        apply pr_later. eapply precedes_subseq; [apply subseq_filter|exact Hp].
  Qed.

  (* the three clauses determine the result: greedy is the ONLY independent, dominating subsequence *)
  Lemma greedy_unique : forall s k,
      NoDup s -> subseq k s ->
      ForallOrdPairs (fun a b => cov a b = false) k ->
      (forall c, In c s -> ~ In c k -> exists a, In a k /\ cov a c = true /\ precedes a c s) ->
      k = greedy s.
  Proof.
    intros s. pattern s. apply greedy_ind; clear s.
    - intros k _ Hsub _ _. rewrite greedy_nil. apply subseq_nil_inv. exact Hsub.
    - intros b r IH k HN Hsub HI HD. inversion HN as [|b' r' Hbr HNr]; subst.
      inversion Hsub as [|x k' s' Hk'|x k' s' Hk']; subst.
      + exfalso.
        assert (Hnk : ~ In b k) by (intro H; apply Hbr; eapply subseq_In; eassumption).
        destruct (HD b (or_introl eq_refl) Hnk) as [a [Ha [_ Hp]]].
        inversion Hp as [s' Hin|x s' Hp']; subst.
        * exact (Hbr Hin).
        * apply precedes_In in Hp'. destruct Hp' as [_ Hin]. exact (Hbr Hin).
      + rewrite greedy_cons. f_equal.
        apply ForallOrdPairs_cons_inv in HI. destruct HI as [HIb HIk].
        apply IH.
        * eapply subseq_NoDup; [apply subseq_filter|exact HNr].
        * apply subseq_filter_intro; [exact Hk'|].
          eapply Forall_impl; [|exact HIb]. intros o Ho. unfold uncovered_by. rewrite Ho. reflexivity.
        * exact HIk.
        * intros c Hc Hnc. apply filter_In in Hc. destruct Hc as [Hcr Hcu].
          unfold uncovered_by in Hcu. apply negb_true_iff in Hcu.
          assert (Hnk : ~ In c (b :: k')).
          { intros [E|H]; [subst c; exact (Hbr Hcr)|exact (Hnc H)]. }
          destruct (HD c (or_intror Hcr) Hnk) as [a [Ha [Hac Hp]]].
          destruct Ha as [E|Ha]; [subst a; congruence|].
          exists a. split; [exact Ha|]. split; [exact Hac|].
          inversion Hp as [s' Hin|x s' Hp']; subst; [congruence|].
          apply precedes_filter; [exact Hp'| |].
          -- rewrite Forall_forall in HIb. unfold uncovered_by. rewrite (HIb a Ha). reflexivity.
          -- unfold uncovered_by. rewrite Hcu. reflexivity.
  Qed.
End GreedyFacts.

Lemma greedy_map : forall {X Y : Type} (f : X -> Y) (cov : Y -> Y -> bool) (s : list X),
    greedy Y cov (map f s) = map f (greedy X (fun a b => cov (f a) (f b)) s).
Proof.
  intros X Y f cov s. pattern s. apply (greedy_ind X (fun a b => cov (f a) (f b))); clear s.
  - reflexivity.
  - intros b r IH. cbn [map]. rewrite !greedy_cons. cbn [map]. f_equal.
    unfold uncovered_by in *. rewrite filter_map_comm. exact IH.
Qed.

(* ------------------------------------------------------------------------------------------------ *)
(* the stable descending sort *)
Open Scope Q_scope.

Section SortFacts.
  Variable X : Type.
  Variable key : X -> Q.

  Local Notation insert_desc := (insert_desc X key).
  Local Notation sort_desc := (sort_desc X key).

  Lemma key_lt_true : forall a b, key_lt X key a b = true <-> key a < key b.
  Proof.
    intros a b. unfold key_lt. rewrite negb_true_iff. split.
    - intro H. apply Qnot_le_lt. intro Hle. apply Qle_bool_iff in Hle. congruence.
    - intro H. destruct (Qle_bool (key b) (key a)) eqn:E; [|reflexivity].
      apply Qle_bool_iff in E. exfalso. exact (Qlt_not_le _ _ H E).
  Qed.

  Lemma key_lt_false : forall a b, key_lt X key a b = false <-> key b <= key a.
  Proof.
    intros a b. unfold key_lt. rewrite negb_false_iff. apply Qle_bool_iff.
  Qed.

  Lemma insert_perm : forall e l, Permutation (insert_desc e l) (e :: l).
  Proof.
    intros e l. induction l as [|x xs IH]; cbn [Nms.insert_desc]; [apply Permutation_refl|].
    destruct (key_lt X key e x).
    - eapply perm_trans; [apply perm_skip; exact IH|apply perm_swap].
    - apply Permutation_refl.
  Qed.

  Lemma sort_perm : forall l, Permutation (sort_desc l) l.
  Proof.
    induction l as [|x xs IH]; [apply Permutation_refl|].
    unfold Nms.sort_desc in *. cbn [fold_right].
    eapply perm_trans; [apply insert_perm|apply perm_skip; exact IH].
  Qed.

  (* "a stands before b in the sorted order": strictly greater key, or equal key and P a b, where P is whatever
     relation held between an element and the elements that followed it in the input *)
  Definition ordered (P : X -> X -> Prop) (a b : X) : Prop :=
    key b < key a \/ (key b == key a /\ P a b).

  Lemma insert_stable : forall (P : X -> X -> Prop) e l,
      StronglySorted (ordered P) l -> Forall (P e) l -> StronglySorted (ordered P) (insert_desc e l).
  Proof.
    intros P e l. induction l as [|x xs IH]; intros HS HP; cbn [Nms.insert_desc].
    - constructor; constructor.
    - inversion HS as [|x' xs' HSxs HFx]; subst.
      destruct (key_lt X key e x) eqn:E.
      + apply key_lt_true in E. constructor.
        * apply IH; [exact HSxs|]. inversion HP; assumption.
        * eapply Permutation_Forall; [apply Permutation_sym; apply insert_perm|].
          constructor; [left; exact E|exact HFx].
      + apply key_lt_false in E. constructor; [exact HS|].
        rewrite Forall_forall in *. intros y Hy.
        assert (Hle : key y <= key e).
        { destruct Hy as [<-|Hy]; [exact E|].
          destruct (HFx y Hy) as [Hlt|[Heq _]]; [apply Qlt_le_weak in Hlt|]; lra. }
        destruct (Qlt_le_dec (key y) (key e)) as [Hlt|Hge]; [left; exact Hlt|].
        right. split; [lra|]. apply HP. exact Hy.
  Qed.

  Lemma sort_stable_gen : forall (P : X -> X -> Prop) l,
      ForallOrdPairs P l -> StronglySorted (ordered P) (sort_desc l).
  Proof.
    intros P l H. induction H as [|x l Hx Hl IH]; [constructor|].
    unfold Nms.sort_desc in *. cbn [fold_right]. apply insert_stable; [exact IH|].
    eapply Permutation_Forall; [apply Permutation_sym; apply sort_perm|exact Hx].
  Qed.

  Definition desc (a b : X) : Prop := key b <= key a.

  Lemma sort_sorted : forall l, StronglySorted desc (sort_desc l).
  Proof.
    intros l. apply (StronglySorted_impl (ordered (fun _ _ => True))).
    - intros a b [Hlt|[Heq _]]; unfold desc; [apply Qlt_le_weak; exact Hlt|lra].
    - apply sort_stable_gen. induction l as [|x l IH]; constructor; [|exact IH].
      rewrite Forall_forall. intros; exact I.
  Qed.

  Lemma insert_sorted_id : forall e l, Forall (desc e) l -> insert_desc e l = e :: l.
  Proof.
    intros e [|x xs] H; [reflexivity|]. cbn [Nms.insert_desc].
    inversion H as [|x' xs' Hx Hxs]; subst. apply key_lt_false in Hx. rewrite Hx. reflexivity.
  Qed.

  Lemma sort_sorted_id : forall l, StronglySorted desc l -> sort_desc l = l.
  Proof.
    intros l H. induction H as [|x l HS IH HF]; [reflexivity|].
    unfold Nms.sort_desc in *. cbn [fold_right]. rewrite IH. apply insert_sorted_id. exact HF.
  Qed.
End SortFacts.

Lemma sort_map : forall {X Y : Type} (f : X -> Y) (key : Y -> Q) (l : list X),
    sort_desc Y key (map f l) = map f (sort_desc X (fun x => key (f x)) l).
Proof.
  intros X Y f key l. unfold sort_desc. induction l as [|x l IH]; [reflexivity|].
  cbn [map fold_right]. rewrite IH.
  generalize (fold_right (insert_desc X (fun x0 => key (f x0))) [] l) as s. intro s.
  induction s as [|y s IHs]; [reflexivity|].
  cbn [insert_desc map]. unfold key_lt.
  destruct (negb (Qle_bool (key (f y)) (key (f x)))); cbn [map]; [rewrite IHs|]; reflexivity.
Qed.

(* ------------------------------------------------------------------------------------------------ *)
(* the loop of nms.rs *)

Section NmsFacts.
  Variable B : Type.
  Variable rank : B -> Q.
  Variable passes : B -> bool.
  Variable covers : B -> B -> bool.

  Local Notation cand := (cand B).
  Local Notation mem := Nms.mem.
  Local Notation inner := (inner B covers).
  Local Notation outer := (outer B covers).
  Local Notation crank := (crank B rank).
  Local Notation sorted_candidates := (sorted_candidates B rank passes).
  Local Notation nms_cands := (nms_cands B rank passes covers).
  Local Notation nms_loop := (nms_loop B rank passes covers).
  Local Notation nms_rec := (nms_rec B rank passes covers).

  Definition ccov (a b : cand) : bool := covers (snd a) (snd b).

  (* a stands before c in the stable descending order: higher rank, or equal rank and earlier in the
     (filtered) input *)
  Definition higher (a c : cand) : Prop :=
    rank (snd c) < rank (snd a) \/ (rank (snd c) == rank (snd a) /\ (fst a < fst c)%nat).

  Lemma mem_In : forall i s, mem i s = true <-> In i s.
  Proof.
    intros i s. unfold Nms.mem. rewrite existsb_exists. split.
    - intros [x [Hx E]]. apply Nat.eqb_eq in E. subst. exact Hx.
    - intro H. exists i. split; [exact H|apply Nat.eqb_refl].
  Qed.

  Lemma mem_false : forall i s, mem i s = false <-> ~ In i s.
  Proof.
    intros i s. rewrite <- mem_In. destruct (mem i s); split; intro H.
    - discriminate.
    - exfalso. apply H. reflexivity.
    - intro; discriminate.
    - reflexivity.
  Qed.

  Lemma enumerate_snd : forall l k, map snd (enumerate_from B k l) = l.
  Proof. induction l as [|b r IH]; intros k; cbn [enumerate_from map snd]; [reflexivity|]. rewrite IH. reflexivity. Qed.

  Lemma enumerate_ge : forall l k c, In c (enumerate_from B k l) -> (k <= fst c)%nat.
  Proof.
    induction l as [|b r IH]; intros k c H; cbn [enumerate_from] in H; [destruct H|].
    destruct H as [<-|H]; [cbn [fst]; lia|]. apply IH in H. lia.
  Qed.

  Lemma enumerate_ordered : forall l k,
      ForallOrdPairs (fun a b : cand => (fst a < fst b)%nat) (enumerate_from B k l).
  Proof.
    induction l as [|b r IH]; intros k; cbn [enumerate_from]; constructor; [|apply IH].
    rewrite Forall_forall. intros c Hc. apply enumerate_ge in Hc. cbn [fst]. lia.
  Qed.

  Lemma enumerate_NoDup : forall l k, NoDup (map fst (enumerate_from B k l)).
  Proof.
    induction l as [|b r IH]; intros k; cbn [enumerate_from map fst]; constructor; [|apply IH].
    intro H. apply in_map_iff in H. destruct H as [c [Hc Hin]]. apply enumerate_ge in Hin. lia.
  Qed.

  Lemma NoDup_fst_inj : forall (s : list cand) a b,
      NoDup (map fst s) -> In a s -> In b s -> fst a = fst b -> a = b.
  Proof.
    induction s as [|x s IH]; intros a b HN Ha Hb E; [destruct Ha|].
    cbn [map] in HN. inversion HN as [|x' s' Hnotin HNs]; subst.
    destruct Ha as [->|Ha]; destruct Hb as [->|Hb].
    - reflexivity.
    - exfalso. apply Hnotin. rewrite E. apply in_map. exact Hb.
    - exfalso. apply Hnotin. rewrite <- E. apply in_map. exact Ha.
    - apply IH; assumption.
  Qed.

  Lemma inner_In : forall cb rest excl j,
      In j (inner cb rest excl) <->
      In j excl \/ exists ob, In ob rest /\ fst ob = j /\ covers cb (snd ob) = true.
  Proof.
    intros cb rest. induction rest as [|ob rest IH]; intros excl j; cbn [Nms.inner].
    - split; [intro H; left; exact H|]. intros [H|[ob [[] _]]]. exact H.
    - destruct (mem (fst ob) excl) eqn:Em.
      + rewrite IH. apply mem_In in Em. split.
        * intros [H|[o [Ho [E C]]]]; [left; exact H|]. right. exists o. split; [right; exact Ho|]. split; assumption.
        * intros [H|[o [[<-|Ho] [E C]]]]; [left; exact H| |].
          -- left. rewrite <- E. exact Em.
          -- right. exists o. split; [exact Ho|]. split; assumption.
      + destruct (covers cb (snd ob)) eqn:Ec.
        * rewrite IH. split.
          -- intros [[<-|H]|[o [Ho [E C]]]].
             ++ right. exists ob. split; [left; reflexivity|]. split; [reflexivity|exact Ec].
             ++ left. exact H.
             ++ right. exists o. split; [right; exact Ho|]. split; assumption.
          -- intros [H|[o [[<-|Ho] [E C]]]].
             ++ left. right. exact H.
             ++ left. left. exact E.
             ++ right. exists o. split; [exact Ho|]. split; assumption.
        * rewrite IH. split.
          -- intros [H|[o [Ho [E C]]]]; [left; exact H|]. right. exists o. split; [right; exact Ho|]. split; assumption.
          -- intros [H|[o [[<-|Ho] [E C]]]]; [left; exact H| |].
             ++ congruence.
             ++ right. exists o. split; [exact Ho|]. split; assumption.
  Qed.

  Lemma outer_mono : forall boxes excl j, In j excl -> In j (outer boxes excl).
  Proof.
    induction boxes as [|cb rest IH]; intros excl j H; cbn [Nms.outer]; [exact H|].
    destruct (mem (fst cb) excl); apply IH; [exact H|]. apply inner_In. left. exact H.
  Qed.

  Lemma outer_from : forall boxes excl j, In j (outer boxes excl) -> In j excl \/ In j (map fst boxes).
  Proof.
    induction boxes as [|cb rest IH]; intros excl j H; cbn [Nms.outer] in H; [left; exact H|].
    cbn [map]. destruct (mem (fst cb) excl).
    - destruct (IH _ _ H) as [H'|H']; [left; exact H'|right; right; exact H'].
    - destruct (IH _ _ H) as [H'|H']; [|right; right; exact H'].
      apply inner_In in H'. destruct H' as [H'|[o [Ho [E _]]]]; [left; exact H'|].
      right. right. rewrite <- E. apply in_map. exact Ho.
  Qed.

  (* the excluded-set loop computes the greedy suppression of the not yet excluded candidates *)
  Lemma outer_spec : forall boxes excl,
      NoDup (map fst boxes) ->
      filter (fun e => negb (mem (fst e) (outer boxes excl))) boxes
      = greedy cand ccov (filter (fun e => negb (mem (fst e) excl)) boxes).
  Proof.
    induction boxes as [|cb rest IH]; intros excl HN; [reflexivity|].
    cbn [map] in HN. inversion HN as [|x' s' Hnotin HNrest]; subst.
    cbn [Nms.outer]. destruct (mem (fst cb) excl) eqn:Em.
    - cbn [filter]. rewrite Em. cbn [negb].
      assert (Hm : mem (fst cb) (outer rest excl) = true).
      { apply mem_In. apply outer_mono. apply mem_In. exact Em. }
      rewrite Hm. cbn [negb]. apply IH. exact HNrest.
    - cbn [filter]. rewrite Em. cbn [negb].
      assert (Hm : mem (fst cb) (outer rest (inner (snd cb) rest excl)) = false).
      { apply mem_false. intro H. apply outer_from in H. destruct H as [H|H]; [|exact (Hnotin H)].
        apply inner_In in H. destruct H as [H|[o [Ho [E _]]]].
        - apply mem_false in Em. exact (Em H).
        - apply Hnotin. rewrite <- E. apply in_map. exact Ho. }
      rewrite Hm. cbn [negb]. rewrite greedy_cons. f_equal.
      rewrite (IH _ HNrest). f_equal.
      rewrite filter_filter. apply filter_ext_in. intros ob Hob.
      unfold uncovered_by, ccov.
      destruct (mem (fst ob) (inner (snd cb) rest excl)) eqn:E1.
      + apply mem_In in E1. apply inner_In in E1. destruct E1 as [H|[o [Ho [E C]]]].
        * apply mem_In in H. rewrite H. reflexivity.
        * assert (o = ob) by (apply (NoDup_fst_inj rest); assumption). subst o.
          rewrite C. cbn [negb]. rewrite andb_false_r. reflexivity.
      + apply mem_false in E1.
        destruct (mem (fst ob) excl) eqn:E2.
        * exfalso. apply E1. apply inner_In. left. apply mem_In. exact E2.
        * destruct (covers (snd cb) (snd ob)) eqn:E3; [|reflexivity].
          exfalso. apply E1. apply inner_In. right. exists ob. split; [exact Hob|]. split; [reflexivity|exact E3].
  Qed.

  Lemma sorted_candidates_perm : forall l,
      Permutation (sorted_candidates l) (candidates B passes l).
  Proof. intros l. apply sort_perm. Qed.

  Lemma sorted_candidates_NoDup : forall l, NoDup (map fst (sorted_candidates l)).
  Proof.
    intros l. eapply Permutation_NoDup.
    - apply Permutation_map. apply Permutation_sym. apply sorted_candidates_perm.
    - apply enumerate_NoDup.
  Qed.

  Lemma sorted_candidates_snd : forall l,
      map snd (sorted_candidates l) = sort_desc B rank (filter passes l).
  Proof.
    intros l. unfold Nms.sorted_candidates, Nms.candidates, Nms.crank.
    unfold Nms.cand. rewrite <- (sort_map (@snd nat B) rank). rewrite enumerate_snd. reflexivity.
  Qed.

  Lemma sorted_candidates_stable : forall l, StronglySorted higher (sorted_candidates l).
  Proof.
    intros l. unfold Nms.sorted_candidates.
    apply (StronglySorted_impl (ordered cand crank (fun a b => (fst a < fst b)%nat))).
    - intros a b H. exact H.
    - apply sort_stable_gen. apply enumerate_ordered.
  Qed.

  Lemma nms_cands_greedy : forall l, nms_cands l = greedy cand ccov (sorted_candidates l).
  Proof.
    intros l. unfold Nms.nms_cands. cbv zeta.
    rewrite outer_spec; [|apply sorted_candidates_NoDup].
    f_equal. apply filter_all. intros; reflexivity.
  Qed.

  Lemma nms_loop_eq_rec_lemma : forall l, nms_loop l = nms_rec l.
  Proof.
    intros l. unfold Nms.nms_loop, Nms.nms_rec. rewrite nms_cands_greedy.
    rewrite <- sorted_candidates_snd. unfold ccov. symmetry. apply (greedy_map snd covers).
  Qed.

  (* ---- the property lemmas ---- *)

  Lemma nms_cands_subseq : forall l, subseq (nms_cands l) (sorted_candidates l).
  Proof. intros l. rewrite nms_cands_greedy. apply greedy_subseq. Qed.

  Lemma subseq_map : forall {X Y : Type} (f : X -> Y) (k s : list X), subseq k s -> subseq (map f k) (map f s).
  Proof. intros X Y f k s H. induction H; cbn [map]; constructor; assumption. Qed.

  Lemma nms_subseq_sorted_passing : forall l,
      subseq (nms_loop l) (sort_desc B rank (filter passes l))
      /\ Permutation (sort_desc B rank (filter passes l)) (filter passes l).
  Proof.
    intros l. split; [|apply sort_perm].
    rewrite <- sorted_candidates_snd. apply subseq_map. apply nms_cands_subseq.
  Qed.

  Lemma nms_in_passing : forall l b, In b (nms_loop l) -> In b l /\ passes b = true.
  Proof.
    intros l b H. destruct (nms_subseq_sorted_passing l) as [Hs Hp].
    apply filter_In. eapply Permutation_in; [exact Hp|]. eapply subseq_In; eassumption.
  Qed.

  Lemma nms_sorted_desc : forall l, StronglySorted (desc B rank) (nms_loop l).
  Proof.
    intros l. destruct (nms_subseq_sorted_passing l) as [Hs _].
    eapply subseq_StronglySorted; [exact Hs|apply sort_sorted].
  Qed.

  Lemma nms_cands_stable : forall l, StronglySorted higher (nms_cands l).
  Proof.
    intros l. eapply subseq_StronglySorted; [apply nms_cands_subseq|apply sorted_candidates_stable].
  Qed.

  Lemma nms_head : forall l, hd_error (nms_loop l) = hd_error (sort_desc B rank (filter passes l)).
  Proof. intros l. rewrite nms_loop_eq_rec_lemma. unfold Nms.nms_rec. apply greedy_head. Qed.

  Lemma sorted_head_max : forall s t, StronglySorted (desc B rank) s -> hd_error s = Some t ->
                                      forall b, In b s -> rank b <= rank t.
  Proof.
    intros s t HS Hh b Hb. destruct s as [|x s]; [discriminate|]. cbn [hd_error] in Hh. inversion Hh; subst x.
    destruct Hb as [<-|Hb]; [lra|].
    inversion HS as [|x' s' _ HF]; subst. rewrite Forall_forall in HF. exact (HF b Hb).
  Qed.

  Lemma nms_keeps_top_lemma : forall l b,
      In b l -> passes b = true ->
      exists t tail, nms_loop l = t :: tail /\ In t l /\ passes t = true /\
                     forall b', In b' l -> passes b' = true -> rank b' <= rank t.
  Proof.
    intros l b Hb Hp.
    assert (Hin : In b (sort_desc B rank (filter passes l))).
    { eapply Permutation_in; [apply Permutation_sym; apply sort_perm|]. apply filter_In. split; assumption. }
    pose proof (nms_head l) as Hh.
    destruct (sort_desc B rank (filter passes l)) as [|t s] eqn:Es; [destruct Hin|].
    cbn [hd_error] in Hh. destruct (nms_loop l) as [|t' tail] eqn:En; [discriminate|].
    cbn [hd_error] in Hh. inversion Hh; subst t'. exists t, tail. split; [reflexivity|].
    assert (Ht : In t l /\ passes t = true). { apply nms_in_passing. rewrite En. left. reflexivity. }
    destruct Ht as [Ht1 Ht2]. split; [exact Ht1|]. split; [exact Ht2|].
    intros b' Hb' Hp'. apply (sorted_head_max (t :: s) t).
    - rewrite <- Es. apply sort_sorted.
    - reflexivity.
    - rewrite <- Es. eapply Permutation_in; [apply Permutation_sym; apply sort_perm|]. apply filter_In. split; assumption.
  Qed.

  Lemma ForallOrdPairs_map : forall {X Y : Type} (f : X -> Y) (R : Y -> Y -> Prop) (s : list X),
      ForallOrdPairs (fun a b => R (f a) (f b)) s -> ForallOrdPairs R (map f s).
  Proof.
    intros X Y f R s H. induction H as [|x s Hx Hs IH]; cbn [map]; constructor; [|exact IH].
    rewrite Forall_forall in *. intros y Hy. apply in_map_iff in Hy. destruct Hy as [z [<- Hz]]. apply Hx. exact Hz.
  Qed.

  Lemma nms_independent_lemma : forall l,
      ForallOrdPairs (fun a b => covers a b = false) (nms_loop l).
  Proof.
    intros l. unfold Nms.nms_loop. apply ForallOrdPairs_map. rewrite nms_cands_greedy. apply (greedy_indep cand ccov).
  Qed.

  Lemma nms_cands_independent : forall l a b,
      In a (nms_cands l) -> In b (nms_cands l) -> higher a b -> covers (snd a) (snd b) = false.
  Proof.
    intros l a b Ha Hb Hab.
    pose proof (nms_cands_stable l) as HS.
    assert (HI : ForallOrdPairs (fun a b => ccov a b = false) (nms_cands l)).
    { rewrite nms_cands_greedy. apply greedy_indep. }
    revert HS HI Ha Hb. generalize (nms_cands l) as k. induction k as [|x k IH]; intros HS HI Ha Hb; [destruct Ha|].
    inversion HS as [|x' k' HSk HFx]; subst. apply ForallOrdPairs_cons_inv in HI. destruct HI as [HIx HIk].
    rewrite Forall_forall in HFx, HIx.
    destruct Ha as [->|Ha]; destruct Hb as [->|Hb].
    - exfalso. destruct Hab as [H|[_ H]]; [lra|lia].
    - apply HIx. exact Hb.
    - exfalso. specialize (HFx a Ha). unfold higher in *.
      destruct Hab as [H1|[H1 H1']]; destruct HFx as [H2|[H2 H2']]; try lra; lia.
    - apply IH; assumption.
  Qed.

  Lemma nms_dropped_lemma : forall l c,
      In c (sorted_candidates l) -> ~ In c (nms_cands l) ->
      exists a, In a (nms_cands l) /\ higher a c /\ covers (snd a) (snd c) = true.
  Proof.
    intros l c Hc Hnot. rewrite nms_cands_greedy in *.
    destruct (greedy_dropped cand ccov _ c Hc Hnot) as [a [Ha [Hac Hp]]].
    exists a. split; [exact Ha|]. split; [|exact Hac].
    eapply precedes_sorted; [apply sorted_candidates_stable|exact Hp].
  Qed.

  Lemma candidates_complete : forall l b, In b l -> passes b = true -> exists i, In (i, b) (sorted_candidates l).
  Proof.
    intros l b Hb Hp.
    assert (H : In b (map snd (sorted_candidates l))).
    { rewrite sorted_candidates_snd. eapply Permutation_in; [apply Permutation_sym; apply sort_perm|].
      apply filter_In. split; assumption. }
    apply in_map_iff in H. destruct H as [[i b'] [E Hin]]. cbn [snd] in E. subst b'. exists i. exact Hin.
  Qed.

  Lemma nms_cands_dec : forall l c, In c (sorted_candidates l) -> In c (nms_cands l) \/ ~ In c (nms_cands l).
  Proof.
    intros l c Hc. unfold Nms.nms_cands. cbv zeta.
    destruct (negb (mem (fst c) (outer (sorted_candidates l) []))) eqn:E.
    - left. apply filter_In. split; assumption.
    - right. intro H. apply filter_In in H. destruct H as [_ H]. congruence.
  Qed.

  Lemma nms_kept_or_covered_lemma : forall l b,
      In b l -> passes b = true ->
      In b (nms_loop l) \/ exists a, In a (nms_loop l) /\ rank b <= rank a /\ covers a b = true.
  Proof.
    intros l b Hb Hp. destruct (candidates_complete l b Hb Hp) as [i Hi].
    destruct (nms_cands_dec l (i, b) Hi) as [Hk|Hd].
    - left. unfold Nms.nms_loop. apply in_map_iff. exists (i, b). split; [reflexivity|exact Hk].
    - right. destruct (nms_dropped_lemma l (i, b) Hi Hd) as [a [Ha [Hh Hc]]].
      exists (snd a). split; [unfold Nms.nms_loop; apply in_map; exact Ha|]. split; [|exact Hc].
      unfold higher in Hh. cbn [snd fst] in Hh. destruct Hh as [H|[H _]]; lra.
  Qed.

  Lemma nms_idempotent_lemma : forall l, nms_loop (nms_loop l) = nms_loop l.
  Proof.
    intros l. rewrite (nms_loop_eq_rec_lemma (nms_loop l)). unfold Nms.nms_rec.
    rewrite filter_all; [|intros b Hb; apply (nms_in_passing l b Hb)].
    rewrite sort_sorted_id; [|apply nms_sorted_desc].
    apply greedy_fixpoint. apply nms_independent_lemma.
  Qed.

  Lemma higher_irrefl : forall a, ~ higher a a.
  Proof. intros a [H|[_ H]]; [lra|lia]. Qed.

  Lemma higher_asym : forall a b, higher a b -> higher b a -> False.
  Proof. unfold higher. intros a b [H1|[H1 H1']] [H2|[H2 H2']]; try lra; lia. Qed.

  Lemma NoDup_of_fst : forall s : list cand, NoDup (map fst s) -> NoDup s.
  Proof.
    induction s as [|x s IH]; intros H; [constructor|].
    cbn [map] in H. inversion H as [|x' s' Hn Hs]; subst. constructor.
    - intro Hin. apply Hn. apply in_map. exact Hin.
    - apply IH. exact Hs.
  Qed.

  (* The clauses of the property determine the output: any subsequence of the stably sorted candidates that is
     independent and covers everything it drops IS the result of nms. *)
  Lemma nms_unique_lemma : forall l (k : list cand),
      subseq k (sorted_candidates l) ->
      (forall a b, In a k -> In b k -> higher a b -> covers (snd a) (snd b) = false) ->
      (forall c, In c (sorted_candidates l) -> ~ In c k ->
                 exists a, In a k /\ higher a c /\ covers (snd a) (snd c) = true) ->
      k = nms_cands l.
  Proof.
    intros l k Hsub HI HD. rewrite nms_cands_greedy.
    pose proof (sorted_candidates_stable l) as HS.
    pose proof (NoDup_of_fst _ (sorted_candidates_NoDup l)) as HN.
    apply greedy_unique.
    - exact HN.
    - exact Hsub.
    - apply (sorted_ForallOrdPairs higher).
      + eapply subseq_StronglySorted; eassumption.
      + intros a b Ha Hb Hab. unfold ccov. apply HI; assumption.
    - intros c Hc Hnc. destruct (HD c Hc Hnc) as [a [Ha [Hh Hcov]]].
      exists a. split; [exact Ha|]. split; [exact Hcov|].
      assert (Has : In a (sorted_candidates l)) by (eapply subseq_In; eassumption).
      assert (Hne : a <> c) by (intro E; subst; exact (higher_irrefl _ Hh)).
      destruct (in_two_precedes a c _ Has Hc Hne) as [Hp|Hp]; [exact Hp|].
      exfalso. apply (higher_asym a c Hh). eapply precedes_sorted; eassumption.
  Qed.
End NmsFacts.

(* ------------------------------------------------------------------------------------------------ *)
(* The instance built from the decisions TRANSLATED from src/utils/nms.rs (gen/ScalarNms.v): the abstract theorems
   read with the translated score filter, rank and coverage comparison.  These proofs go through the specification
   lemmas of Proofs/NmsScalarProofs.v, which are re-proved against the current source text on every run: a flipped
   comparison or a division by the other box's area in nms.rs breaks a Qed there, hence this file. *)

From Similari Require Import Base.Num Base.QExtra Proofs.NmsScalarProofs.
From SimilariGen Require Import Scalar ScalarBox ScalarNms.

(* fraction of the area of lo covered by hi: intersection(hi, lo) / area(lo), exact *)
Definition cov_ratio (tab : inter_tab) (hi lo : det) : Q :=
  inter_of tab (d_id hi) (d_id lo) / ubox_area Qops (d_box lo).

Definition score_or_max (d : det) : Q := match d_score d with Some s => s | None => F32_MAX end.
Definition threshold_or_min (st : option Q) : Q := match st with Some t => t | None => - F32_MAX end.

Lemma det_covers_true : forall tab thr hi lo, det_covers tab thr hi lo = true <-> thr < cov_ratio tab hi lo.
Proof.
  intros. unfold det_covers, cov_ratio. rewrite nms_covers_spec. rewrite nms_metric_spec. reflexivity.
Qed.

Lemma det_covers_false : forall tab thr hi lo, det_covers tab thr hi lo = false <-> ~ thr < cov_ratio tab hi lo.
Proof.
  intros. rewrite <- det_covers_true. destruct (det_covers tab thr hi lo); split; intro H.
  - discriminate.
  - exfalso. apply H. reflexivity.
  - intro; discriminate.
  - reflexivity.
Qed.

Lemma det_passes_spec : forall st d,
    det_passes st d = true <->
    threshold_or_min st < score_or_max d /\ 0 < Universal2DBox_height Qops (d_box d) /\ 0 < Universal2DBox_aspect Qops (d_box d).
Proof.
  intros. unfold det_passes, threshold_or_min, score_or_max. rewrite nms_score_filter_spec.
  rewrite nms_score_threshold_default_spec. reflexivity.
Qed.

Lemma det_rank_spec : forall d,
    det_rank d = match d_score d with Some s => s | None => Universal2DBox_height Qops (d_box d) end.
Proof. intros. unfold det_rank. apply nms_rank_spec. Qed.

Lemma ForallOrdPairs_impl : forall {X : Type} (P P' : X -> X -> Prop) (s : list X),
    (forall a b, P a b -> P' a b) -> ForallOrdPairs P s -> ForallOrdPairs P' s.
Proof.
  intros X P P' s Himp H. induction H as [|x s Hx Hs IH]; constructor; [|exact IH].
  eapply Forall_impl; [|exact Hx]. intros b Hb. apply Himp. exact Hb.
Qed.

Lemma nms_translated_subset_lemma : forall st thr tab l d,
    In d (nms_translated st thr tab l) ->
    In d l /\ threshold_or_min st < score_or_max d
    /\ 0 < Universal2DBox_height Qops (d_box d) /\ 0 < Universal2DBox_aspect Qops (d_box d).
Proof.
  intros st thr tab l d H. unfold nms_translated in H. apply nms_in_passing in H. destruct H as [H1 H2].
  split; [exact H1|]. apply det_passes_spec. exact H2.
Qed.

Lemma nms_translated_sorted_lemma : forall st thr tab l,
    StronglySorted (fun a b => det_rank b <= det_rank a) (nms_translated st thr tab l).
Proof. intros. unfold nms_translated. apply nms_sorted_desc. Qed.

Lemma nms_translated_independent_lemma : forall st thr tab l,
    ForallOrdPairs (fun hi lo => ~ thr < cov_ratio tab hi lo) (nms_translated st thr tab l).
Proof.
  intros. unfold nms_translated.
  eapply ForallOrdPairs_impl; [|apply nms_independent_lemma].
  intros a b H. apply det_covers_false. exact H.
Qed.

Lemma nms_translated_dropped_lemma : forall st thr tab l d,
    In d l -> threshold_or_min st < score_or_max d ->
    0 < Universal2DBox_height Qops (d_box d) -> 0 < Universal2DBox_aspect Qops (d_box d) ->
    In d (nms_translated st thr tab l)
    \/ exists a, In a (nms_translated st thr tab l) /\ det_rank d <= det_rank a /\ thr < cov_ratio tab a d.
Proof.
  intros st thr tab l d Hd H1 H2 H3. unfold nms_translated.
  assert (Hp : det_passes st d = true) by (apply det_passes_spec; repeat split; assumption).
  destruct (nms_kept_or_covered_lemma det det_rank (det_passes st) (det_covers tab thr) l d Hd Hp) as [H|[a [Ha [Hr Hc]]]].
  - left. exact H.
  - right. exists a. split; [exact Ha|]. split; [exact Hr|]. apply det_covers_true. exact Hc.
Qed.

Lemma nms_translated_idempotent_lemma : forall st thr tab l,
    nms_translated st thr tab (nms_translated st thr tab l) = nms_translated st thr tab l.
Proof. intros. unfold nms_translated. apply nms_idempotent_lemma. Qed.
